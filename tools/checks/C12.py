"""C12: malformed AML is rejected with an error, never a crash, hang or stray pointer.

DESIGN.md 4.10 / specs/aml/AmlRobust*.tla / harness/aml/c12_*.go.  Level: exploration.

 M  AmlRobustModel: design model of the bounded reader / byte-list slicing / re-parenting / pass bound,
    exhaustive over every byte string of a small alphabet; five design mutants must be rejected.
 G  AmlRobustPlans: TLC enumerates every single-mutation plan (Truncate, FlipBit, SetByte, CorruptPkgLen,
    Splice) of small well-formed seed programs (generated + fragments of the shipped tables) and emits the
    resulting byte strings; the harness feeds all of them to the real parser in child processes.
 T  seeded random byte strings, token soups, stacked mutations of generated programs and of the three
    shipped tables (real size).
 R  pinned reproducers of the findings made so far (regression corpus).
 V  AmlRobustTrace: every recorded event is judged by TLC (outcome, CPU bound, WellFormed, InBounds, Printable).
"""
import json, os, random
import vlib

LEVEL = "exploration"
HARNESS = ["aml/c12_run_test.go", "aml/c12_gen_test.go"]
PKG = "device/acpi/aml"

# Regression corpus: exact inputs (AML bytes after the 36-byte SDT header) that exposed defects of the pinned
# tree.  They are run on every invocation and judged like any other input.
CORPUS = [
    {"id": "r-relocation-cycle", "hex": "140b2e413030304130303000",
     "note": "Method(A000.A000,0){}: relocateNamedObjects re-parents the method under its own scope block and recurses until the stack is exhausted (fatal)"},
    {"id": "r-relocation-cycle-nested", "hex": "14154130303000140e2e413030304130303000700060",
     "note": "Method(A000){Method(.A000A000 ...)} shape of DESIGN 6 item 5"},
    {"id": "r-connection-bound", "hex": "5b8041303030000a000a105b811141303030010211040aff014130303108",
     "note": "Field(A000){Connection(Buffer(0xff){1}), A001,8}: parseFieldElements takes the buffer length from the stream; the byte list extends past the table"},
    {"id": "r-sibling-detach", "hex": "5b80544f50310981000b0001",
     "note": "OperationRegion(TOP1, 9, FindSetLeftBit(Zero, ...)): attachSiblingsAsArgs detaches a sibling of the parent from the wrong object; the root keeps a stale lastArgIndex"},
    {"id": "r-relocation-adopted-name", "hex": "082f03415f5f5f425f5f5f415f5f5f5b8205425f5f5f",
     "note": "Name(A___.B___.A___) followed by Device(B___){}: the Name adopts the Device as its value, the path resolves through the Name itself into the adopted child; a relocation-cycle guard that only looks one level up lets the Name be re-parented under its own descendant (fatal stack overflow)"},
    {"id": "r-relocation-adopted-opregion", "hex": "5b802f03415f5f5f425f5f5f415f5f5f005b8205425f5f5f01",
     "note": "OperationRegion(A___.B___.A___, 0, Device(B___){}, One): same through the adopted offset argument"},
    {"id": "r-relocation-adopted-dataregion", "hex": "5b882f03415f5f5f425f5f5f415f5f5f5b8205425f5f5f0101",
     "note": "DataTableRegion(A___.B___.A___, Device(B___){}, One, One): same through the adopted signature argument"},
    {"id": "r-deep-refof-chain", "rep": ["7001", ["71", 2300000], "60"],
     "note": "Store(One, RefOf(RefOf(...Local0))) with 2 300 000 nested RefOf: the parser recurses once per byte (parseTarget -> parseObjectArgs), about 0.5 KiB of stack per level; this table exhausts even the Go runtime's default 1 GB goroutine stack (fatal error: stack overflow)"},
    {"id": "r-partial-method-print", "hex": "14",
     "note": "a lone Method opcode is rejected, the half-built Method object stays in the tree and PrettyPrint dereferences its missing flags argument"},
]

def _corpus_hex(c):
    if "hex" in c:
        return c["hex"]
    return "".join(x if isinstance(x, str) else x[0] * x[1] for x in c["rep"])


ASSUME = [
    "the input space is all byte strings: no specification enumerates it; exhaustive only over the single-mutation plans of the seed programs (thorough tier), sampling elsewhere",
    "non-termination is decided by CPU time of an isolated child process (5 s per started 8 KiB of input; normal < 1 ms), unbounded memory by 3 GiB of live heap, stack exhaustion by debug.SetMaxStack(32 MiB per started 8 KiB of input, never more than the Go runtime's default maximum of 1 GB)",
    "sizes: generated inputs reach 64 KiB (thorough; 1 KiB quick) plus one pinned 2.3 MB table; tables near the 4 GiB limit of the 32-bit length field (offset arithmetic wrapping at 2^32) are physically out of reach and not covered; a length field that claims more bytes than are mapped is outside the quantifier (the bytes ARE the table); tables shorter than their 36-byte header are covered from 8 bytes (the end of the length field) on",
    "byte substitution: all 256 values on every byte of the directed seeds and a sample (thorough) / of one rotating directed seed (quick); 25 structure-bearing values and +-1..3 elsewhere; every truncation and bit flip of the two small shipped tables, every 4th truncation point of the DSDT per seed (phase = seed mod 4), bit flips / substitutions of the DSDT only sampled",
    "splices: a package of the program inserted at every byte position, and every prefix joined with the next seed (from its start or one of its packages); arbitrary pairs of programs only sampled (leg T donors)",
    "stray reads are observable only where they cross the PROT_NONE page placed right after each table (or are recorded as a byte slice of the tree)",
    "InBounds is demanded of the objects reachable from the root scope; WellFormed of every live pool slot",
    "tables are parsed into a tree holding the five default scopes (table handle 42), as the repository's own tests do; the SSDT is mutated after the pristine DSDT has been loaded; every fifth leg-T input is followed by the pristine SSDT on the same parser and tree (a rejected table does not end the use of either)",
    "trusted Go: byte encoder / generator of the seed programs, fragment splitter, guard-page allocator, projection of the pool into link arrays and slice offsets, child-process supervision",
]


def _sig(m):
    why = m["mismatch"][2]
    head = why[0] if isinstance(why, list) else str(why)
    sub = ""
    if isinstance(why, list) and len(why) > 1 and isinstance(why[1], list) and why[1]:
        sub = str(why[1][0])
    elif isinstance(why, list) and len(why) > 1:
        sub = str(why[1])
    return head + "|" + sub


def _replay_of(ev):
    r = {"id": ev.get("id"), "hex": ev.get("hex", ""), "pre": ev.get("pre") or [], "post": ev.get("post") or []}
    for k in ("src", "seed", "plan"):
        if ev.get(k) not in (None, ""):
            r[k] = ev[k]
    return r


def _brief(ev):
    return {"id": ev.get("id"), "src": ev.get("src") or {"seed": ev.get("seed"), "plan": ev.get("plan")}, "pre": ev.get("pre") or [],
            "post": ev.get("post") or [],
            "hex": ev.get("hex", "")[:160], "bytes": ev.get("n"), "res": ev.get("res"), "msg": ev.get("msg", "")[:200], "cpu_ms": ev.get("cpu"),
            "pool_slots": len(ev.get("L", [])), "byte_slices": len(ev.get("S", [])), "printed": ev.get("pp"), "ppmsg": ev.get("ppmsg", "")[:160]}


def _harness(ctx, run, env, timeout):
    rc, out, wall = ctx.gotest("kernel", PKG, HARNESS, "^" + run + "$", env=env, timeout=timeout)
    if rc != 0:
        raise vlib.Broken("C12 harness %s failed:\n%s" % (run, out[-3000:]))
    return wall


def _devs(ctx):
    """Named deviations that are open in known_findings.json (rule-shaped findings), and exact inputs."""
    devs, inputs = [], {}
    for f in ctx.open_findings():
        if f.get("deviation"):
            devs.append(f)
        if f.get("input_hex") is not None:
            inputs[(f["input_hex"], tuple(f.get("pre") or []))] = f
    return devs, inputs


def _validate(ctx, leg, path, devname, kf_inputs, parallel=None, timeout=1200):
    """Leg V for one trace file; returns the events' summary and reports violations."""
    acc, nev, mism = ctx.validate_traces("AmlRobustTrace", "AmlRobustTrace", path, ("aml",), name=leg, timeout=timeout,
                                         env={"C12_DEVS": devname}, is_reset=lambda e: True, parallel=parallel)
    seen = {}
    for m in mism:
        ev = m["case_events"][0]
        key = (ev.get("hex", ""), tuple(ev.get("pre") or []))
        if ev.get("post"):
            key = (None, None)
        if key in kf_inputs:
            ctx.known_finding(kf_inputs[key].get("what", "known finding") + " input=" + key[0])
            continue
        s = _sig(m)
        seen[s] = seen.get(s, 0) + 1
        if seen[s] > 1 or len(ctx.violations) >= 12:
            continue
        ctx.violation({"leg": _leg(ev), "mismatch": m["mismatch"], "input": _brief(ev)}, _replay_of(ev))
    return acc, nev, mism


LEGS = {"g": "G-plans", "r": "R-corpus", "s": "T-small", "t": "T-tables", "z": "T-scale", "w": "T-sweep", "p": "pinned", "x": "replay"}


def _leg(ev):
    return LEGS.get(str(ev.get("id", "?"))[:1], "other")


def _scan(ctx, path):
    """Evidence bookkeeping (no verdicts): distinct non-trivial inputs, outcome histogram per leg, samples."""
    hist, taken, n = {}, {}, 0
    with open(path) as f:
        for line in f:
            ev = json.loads(line)
            n += 1
            leg = _leg(ev)
            h = hist.setdefault(leg, {})
            h[ev["res"]] = h.get(ev["res"], 0) + 1
            if len(ev.get("L", [])) > 6 or ev["res"] not in ("ok", "error"):   # got beyond the five default scopes
                ctx.distinct([ev.get("pre") or [], ev.get("post") or [], ev.get("hex", "")])
                if taken.get(leg, 0) < 1 and len(ev.get("L", [])) > 12:
                    ctx.sample({"leg": leg, "event": _brief(ev)})
                    taken[leg] = 1
    return hist, n


def run(ctx):
    q = ctx.quick
    ctx.assumptions += ASSUME
    ctx.rule = ("an evaluation is one byte string presented to the real ParseAML in a child process and judged by the TLA+ monitor "
                "(outcome in {ParseOK, ParseError}, CPU bound, WellFormed link arrays, InBounds byte slices, PrettyPrint returned); "
                "inputs are distinct by their bytes (and the pristine tables loaded before/after) and non-trivial when the parser built at least one object "
                "beyond the default scopes or did not return; leg G inputs are the single-mutation plans TLC enumerates from the seed programs, "
                "leg T inputs are seeded random strings and stacked random mutations of generated programs and of the shipped tables")
    devs, kf_inputs = _devs(ctx)
    devname = devs[0]["deviation"] if devs else ""
    d = ctx.spec_dir("aml")

    # ---- leg M: design model, every byte string of the small alphabet; design mutants must be rejected
    r = ctx.model_check(d, "AmlRobustModel", "MCAmlRobustQuick" if q else "MCAmlRobustFull", workers=8, timeout=900, coverage=not q)
    if r.coverage_zero:
        raise vlib.Broken("design model: actions never taken in the scope (vacuous bound): %s" % r.coverage_zero)
    if not q:
        # an alphabet in which packages can nest (a PkgLength of 5): the nesting-depth limit is exercised
        ctx.model_check(d, "AmlRobustModel", "MCAmlRobustDeep", workers=8, timeout=900)
    for b in (["NoCycleGuard", "ByteListUnbounded"] if q else
              ["NoPkgEndCheck", "ByteListUnbounded", "NoCycleGuard", "AppendBeforeDetach", "NoPassBound", "NoDepthLimit"]):
        ctx.expect_model_violation(d, "AmlRobustModel", "MCAmlRobustBug_" + b, workers=8, timeout=600)

    # ---- leg G: seeds -> TLC enumerates the mutation plans -> real parser
    seeds_all = os.path.join(ctx.work, "seeds_all.ndjson")
    _harness(ctx, "TestVerifC12Seeds", {"C12_SEEDS_OUT": seeds_all, "C12_NGEN": 48 if q else 96, "C12_MAXLEN": 96}, 300)
    with open(seeds_all) as f:
        seeds = [l for l in f if l.strip()]
    if not seeds:
        raise vlib.Broken("no seed programs")
    used = seeds
    if q:
        rnd = random.Random(ctx.seed)
        directed = [s for s in seeds if '"name":"dir#' in s]
        gen = [s for s in seeds if '"name":"gen' in s]
        frag = [s for s in seeds if '"name":"gen' not in s and '"name":"dir#' not in s]
        used = rnd.sample(gen, min(4, len(gen))) + rnd.sample(frag, min(3, len(frag)))   # the directed seeds are always in
        used = directed + ([s for s in used if len(json.loads(s)["b"]) <= 64] or used[:4])
    seeds_path = os.path.join(ctx.work, "seeds.ndjson")
    with open(seeds_path, "w") as f:
        f.writelines(used)
    cases = os.path.join(ctx.work, "cases.ndjson")
    r = ctx.model_check(d, "AmlRobustPlans", "AmlRobustPlans1", workers=1, env={"SEEDS": seeds_path, "CASES": cases},
                        timeout=1200, name="emit-plans")
    ctx.cov["legs"]["emit-plans"].update({"seeds": len(used), "seeds_available": len(seeds), "cases": r.distinct})
    case_files = [cases]
    if not q:
        # plans of two mutations, for the shortest seeds (the number of plans grows with the square of the length)
        short = sorted((s for s in seeds if 10 <= len(json.loads(s)["b"]) <= 16), key=lambda s: (len(json.loads(s)["b"]), s))
        short = short[::max(1, len(short) // 8)][:8]
        if short:
            seeds2, cases2 = os.path.join(ctx.work, "seeds2.ndjson"), os.path.join(ctx.work, "cases2.ndjson")
            with open(seeds2, "w") as f:
                f.writelines(short)
            r2 = ctx.model_check(d, "AmlRobustPlans", "AmlRobustPlans2", workers=1, env={"SEEDS": seeds2, "CASES": cases2},
                                 timeout=1800, name="emit-plans-2")
            ctx.cov["legs"]["emit-plans-2"].update({"seeds": len(short), "cases": r2.distinct})
            case_files.append(cases2)
    # byte substitution with ALL 256 values (every opcode in every position): quick on one directed seed that
    # rotates with the seed, thorough on every directed seed and a sample of the others
    directed_all = [s for s in seeds if '"name":"dir#' in s]
    if q:
        cand = [s for s in directed_all if len(json.loads(s)["b"]) <= 24] or directed_all or seeds
        allsub = [cand[ctx.seed % len(cand)]]
    else:
        rest = [s for s in seeds if '"name":"dir#' not in s and len(json.loads(s)["b"]) <= 40]
        allsub = directed_all + random.Random(ctx.seed).sample(rest, min(8, len(rest)))
    seeds3, cases3 = os.path.join(ctx.work, "seeds3.ndjson"), os.path.join(ctx.work, "cases3.ndjson")
    with open(seeds3, "w") as f:
        f.writelines(allsub)
    r4 = ctx.model_check(d, "AmlRobustPlans", "AmlRobustPlansAll", workers=1, env={"SEEDS": seeds3, "CASES": cases3}, timeout=1800, name="emit-plans-all256")
    ctx.cov["legs"]["emit-plans-all256"].update({"seeds": len(allsub), "cases": r4.distinct})
    case_files.append(cases3)
    if not q:
        # every truncation point and every bit flip of the two small shipped tables (whole tables as seeds)
        seeds4, cases4 = os.path.join(ctx.work, "seeds4.ndjson"), os.path.join(ctx.work, "cases4.ndjson")
        _harness(ctx, "TestVerifC12Seeds", {"C12_SEEDS_OUT": seeds4, "C12_SEEDS_TABLES": 1}, 300)
        r5 = ctx.model_check(d, "AmlRobustPlans", "AmlRobustPlansTab", workers=1, env={"SEEDS": seeds4, "CASES": cases4}, timeout=1800, name="emit-plans-tables")
        ctx.cov["legs"]["emit-plans-tables"].update({"cases": r5.distinct})
        case_files.append(cases4)
    # relocation shapes over the name alphabet {A___, B___}: enumerated and encoded by TLC (AmlRobustShapes)
    shapes = os.path.join(ctx.work, "shapes_all.ndjson")
    r3 = ctx.model_check(d, "AmlRobustShapes", "AmlRobustShapes", workers=1, env={"CASES": shapes}, timeout=600, name="emit-shapes")
    if q:
        with open(shapes) as f:
            lines = f.readlines()
        shapes = os.path.join(ctx.work, "shapes.ndjson")
        with open(shapes, "w") as f:
            f.writelines(random.Random(ctx.seed).sample(lines, min(2500, len(lines))))
    ctx.cov["legs"]["emit-shapes"].update({"cases": r3.distinct, "replayed": 2500 if q else r3.distinct})
    case_files.append(shapes)
    # ---- leg R: pinned reproducers;  leg T: seeded random driver;  all in one harness run with leg G
    corpus = os.path.join(ctx.work, "corpus.ndjson")
    with open(corpus, "w") as f:
        for c in CORPUS:
            f.write(json.dumps({"id": c["id"], "src": "corpus: " + c["note"], "hex": _corpus_hex(c), "pre": c.get("pre", [])}) + "\n")
    trace = os.path.join(ctx.work, "trace.ndjson")
    nsmall, ntables = (12000, 48) if q else (300000, 1200)
    # scale: long / deep / wide programs up to that many bytes and tables shorter than their header;
    # sweep: every 4th truncation point of the DSDT (phase = seed mod 4)
    extra = ",scale:1024" if q else ",scale:65536,sweep:4"
    _harness(ctx, "TestVerifC12Run", {"C12_CASES": corpus + ":" + ":".join(case_files), "C12_ID_PREFIX": "g", "C12_GEN": "small:%d,tables:%d" % (nsmall, ntables) + extra,
                                      "C12_TRACE_OUT": trace, "C12_PAR": 8}, 2400)

    # ---- leg V: TLC judges every event (one monitor run over all legs; few JVMs: the machine is shared)
    hist, nev = _scan(ctx, trace)
    skipped = 0
    if os.path.exists(trace + ".anomalies"):
        for a in open(trace + ".anomalies").read().splitlines()[:5]:
            ctx.note("a batch child died but the input it was parsing behaves when run alone in a fresh process (not a verdict): " + a[:300])
    if os.path.exists(trace + ".truncated"):
        skipped = int(open(trace + ".truncated").read() or 0)
        ctx.note("exploration stopped early after repeated CPU/heap overruns: %d inputs were not run" % skipped)
    # the pinned reproducers are judged one per monitor run (a monitor stops at its first mismatch)
    # (and the monitor reads its whole chunk into memory: parts of at most 300 000 events, eight chunks each)
    rtrace = os.path.join(ctx.work, "trace_r.ndjson")
    parts, fe, n_in_part, bytes_in_part = [], None, 0, 0
    with open(trace) as f, open(rtrace, "w") as fr:
        for line in f:
            if line.startswith('{"k":"parse","id":"r-'):
                fr.write(line)
                continue
            if fe is None or n_in_part >= 300000 or bytes_in_part >= 200 << 20:
                if fe:
                    fe.close()
                parts.append(os.path.join(ctx.work, "trace_e%d.ndjson" % len(parts)))
                fe, n_in_part, bytes_in_part = open(parts[-1], "w"), 0, 0
            fe.write(line)
            n_in_part += 1
            bytes_in_part += len(line)
    if fe:
        fe.close()
    open(trace, "w").close()          # free the disk space but keep the entry: vlib numbers its directories by listdir(work)
    _validate(ctx, "V-corpus", rtrace, devname, kf_inputs, parallel=len(CORPUS), timeout=600)
    for i, part in enumerate(parts):
        _validate(ctx, "V-all" if len(parts) == 1 else "V-all-%d" % (i + 1), part, devname, kf_inputs,
                  parallel=max(1, min(8, (nev // len(parts)) // 4000)), timeout=2400)
        open(part, "w").close()
    ctx.cov["legs"]["outcomes_by_leg"] = hist

    # a rule-shaped finding that is open: its pinned reproducer is judged strictly, on its own
    for f in devs:
        pin = os.path.join(ctx.work, "pin.ndjson")
        with open(pin, "w") as g:
            g.write(json.dumps({"id": "p-" + f["deviation"], "src": "pinned reproducer", "hex": f.get("input_hex", ""), "pre": f.get("pre", [])}) + "\n")
        tp = os.path.join(ctx.work, "trace_pin.ndjson")
        _harness(ctx, "TestVerifC12Run", {"C12_CASES": pin, "C12_TRACE_OUT": tp, "C12_BATCH": 1}, 600)
        acc, nev, mism = ctx.validate_traces("AmlRobustTrace", "AmlRobustTrace", tp, ("aml",), name="pin-" + f["deviation"],
                                             env={"C12_DEVS": ""}, is_reset=lambda e: True)
        if mism:
            ctx.known_finding(f.get("what", f["deviation"]) + " input=" + f.get("input_hex", ""))

    ctx.cov["exhaustive"] = (not q) and not ctx.violations and not skipped
    ctx.cov["explanation"] = ("exhaustive = every plan of one mutation (every truncation point, bit flip, substitution of an interesting byte, "
                              "corruption of every plausible PkgLength, package splice) of every seed program was emitted by TLC and fed to the real "
                              "parser (thorough tier; the quick tier takes a seeded dozen of the seeds). The space of all byte strings is only sampled.")


def replay(ctx, path):
    with open(path) as f:
        rep = json.load(f)["replay"]
    devs, kf_inputs = _devs(ctx)
    cf = os.path.join(ctx.work, "replay_case.ndjson")
    with open(cf, "w") as f:
        f.write(json.dumps({"id": "x-" + str(rep.get("id") or "replay"), "src": "replay", "hex": rep.get("hex", ""), "pre": rep.get("pre") or [],
                            "post": rep.get("post") or []}) + "\n")
    tr = os.path.join(ctx.work, "trace_replay.ndjson")
    _harness(ctx, "TestVerifC12Run", {"C12_CASES": cf, "C12_TRACE_OUT": tr, "C12_BATCH": 1}, 600)
    _validate(ctx, "replay", tr, devs[0]["deviation"] if devs else "", kf_inputs)
    ctx.cov["states"] = max(ctx.cov["states"], 1)
    ctx.cov["transitions"] = max(ctx.cov["transitions"], 1)
    return None
