"""C16: device bring-up (ordered probing, first console/TTY win, no boot log lost).
DESIGN.md 4.14; specs/kfmt/RingBuf*.tla (early ring) and specs/hal/Bringup*.tla (hal)."""
import concurrent.futures, json, os, random
import vlib

RING_HARNESS = ["kfmt/c16rb_ring_test.go"]
HAL_HARNESS = ["hal/c16_bringup_test.go"]
HAL_SHIM = {"kernel/device/zz_verif_c16_device_shim.go": "hal/c16_device_shim.go",
            "kernel/device/tty/zz_verif_c16_tty_shim.go": "hal/c16_tty_shim.go",
            "kernel/kfmt/zz_verif_c16_kfmt_shim.go": "hal/c16_kfmt_shim.go",
            "kernel/device/video/console/zz_verif_c16_console_shim.go": "hal/c16_console_shim.go"}
UNITS = [341, 7, 680]


def unwrap(src):
    """TLC wrote one JSON *string* per line; the same input can be emitted by several behaviours (e.g. two legal sort
    results): keep each distinct input once, in first-seen order"""
    seen, out = set(), []
    with open(src) as f:
        for l in f:
            if l.strip() and l not in seen:
                seen.add(l)
                out.append(json.loads(json.loads(l)))
    return out


def pick(items, n, seed):
    return random.Random(seed).sample(items, n) if n and len(items) > n else items


def cases_of(path):
    cur = []
    with open(path) as f:
        for line in f:
            e = json.loads(line)
            cur.append(e)
            if e.get("k") == "reset":
                yield cur
                cur = []
    if cur:
        yield cur


def total(segs):
    return sum(s[1] for s in segs)


def ring_replay_of(events):
    """exact input of one recorded ring case: byte lengths of every operation and the first payload byte"""
    ops, base = [], None
    for e in events:
        if e["k"] in ("w", "pw"):
            if base is None and e["p"]:
                base = e["p"][0][0]
            ops.append(["w", total(e["p"])])
        elif e["k"] == "r":
            ops.append(["r", e["n"]])
        elif e["k"] == "drain":
            ops.append(["d", 0])
        elif e["k"] == "panic":
            ops.append(["w", total(e["p"])] if "p" in e else ["r", e["n"]] if "n" in e else ["d", 0])
    return {"kind": "ring", "script": {"raw": True, "global": bool(events and events[0].get("global")), "base": base or 0, "ops": ops}}


def run_ring(ctx, d, q):
    scripts = os.path.join(ctx.work, "c16_ring_scripts.ndjson")
    sel = os.path.join(ctx.work, "c16_ring_sel.ndjson")
    allscripts = unwrap(scripts)
    chosen = pick(allscripts, 700 if q else 0, ctx.seed)
    with open(sel, "w") as f:
        for i, c in enumerate(chosen):
            c["var"] = i + ctx.seed
            f.write(json.dumps(c) + "\n")
    ctx.cov["legs"]["ring-scripts"] = {"emitted": len(allscripts), "replayed": len(chosen)}
    trg = os.path.join(ctx.work, "c16_ring_g.ndjson")
    rc, out, _ = ctx.gotest("kernel", "kfmt", RING_HARNESS, "TestVerifC16RingScripts", env={"SCRIPTS": sel, "TRACE_OUT": trg}, timeout=600)
    if rc != 0:
        raise vlib.Broken("ring script harness failed:\n" + out[-3000:])
    trt = os.path.join(ctx.work, "c16_ring_t.ndjson")
    rc, out, _ = ctx.gotest("kernel", "kfmt", RING_HARNESS, "TestVerifC16RingRandom",
                            env={"NTRACES": 120 if q else 4000, "TRACE_OUT": trt}, timeout=600)
    if rc != 0:
        raise vlib.Broken("ring random harness failed:\n" + out[-3000:])
    both = os.path.join(ctx.work, "c16_ring_all.ndjson")
    with open(both, "w") as w:
        for leg, p in (("G-ring", trg), ("T-ring", trt)):
            first = True
            for case in cases_of(p):
                case[0]["leg"] = leg
                for e in case:
                    w.write(json.dumps(e, separators=(",", ":")) + "\n")
                if any(e["k"] == "r" and e.get("got") for e in case) or any(e["k"] == "drain" and e.get("got") for e in case):
                    ctx.distinct(["ring", [e for e in case if e["k"] not in ("case", "reset")]])
                if first:
                    ctx.sample({"leg": leg, "events": case[:6]})
                    first = False
    acc, nev, mism = ctx.validate_traces("RingTrace", "RingTrace", both, ("kfmt",), name="V-ring", timeout=1200,
                                         parallel=4 if q else 16)
    for m in mism[:3]:
        ev = m["case_events"]
        ctx.violation({"leg": ev[0].get("leg"), "part": "early ring", "mismatch": m["mismatch"], "event": ev[m["line_in_case"] - 1]},
                      ring_replay_of(ev))


def run_handover(ctx, d, q):
    """kfmt's own hand-over path (Printf into the early buffer, SetOutputSink(recorder)): the TLC scripts again and
    early-log totals exactly at k*2048, k*2048 +- 1.  Only on a ring that passed (io.Copy spins on a broken one)."""
    sel = os.path.join(ctx.work, "c16_ring_sel.ndjson")
    tr = os.path.join(ctx.work, "c16_ring_h.ndjson")
    rc, out, _ = ctx.gotest("kernel", "kfmt", RING_HARNESS, "TestVerifC16RingHandover", env={"SCRIPTS": sel, "TRACE_OUT": tr},
                            timeout=180 if q else 600)
    if rc != 0:
        raise vlib.Broken("ring hand-over harness failed:\n" + out[-3000:])
    both = os.path.join(ctx.work, "c16_ring_h_all.ndjson")
    with open(both, "w") as w:
        for case in cases_of(tr):
            case[0]["leg"] = "G-handover" if "ops" in case[0] else "T-handover"
            for e in case:
                w.write(json.dumps(e, separators=(",", ":")) + "\n")
            if any(e["k"] == "drain" and e.get("got") for e in case):
                ctx.distinct(["handover", [e for e in case if e["k"] not in ("case", "reset")]])
    acc, nev, mism = ctx.validate_traces("RingTrace", "RingTrace", both, ("kfmt",), name="V-handover", timeout=1200,
                                         parallel=3 if q else 12)
    for m in mism[:3]:
        ev = m["case_events"]
        ctx.violation({"leg": ev[0].get("leg"), "part": "early log hand-over (kfmt.SetOutputSink)", "mismatch": m["mismatch"],
                       "exact": ev[0].get("exact"), "event": ev[m["line_in_case"] - 1]}, ring_replay_of(ev))


def run_hal(ctx, d, q):
    casesf = os.path.join(ctx.work, "c16_hal_cases.ndjson")
    sel = os.path.join(ctx.work, "c16_hal_sel.ndjson")
    allc = unwrap(casesf)
    # quick tier: seeded samples of the scenarios with >= 3 drivers and no environment chunk (orders of several terminals /
    # consoles / failing drivers), of those with a font console, and of the rest
    if q:
        core = [c for c in allc if len(c["drv"]) >= 3 and not c["prints"]]
        rest = [c for c in allc if not (len(c["drv"]) >= 3 and not c["prints"])]
        chosen = pick(core, 250, ctx.seed) + pick([c for c in rest if any(d.get("font") for d in c["drv"])], 120, ctx.seed) + pick(rest, 330, ctx.seed + 1)
    else:
        chosen = allc
    with open(sel, "w") as f:
        for i, c in enumerate(chosen):
            c["unit"] = UNITS[(i + ctx.seed) % 3]
            c["align"] = (i // 3) % 2 == 0
            f.write(json.dumps(c) + "\n")
    ctx.cov["legs"]["hal-scenarios"] = {"emitted": len(allc), "replayed": len(chosen)}
    trg = os.path.join(ctx.work, "c16_hal_g.ndjson")
    rc, out, _ = ctx.gotest("kernel", "hal", HAL_HARNESS, "TestVerifC16HalCases", env={"CASES": sel, "TRACE_OUT": trg},
                            extra_files=HAL_SHIM, timeout=180 if q else 600)
    if rc != 0:
        raise vlib.Broken("hal scenario harness failed:\n" + out[-3000:])
    trt = os.path.join(ctx.work, "c16_hal_t.ndjson")
    rc, out, _ = ctx.gotest("kernel", "hal", HAL_HARNESS, "TestVerifC16HalRandom", env={"NTRACES": 120 if q else 10000, "TRACE_OUT": trt, "C16_SWEEP_K": 2 if q else 3},
                            extra_files=HAL_SHIM, timeout=600)
    if rc != 0:
        raise vlib.Broken("hal random harness failed:\n" + out[-3000:])
    both = os.path.join(ctx.work, "c16_hal_all.ndjson")
    with open(both, "w") as w:
        for leg, p in (("G-hal", trg), ("T-hal", trt)):
            first = True
            for case in cases_of(p):
                case[0]["leg"] = leg
                for e in case:
                    w.write(json.dumps(e, separators=(",", ":")) + "\n")
                if case[0]["k"] == "scenario" and case[0]["sc"]["drv"]:
                    ctx.distinct(["hal", case[0]["sc"]])
                if first and len(case) > 6:
                    ctx.sample({"leg": leg, "events": [e for e in case if e["k"] != "end"][:8]})
                    first = False
    acc, nev, mism = ctx.validate_traces("BringupTrace", "BringupTrace", both, ("hal",), name="V-hal", timeout=1200,
                                         parallel=4 if q else 16)
    for m in mism[:3]:
        ev = m["case_events"]
        bad = ev[m["line_in_case"] - 1]
        bad_full = bad
        if bad.get("k") == "end":
            bad = {k: v for k, v in bad.items() if k not in ("shown", "ring", "held")}
            bad["log_tail"] = bytes(b for b in ((bad_full.get("shown") or [{"v": []}])[0]["v"] or bad_full.get("ring", []))[-400:] if b < 128).decode("latin-1")
        ctx.violation({"leg": ev[0].get("leg"), "part": "hal bring-up", "mismatch": m["mismatch"], "scenario": ev[0].get("sc"), "event": bad},
                      {"kind": "hal", "scenario": ev[0].get("sc")})


def run(ctx):
    q = ctx.quick
    ctx.rule = ("ring: a case = sequence of Write/Read/io.Copy calls on a real kfmt.ringBuffer (every behaviour of RingBufModel with Size 4 up to "
                "4 (quick) / 5 (thorough) operations, scaled by 512 +-1 bytes after moving the indices to 4 different offsets; random chunk "
                "sizes around 2047/2048 at real scale; the same scripts and early-log totals exactly at k*2048 and k*2048 +- 1, k = 1..3, in 5 chunkings from 4 start offsets through kfmt.Printf / SetOutputSink), non-trivial when something was read back.  hal: a case = (registered drivers "
                "[order, kind, probe/init outcome, chatter] in registration order, log chunks before / between / after the driver steps), "
                "every behaviour of BringupModel (<= 2 (quick) / 3 (thorough) drivers of any order/kind/outcome, 3-4 consoles+terminals, "
                "<= 2 chunks) replayed with 3 byte scalings, plus random scenarios (<= 8 drivers, any int8 order, chunks to 2.7 kB) and calibrated scenarios whose early log is exactly k*2048 and k*2048 +- 1 bytes when the terminal takes over; "
                "non-trivial when at least one driver is registered")
    ctx.assumptions += [
        "the HAL's own log messages are ASCII; everything the environment logs is >= 128 (serial pattern), which is how the monitor follows the log without depending on message wording",
        "a failed driver counts as reported when its name or its error message occurs on the log (checked when nothing could have been dropped)",
        "'nothing dropped' is demanded when fewer than 2047 bytes precede the first post-link byte on the terminal (upper bound of the ring fill at link time); byte-exact drop-oldest semantics of the ring itself is the RingBuf part",
        "terminals are the real tty.VT (900 lines of scrollback) behind a recording wrapper, consoles are recording mocks without font/logo support; device registry reset through the overlay shim harness/hal/c16_device_shim.go; what a terminal HOLDS at the end is read from the real VT buffer through harness/hal/c16_tty_shim.go",
        "the active pair must be attached exactly once: a second AttachTo of the active terminal blanks it (tty.VT) and is a violation",
        "input domain (audited against the quantifier): not covered are log chunks with backspace / carriage return, logging from inside AttachTo/SetState, a driver writing after the link through a writer captured before it, consoles with font/logo support",
        "trusted Go: scenario decoder, mock drivers and event logger in harness/hal, segment encoder in harness/kfmt/c16rb_ring_test.go",
    ]
    d = ctx.spec_dir("kfmt", "hal")
    ring_scripts = os.path.join(ctx.work, "c16_ring_scripts.ndjson")
    hal_cases = os.path.join(ctx.work, "c16_hal_cases.ndjson")
    rbugs = ["NoPushR", "SecondFirst"] if q else ["NoPushR", "SecondFirst", "NoWrapReset", "OffByOneFull"]
    hbugs = (["NoSort", "Relink", "LinkBeforeFont", "StalePrefix"] if q else
             ["NoSort", "ActiveBeforeErr", "LaterConsoleWins", "LaterTTYWins", "NoDrain", "NoReport", "DrainTwice", "Relink", "LinkBeforeFont", "StalePrefix", "FailSaysOk"])

    # ---- leg M: both design models against their monitors (they also emit the behaviours for leg G) + design mutants;
    #      the ring's legs G/T/V run beside them as soon as its scripts exist
    with concurrent.futures.ThreadPoolExecutor(max_workers=3 if q else 4) as ex:
        fring = ex.submit(ctx.model_check, d, "MCRingBuf", "MCRingBufQuick" if q else "MCRingBufFull", env={"CASES": ring_scripts},
                          workers=2 if q else 4, timeout=900)
        fs = [ex.submit(ctx.model_check, d, "MCBringup", "MCBringupQuick" if q else "MCBringupFull", env={"CASES": hal_cases},
                        workers=4 if q else 10, timeout=1500)]
        if not q:
            fs.append(ex.submit(ctx.model_check, d, "MCRingBuf", "MCRingBufFull8", workers=2, timeout=900))
        fs += [ex.submit(ctx.expect_model_violation, d, "MCRingBuf", "MCRingBufBug_" + b, workers=1, timeout=300) for b in rbugs]
        fs += [ex.submit(ctx.expect_model_violation, d, "MCBringup", "MCBringupBug_" + b, workers=2, timeout=600) for b in hbugs]
        fring.result()
        fs.append(ex.submit(run_ring, ctx, d, q))
        for x in fs:
            x.result()
    # ---- hal legs G/T/V.  DetectHardware drains the ring with io.Copy: with a broken ring that can spin for ever, so the
    #      bring-up part is only exercised on a ring that passed (the ring violation is the verdict then)
    if ctx.violations:
        ctx.note("hand-over and bring-up legs skipped: the early ring itself violates its part of C16")
    else:
        run_handover(ctx, d, q)
        if ctx.violations:
            ctx.note("bring-up legs skipped: the hand-over of the early log in kfmt violates C16")
        else:
            run_hal(ctx, d, q)
    ctx.cov["exhaustive"] = (not q) and not ctx.violations
    ctx.cov["explanation"] = ("exhaustive = every behaviour TLC enumerated for the two small-scope models was replayed on the real code and judged "
                              "(thorough tier); the quick tier replays seeded samples (700 ring scripts; 700 bring-up scenarios: 250 with >= 3 drivers, 120 with font consoles, 330 others)")


def replay(ctx, path):
    with open(path) as f:
        rep = json.load(f)["replay"]
    if rep["kind"] == "ring":
        sf = os.path.join(ctx.work, "c16_replay_script.ndjson")
        with open(sf, "w") as f:
            f.write(json.dumps(rep["script"]) + "\n")
        tr = os.path.join(ctx.work, "c16_replay_ring.ndjson")
        rc, out, _ = ctx.gotest("kernel", "kfmt", RING_HARNESS, "TestVerifC16RingScripts", env={"SCRIPTS": sf, "TRACE_OUT": tr}, timeout=300)
        if rc != 0:
            raise vlib.Broken("replay harness failed:\n" + out[-2000:])
        acc, nev, mism = ctx.validate_traces("RingTrace", "RingTrace", tr, ("kfmt",), name="replay", parallel=1)
    else:
        sf = os.path.join(ctx.work, "c16_replay_scenario.ndjson")
        with open(sf, "w") as f:
            f.write(json.dumps(rep["scenario"]) + "\n")
        tr = os.path.join(ctx.work, "c16_replay_hal.ndjson")
        rc, out, _ = ctx.gotest("kernel", "hal", HAL_HARNESS, "TestVerifC16HalCases", env={"CASES": sf, "TRACE_OUT": tr},
                                extra_files=HAL_SHIM, timeout=300)
        if rc != 0:
            raise vlib.Broken("replay harness failed:\n" + out[-2000:])
        acc, nev, mism = ctx.validate_traces("BringupTrace", "BringupTrace", tr, ("hal",), name="replay", parallel=1)
    for m in mism:
        ctx.violation({"leg": "replay", "mismatch": m["mismatch"]}, rep)
    ctx.cov["states"] = max(ctx.cov["states"], 1)
    ctx.cov["transitions"] = max(ctx.cov["transitions"], 1)
    return None
