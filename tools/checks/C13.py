"""C13: AML namespace tree stays well-formed and path lookup follows ACPI's search rules.
See DESIGN.md 4.11, specs/aml/ObjTreeProps.tla (monitor), ObjTree.tla (design model), harness/aml/c13_objtree_test.go.

Legs
 M  TLC explores the implementation-shaped pool/free-list model (the complete reachable graph for <= 4 / <= 5 pool slots)
    and the byte-level lookup algorithm on every small tree x every small-scope expression; each model step is judged
    by the monitor operators (NoMismatch), plus WellFormedModel and the action property ReuseBeforeGrow; design mutants
    must be rejected.
 G  the same runs emit the labelled transition graph and the enumerated trees/expressions; a transition tour covering
    every edge (thorough) / a seeded part of it (quick) and every (tree, scope, expression) lookup is executed on the real
    ObjectTree, all link fields of all slots logged after every call.
 T  seeded random edit scripts on trees of up to 300 objects with periodic full-pool checkpoints, then random lookups.
 V  every recorded event is judged by TLC with ObjTreeTrace (same operators as leg M).
"""
import collections, concurrent.futures, json, os, random
import vlib

HARNESS = ["aml/c13_objtree_test.go"]
PKG = "device/acpi/aml"
NAMES = [[65, 95, 95, 95], [66, 95, 95, 95], [67, 95, 95, 95]]
ASSUME = [
    "operations are applied only when the API's preconditions hold (append/appendAfter of a detached node that is not an "
    "ancestor of the new parent, appendAfter next to a child of that parent, detach of a child from its parent); free is "
    "called on childless objects and also on objects that still have children, which the API must refuse (panic), leaving the "
    "object attached or detached.  Calls that break a precondition (append of an attached node, detach of a non-child, use of a "
    "freed object, double free) have no specified outcome and are not generated",
    "lookup domain: slot 0 is the live root (absolute paths start there; a pool whose slot 0 was freed or re-parented is not a "
    "namespace and Find is not called on it); the scope is any live object - a node of the tree or of a detached subtree (its "
    "top has no enclosing scope) - or InvalidIndex, from which Find merely has to return.  A scope that holds two children of "
    "one name is allowed: the rules then designate any of them (set-valued FindSpec); the random driver creates such scopes "
    "with probability 1/10 per clash",
    "expressions are the raw NameString bytes the parser hands to Find: ['\\\\' | '^'*] followed by nothing, name segments joined, "
    "0x2E seg seg, or 0x2F count seg*count; a prefix item (0x2E, or 0x2F and a count byte that is not a name character) may "
    "also be embedded in front of any later segment and is stepped over (the designated node is that of the path without it).  "
    "Too-short names (after a well-formed start: a prefix item followed by no name and/or a 1..3 byte stub, then the end; or the "
    "empty expression) must give not-found; any other malformed byte string (a leading dual/multi prefix with another number of "
    "complete segments than announced, an embedded 0x2F whose count byte is 'A'..'Z' or '_' (two readings), two prefix items in "
    "a row, a prefix after a prefix, stray bytes, NUL) merely has to return",
    "a MultiNamePath with SegCount 1 and no prefix may be resolved either as a single segment (upward search) or downward only",
    "node names are valid NameSegs, all-zero (unnamed objects, possibly carrying the stale name of the slot's previous owner) "
    "or the root's '\\\\'; names with other bytes cannot be designated by a well-formed expression and are not generated",
    "sizes: TLC scopes are the closed edit graph for <= 5 slots, all trees of <= 5 named nodes and all forests of <= 4 nodes "
    "with unnamed nodes and detached subtrees (quick: forests of <= 3 nodes in leg M, a sample of the <= 4 node forests in leg G); the "
    "random leg goes to 300 objects, scopes with ~100 children, chains ~270 deep, paths of 255 (SegCount) / 260+ (joined) "
    "segments, 260 '^'.  Pools near 2^32 objects are physically infeasible and not covered",
    "which freed slot is reused is the implementation's choice (the monitor checks membership); the LIFO free list is only "
    "the refinement used to generate leg G scripts (a script stops, without verdict, where the real tree picks another slot)",
    "CreateDefaultScopes is judged as a bulk creation on an empty pool: its result must be a well-formed tree (which names it "
    "creates is outside the statement); opcode and table handle of created objects are varied but not judged",
    "a parent's child list is observed twice: through the link fields and through the exported enumeration ArgAt/NumArgs; both "
    "must be the same list",
    "trusted Go: the pool projection (link fields -> 1-based arrays), the script runner and the random driver, which picks "
    "legal operations and lookup targets by reading the real tree and issues lookups only while every sibling list and parent "
    "chain of the real pool ends (Find has no bound of its own; a cyclic pool is rejected at the checkpoint logged just before); "
    "none of them holds an expected result",
]


# ---------------------------------------------------------------------------------------------- leg G: edit tour
def load_graph(path):
    ids, edges = {}, []

    def nid(k):
        if k not in ids:
            ids[k] = len(ids)
        return ids[k]

    states = []
    with open(path) as f:
        for line in f:
            line = line.strip()
            if not line:
                continue
            e = json.loads(json.loads(line))
            kf, kt = json.dumps(e["f"]), json.dumps(e["t"])
            a, b = nid(kf), nid(kt)
            for i, st in ((a, e["f"]), (b, e["t"])):
                while len(states) <= i:
                    states.append(None)
                states[i] = st
            edges.append((a, e["a"], b))
    return ids, states, edges


def edge_class(st, act):
    """branch of the real code the transition exercises, derived from the pre-state (input classification only)"""
    k = act[0]
    slot = lambda i: st[i]            # st = [fh, slot1, slot2, ...], slot = [fr, par, prev, next, first, last]
    if k == "new":
        if st[0] == 0:
            return "new-grow"
        return "new-reuse-2+" if slot(st[0])[3] != 0 else "new-reuse"
    if k == "app":
        return "app-first" if slot(act[1])[5] == 0 else "app-nonempty"
    if k == "aft":
        return "aft-last" if slot(act[3])[3] == 0 else "aft-mid"
    c = act[2] if k == "det" else act[4]
    s = slot(c)
    if k == "free" and s[4] != 0:
        return "free-nonleaf"
    if k == "free" and s[1] == 0:
        return "free-detached"
    pos = ("only" if s[3] == 0 else "first") if s[2] == 0 else ("last" if s[3] == 0 else "middle")
    return "%s-%s" % (k, pos)


NEEDED = ["new-grow", "new-reuse", "new-reuse-2+", "app-first", "app-nonempty", "aft-last", "aft-mid",
          "det-only", "det-first", "det-middle", "det-last", "free-detached", "free-only", "free-first", "free-middle", "free-last", "free-nonleaf"]


def op_of(act, i):
    k, p, c, a, o, r, hn = act
    d = {"k": k}
    if k == "new":
        d.update({"named": hn, "nm": NAMES[i % len(NAMES)] if hn else [], "r": r})
    elif k in ("app", "det"):
        d.update({"p": p, "c": c})
    elif k == "aft":
        d.update({"p": p, "c": c, "a": a})
    elif k == "free":
        d.update({"o": o})
    return d


def make_tour(ids, states, edges, seed, budget, seglen):
    """Greedy transition tour with resets: returns (scripts, covered edge count, class counts)."""
    n = len(states)
    out = [[] for _ in range(n)]
    for i, (a, _, b) in enumerate(edges):
        out[a].append(i)
    init = ids[json.dumps([0])]
    parent = {init: None}
    q = collections.deque([init])
    while q:
        u = q.popleft()
        for ei in out[u]:
            v = edges[ei][2]
            if v not in parent:
                parent[v] = ei
                q.append(v)
    covered = bytearray(len(edges))
    nxt = [0] * n                 # per node: first possibly uncovered out-edge position

    def uncovered(u):
        while nxt[u] < len(out[u]) and covered[out[u][nxt[u]]]:
            nxt[u] += 1
        return out[u][nxt[u]] if nxt[u] < len(out[u]) else None

    def path_to(u):
        p = []
        while parent[u] is not None:
            p.append(parent[u])
            u = edges[parent[u]][0]
        return p[::-1]

    def nearby(u, depth=3):
        seen, fr = {u: None}, [u]
        for _ in range(depth):
            nf = []
            for x in fr:
                for ei in out[x]:
                    v = edges[ei][2]
                    if v in seen:
                        continue
                    seen[v] = ei
                    if uncovered(v) is not None:
                        p = []
                        while seen[v] is not None:
                            p.append(seen[v])
                            v = edges[seen[v]][0]
                        return p[::-1]
                    nf.append(v)
            fr = nf
        return None

    order = [u for u in range(n) if u in parent]
    random.Random(seed).shuffle(order)
    scripts, total, ncov = [], 0, 0
    classes = collections.Counter()
    work = collections.deque(order)
    while work:
        start = work.popleft()
        if total >= budget:
            break
        if uncovered(start) is None:
            continue
        work.append(start)                   # visit again until all its out-edges are covered
        seq = path_to(start)
        cur, steps = start, 0
        while steps < seglen:
            ei = uncovered(cur)
            if ei is None:
                p = nearby(cur)
                if p is None:
                    break
                seq += p
                steps += len(p)
                cur = edges[p[-1]][2]
                continue
            seq.append(ei)
            steps += 1
            cur = edges[ei][2]
            covered[ei] = 1
        for ei in seq:                       # edges walked on the way count as covered too
            if not covered[ei]:
                covered[ei] = 1
        scripts.append({"ops": [op_of(edges[ei][1], j) for j, ei in enumerate(seq)], "st": 1})
        for ei in seq:
            classes[edge_class(states[edges[ei][0]], edges[ei][1])] += 1
        total += len(seq)
    ncov = sum(covered)
    return scripts, ncov, classes


# ---------------------------------------------------------------------------------------------- leg G: lookups
def tree_script(t):
    ops = []
    for i, nm in enumerate(t["nm"]):
        named = 1 if nm[0] != 0 else 0
        ops.append({"k": "new", "named": named, "nm": nm if named else [], "r": i + 1})
    for i, p in enumerate(t["par"]):
        if p:
            ops.append({"k": "app", "p": p, "c": i + 1})
    return {"ops": ops, "st": 1, "findall": 1}


def deep_chain_script(depth=260):
    """Pinned case beyond the TLC scope: a chain of `depth` scopes and multi-name paths of up to `depth` segments
    (SegCount bytes 65..90 and 95 are also name characters)."""
    ops = [{"k": "new", "named": 1, "nm": [92, 0, 0, 0], "r": 1}]
    names = []
    for i in range(depth):
        nm = NAMES[i % 3][:3] + [48 + i % 10]
        names.append(nm)
        ops.append({"k": "new", "named": 1, "nm": nm, "r": i + 2})
        ops.append({"k": "app", "p": i + 1, "c": i + 2})
    ops.append({"k": "ck"})
    flat = lambda a, b: [x for nm in names[a:b] for x in nm]
    for n in (1, 2, 3, 47, 48, 57, 63, 64, 65, 66, 69, 70, 90, 91, 95, 96, 127, 128, 254, 255):
        ops.append({"k": "find", "s": 1, "x": [92, 47, n] + flat(0, n)})
        ops.append({"k": "find", "s": 1, "x": [47, n] + flat(0, n)})
        ops.append({"k": "find", "s": 1, "x": flat(0, n)})
        ops.append({"k": "find", "s": 0, "x": [92, 47, n] + flat(0, n)})                # from InvalidIndex
        ops.append({"k": "find", "s": 3, "x": [94, 94, 47, n] + flat(0, n)})
        if n + 2 <= depth:
            ops.append({"k": "find", "s": 3, "x": [47, n] + flat(2, n + 2)})
        ops.append({"k": "find", "s": depth + 1, "x": [47, n] + flat(0, n)})           # not below the deepest scope
        ops.append({"k": "find", "s": 1, "x": [92, 47, n] + flat(0, n)[:-2]})          # too short
    for n in (256, 257, depth):                                                          # beyond one SegCount byte: joined form only
        ops.append({"k": "find", "s": 1, "x": flat(0, n)})
        ops.append({"k": "find", "s": 1, "x": [92] + flat(0, n)})
        ops.append({"k": "find", "s": 4, "x": [94, 94, 94] + flat(0, n)})
    for s in (1, 2, depth + 1):
        ops.append({"k": "find", "s": s, "x": [94] * depth})
        ops.append({"k": "find", "s": s, "x": [94] * (depth + 1)})
        ops.append({"k": "find", "s": s, "x": names[5]})
    return {"ops": ops, "st": 0}


# ---------------------------------------------------------------------------------------------- replay support
def events_to_script(events):
    ops = []
    for e in events:
        k = e["k"]
        if k == "new":
            ops.append({"k": "new", "named": e["named"], "nm": e["nm"], "r": 0})
        elif k in ("app", "det"):
            ops.append({"k": k, "p": e["p"], "c": e["c"]})
        elif k == "aft":
            ops.append({"k": k, "p": e["p"], "c": e["c"], "a": e["a"]})
        elif k == "free":
            ops.append({"k": k, "o": e["o"]})
        elif k == "bulk":
            ops.append({"k": "bulk"})
        elif k == "ck":
            ops.append({"k": "ck"})
        elif k == "find":
            ops.append({"k": "find", "s": e["s"], "x": e["x"]})
    return {"ops": ops, "st": 1}


def trim_case(events, line):
    """keep the edits, the failing event and (for a lookup) drop the other lookups: a small self-contained reproducer"""
    bad = events[line - 1]
    keep = [e for e in events[:line - 1] if e["k"] != "find"]
    return keep + [bad]


def run_go(ctx, test, env, timeout):
    rc, out, wall = ctx.gotest("kernel", PKG, HARNESS, test, env=env, timeout=timeout)
    if rc != 0:
        raise vlib.Broken("C13 harness %s failed:\n%s" % (test, out[-3000:]))
    return wall


def account(ctx, leg, path):
    """evidence bookkeeping (no verdicts): distinct pool states reached by real executions, distinct successful lookups"""
    ncase = nfind = nhit = nedit = ndiv = 0
    case_no, first = 0, []
    with open(path) as f:
        for line in f:
            e = json.loads(line)
            k = e["k"]
            if k == "reset":
                if e.get("why") == "script-diverged":
                    ndiv += 1
                if ncase < 1 and first:
                    ctx.sample({"leg": leg, "events": first[:6]})
                ncase += 1
                case_no += 1
                first = []
                continue
            if len(first) < 6 and k != "new" and (k != "find" or e["r"] > 0) and ("st" not in e or e["st"]["n"] <= 6):
                first.append(e)
            if k == "find":
                nfind += 1
                if e["r"] > 0:
                    nhit += 1
                    ctx.distinct([leg, case_no, e["s"], e["x"]])
            else:
                nedit += 1
                if "st" in e:
                    ctx.distinct(e["st"])
    ctx.cov["legs"].setdefault(leg + "-events", {}).update(
        {"cases": ncase, "edit_events": nedit, "lookups": nfind, "lookups_found": nhit, "scripts_stopped_refinement": ndiv})
    if ndiv:
        ctx.note("%s: %d script(s) stopped because the real tree reused a different freed slot than the LIFO refinement "
                 "(allowed by the property; the events up to that point were still judged)" % (leg, ndiv))
    return ncase, nedit, nfind, nhit


def validate(ctx, name, path, timeout):
    acc, nev, mism = ctx.validate_traces("ObjTreeTrace", "ObjTreeTrace", path, ("aml",), name=name, timeout=timeout,
                                         parallel=8 if ctx.quick else None)
    for m in mism[:3]:
        ev = m["case_events"]
        small = trim_case(ev, m["line_in_case"])
        bad = dict(ev[m["line_in_case"] - 1])
        bad.pop("st", None)
        ctx.violation({"leg": name, "mismatch": m["mismatch"], "event": bad}, {"script": events_to_script(small)})
    return mism


def run(ctx):
    q = ctx.quick
    ctx.assumptions += ASSUME
    ctx.rule = ("a case is one history of real ObjectTree calls; distinct = distinct projected pool states (all link fields of all "
                "slots) reached by real executions plus distinct (tree, scope, expression) lookups that resolved to a node; "
                "non-trivial = at least one object attached / the lookup found a node")
    d = ctx.spec_dir("aml")
    tier = "Quick" if q else "Full"
    graph = os.path.join(ctx.work, "graph.ndjson")
    trees = os.path.join(ctx.work, "trees.ndjson")
    exprsf = os.path.join(ctx.work, "exprs.ndjson")

    # ---- leg M (the runs are independent: start them together)
    edit_bugs = ["AfterNoPrevFix"] if q else ["AfterNoPrevFix", "AppendNoPrev", "DetachKeepsLast", "DetachNoPrevNext", "FreeNoDetach",
                                              "GrowWithFreeList", "FreeNonLeafProceeds"]
    find_bugs = ["SingleNoUpward"] if q else ["CaretGrandparent", "SingleNoUpward", "MultiUpward", "SegCountAsName", "HdrNoLengthGuard",
                                              "SkipOnlyBeforeFirstSeg"]
    jobs = [
        lambda: ctx.model_check(d, "MCObjTree", "MCObjTreeEdit" + tier, workers=1, env={"GRAPH": graph}, timeout=1500,
                                coverage=not q, name="M-edit"),
        lambda: ctx.model_check(d, "MCObjTree", "MCObjTreeFind" + tier, workers=4 if q else 16, timeout=1500, name="M-find"),
        lambda: ctx.model_check(d, "MCObjTree", "MCObjTreeTrees" + tier, workers=1, env={"TREES": trees, "EXPRS": exprsf},
                                timeout=600, name="emit-trees"),
    ] + ([] if q else [
        lambda: ctx.model_check(d, "MCObjTree", "MCObjTreeFindDetFull", workers=16, timeout=1500, name="M-find-detached"),
        lambda: ctx.model_check(d, "MCObjTree", "MCObjTreeTreesDetFull", workers=1, env={"TREES": trees + ".det", "EXPRS": exprsf + ".det"},
                                timeout=600, name="emit-trees-detached")]) + [(lambda b=b: ctx.expect_model_violation(d, "MCObjTree", "MCObjTreeBug_" + b, workers=2, timeout=600)) for b in edit_bugs + find_bugs]
    cap = vlib.maxpar() if hasattr(vlib, "maxpar") else vlib.NCPU
    with concurrent.futures.ThreadPoolExecutor(max_workers=max(1, min(4 if q else 3, cap // 2 if cap < 8 else cap))) as ex:
        res = [f.result() for f in [ex.submit(j) for j in jobs]]
    for leg in ("emit-trees", "emit-trees-detached"):                       # the emission runs only enumerate Init
        if leg in ctx.cov["legs"]:
            ctx.cov["states"] -= ctx.cov["legs"][leg]["distinct"]
            ctx.cov["transitions"] -= ctx.cov["legs"][leg]["generated"]
    if not q and res[0].coverage_zero:
        raise vlib.Broken("ObjTree edit model: actions never taken in the scope (vacuous bound): %s" % res[0].coverage_zero)

    # ---- leg G inputs: a transition tour over the emitted graph, and every emitted tree x expression x scope
    ids, states, edges = load_graph(graph)
    has_out = set(a for a, _, _ in edges)
    if len(has_out) != len(states):
        raise vlib.Broken("edit graph is not closed (%d of %d states without explored successors): MaxOps too small"
                          % (len(states) - len(has_out), len(states)))
    scripts, ncov, classes = make_tour(ids, states, edges, ctx.seed, 10 ** 9, 120 if q else 250)
    if ncov != len(edges):
        raise vlib.Broken("transition tour covers %d of %d edges" % (ncov, len(edges)))
    missing = [c for c in NEEDED if classes[c] == 0]
    if missing:
        raise vlib.Broken("leg G tour never exercises %s: scope too small (vacuous)" % missing)
    ctx.cov["legs"]["G-edit-tour"] = {"graph_states": len(states), "graph_edges": len(edges), "edges_covered": ncov,
                                      "scripts": len(scripts), "calls": sum(len(s["ops"]) for s in scripts),
                                      "branch_classes": dict(classes)}
    gs = os.path.join(ctx.work, "g_scripts.ndjson")
    with open(exprsf) as f:
        exprs = json.loads(json.loads(f.readline()))
    alltrees, seen = [], set()
    for tp in (trees, trees + ".det"):
        if os.path.exists(tp):
            with open(tp) as f:
                for l in f:
                    if l.strip() and l not in seen:
                        seen.add(l)
                        alltrees.append(json.loads(json.loads(l)))
    use = alltrees
    if q:
        rnd = random.Random(ctx.seed)
        big = [t for t in alltrees if len(t["par"]) >= 3]
        use = rnd.sample(big, min(5, len(big)))
    ctx.cov["legs"]["G-find-cases"] = {"trees_enumerated": len(alltrees), "trees_replayed": len(use), "expressions": len(exprs)}
    with open(gs, "w") as f:
        for s in scripts:
            f.write(json.dumps(s) + "\n")
        f.write(json.dumps({"exprs": exprs}) + "\n")
        for t in use:
            f.write(json.dumps(tree_script(t)) + "\n")
        f.write(json.dumps(deep_chain_script()) + "\n")
    trg = os.path.join(ctx.work, "trace_g.ndjson")
    trt = os.path.join(ctx.work, "trace_t.ndjson")
    # both harness entry points in one `go test` run (one build)
    run_go(ctx, "TestVerifC13(Scripts|Random)$",
           {"C13_SCRIPTS": gs, "C13_TRACE": trg, "C13_TRACE_T": trt,
            "C13_NTREES": 5 if q else 60, "C13_NLOOKUPS": 700 if q else 10000, "C13_MAXOBJ": 300}, 1200)

    # ---- leg V
    account(ctx, "G", trg)
    account(ctx, "T", trt)
    if q:
        both = os.path.join(ctx.work, "trace_all.ndjson")
        with open(both, "w") as o:
            for p in (trg, trt):
                with open(p) as f:
                    for line in f:
                        o.write(line)
        validate(ctx, "V-G+T", both, 600)
    else:
        validate(ctx, "V-G", trg, 1500)
        validate(ctx, "V-T", trt, 1500)
    ctx.cov["exhaustive"] = (not q) and ncov == len(edges) and not ctx.violations
    ctx.cov["explanation"] = ("the edit graph (incl. refused frees of objects with children) is closed (every state reachable with <= %d pool slots, all its transitions): the tour "
                              "executes every transition, i.e. every legal operation sequence of any length stays inside states and "
                              "steps that were replayed on the real ObjectTree; exhaustive = additionally every (tree <= 5 nodes with duplicate "
                              "names allowed / <= 4 nodes with detached subtrees, every live scope and InvalidIndex, small-scope expression) lookup was executed and judged (thorough tier); the quick tier replays all "
                              "transitions of the 4-slot graph and a seeded sample of the enumerated trees" % (4 if q else 5))


def replay(ctx, path):
    with open(path) as f:
        rep = json.load(f)["replay"]
    sf = os.path.join(ctx.work, "replay_script.ndjson")
    with open(sf, "w") as f:
        f.write(json.dumps(rep["script"]) + "\n")
    tr = os.path.join(ctx.work, "trace_replay.ndjson")
    run_go(ctx, "TestVerifC13Scripts$", {"C13_SCRIPTS": sf, "C13_TRACE": tr}, 300)
    mism = validate(ctx, "replay", tr, 300)
    ctx.cov["states"] = max(ctx.cov["states"], 1)
    ctx.cov["transitions"] = max(ctx.cov["transitions"], 1)
    return None
