"""C17 / C18: terminal emulator (kernel/device/tty) and its consoles.  See DESIGN.md 4.15 / 4.16 and
specs/tty/{VT,VTConsole,VTModel,VTTrace}.tla.

Legs:  M  TLC explores VTModel (a transcription of vt.go + a cell-level console) over every geometry of
          the scope; every event the design produces is judged by the monitor VTConsole!Mon; design
          mutants must be rejected.
       G  the operation sequences TLC wrote while exploring are replayed on the real tty.VT attached to the
          recording console (C17) / recording console + real VgaTextConsole + real VesaFbConsole (C18).
       T  seeded random streams at real scale (80x25+80, 1-column, 1-row, scrollback 0, tab 0/1/8/255).
       H  (C18) the real hal links console and real terminal (onDriverInit, both driver orders, later consoles /
          terminals) over consoles holding garbage; output through the kfmt sink and hal.ActiveTTY().
       V  every recorded event is judged by TLC with VTTrace (the same operators as leg M).
The cases of G and T run in a child process with a CPU-time watchdog: a call that does not return is logged as
res=hang and judged by the monitor (every terminal call returns)."""
import json, os, threading
import vlib

H17 = ["tty/c17_vt_trace_test.go"]
# overlay-only non-test files: the shared screen projection (package tty), the real consoles over host memory
# (package tty) and the export of the two hardware seams (package console)
SHIM17 = {"kernel/device/tty/zz_verif_c17_screen_shim.go": "tty/c17_screen_shim.go"}
SHIM18 = dict(SHIM17, **{"kernel/device/tty/zz_verif_c18_consoles_shim.go": "tty/c18_consoles_shim.go",
                         "kernel/device/video/console/zz_verif_c18_shim.go": "tty/c18_console_shim.go"})
HAL18 = ["hal/c18h_link_test.go"]

BUGS = {"C17": ["ScrollExtraRow", "VyNoOffUpdate", "WrapAtGE", "BsCol1Up", "TabNoWrap", "ClipTermHeight"],
        "C18": ["ActiveAtAttach", "NoFillAfterScroll", "RedrawIgnoresVy", "RedrawCursorY", "MirrorInactive", "GridExceedsScreen"]}

ASSUME = {
    "C17": [
        "the terminal's state is observed through CursorPosition(), VT.viewportY and VT.data (flat (char, fg, bg) triples, line after line): a different internal representation needs a new projection in harness/tty (the harness then fails to build: exit 2, not a violation)",
        "a write outside the terminal's buffer is observed as a Go run-time panic (slice bounds are checked), recovered by the harness and logged as res=panic",
        "NOT covered, boundary of the quantifier: a console that reports 0 columns or 0 rows (on the pinned tree the first write to such a terminal panics with index out of range: VesaFbConsole reports 0 x 0 before a font is set and 0 rows when less than one glyph row fits below the logo); the reference terminal of the statement has no cursor position on an empty viewport, so the class is treated as outside 'console of any size'",
        "NOT covered, physically infeasible: geometries / scrollback lengths whose buffer W*(H+scrollback)*3 does not fit a 32-bit byte count (>= 4 GiB) or whose H+scrollback wraps in uint32 (on the pinned tree AttachTo computes both in uint32: NewVT(4, 2^32-1) on a 3x2 console allocates 9 bytes and the 4th character panics); covered up to 132x50+10, 2x2+349 and 80x25+80",
        "colours are the console's DefaultColors(): the recording console reports 7/0 or any seeded pair 0..255; the shipped consoles always report 7/0; tty.VT offers no call that changes the current colours",
        "bytes are written with WriteByte and with Write (slices of 0..2W+2 bytes, every byte value 0..255); SetState is only called with the two defined states; a terminal is attached once",
        "uint32 arguments are logged saturated at 2^30 (TLC integers are 32 bit); the reference clips to the viewport, so nothing it needs is lost",
        "trusted Go: operation-list decoder, event logger, cell-code packing in harness/tty (no expected results in them)",
    ],
    "C18": [
        "what the terminal holds is VT.data / VT.viewportY as observed (C18 compares the console with the terminal's own viewport, not with the C17 reference)",
        "text mode: a cell shows the character / attribute pair stored in it; frame buffer: a cell shows <<ch, fg, bg>> iff its pixels equal the font glyph of ch rendered with palette entries fg/bg in the frame buffer's pixel format (exact comparison; pictures that two triples share - blank glyph, inverse glyph pairs of the cp437 fonts - are compared up to that equivalence, defined in VTConsole!Canon from the font's glyph classes logged at attach time)",
        "frame buffers: depths 8/15/16/24/32 with 5-5-5 and 5-6-5 (RGB and BGR), 8-8-8 (24 bpp RGB/BGR; 32 bpp XRGB, XBGR and RGBX / BGRX with a colour component in bits 24-31), pitch = row bytes + {0,1,3,4,7,17,32,255,1000}, partial cells right of / below the grid, the three shipped fonts and synthetic fonts 5x7, 9x5, 16x6, 17x3 (1, 2, 2 and 3 bytes per glyph row, garbage in the unused bits), logo heights 0/1/5/13/64; a 32 bpp pixel is read with all four bytes and masked by the union of the component masks (bits no component uses are not displayed)",
        "NOT covered: colour masks wider than 8 bits (the driver's palette has 8-bit components), fonts with fewer than 256 glyphs, a logo taller than the screen (SetLogo itself fails before a terminal exists), consoles of 0 columns / rows (see C17)",
        "outside the grid = guard bytes directly before / after the mapped frame buffer, the logo rows and the padding bytes after every pixel row; partial cells right of / below the grid are not compared (Scroll moves whole visible rows)",
        "the consoles are built through exported API only (New*, DriverInit, SetLogo, SetFont); the overlay shim harness/tty/c18_console_shim.go binds the two hardware seams (mapRegionFn, portWriteByteFn) to host memory, as the repository's own console tests do",
        "SetState(inactive) itself is not constrained (the statement speaks about writes while active / inactive and about activation)",
        "legs G and T attach the terminal while inactive and activate it afterwards; the order the kernel really uses is observed in leg H (the real hal.onDriverInit / linkTTYToConsole driving recorder-wrapped real VTs; the monitor follows SetState calls made before AttachTo); between checkpoints of big screens only the calls, the call count and the bytes outside the grid are judged",
    ],
}


def _harness(prop):
    return (H17, SHIM17) if prop == "C17" else (H17, SHIM18)


def _kinds(prop):
    return "rec" if prop == "C17" else "rec,vga,fb"


def _read_inputs(path):
    d = {}
    with open(path + ".inputs") as f:
        for line in f:
            c = json.loads(line)
            d[c["id"]] = c
    return d


def _trim(ev):
    e = dict(ev)
    for k in ("data", "scr", "gc", "gi"):
        if isinstance(e.get(k), list) and len(e[k]) > 40:
            e[k] = e[k][:40] + ["... %d values" % len(e[k])]
    if isinstance(e.get("calls"), list) and len(e["calls"]) > 12:
        e["calls"] = e["calls"][:12] + ["... %d calls" % len(e["calls"])]
    return e


def _go(ctx, prop, test, env, timeout):
    files, extra = _harness(prop)
    env = dict(env, VERIF_LEG=env.get("VERIF_LEG", "G" if test.endswith("Cases") else "T"))
    rc, out, wall = ctx.gotest("kernel", "device/tty", files, test, env=env, timeout=timeout, extra_files=extra)
    tr = env.get("TRACE_OUT")
    if rc != 0 or not os.path.exists(tr + ".status") or os.path.getsize(tr) == 0:
        raise vlib.Broken("tty harness %s failed:\n%s" % (test, out[-3000:]))
    with open(tr + ".status") as f:
        st = json.load(f)
    if st.get("hangs"):
        ctx.note("%s: %d call(s) of the code under test did not return within the CPU budget (logged as res=hang)" % (test, st["hangs"]))
    return wall


def _split(path, max_events):
    """Split a recorded file at case boundaries into parts of at most ~max_events events (TLC reads a whole
    part into memory)."""
    with open(path) as f:
        if sum(1 for _ in f) <= max_events * 5 // 4:
            return [path]
    parts, out, n, k = [], None, 0, 0
    with open(path) as f:
        for line in f:
            if out is None:
                pp = "%s.part%d" % (path, k)
                k += 1
                parts.append(pp)
                out = open(pp, "w")
                n = 0
            out.write(line)
            n += 1
            if n >= max_events and line.startswith('{"k":"reset"'):
                out.close()
                out = None
    if out is not None:
        out.close()
    return parts


def _go_hal(ctx, env, timeout):
    """C18 hal leg: the real hal links console and terminal (package hal harness + the tty / console shims)."""
    rc, out, wall = ctx.gotest("kernel", "hal", HAL18, "TestVerifC18HalLink", env=env, timeout=timeout, extra_files=SHIM18)
    tr = env.get("TRACE_OUT")
    if rc != 0 or not os.path.exists(tr + ".status") or os.path.getsize(tr) == 0:
        raise vlib.Broken("hal link harness failed:\n%s" % out[-3000:])
    return wall


def _judge(ctx, prop, name, paths, parallel, timeout):
    """Leg V on recorded files (judged together); turns mismatches into violations with exact replay inputs."""
    if isinstance(paths, str):
        paths = [paths]
    path = paths[0]
    if len(paths) > 1:
        path = os.path.join(ctx.work, "trace_%s.ndjson" % name.replace("+", "_"))
        with open(path, "w") as out:
            for p in paths:
                with open(p) as f:
                    for line in f:
                        out.write(line)
    parts = _split(path, 400000)
    acc, nev, mism = 0, 0, []
    for i, pp in enumerate(parts):
        a, e, m = ctx.validate_traces("VTTrace", "VTTrace" + prop, pp, ("tty",),
                                      name=name if len(parts) == 1 else "%s.%d" % (name, i),
                                      parallel=parallel, timeout=timeout)
        acc, nev, mism = acc + a, nev + e, mism + m
        if len(parts) > 1:
            open(pp, "w").close()       # free the space (vlib names work files by directory count: never delete)
        if mism:
            break
    inputs = {}
    for p in paths:
        for c in _read_inputs(p).values():
            inputs[(c.get("leg", ""), c["id"])] = c
    seen = set()
    for m in mism[:3]:
        att = next((x for x in m["case_events"] if x.get("k") == "attach"), m["case_events"][0])
        rep = inputs.get((att.get("leg", ""), att.get("id")))
        ev = m["case_events"][m["line_in_case"] - 1]
        key = json.dumps(m["mismatch"][1:])
        if key in seen:
            continue
        seen.add(key)
        ctx.violation({"leg": att.get("leg", name), "mismatch": m["mismatch"], "event_in_case": m["line_in_case"],
                       "console": att.get("cons"), "fbcfg": att.get("fbcfg", ""),
                       "geometry": {k: att.get(k) for k in ("w", "h", "sb", "tab")}, "event": _trim(ev)}, rep)
    # evidence: distinct non-trivial cases = distinct (geometry, console, operation list) with at least one stored byte
    nsamp = 0
    for c in inputs.values():
        if any(op[0] == 0 and op[1] not in (8, 9, 10, 13) for op in c["ops"]):
            ctx.distinct([c["w"], c["h"], c["sb"], c["tab"], c["kind"], c["ops"] if len(c["ops"]) < 50 else hash(json.dumps(c["ops"]))])
            if nsamp < 2 and 2 <= len(c["ops"]) <= 12:
                ctx.sample({"leg": name, "case": c})
                nsamp += 1
    return acc, nev, mism


def run_tty(ctx, prop):
    q = ctx.quick
    n = prop[1:]                           # "17" / "18"
    ctx.assumptions += ASSUME[prop]
    ctx.rule = ("case = (console kind + configuration, W, H, scrollback, tab width, operation list of WriteByte / "
                "SetCursorPosition / SetState calls); leg G replays the operation lists TLC wrote while exploring the "
                "small scope (W,H 1..3, scrollback 0..2, tab 0..2, bytes a b CR LF BS HT, cursor arguments 0..4 and 2^32-1), "
                "leg T draws seeded random streams at real scale; a case is distinct by console kind, geometry and "
                "operation list and non-trivial when it stores at least one character")
    d = ctx.spec_dir("tty")
    seedenv = {"EMITSEED": ctx.seed}
    cases = os.path.join(ctx.work, "cases.ndjson")
    tr_t = os.path.join(ctx.work, "trace_t.ndjson")
    tr_g = os.path.join(ctx.work, "trace_g.ndjson")

    # ---- leg T recording runs while TLC explores (different resources: one Go process vs. the JVM)
    terr = []

    def record_t():
        try:
            _go(ctx, prop, "TestVerifC17Random",
                {"TRACE_OUT": tr_t, "VERIF_TTY_CONS": _kinds(prop), "NTRACES": 1 if q else (6 if prop == "C17" else 4)}, 900)
        except Exception as e:          # re-raised in the main thread
            terr.append(e)
    # design mutants: tiny runs (TLC stops at the first rejected state), in their own thread
    def mutants():
        try:
            for b in (BUGS[prop][:3 if prop == "C18" else 2] if q else BUGS[prop]):
                ctx.expect_model_violation(d, "MCVT", "MCVTBug_" + b, workers=2, timeout=600)
        except Exception as e:
            terr.append(e)
    tr_h = os.path.join(ctx.work, "trace_h.ndjson")

    def record_h():
        try:
            _go_hal(ctx, {"TRACE_OUT": tr_h, "NTRACES": 36 if q else 360}, 900)
        except Exception as e:
            terr.append(e)
    ths = [threading.Thread(target=record_t), threading.Thread(target=mutants)]
    if prop == "C18":
        ths.append(threading.Thread(target=record_h))
    for th in ths:
        th.start()

    # ---- leg M
    try:
        if q:
            # small runs: one worker is as fast as many and keeps the emitted cases deterministic
            ctx.model_check(d, "MCVT", "MCVT%sQuick" % n, env=dict(seedenv, CASES=cases), workers=1, timeout=600)
            ctx.model_check(d, "MCVT", "MCVT%sQuickDeep" % n, env=dict(seedenv, CASES=cases), workers=1, timeout=600)
            if prop == "C18":
                ctx.model_check(d, "MCVT", "MCVT18FbQuick", workers=1, timeout=600)
        else:
            ce = dict(seedenv, CASES=cases)
            ctx.model_check(d, "MCVT", "MCVT%sFull" % n, env=ce, timeout=2400)          # all 81 geometries, 5 operations
            ctx.model_check(d, "MCVT", "MCVT%sFullDeep" % n, env=ce, timeout=2400)      # 3x3+2 tab 2, 7 operations
            ctx.model_check(d, "MCVT", "MCVT%sFullDeep2" % n, env=ce, timeout=2400)     # 2x2+1 tab 2, 8 operations
            if prop == "C18":
                ctx.model_check(d, "MCVT", "MCVT18FbFull", timeout=1200)
            r = ctx.model_check(d, "MCVT", "MCVT%sEmitFull" % n, env=dict(seedenv, CASES=cases), workers=1,
                                timeout=2400, name="emit-cases")
            ctx.cov["states"] -= r.distinct          # a sub-scope of the Full run, not new states
            ctx.cov["transitions"] -= r.generated
    finally:
        for th in ths:
            th.join()
    if terr:
        raise terr[0]

    # ---- leg G: replay what TLC enumerated
    with open(cases) as f:
        ncase_lines = sum(1 for _ in f)
    env = {"CASES": cases, "TRACE_OUT": tr_g, "VERIF_TTY_CONS": _kinds(prop)}
    if prop == "C18":
        # every case on the recording console; every 3rd (quick) / 6th (thorough) also on the real consoles
        env["VERIF_TTY_KINDMOD"] = 3 if q else 6
    _go(ctx, prop, "TestVerifC17Cases", env, 1800)
    ctx.cov["legs"]["emit"] = {"case_lines_from_tlc": ncase_lines}

    # ---- leg V
    extra = [tr_h] if prop == "C18" else []
    if q:
        _judge(ctx, prop, "G+T" + ("+H" if extra else ""), [tr_g, tr_t] + extra, 5, 2400)
    else:
        _judge(ctx, prop, "G-cases", tr_g, 16, 2400)
        _judge(ctx, prop, "T-random", tr_t, 16, 2400)
        if extra:
            _judge(ctx, prop, "H-hal-link", tr_h, 16, 2400)
    ctx.cov["exhaustive"] = (not q) and not ctx.violations
    ctx.cov["explanation"] = (
        "thorough: for every distinct (state, depth) TLC found within 2 operations in each of the 81 geometries, every "
        "one of the 44 operations of the scope was replayed on the real code (every transition of the explored graph "
        "up to depth 3) and judged, plus the path to a seeded 1/16 of the states of the 5-operation (all geometries) and "
        "7-operation (3x3+2) runs and 1/4 of the 8-operation 2x2+1 run; quick: the path to a seeded quarter of the states "
        "(3 operations, all geometries; 6 operations, 2x2+1)")


def replay_tty(ctx, prop, path):
    with open(path) as f:
        rep = json.load(f)["replay"]
    if not rep:
        raise vlib.Broken("replay file has no input")
    cf = os.path.join(ctx.work, "replay_case.ndjson")
    with open(cf, "w") as f:
        f.write(json.dumps(rep) + "\n")
    tr = os.path.join(ctx.work, "trace_replay.ndjson")
    if rep.get("hal"):
        _go_hal(ctx, {"CASES": cf, "TRACE_OUT": tr}, 600)
    else:
        _go(ctx, prop, "TestVerifC17Cases", {"CASES": cf, "TRACE_OUT": tr, "VERIF_TTY_CONS": _kinds(prop)}, 600)
    _judge(ctx, prop, "replay", tr, 1, 900)
    ctx.cov["states"] = max(ctx.cov["states"], 1)
    ctx.cov["transitions"] = max(ctx.cov["transitions"], 1)
    return None
