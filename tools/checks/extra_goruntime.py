"""extra-goruntime: the Go-runtime memory hooks of kernel/goruntime/bootstrap.go (sysReserve, sysMap, sysAlloc, getRandomData,
nanotime, Init / SetCPUCount) composed with the REAL vmm and pmm on the simulated machine of extra-boot.
specs/goruntime/{GoRtProps,GoRt,MCGoRt,GoRtTrace}.tla; harness/goruntime/xg_test.go (package goruntime) + three overlay files:
xg_rt_shim.go REPLACES bootstrap_go18+.go (the go:linkname declarations the host toolchain cannot link) by recording stubs,
xg_vmm_shim.go / xg_pmm_shim.go are export shims overlaid into kernel/mm/vmm and kernel/mm/pmm.  bootstrap.go itself is compiled
unchanged from VERIF_REPO."""
import json, os, random, re
import vlib

HARNESS = ["goruntime/xg_test.go"]
EXTRA = {"kernel/goruntime/bootstrap_go18+.go": "goruntime/xg_rt_shim.go",
         "kernel/mm/vmm/zz_verif_xg_shim.go": "goruntime/xg_vmm_shim.go",
         "kernel/mm/pmm/zz_verif_xg_shim.go": "goruntime/xg_pmm_shim.go"}
SPECS = ("goruntime",)
BUGS = ["RoundDown", "MapRW", "ReuseFrame", "StatUnrounded", "NoRsvCheck", "NoZero", "MapOffByOne", "CowSharesZero"]
BIG = ("chg", "nf", "ff", "tabs", "arena", "a", "b", "c")
U64 = (1 << 64) - 1

STATEMENTS = [
    "R1 sysReserve(size) reserves a region of roundup(size, 4096) bytes of kernel address space: page-aligned result, *reserved = true, the region lies "
    "inside the space this call took from vmm's reservation area, which nothing reserved before (no overlap with earlier regions, sysAlloc regions or "
    "earlier reservations; where vmm places it and how much slack it adds is not constrained), no mapping, no frame; when the space cannot be reserved "
    "it panics and changes nothing",
    "R2 sysMap(addr, size, reserved, stat): reserved = false panics before any effect; otherwise every page of [roundup(addr), roundup(addr)+roundup(size)) "
    "ends up mapped to the zero frame with exactly Present|NoExecute|CopyOnWrite (never writable), no other page changes, no frame is taken apart from "
    "page-table frames, *stat grows by exactly roundup(size), result roundup(addr); a failing map (only for lack of RAM) yields 0 and leaves *stat alone",
    "R3 sysAlloc(size, stat) reserves roundup(size) bytes as R1 and maps every page to a distinct frame freshly obtained from pmm (never the zero frame, "
    "never a frame mapped elsewhere) with exactly Present|NoExecute|RW; every byte reads zero; *stat grows by roundup(size); when reservation, frame "
    "allocation or mapping fails the result is 0 and *stat is unchanged",
    "R4 a store to a sysMap'ed page goes through the page-fault handler vmm.Init installed exactly once and gives that page a private writable zero-filled "
    "frame freshly obtained from pmm; no other page changes; later stores do not fault; without a free frame the fault never resumes",
    "R5 getRandomData fills every byte and nothing behind the slice, deterministically from prngSeed, and the stream continues across calls (n then m bytes "
    "= n+m bytes, same final seed); nanotime is the constant 1; Init calls mallocInit, algInit, modulesInit, typeLinksInit, itabsInit, procResize(1), "
    "initGoPackages once each in that order and returns nil; SetCPUCount(n) calls procResize(n) once; none of them (nor the package's init()) touches the machine",
    "R6 frame accounting of the composed system: the hooks never give a frame back; every frame that leaves pmm during a call is a page table of the active "
    "address space or the frame of a page the call mapped; the zero frame stays zero-filled, is never mapped writable and never handed out",
]
DEVIATIONS = {
    "WrapZero": "Dev_WrapZero: a size above 2^64-4096 makes the page round-up wrap to 0 and the hooks treat the request as size 0 - sysReserve / sysAlloc "
                "succeed with an EMPTY region, sysMap maps nothing and reports success (vmm.EarlyReserveRegion itself rejects such sizes since the fix "
                "'reject region sizes whose page round-up overflows', but the hooks round before they call it); the monitor tolerates this and "
                "always accepts a refusal without effect",
    "MapStartUp": "Dev_MapStartUp: sysMap rounds an unaligned addr UP and keeps the size: the page that holds addr is not mapped and the range ends "
                  "roundup(addr)-addr bytes behind addr+size; a sysMap of the last page of a reserved region with an unaligned addr maps the page BEHIND the "
                  "region (whatever was reserved before it: another heap region, or the frame allocator's own tables)",
    "AllocLeak": "Dev_AllocLeak: a sysAlloc that fails after its reservation succeeded (frame or page-table allocation out of memory) releases nothing: "
                 "the address space stays reserved, the pages mapped so far keep their frames and a frame whose mapping failed is lost",
}
# hand-written inputs that show each deviation against the natural reading (raw cases of the harness)
DEV_PROBES = {
    "WrapZero": {"ram": 64, "stat": 7, "ops": [[1, U64], [3, U64 - 100], [1, 4096], [2, 2, 0, U64 - 4094, 1]]},
    "MapStartUp": {"ram": 64, "stat": 7, "ops": [[1, 16384], [1, 8192], [2, 1, 4097, 4095, 1]]},
    "AllocLeak": {"ram": 64, "stat": 7, "ops": [[0, 2], [3, 16384]]},
}
ASSUME = [
    "kernel/goruntime/bootstrap.go is compiled UNCHANGED; the only file of the package that is replaced is bootstrap_go18+.go (declarations of runtime "
    "internals by go:linkname, which the host toolchain refuses to link): the overlay declares mallocInit, algInit, modulesInit, typeLinksInit, itabsInit, "
    "procResize as recording stubs and mSysStatInc(p, n) as *p += n (the runtime's contract); bootstrap_go17.go is excluded by its own build tags; "
    "initGoPackages (go:linkname main.init in bootstrap.go) links against the test binary's main.init and is observed through the initGoPackagesFn seam",
    "composition: goruntime's seams earlyReserveRegionFn and mapFn stay the real vmm.EarlyReserveRegion / vmm.Map, frames come from the real pmm through "
    "mm.AllocFrame as registered by the real pmm.Init, the page-fault handler is the one the real vmm.Init installed; every case starts with the real boot "
    "path multiboot.SetInfoPtr -> pmm.Init -> vmm.Init on a fresh machine (8 MiB RAM in a memfd, software MMU behind vmm's hardware seams, as extra-boot)",
    "memsetFn = the REAL kernel.Memset composed with the CPU's address translation (software MMU: present + writable, else a write fault is delivered to "
    "the installed handler and the access retried once): the hooks clear memory through kernel-half addresses that cannot exist in a user process",
    "write faults (R4) are exercised on sysMap'ed regions in a low-half arena of 16 pages that exist in the host (each page aliases what the active address "
    "space maps there, PROT_NONE / read-only honoured): a real store instruction, SIGSEGV = page fault delivered with CR2 / error code to the installed "
    "handler, store retried.  The real handler copies from the faulting address itself, which rules out kernel-half addresses in a user process; sysMap "
    "itself never inspects its address beyond rounding",
    "bootstrap.go's init() calls the hooks with zero sizes during package initialisation: the machine is built and booted from a package-level variable "
    "initialiser of the harness (runs before any init() of the package), so these calls hit a live machine; what they did is logged and judged as the "
    "first case (pkginit).  A panic inside init() kills the test binary and is reported as a violation by the check",
    "domain: sysMap is never asked to map pages at or above the reservation cursor the boot left behind (kernel image, allocator tables) nor more than 4096 "
    "pages at once; stores go to arena pages; sizes: 0, 1, 4095..4097, 8191..8193, 64 KiB +-1, around 2 MiB (new page table), 1-3 GiB on machines with "
    "few frames, sizes beyond the address space and sizes whose page round-up wraps",
    "the MMU of the simulated machine translates address bits 12..47 (pages are identified by these bits); hardware semantics as in extra-boot",
    "trusted Go: multiboot encoder, software MMU, page-table enumeration + diff, bitmap read-out, event logger (no expected results in them)",
    "design model GoRt.tla: 10-bit addresses, 4 units per page, pmm = lowest free frame, vmm.Map needs three page-table frames for the first page of an area "
    "and refuses the zero frame writable; its predictions are not used as an oracle: the monitor judges what the real code did",
]


def cases_of(path):
    cur = []
    with open(path) as f:
        for line in f:
            if not line.endswith("\n"):
                break
            e = json.loads(line)
            cur.append(e)
            if e.get("k") == "reset":
                yield cur
                cur = []


def slim(e):
    return {k: (v if k not in BIG or len(v) <= 6 else v[:3] + ["... %d entries" % len(v)]) for k, v in e.items() if k != "case"}


def sample_lines(srcs, dst, n, seed):
    lines = []
    for s in srcs:
        if os.path.exists(s):
            with open(s) as f:
                lines += [l for l in f if l.strip()]
    lines = sorted(set(lines))
    total = len(lines)
    if n and total > n:
        lines = random.Random(seed).sample(lines, n)
    with open(dst, "w") as f:
        f.writelines(lines)
    return total, len(lines)


def harness(ctx, test, env, leg, trace, timeout=600, cpu_s=90):
    """Runs the harness in a child process under the CPU watchdog.  A call of a hook that does not return, or a crash of the
    test binary inside the code under test, is a verdict about the code (reported), not a machinery failure."""
    pend = os.path.join(ctx.work, "xg_pending_%s.rec" % leg)
    env = dict(env, TRACE_OUT=trace, VERIF_LEG=leg)
    rc, out, _ = ctx.gotest("kernel", "goruntime", HARNESS, test, env=env, extra_files=EXTRA, timeout=timeout,
                            hang_guard={"pending": pend, "cpu_s": cpu_s})
    if rc == 0:
        return out
    # keep the complete events, close the open case so that the monitor judges the prefix
    tail = []
    if os.path.exists(trace):
        with open(trace) as f:
            lines = [l for l in f.readlines() if l.endswith("\n")]
        tail = [slim(json.loads(l)) for l in lines[-4:]]
        with open(trace, "w") as f:
            f.writelines(lines)
            if lines and json.loads(lines[-1]).get("k") != "reset":
                f.write(json.dumps({"k": "reset", "leg": leg}) + "\n")
    else:
        with open(trace, "w") as f:
            f.write(json.dumps({"k": "reset", "leg": leg}) + "\n")
    case = None
    try:
        with open(pend + ".case") as f:
            case = json.load(f)
    except Exception:
        pass
    if rc == -9:
        h = ctx.last_hang
        ctx.violation({"leg": leg, "mismatch": [0, "R1-R3", ["a call of a hook did not return (CPU watchdog)", h]], "last_events": tail},
                      {"mode": "hang", "pending": h, "case": case})
        return out
    m = re.search(r"(panic: .*|fatal error: .*|unexpected fault address.*)", out)
    if m and ("goruntime.init" in out or "goruntime.sys" in out or "bootstrap.go" in out):
        ctx.violation({"leg": leg, "mismatch": [0, "R5", ["the test binary died inside the code under test", m.group(1)[:300]]],
                       "where": [l.strip() for l in out.splitlines() if "bootstrap.go" in l][:4], "last_events": tail},
                      {"mode": "crash", "output": out[-2000:], "case": case})
        return out
    raise vlib.Broken("extra-goruntime harness %s failed (rc %s):\n%s" % (test, rc, out[-3000:]))


def report(ctx, mism, limit=2):
    seen = {}
    for m in mism:
        last = m["case_events"][-1]
        leg = last.get("leg", "?")
        seen[leg] = seen.get(leg, 0) + 1
        if seen[leg] <= limit:
            ev = m["case_events"][m["line_in_case"] - 1]
            ctx.violation({"leg": leg, "mismatch": m["mismatch"], "event": slim(ev)},
                          {"case": json.loads(last["case"]) if last.get("case") else None})


def record(ctx, name, path):
    nd = 0
    for ev in cases_of(path):
        if len(ev) < 3:
            continue
        ctx.distinct(ev[-1].get("case"))
        if nd < 2 and any(e["k"] in ("alloc", "map") for e in ev):
            ctx.sample({"leg": name, "case": json.loads(ev[-1]["case"]), "events": [slim(e) for e in ev[1:5]]})
            nd += 1


def dev_probes(ctx):
    """Each deviation is shown on a hand-written input: the monitor with the switch set to the natural reading must reject what the
    real code does there (reported as a note, never as a violation).  One harness run, one small TLC run per switch."""
    names = sorted(DEV_PROBES)
    cf = os.path.join(ctx.work, "xg_dev_cases.ndjson")
    with open(cf, "w") as f:
        for name in names:
            f.write(json.dumps(DEV_PROBES[name]) + "\n")
    tr = os.path.join(ctx.work, "xg_trace_dev.ndjson")
    nv = len(ctx.violations)
    harness(ctx, "TestVerifXgCases", {"CASES": cf, "VERIF_RAW": 1}, "dev-probes", tr, timeout=300)
    if len(ctx.violations) > nv:
        return
    for name in names:
        case = DEV_PROBES[name]
        acc, nev, mism = ctx.validate_traces("GoRtTrace", "GoRtTraceNat_" + name, tr, SPECS, name="V-dev-" + name, parallel=1, timeout=300)
        shown = [m for m in mism if m["case_events"][-1].get("case") == json.dumps(case, separators=(",", ":"))]
        if shown:
            m = shown[0]
            ev = m["case_events"][m["line_in_case"] - 1]
            ctx.note("%s | reproducer (harness ops, ram = frames of RAM): %s | the natural reading is violated at %s: %s" % (
                DEVIATIONS[name], json.dumps(case), json.dumps({k: ev[k] for k in ("k", "addr", "size", "ret", "res") if k in ev}),
                json.dumps(m["mismatch"][1:])[:400]))
        elif mism:
            ctx.note("%s | the probe %s was accepted under the natural reading, another probe was rejected instead: %s" % (
                DEVIATIONS[name], json.dumps(case), json.dumps(mism[0]["mismatch"][1:])[:300]))
        else:
            ctx.note("%s | NOT observed on this tree any more (probe %s accepted under the natural reading)" % (DEVIATIONS[name], json.dumps(case)))
    ctx.cov["legs"]["deviations"] = names


def run(ctx):
    q = ctx.quick
    ctx.assumptions += ASSUME
    ctx.cov["statements"] = STATEMENTS
    ctx.rule = ("case = (frames of RAM, initial *stat, script of hook calls); leg G replays the scripts TLC explored in the small scope (address space of 3-4 "
                "pages left, 2-8 free frames, sizes 0 / 1 byte / 1 page / 1 page + 1 / 2 pages / beyond the space / wrapping round-up, sysMap at aligned and "
                "unaligned offsets of earlier regions incl. the spill into the neighbour region, arena pages + stores) on the real hooks; leg T draws seeded "
                "random scripts of 5-18 calls at real scale (sizes around page multiples, 64 KiB, 2 MiB, 1-3 GiB on machines with few frames, beyond the "
                "address space, wrapping; exhaustion of frames and of the address space); a case is distinct by its input")
    d = ctx.spec_dir(*SPECS)
    tier = "Quick" if q else "Full"
    # ---- leg M: the design satisfies the monitor on every script of the scope; the scripts are emitted on the way
    cf = os.path.join(ctx.work, "xg_cases.ndjson")
    ctx.model_check(d, "MCGoRt", "MCGoRt" + tier, env={"CASES": cf}, workers=2 if q else 8, timeout=300 if q else 1500)
    k = 2 if q else len(BUGS)
    order = BUGS[(ctx.seed * 2) % len(BUGS):] + BUGS[:(ctx.seed * 2) % len(BUGS)]
    for b in order[:k]:
        ctx.expect_model_violation(d, "MCGoRt", "MCGoRtBug_" + b, workers=2, timeout=300)
    if not q:
        # the deviations are real at design level too: the model of the code as written violates the natural reading
        for dv in sorted(DEVIATIONS):
            ctx.expect_model_violation(d, "MCGoRt", "MCGoRtDev_" + dv, workers=2, timeout=300)
    # ---- leg G: replay the emitted scripts on the real code
    gcases = os.path.join(ctx.work, "xg_gcases.ndjson")
    total, used = sample_lines([cf], gcases, 500 if q else 0, ctx.seed)
    ctx.cov["legs"]["emitted-cases"] = {"emitted": total, "replayed": used}
    trg = os.path.join(ctx.work, "xg_trace_g.ndjson")
    nv = len(ctx.violations)
    harness(ctx, "TestVerifXgCases", {"CASES": gcases}, "G-cases", trg, timeout=900, cpu_s=90 if q else 600)
    # ---- leg T: random scripts at real scale (skipped when the test binary already died / hung in leg G)
    trt = os.path.join(ctx.work, "xg_trace_t.ndjson")
    if len(ctx.violations) == nv:
        harness(ctx, "TestVerifXgRandom", {"NTRACES": 150 if q else 4000}, "T-random", trt, timeout=900, cpu_s=90 if q else 600)
    else:
        with open(trt, "w") as f:
            f.write(json.dumps({"k": "reset", "leg": "T-random"}) + "\n")
    # ---- leg V: the TLA+ monitor judges every recorded event
    tra = os.path.join(ctx.work, "xg_trace_all.ndjson")
    with open(tra, "w") as f:
        for p in (trg, trt):
            with open(p) as g:
                f.write(g.read())
    acc, nev, mism = ctx.validate_traces("GoRtTrace", "GoRtTrace", tra, SPECS, name="V-G+T", parallel=4 if q else 16, timeout=1500)
    record(ctx, "G-cases", trg)
    record(ctx, "T-random", trt)
    report(ctx, mism)
    # vacuity guard: every kind of event / outcome the monitor distinguishes must have been produced on the real code
    seen = set()
    for p in (trg, trt):
        for ev in cases_of(p):
            for e in ev:
                kind = e["k"]
                if kind in ("alloc", "map") and e.get("res") == "ok":
                    z = all(x == 0 for x in e["ret"])
                    grown = e["s0"] != e["s1"]
                    kind += ":fail" if z and not grown else ":ok"
                    if kind == "alloc:fail" and e["chg"]:
                        kind = "alloc:fail-leak"
                elif kind == "store":
                    kind += ":%s:%d" % (e["res"][:5], min(e["nfl"], 1))
                else:
                    kind += ":" + (e.get("res") or "")[:5]
                seen.add(kind)
    need = {"rsv:ok", "rsv:panic", "map:ok", "map:fail", "map:panic", "alloc:ok", "alloc:fail", "alloc:fail-leak", "store:ok:1", "store:ok:0",
            "store:panic:1", "hold:ok", "pkginit:", "rnd:ok", "nano:ok", "init:ok", "cpu:ok"}
    ctx.cov["legs"]["event-kinds"] = {"seen": sorted(seen), "missing": sorted(need - seen)}
    if not ctx.violations and need - seen:
        raise vlib.Broken("vacuity guard: the legs never produced %s" % sorted(need - seen))
    # ---- the deviations, each shown on a concrete input
    if not ctx.violations and not q:
        dev_probes(ctx)
    elif q:
        for name in sorted(DEVIATIONS):
            ctx.note("%s | reproducer (harness ops): %s (validated against the natural reading in the thorough tier)" % (
                DEVIATIONS[name], json.dumps(DEV_PROBES[name])))
    ctx.cov["exhaustive"] = (not q) and not ctx.violations
    ctx.cov["explanation"] = ("exhaustive = every script of the TLC small scope was replayed on the real code (thorough tier); the quick tier replays a "
                              "seeded sample of them")


def replay(ctx, path):
    with open(path) as f:
        rep = json.load(f)["replay"]
    if not rep.get("case"):
        ctx.note("replay of a %s verdict: re-run the tier" % rep.get("mode"))
        return None
    cf = os.path.join(ctx.work, "xg_replay.ndjson")
    with open(cf, "w") as f:
        f.write(json.dumps(rep["case"]) + "\n")
    tr = os.path.join(ctx.work, "xg_trace_replay.ndjson")
    harness(ctx, "TestVerifXgCases", {"CASES": cf, "VERIF_RAW": 1}, "replay", tr, timeout=300)
    acc, nev, mism = ctx.validate_traces("GoRtTrace", "GoRtTrace", tr, SPECS, name="replay", parallel=1)
    report(ctx, mism)
    ctx.cov["states"] = max(ctx.cov["states"], 1)
    ctx.cov["transitions"] = max(ctx.cov["transitions"], 1)
    return None
