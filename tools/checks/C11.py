"""C11: well-formed AML is parsed into a namespace that matches the program.
DESIGN.md 4.9; specs/aml/AmlNs.tla (the ACPI namespace loader), AmlNsImpl.tla (abstract parser design),
MCAmlNs.tla (program generator, legs M/G), AmlNsTrace.tla (monitor, leg V); harness/aml/c11_*.go."""
import concurrent.futures, hashlib, json, os, random, re
import vlib

HARNESS = ["aml/c11_harness_test.go", "aml/c11_random_test.go"]
PKG = "device/acpi/aml"
TRIGGERS = ["D1", "D1b", "D2", "D2c", "D3", "D5", "D6", "D7", "D8", "D9", "D10", "D11", "D12", "D13", "D14", "D15", "D16"]           # ids that have a trigger predicate in AmlNs.tla
# findings without a trigger of their own: their constructs are excluded through these
VIA = {"D4": ["D3"], "D6": ["D5", "D7"]}
ASSUME = [
    "well-formed = accepted by the loader of AmlNs.tla: every Scope/declaration path resolves when it is read, no object is declared twice, "
    "every invocation names a method of the same or an earlier table (declared before or after the call) with the declared number of arguments",
    "objects: Device, ThermalZone, Processor, PowerRes, Method, Name (integer/string/buffer/package values), OpRegion, Field / IndexField / "
    "BankField (units, reserved and access elements; container names must designate a region / field units), Mutex, Event; "
    "Alias/External/DataRegion/Connection elements and declarations inside method bodies are not generated",
    "method bodies are compared through their invocations (callee and rendered arguments, source order): the property statement says nothing "
    "else about executable code",
    "trusted Go: token->AML encoder and tree->(namespace entries, invocations) projection in harness/aml/c11_harness_test.go; the random "
    "program generator's own bookkeeping is re-checked by the monitor (a slip is reported as a broken check, never as a verdict)",
]


def load_findings(ctx):
    """Open findings of C11: known_findings.json (lead's file), else the proposal in findings/C11.json."""
    kf = list(ctx.open_findings())
    fixed = " ".join(x for x in ctx.kf.get("fixed", []) if "property=C11" in x)

    def proposals(p):
        if not os.path.exists(p):
            return []
        with open(p) as f:
            return [e for e in json.load(f) if e.get("property") == "C11"]
    if os.environ.get("VERIF_C11_FINDINGS"):        # developer override: exactly this list
        kf = proposals(os.environ["VERIF_C11_FINDINGS"])
    else:                                           # plus proposals the lead has not merged yet
        have = {e.get("id") for e in kf}
        kf += [e for e in proposals(os.path.join(vlib.VERIF, "findings", "C11.json")) if e.get("id") not in have]
    return [e for e in kf if e.get("id") and not re.search(r"\b%s\b" % re.escape(e["id"]), fixed)]


def excluded_ids(findings):
    ex = set()
    for e in findings:
        if e["id"] in TRIGGERS:
            ex.add(e["id"])
        for t in VIA.get(e["id"], []):
            ex.add(t)
    return sorted(ex)


def prepare_specs(ctx, excl):
    d = ctx.spec_dir("aml")
    line = "  Excluded = {%s}\n" % ", ".join('"%s"' % x for x in excl)
    for fn in os.listdir(d):
        if fn.startswith("MCAmlNs") and fn.endswith(".cfg") and "Open_" not in fn:
            with open(os.path.join(d, fn)) as f:
                s = f.read()
            s = re.sub(r"  Excluded = \{[^}]*\}\n", line, s)
            with open(os.path.join(d, fn), "w") as f:
                f.write(s)
    return d


def monitor_env(excl):
    return {"OPEN_" + t: ("1" if t in excl else "0") for t in TRIGGERS}


def read_cases(path):
    out = []
    if not os.path.exists(path):
        return out
    with open(path) as f:
        for line in f:
            line = line.strip()
            if not line:
                continue
            v = json.loads(line)
            if isinstance(v, str):
                v = json.loads(v)
            out.append(v["toks"])
    return out


def write_progs(path, progs):
    with open(path, "w") as f:
        for i, toks in enumerate(progs):
            f.write(json.dumps({"id": i + 1, "toks": toks}, separators=(",", ":")) + "\n")


def describe(toks):
    """one-line rendering of a token stream for logs / evidence samples"""
    def form(f):
        return ("\\" if f["abs"] else "") + "^" * f["carets"] + ".".join(f["segs"])

    def term(x):
        t = x["t"]
        if t == "call":
            return form(x["f"]) + "(" + ",".join(term(a) for a in x["a"]) + ")"
        if t == "ref":
            return form(x["f"])
        if t == "op":
            return x["s"] + "(" + ",".join(term(a) for a in x["a"]) + ")"
        if t in ("arg", "local"):
            return "%s%d" % (t.capitalize(), x["n"][0])
        if t == "string":
            return json.dumps(x["s"])
        if t in ("buffer", "package"):
            return t.capitalize() + "(..)"
        if "n" not in x:
            return t
        return str(x["n"][0]) if len(x["n"]) == 1 else "0x" + "".join("%04x" % v for v in x["n"])
    out = []
    for t in toks:
        k = t["k"]
        if k == "scope":
            out.append("Scope(%s){" % form(t["f"]))
        elif k == "open":
            out.append("%s(%s){" % (t["kind"], form(t["f"])))
        elif k == "method":
            out.append("Method(%s,%d){" % (form(t["f"]), t["flags"]))
        elif k == "decl":
            out.append("%s(%s%s)" % (t["kind"], form(t["f"]), "".join("," + term(a) for a in t["args"])))
        elif k == "field":
            out.append("%s(%s%s%s){%s}" % (t.get("kind", "Field"), form(t["f"]), "," + form(t["g"]) if "g" in t else "",
                                           "".join("," + term(v) for v in t.get("v", [])), ",".join(e.get("name", e["e"]) + (":%d" % e["bits"] if "bits" in e else "") for e in t["els"])))
        elif k == "stmt":
            out.append(t["op"] + " " + " ".join(term(x) for x in t["x"]) + ";")
        elif k in ("if", "while"):
            out.append("%s(%s){" % (k.capitalize(), term(t["x"][0])))
        elif k == "else":
            out.append("Else{")
        elif k == "close":
            out.append("}")
        elif k == "endtable":
            out.append("<end of table>")
    return " ".join(out)


def run_go(ctx, g_in, g_out, t_out, n_random, r_in, r_out, excl, timeout=1500):
    env = {"C11_IN": g_in, "C11_OUT": g_out, "C11_PAR": max(1, min(4, vlib.maxpar())), "C11_N": n_random, "C11_RAND_OUT": t_out,
           "C11_OPEN": ",".join(excl), "C11_REPRO_IN": r_in, "C11_REPRO_OUT": r_out}
    rc, out, wall = ctx.gotest("kernel", PKG, HARNESS, "^TestVerifC11(Cases|Random|Repro)$", env=env, timeout=timeout)
    if rc != 0:
        raise vlib.Broken("C11 harness failed:\n" + out[-3000:])
    return wall


def judge_trace(ctx, path, name, excl, timeout=1500, parallel=None):
    """leg V in strict mode; returns the list of violations (dicts); a generator slip is Broken"""
    covered = os.path.join(ctx.work, "covered_%s.ndjson" % name.replace("+", "_"))
    acc, nev, mism = ctx.validate_traces("AmlNsTrace", "AmlNsTraceStrict", path, ("aml",), name=name, timeout=timeout,
                                         env=dict(monitor_env(excl), COVERED=covered), is_reset=lambda e: True, parallel=parallel)
    if os.path.exists(covered):     # programs the real parser rejected and that the design-model predicate of an open finding (D16) covers
        with open(covered) as f:
            n = sum(1 for l in f if l.strip())
        ctx.cov["legs"][name]["rejected_programs_covered_by_open_finding_D16"] = n
        ctx.log("%d rejected program(s) covered by the design-model predicate of open finding D16" % n)
    out = []
    for m in mism:
        mm = m["mismatch"]
        prog = m["case_events"][0]
        if mm[1] != "C11":
            raise vlib.Broken("generated program is outside the language of the check (%s): %s\n%s"
                              % (name, json.dumps(mm)[:800], describe(prog["toks"])[:1500]))
        out.append({"leg": "T-random" if prog.get("id", 0) > 1000000 else name, "why": mm[2], "program": describe(prog["toks"])[:3000], "toks": prog["toks"],
                    "res": prog["obs"]["res"], "err": prog["obs"]["err"]})
    return out


def outcome_class(verdict, obs):
    """how a reproducer failed: "pass" | "error" | "crash" | "panic" | "mismatch" """
    if verdict == []:
        return "pass"
    if obs["res"] != "ok":
        return obs["res"]
    return "mismatch"


def run_reproducers(ctx, findings, r_out, excl):
    """Each open finding's pinned reproducer was run in a child process; the monitor (repro mode: same
    exact oracle, trigger constructs allowed) says whether it still fails."""
    if not findings:
        return
    d = ctx.spec_dir("aml")
    env = dict(monitor_env(excl), TRACE=r_out)
    r = ctx.tlc(d, "AmlNsTrace", "AmlNsTraceRepro", workers=1, env=env, timeout=300, dump_trace=False, name="reproducers")
    verdicts = {}
    for m in re.finditer(r'<<"VERIF-REPRO", "(.*)">>', r.out):
        v = json.loads(json.loads('"' + m.group(1) + '"'))
        verdicts[v[0]] = v[1]
    obs = {e["id"]: e["obs"] for e in vlib.read_ndjson(r_out)}
    if r.violated or len(verdicts) != len(findings):
        raise vlib.Broken("reproducer validation failed (%s):\n%s" % (r.violated, r.out[-2000:]))
    for i, e in enumerate(findings):
        v, o = verdicts[i + 1], obs[i + 1]
        if v and v[1] == "GEN":
            raise vlib.Broken("reproducer of %s is not a well-formed program: %s" % (e["id"], json.dumps(v)[:600]))
        cls = outcome_class(v, o)
        ctx.cov["legs"]["reproducers"].setdefault("outcomes", {})[e["id"]] = cls
        if cls == "pass":
            ctx.note("reproducer of finding %s now parses to exactly the expected namespace (finding can be closed)" % e["id"])
            continue
        if cls in e.get("fails", []):
            ctx.known_finding("%s %s" % (e["id"], e["what"]))
        else:
            ctx.violation({"leg": "reproducer", "finding": e["id"], "recorded_failure": e.get("fails"), "observed": cls,
                           "why": v[2] if v else None, "err": o["err"], "program": describe(e["reproducer"]["toks"])},
                          {"toks": e["reproducer"]["toks"], "mode": "strict-open-none"})


def run(ctx):
    q = ctx.quick
    ctx.assumptions += ASSUME
    findings = load_findings(ctx)
    excl = excluded_ids(findings)
    ctx.rule = ("a case = one complete program (token stream); leg G replays every program TLC enumerated in the small scopes "
                "(name forms x Scope directives; all object kinds/values/field lists/package-length widths; method bodies with "
                "forward/nested invocations and If/Else; dependency chains that need 3 and 4 merge/relocate passes; invocations outside method bodies (Name value, Buffer size, OpRegion operands); Field/IndexField/BankField also in the earlier table of a two-table load; two-table loads), leg T draws seeded random programs of 50-400 objects over "
                "up to three tables; a case is distinct by its token stream and non-trivial when it declares at least one object")
    if excl:
        ctx.assumptions.append("generators leave out the trigger constructs of the open findings %s (predicates in AmlNs.tla); "
                               "each finding's pinned reproducer is run separately" % ",".join(e["id"] for e in findings))
    d = prepare_specs(ctx, excl)
    tier = "Quick" if q else "Full"
    profiles = ["Forms", "Kinds", "Fields", "Chains", "Calls", "NameCalls", "Tables"]

    # ---- leg M (+ emission for G): the generator's state graph is the tree of program prefixes; LoaderSound and Refines on all of it
    mp = vlib.maxpar()                                   # shared-machine cap on parallelism
    pool = max(1, min(4 if q else 2, mp))
    per = max(1, min(3 if q else 8, mp // pool))

    def mc(p):
        cases = os.path.join(ctx.work, "cases_%s.ndjson" % p)
        ctx.model_check(d, "MCAmlNs", "MCAmlNs%s%s" % (p, tier), workers=per, env={"CASES": cases}, timeout=1500 if q else 3000)
        return cases
    with concurrent.futures.ThreadPoolExecutor(max_workers=pool) as ex:
        case_files = list(ex.map(mc, profiles))
    # design mutants: wrong parser designs, and the pinned design on the trigger constructs of the open findings, must be rejected
    bugs = ["Bug_MergeIntoObject", "Bug_CountersResetPerPass"] if q else \
           ["Bug_MergeIntoObject", "Bug_UnitsNotAccumulated", "Bug_ArgcFromSyncBits", "Bug_CallsInFirstPass", "Bug_CountersResetPerPass"]
    opens = [x for x in (["Open_D1"] if q else ["Open_D1", "Open_D1b", "Open_D2", "Open_D3"]) if x[5:] in excl]
    pool2 = max(1, min(4, mp))
    with concurrent.futures.ThreadPoolExecutor(max_workers=pool2) as ex:
        list(ex.map(lambda b: ctx.expect_model_violation(d, "MCAmlNs", "MCAmlNs" + b, workers=max(1, min(2, mp // pool2)), timeout=900), bugs + opens))

    # ---- leg G input: all emitted programs (thorough) or a seeded sample (quick); lines are passed on unparsed
    n_progs, emitted = 0, 0
    rnd = random.Random(ctx.seed)
    g_in = os.path.join(ctx.work, "g_in.ndjson")
    with open(g_in, "w") as gf:
        for p, cf in zip(profiles, case_files):
            lines = []
            if os.path.exists(cf):
                with open(cf) as f:
                    lines = [l for l in f if l.strip()]
            emitted += len(lines)
            ctx.cov["legs"]["MCAmlNs%s%s" % (p, tier)]["programs_emitted"] = len(lines)
            if q and len(lines) > 1500:      # seeded sample; programs the design model resolves in >= 3 passes are always kept
                deep = [l for l in lines if re.search(r'np\\?":\[[0-9,]*[3-9]', l)]
                rest = [l for l in lines if l not in set(deep)]
                lines = deep + rnd.sample(rest, max(0, 1500 - len(deep)))
            gf.writelines(lines)
            n_progs += len(lines)
    if not n_progs:
        raise vlib.Broken("the generator model emitted no program")
    g_out = os.path.join(ctx.work, "g_trace.ndjson")
    t_out = os.path.join(ctx.work, "t_trace.ndjson")
    r_in, r_out = os.path.join(ctx.work, "r_in.ndjson"), os.path.join(ctx.work, "r_trace.ndjson")
    write_progs(r_in, [e["reproducer"]["toks"] for e in findings])
    n_random = 60 if q else 800
    run_go(ctx, g_in, g_out, t_out, n_random, r_in, r_out, excl)

    # ---- leg V: one pool of monitor processes judges both traces (random programs carry ids > 10^6)
    both = os.path.join(ctx.work, "gt_trace.ndjson")
    with open(both, "wb") as f:
        for pth in (t_out, g_out):
            with open(pth, "rb") as g:
                while True:
                    b = g.read(1 << 24)
                    if not b:
                        break
                    f.write(b)
    viol = judge_trace(ctx, both, "G+T", excl, parallel=6 if q else 16)
    ctx.cov["legs"]["G+T"]["programs_G"] = n_progs
    ctx.cov["legs"]["G+T"]["programs_T"] = n_random
    passes = {}
    for name, path in (("G-generated", g_out), ("T-random", t_out)):
        ns = 0
        dist = passes.setdefault(name, {})
        with open(path) as f:
            for line in f:
                m = re.search(r'"passes":\[([0-9,]*)\]', line)      # merge/relocate passes the REAL parser took per table
                if m and m.group(1):
                    k = max(int(x) for x in m.group(1).split(","))
                    dist[k] = dist.get(k, 0) + 1
                toks = line.rsplit('"toks":', 1)[1]          # Go writes the keys sorted: id, obs, toks
                if re.search(r'"k":"(open|method|decl|field)"', toks):
                    ctx.distinct(hashlib.sha1(toks.encode()).hexdigest())
                if ns < 2 and len(line) > (1500 if name.startswith("T") else 700):
                    e = json.loads(line)
                    ctx.sample({"leg": name, "program": describe(e["toks"])[:700], "res": e["obs"]["res"],
                                "objects_in_tree": len(e["obs"]["ns"]), "invocations_in_tree": len(e["obs"]["calls"])})
                    ns += 1
    ctx.cov["legs"]["G+T"]["resolve_passes_of_real_parser"] = {k: dict(sorted(v.items())) for k, v in passes.items()}
    ctx.log("resolve passes taken by the real parser (programs per maximum over their tables):", passes)
    for v in viol[:3]:
        toks = v.pop("toks")
        ctx.violation(v, {"toks": toks, "open": excl})
    if not ctx.violations:
        for name, dist in passes.items():       # vacuity guard: deep dependency chains must have been exercised
            if not any(k >= 3 for k in dist):
                raise vlib.Broken("no %s program needed 3 or more merge/relocate passes (%s): the dependency-chain generators are broken"
                                  % (name, dist))
    run_reproducers(ctx, findings, r_out, excl)
    ctx.cov["legs"]["G+T"]["programs_emitted_by_model"] = emitted
    ctx.cov["exhaustive"] = (not q) and not ctx.violations
    ctx.cov["explanation"] = ("exhaustive = every complete program of the four TLC scopes (thorough tier: %d programs) was encoded, parsed by the "
                              "real parser and judged; the quick tier replays a seeded sample of at most 1500 programs per scope" % emitted)


def replay(ctx, path):
    with open(path) as f:
        rep = json.load(f)["replay"]
    findings = load_findings(ctx)
    excl = rep.get("open", [])
    g_in, g_out = os.path.join(ctx.work, "g_in.ndjson"), os.path.join(ctx.work, "g_trace.ndjson")
    r_in = os.path.join(ctx.work, "r_in.ndjson")
    write_progs(g_in, [rep["toks"]])
    write_progs(r_in, [])
    run_go(ctx, g_in, g_out, os.path.join(ctx.work, "t.ndjson"), 0, r_in, os.path.join(ctx.work, "r.ndjson"), excl, timeout=300)
    for v in judge_trace(ctx, g_out, "replay", excl, timeout=300):
        toks = v.pop("toks")
        ctx.violation(v, {"toks": toks, "open": excl})
    ctx.cov["states"] = max(ctx.cov["states"], 1)
    ctx.cov["transitions"] = max(ctx.cov["transitions"], 1)
    return None
