from checks import pmm_common


def run(ctx):
    pmm_common.run_pmm(ctx, "C03")


def replay(ctx, path):
    return pmm_common.replay_pmm(ctx, "C03", path)
