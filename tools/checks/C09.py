"""C09: concurrent frame allocation and freeing never duplicates or loses a frame.  DESIGN.md 4.7.

Legs
  M   PmmConc.tla over the lock skeleton that tools/lockskel (go/ast) extracts from the CURRENT
      bitmap_allocator.go: every interleaving of 3 tasks x 2 (quick) / 3 (thorough) calls on 3 frames in 2 pools.
      A TLC counterexample on the extracted skeleton (while the pinned skeleton passes) is a statement about
      the code.  Design mutants of the skeleton must be rejected.
  G   deterministic gate probes on the real allocator: the harness holds alloc.mutex itself.
  T   windows of 2-16 OS threads x 6 calls with call/return events (linearizability, TLC places the
      linearization points) and an ownership-table stress (per-thread logs).
  V   ConcTrace.tla (sequential meaning = PmmProps, lock discipline = PmmConc!RefSkel).
"""
import json, os
import vlib
from checks import conc_skel

HARNESS = ["conc/c09_conc_test.go"]
DIRS = ("conc", "pmm")


def compact_cex(trace, n=16):
    out = []
    for s in (trace or [])[-n:]:
        out.append({k: s.get(k) for k in ("lock", "pc", "path", "choice", "word", "fcount", "reserved", "owned", "flag") if k in s})
    return out


def skel_leg(ctx, d_pin, cfgs, mutants):
    d = ctx.spec_dir(*DIRS)
    res = conc_skel.run_lockskel(vlib.REPO)
    paths, notes = conc_skel.skeleton(res)
    for n in notes:
        ctx.note("lock-skeleton extraction inconclusive (contributes nothing, never an alarm): " + n)
        ctx.log("lockskel inconclusive:", n)
    text = conc_skel.module(paths)
    with open(os.path.join(vlib.VERIF, "specs", "conc", "PmmSkel.tla")) as f:
        same = f.read() == text
    usable = bool(paths)
    ctx.cov["legs"]["extraction"] = {"paths": [{"m": p["m"], "kind": p["kind"], "ev": " ".join(p["ev"]), "line": p["line"]} for p in paths],
                                     "mutable_fields": res.get("mutable"), "same_as_pinned": same, "conclusive": usable and not notes}
    if usable:
        with open(os.path.join(d, "PmmSkel.tla"), "w") as f:
            f.write(text)
    else:
        ctx.note("lock-skeleton leg runs on the pinned skeleton only: nothing could be extracted from the current source")
        d = d_pin
    for cfg, timeout in cfgs:
        r = ctx.tlc(d, "MCPmmConc", cfg, timeout=timeout, name="skel:" + cfg)
        if r.violated is None and r.ok:
            ctx.cov["states"] += r.distinct
            ctx.cov["transitions"] += r.generated
            ctx.log("M PmmConc/%s on the %s skeleton: %d distinct states, %.1fs" %
                    (cfg, "extracted" if usable else "pinned", r.distinct, r.wall))
            continue
        if not usable or same:
            raise vlib.Broken("PmmConc/%s fails on the pinned lock skeleton (%s):\n%s" % (cfg, r.violated, r.out[-3000:]))
        if r.violated == "eval-error" or r.violated is None:
            ctx.note("model of the extracted lock skeleton could not be evaluated (%s); inconclusive" % cfg)
            continue
        rp = ctx.tlc(d_pin, "MCPmmConc", cfg, timeout=timeout, name="skel-pinned:" + cfg)
        if rp.violated or not rp.ok:
            raise vlib.Broken("PmmConc/%s fails on the pinned lock skeleton (%s)" % (cfg, rp.violated))
        what = {"leg": "M (lock skeleton extracted from the current bitmap_allocator.go)", "cfg": cfg,
                "violated": "deadlock: a call blocks forever on the allocator lock" if r.violated == "deadlock" else r.violated,
                "skeleton": ["%s/%s line %d: %s" % (p["m"], p["kind"], p["line"], " ".join(p["ev"])) for p in paths],
                "counterexample_tail": compact_cex(r.trace)}
        ctx.violation(what, {"kind": "extract", "cfg": cfg, "timeout": timeout})
        break
    for cfg in mutants:
        ctx.expect_model_violation(d_pin, "MCPmmConc", cfg, timeout=900)


def run_leg(ctx, test, env, name):
    tr = os.path.join(ctx.work, "trace_%s.ndjson" % name)
    e = dict(env)
    e["TRACE_OUT"] = tr
    rc, out, _ = ctx.gotest("kernel", "mm/pmm", HARNESS, test, env=e, timeout=1200)
    if rc != 0 or not os.path.exists(tr):
        raise vlib.Broken("C09 harness %s failed:\n%s" % (test, out[-3000:]))
    stuck, clean = [], tr + ".clean"
    with open(tr) as f, open(clean, "w") as g:
        for line in f:
            if '"k":"stuck"' in line:
                stuck.append(json.loads(line))
            elif line.strip():
                g.write(line)
    stats = {}
    if os.path.exists(tr + ".stats"):
        with open(tr + ".stats") as f:
            out = f.read()
    for tok in out.split():
        if "=" in tok and tok.split("=")[1].isdigit():
            stats[tok.split("=")[0]] = int(tok.split("=")[1])
    return clean, stuck, stats


def limit_overlap(ctx, path, kmax):
    """The linearizability search is exponential in the number of calls that are pending at the same time.
    Windows in which more than kmax calls overlap (a lock holder was descheduled and everybody piled up) are
    not submitted to TLC; this filter looks at the call/ret structure only, never at results."""
    out, kept, dropped, hist = path + ".lim", 0, 0, {}
    with open(path) as f, open(out, "w") as g:
        cur, pend, mx = [], 0, 0
        for line in f:
            e = json.loads(line)
            cur.append(line)
            if e["k"] == "call":
                pend += 1
                mx = max(mx, pend)
            elif e["k"] == "ret":
                pend -= 1
            elif e["k"] == "reset":
                hist[mx] = hist.get(mx, 0) + 1
                if mx <= kmax:
                    g.writelines(cur)
                    kept += 1
                else:
                    dropped += 1
                cur, pend, mx = [], 0, 0
    ctx.cov["legs"]["window-overlap"] = {"max_pending_calls_histogram": {str(k): v for k, v in sorted(hist.items())},
                                         "submitted": kept, "not_submitted_overlap_gt_%d" % kmax: dropped}
    if dropped:
        ctx.log("T-windows: %d window(s) with more than %d simultaneously pending calls not submitted to TLC" % (dropped, kmax))
    if kept == 0:
        raise vlib.Broken("every recorded window exceeded the overlap bound; machine too loaded for the linearizability leg")
    return out


def judge(ctx, name, path, par, leg_env):
    acc, nev, mism = ctx.validate_traces("ConcTrace", "ConcTrace", path, DIRS, name=name, deque=True, parallel=par, timeout=1200)
    for m in mism[:3]:
        li = m["line_in_case"]
        ev = m["case_events"][li - 1] if li <= len(m["case_events"]) else None
        ctx.violation({"leg": name, "mismatch": m["mismatch"], "event": ev,
                       "init": m["case_events"][0], "events_before": m["case_events"][max(1, li - 13):li - 1]},
                      {"kind": "trace", "leg": name, "seed": ctx.seed, "env": leg_env,
                       "note": "real-thread schedule: re-running the seed repeats the inputs, not necessarily the interleaving; "
                               "the recorded case is judged again from this file",
                       "events": [e for e in m["case_events"] if e.get("k") != "reset"]})
    with open(path) as f:
        cur, ns, early = [], 0, 0
        for line in f:
            e = json.loads(line)
            if e["k"] == "gate" and e.get("retheld"):
                early += 1
            if e["k"] == "reset":
                if any(x.get("res") == "ok" for x in cur):
                    ctx.distinct([name, cur])
                if ns < 1:
                    ctx.sample({"leg": name, "events": cur[:8]})
                ns += 1
                cur = []
            else:
                cur.append(e)
    if early:
        ctx.note("%d gate probe(s): the call came back while the harness held the allocator lock (a path that does not take "
                 "the lock; its answers were judged by the sequential specification)" % early)
    return mism


def dynamic_legs(ctx, q):
    stuck_all = []
    par = 4 if q else 12
    genv = {"NCASES": 12 if q else 66}
    g, stuck, _ = run_leg(ctx, "TestVerifC09Gate", genv, "G-gate")
    stuck_all += stuck
    judge(ctx, "G-gate", g, par if not q else 3, genv)
    if stuck_all and not ctx.violations:
        return stuck_all
    wenv = {"NWIN": 24 if q else 1500, "NOPS": 6}
    w, stuck, _ = run_leg(ctx, "TestVerifC09Windows", wenv, "T-windows")
    stuck_all += stuck
    judge(ctx, "T-windows", limit_overlap(ctx, w, 7), par, wenv)
    if stuck_all and not ctx.violations:
        return stuck_all
    senv = {"NRUNS": 6 if q else 32, "NOPS": 20000 if q else 300000, "KEEP": 60 if q else 300}
    s, stuck, stats = run_leg(ctx, "TestVerifC09Stress", senv, "T-stress")
    stuck_all += stuck
    ctx.cov["legs"]["stress-ops"] = {"real_operations": stats.get("ops", 0)}
    judge(ctx, "T-stress", s, par, senv)
    return stuck_all


def run(ctx):
    q = ctx.quick
    ctx.rule = ("one case = one allocator instance (every other one through pmm.Init on a sorted map with 1-3 pools of 1-70 frames, the others "
                "built in-package with pools in descending / unsorted / adjacent / gapped order, tiny and 64k-1/64k/64k+1 frames) plus: a scripted series of "
                "gate probes covering every return path (G), or one window of 2-16 OS threads x 6 random AllocFrame/FreeFrame calls "
                "(good, double, unmanaged frees) with call/return events (T-windows), or one ownership-table stress run (T-stress); "
                "distinct by full event sequence; non-trivial = at least one successful call")
    ctx.assumptions += [
        "the lock in PmmConc is an atomic test-and-set; that the real spinlock is one is checked by running C08's instruction-level "
        "lock model (SpinAsm over the extracted kernel/sync sources) as part of this check",
        "whether the allocator lock is free is asked through the lock's API (observer TryToAcquire/Release), never read from the lock word",
        "fields never assigned by AllocFrame/FreeFrame (pool bounds, the pools slice) are immutable after init: tools/lockskel "
        "derives the set of mutable fields from the assignments in the two methods",
        "tools/lockskel understands a fixed statement dictionary; anything else is reported as inconclusive and the skeleton leg "
        "contributes nothing",
        "callers free only frames they own or frames outside every pool in the ownership-table stress (freeing a frame somebody "
        "else owns is a caller error that no allocator can detect); the linearizability windows also issue double frees",
        "trusted Go: multiboot map encoder, event recorder, ownership table (CAS per frame) and the sampling filter of the stress "
        "log in harness/conc; detection of a race that needs a narrow window is deterministic only in the skeleton model and "
        "the gate probes, probabilistic in the stress legs",
    ]
    d = ctx.spec_dir(*DIRS)
    if q:
        cfgs, muts = [("MCPmmConcT1", 300), ("MCPmmConcT4", 300), ("MCPmmConcT3one", 600)], ["MCPmmConcBug2_NoReleaseOnDoubleFree", "MCPmmConcBug2_BodyOutsideLock"]
    else:
        cfgs = [("MCPmmConcT1", 300), ("MCPmmConcT3empty", 600), ("MCPmmConcT4x2", 900), ("MCPmmConcQuick", 900),
                ("MCPmmConcFull", 1800)]
        muts = ["MCPmmConcBug_NoReleaseOnDoubleFree", "MCPmmConcBug_BodyOutsideLock", "MCPmmConcBug_ReleaseBeforeCounter",
                "MCPmmConcBug_NoAcquireInFree"]
    if os.environ.get("VERIF_CONC_DYNAMIC_ONLY") != "1":      # development switch: measure the dynamic legs alone
        # the allocator's lock is the spinlock of kernel/sync: "no frame held twice" and "no call blocks forever" rest on
        # it, so the instruction-level lock model of C08 is checked on the current sources here as well
        from checks import C08
        C08.asm_leg(ctx, ctx.spec_dir("sync"), [("MCSpinAsmQ3", 600)] if q else
                    [("MCSpinAsmQ3", 600), ("MCSpinAsmQ2Live", 900), ("MCSpinAsmF3", 1500), ("MCSpinAsmF4", 900)], [])
        ctx.cov["legs"]["lock-extraction"] = ctx.cov["legs"].pop("extraction", None)
        if not ctx.violations:
            skel_leg(ctx, d, cfgs, muts)
    if not q:
        r = ctx.tlc(d, "MCPmmConc", "MCPmmConcT3one", coverage=True, timeout=900, name="coverage:MCPmmConcT3one")
        if r.violated or not r.ok or r.coverage_zero:
            raise vlib.Broken("vacuous bound or failure of PmmConc on the pinned skeleton: %s %s" % (r.violated, r.coverage_zero))
    try:
        if ctx.violations:
            # the model extracted from the current source already contradicts the specification: code like that
            # can corrupt its own state or leave its lock taken, nothing is gained by hammering it with threads
            raise vlib.Broken("skipped")
        stuck = dynamic_legs(ctx, q)
    except vlib.Broken as e:
        if not ctx.violations:
            raise
        ctx.note("dynamic legs did not complete on code whose extracted lock skeleton already violates the specification: %s" % str(e)[:300])
        stuck = []
    if stuck and not ctx.violations:
        raise vlib.Broken("inconclusive: a call on the real allocator did not return within the deadline (%s) and no recorded "
                          "event contradicts the specification" % json.dumps(stuck[0]))
    if stuck:
        ctx.note("a call on the real allocator did not return within the deadline: %s" % json.dumps(stuck[0]))
    ctx.cov["exhaustive"] = False
    ctx.cov["explanation"] = ("exhaustive only in leg M (all interleavings of the extracted lock skeleton in the stated scope) and over the "
                              "return paths in the gate probes; real schedules are sampled")


def replay(ctx, path):
    with open(path) as f:
        rep = json.load(f)["replay"]
    ctx.cov["states"] = ctx.cov["transitions"] = 1
    if rep["kind"] == "extract" and rep["cfg"].startswith("MCSpinAsm"):
        from checks import C08
        C08.asm_leg(ctx, ctx.spec_dir("sync"), [(rep["cfg"], rep.get("timeout", 900))], [])
        return None
    if rep["kind"] == "extract":
        skel_leg(ctx, ctx.spec_dir(*DIRS), [(rep["cfg"], rep.get("timeout", 900))], [])
        return None
    # 1. the recorded case, judged again by the monitor: says whether the file is consistent, not whether the
    #    current tree misbehaves
    tr = os.path.join(ctx.work, "recorded.ndjson")
    with open(tr, "w") as f:
        for e in rep["events"]:
            f.write(json.dumps(e) + "\n")
        f.write(json.dumps({"k": "reset"}) + "\n")
    acc, nev, mism = ctx.validate_traces("ConcTrace", "ConcTrace", tr, DIRS, name="replay-recorded", deque=True, parallel=1)
    ctx.log("recorded case of the replay file: %s by the monitor" % ("still rejected" if mism else "accepted"))
    ctx.cov["traces_validated_against_impl"] = 0
    # 2. the same inputs once more on the current tree
    test = {"G-gate": "TestVerifC09Gate", "T-windows": "TestVerifC09Windows", "T-stress": "TestVerifC09Stress"}[rep["leg"]]
    env = dict(rep["env"])
    env["VERIF_SEED"] = rep["seed"]
    clean, stuck, _ = run_leg(ctx, test, env, "replay")
    acc, nev, mism = ctx.validate_traces("ConcTrace", "ConcTrace", clean, DIRS, name="replay-live", deque=True, parallel=4)
    for m in mism[:1]:
        ctx.violation({"leg": "replay (live re-run)", "mismatch": m["mismatch"]}, rep)
    return None
