"""extra-kbuild: the rest of the kernel build tool /repo/kbuild (DESIGN.md section 5 item 5; redirect discovery is C20).
Specs: specs/kbuildx/{KbxText,KbxProps,KbxModel,MCKbx,KbxTrace}.tla; harness: harness/kbuildx/xkb_{main,build}_test.go.

Components (case field `comp`):  cr CompleteRedirects over synthetic ELF images | ls CompileLinkerScript | wo GetOffsets +
WriteOffsets | ve checkObjcopyVersion / checkXorrisoVersion | cd CheckDeps over a fake PATH | rt CompileRT0 + LinkKernel over
fake tools | ck CompileKernel over a fake go tool, fake objcopy and a harmless build script (package main);  mm goMajorMinorVersion | gv GoVersion over a fake go tool | oe OverrideEnv | bw WriteOffsets |
do DeriveOffsets over a fake go tool and a synthetic WORK tree (package internal/build)."""
import concurrent.futures, glob, json, os, random, re
import vlib

SPEC = ("kbuildx",)
MAIN = ["kbuildx/xkb_main_test.go"]
BUILD = ["kbuildx/xkb_build_test.go"]
MAIN_COMPS = {"cr", "ls", "wo", "ve", "cd", "rt", "ck"}

STATEMENTS = "see the header of specs/kbuildx/KbxProps.tla and tools/manifest/extra-kbuild.json"
ASSUME = [
    "trusted Go (no expected results in it): the ELF64 writer, the writers of constants.inc / linker.ld.in / fake tools / go_asm.h trees, "
    "the projections (8-byte words of the image window + count of bytes changed elsewhere; whether a redirect's position text / symbols or a "
    "tool's name occur anywhere in what the run printed on stdout+stderr (fd-level capture); go_asm_offsets.inc read the way nasm reads "
    "`NAME equ NUMBER`; the lines of build.sh; recorded argument lists of the fake tools; go/parser's view of the generated offsets file; "
    "NAME=VALUE split at the first '='). No judgement depends on the wording of a diagnostic",
    "every step runs in child processes (most steps end the process on their error path); a run that ends the process is observed "
    "post mortem from the files it left; process-wide state a step changes (cwd, PATH, log output, the offsets registry) is restored by the harness",
    "text inputs are printable ASCII plus tab, CR, LF (Go's %q and TrimSpace are modelled for that alphabet only)",
    "exec.LookPath, debug/elf, filepath.Walk (lexical order), text/template, go/format and golang.org/x/mod/semver are part of the real tool; "
    "the version grammar is specified independently (declaratively) in KbxText.tla",
    "determinism (DET) is checked by comparing builds with each other: 2 runs in one process + 1 run in a fresh process per case "
    "(12 + 1 for the pinned reproducers); dependence on Go's map iteration order is detected probabilistically per case",
    "not covered (needs the cross toolchain or a kernel build): what the real go build -n / nasm / ld / objcopy / grub-mkrescue do with the "
    "arguments and files they are given, BuildISO, gen-version-data.go's main (its three steps GoVersion, DeriveOffsets, "
    "WriteOffsets are covered one by one), DeriveOffsets against a real toolchain",
]

# pinned reproducers of the open deviations (leg P): part of every run; judged once more by the strict monitor to report
# whether each deviation still reproduces on the tree under test
W0 = [0, 0, 0, 0]


def chars(s):
    return list(s)


PINNED = [
    ("LastSymbolWins", {"comp": "cr", "in": {"syms": [["runtime.sysMap", [0, 0, 16, 0]], ["runtime.sysMap", W0],
                                                      ["kernel/goruntime.sysMap", [0, 0, 32, 0]]],
                                             "reds": [["runtime.sysMap", "kernel/goruntime.sysMap"]], "symtab": True, "sec": 16, "fill": W0}},
     "CompleteRedirects: symbol table <runtime.sysMap=0x100000, runtime.sysMap=0 (undefined), kernel/goruntime.sysMap=0x200000>, one redirect "
     "runtime.sysMap -> kernel/goruntime.sysMap: the build aborts with 'could not find src address' although a defined symbol of that name exists "
     "(the last symbol of a name wins, also when its value is 0)"),
    ("NoSectionBound", {"comp": "cr", "in": {"syms": [["a", [0, 0, 0, 16]], ["b", [0, 0, 0, 32]]], "reds": [["a", "b"], ["b", "a"]],
                                             "symtab": True, "sec": 16, "fill": [61166] * 4}},
     "CompleteRedirects: two redirects, .goredirectstbl of 16 bytes: 32 bytes are written, 16 of them behind the section "
     "(the size of the section is never compared with 16*len(Redirects); in a real build NUM_REDIRECTS sizes it correctly)"),
    ("LinkerMapOrder", {"comp": "ls", "runs": 12, "in": {"have": "both", "consts": [chars("A equ B"), chars("B equ C"), chars("C equ D"), chars("D equ E"), chars("E equ A")],
                                                         "script": chars("A B C D E\n")}},
     "CompileLinkerScript: constants.inc <A equ B, B equ C, C equ D, D equ E, E equ A>, script 'A B C D E': linker.ld differs from build to build "
     "(constants are substituted while ranging over a Go map; harmless for the kernel's own constants.inc, whose two names do not overlap)"),
    ("VersionSuffix", {"comp": "ve", "in": {"tool": "objcopy", "banner": chars("GNU objcopy version 2.30-93.el8\nCopyright (C) 2018 Free Software Foundation, Inc.\n")}},
     "checkObjcopyVersion: banner 'GNU objcopy version 2.30-93.el8' (RHEL/Fedora style) is rejected as 'not a valid version' although 2.30 >= 2.26; "
     "same for 'GNU objcopy (GNU Binutils; openSUSE Tumbleweed) 2.35.1.20201123-1' and xorriso '1.5.6.pl02'"),
    ("GnuXorrisoBanner", {"comp": "ve", "in": {"tool": "xorriso", "banner": chars("GNU xorriso 1.5.4 : RockRidge filesystem manipulator, libburnia project.\n")}},
     "checkXorrisoVersion: banner 'GNU xorriso 1.5.4 : RockRidge filesystem manipulator, libburnia project.' is rejected (\"vGNU\" is not a valid version)"),
    ("GoPrerelease", {"comp": "gv", "in": {"banner": chars("go version go1.16rc1 linux/amd64\n"), "rc": 0}},
     "GoVersion / goMajorMinorVersion: 'go version go1.16rc1 linux/amd64' (also go1.16beta1) is an invalid version although the doc comment "
     "promises goX.Y for every valid Go version string"),
    ("EnvDuplicateShadow", {"comp": "oe", "in": {"env": [["GOARCH", "386", True], ["GOARCH", "arm", True]], "ovr": [["GOARCH", "amd64", True]]}},
     "OverrideEnv(<GOARCH=386, GOARCH=arm>, GOARCH=amd64) = <GOARCH=amd64, GOARCH=arm>: os/exec uses the last duplicate, the started process "
     "still sees GOARCH=arm (cannot happen with os.Environ(), which never holds duplicates)"),
]

BUGS_QUICK = ["CrPartial", "LsFirstDefWins", "VeLexCompare", "OePrefixMatch", "DoUnsortedWalk", "CkKeepsMv"]
DEVS_QUICK = ["LinkerMapOrder", "LastSymbolWins"]
SAMPLE_QUICK = {"cr": 200, "ls": 100, "wo": 50, "ve": 250, "cd": 40, "rt": 60, "ck": 60, "mm": 300, "gv": 60, "oe": 300, "bw": 60, "do": 120}


def all_cfgs(d, prefix):
    return sorted(os.path.basename(p)[:-4] for p in glob.glob(os.path.join(d, prefix + "*.cfg")))


def decode_cases(src):
    out = []
    with open(src) as f:
        for line in f:
            line = line.strip()
            if not line:
                continue
            v = json.loads(line)
            if isinstance(v, str):
                v = json.loads(v)
            out.append(v)
    return out


def shape(c):
    """class of a case by the shape of its input (no knowledge of results): the quick sample takes cases from every class in turn"""
    i = c["in"]
    k = c["comp"]
    if k == "cr":
        return (len(i["syms"]), len(i["reds"]), i["sec"] - 16 * len(i["reds"]) if i["sec"] >= 0 else -1, i["symtab"])
    if k == "ls":
        return (i["have"], len(i["consts"]), len(i["script"]))
    if k == "do":
        return (json.dumps(i["dist"]), i["distrc"], i["buildrc"], i["work"], len(i["files"]))
    if k == "oe":
        return (len(i["env"]), len(i["ovr"]))
    if k == "rt":
        return (len(i["files"]), i["failat"] > 0)
    if k == "wo":
        return (len(i["reg"]),)
    if k == "ve":
        return (i["tool"], "\r" in i["banner"], "\t" in i["banner"], len(i["banner"]) // 6)
    if k == "mm":
        return (len(i["v"]),)
    if k == "ck":
        return (len(i["lines"]), len(i["nm"]), i["buildrc"], i["nmrc"], i["objrc"])
    return ()


def stratified(rng, cases, n):
    classes = {}
    for c in cases:
        classes.setdefault(shape(c), []).append(c)
    keys = sorted(classes, key=lambda k: json.dumps(k))
    for k in keys:
        rng.shuffle(classes[k])
    rng.shuffle(keys)
    out = []
    while len(out) < n and keys:
        for k in list(keys):
            if len(out) >= n:
                break
            out.append(classes[k].pop())
            if not classes[k]:
                keys.remove(k)
    return out


def run_harness(ctx, cases, nrand, real, timeout):
    """legs G (cases) and T (seeded random + the repository's own inputs) on both packages, concurrently"""
    cp = os.path.join(ctx.work, "xkb_cases_%d.ndjson" % len(os.listdir(ctx.work)))
    with open(cp, "w") as f:
        for c in cases:
            f.write(json.dumps(c) + "\n")
    traces = [os.path.join(ctx.work, "trace_main_%d.ndjson" % len(os.listdir(ctx.work))),
              os.path.join(ctx.work, "trace_build_%d.ndjson" % (len(os.listdir(ctx.work)) + 1))]
    par = max(1, min(4, vlib.maxpar() // 2))

    def one(k):
        env = {"XKB_CASES": cp, "XKB_TRACE": traces[k], "XKB_NRAND": nrand[k], "XKB_REAL": 1 if real else 0,
               "XKB_RUNS": 2, "XKB_CHILDREN": 1, "XKB_PAR": par}
        if k == 0:
            return ctx.gotest("kbuild", "", MAIN, "^TestVerifXkbRun$", env=env, timeout=timeout)
        return ctx.gotest("kbuild", "internal/build", BUILD, "^TestVerifXkbRun$", env=env, timeout=timeout)

    # ctx.gotest numbers its files by listdir(ctx.work): run the two go test processes one after the other when that could clash
    with concurrent.futures.ThreadPoolExecutor(max_workers=2) as ex:
        futs = [ex.submit(one, 0)]
        import time
        time.sleep(0.5)
        futs.append(ex.submit(one, 1))
        res = [f.result() for f in futs]
    for k, (rc, out, wall) in enumerate(res):
        if rc != 0:
            raise vlib.Broken("kbuild harness (%s) failed:\n%s" % (["main", "internal/build"][k], out[-3000:]))
        ctx.log("harness %s: %.1fs" % (["main", "internal/build"][k], wall))
    return traces


def read_cases(paths):
    """[(case_event, [run events])]"""
    out, cur = [], None
    for p in paths:
        with open(p) as f:
            for line in f:
                if not line.strip():
                    continue
                e = json.loads(line)
                if e["k"] == "case":
                    cur = (e, [])
                    out.append(cur)
                elif e["k"] == "run" and cur:
                    cur[1].append(e)
    return out


def devs_seen(ctx):
    seen = set()
    for p in glob.glob(os.path.join(ctx.work, "tlc*", "w*", "tlc.KbxTrace*.out")):
        with open(p) as f:
            for m in re.finditer(r'<<"VERIF-DEVS", "(.*)">>', f.read()):
                seen.update(json.loads(json.loads('"' + m.group(1) + '"')))
    return seen


def judge(ctx, name, traces, cfg="KbxTrace", report=True, parallel=None):
    path = os.path.join(ctx.work, "trace_%s.ndjson" % re.sub(r"\W", "_", name))
    with open(path, "w") as o:
        for p in traces:
            with open(p) as f:
                o.write(f.read())
    acc, nev, mism = ctx.validate_traces("KbxTrace", cfg, path, SPEC, name=name, timeout=1500, parallel=parallel)
    if report:
        seen = set()
        for m in mism:
            ce = m["case_events"][0]
            key = (ce.get("comp"), str(m["mismatch"][2][0]) if len(m["mismatch"]) > 2 and m["mismatch"][2] else "?")
            if key in seen or len(ctx.violations) >= 6:
                continue
            seen.add(key)
            ev = m["case_events"][m["line_in_case"] - 1]
            ctx.violation({"leg": ce.get("leg"), "component": ce.get("comp"), "mismatch": m["mismatch"], "input": ce.get("in"), "event": ev},
                          {"comp": ce.get("comp"), "in": ce.get("in"), "runs": 4})
    return acc, nev, mism


def run(ctx):
    q = ctx.quick
    ctx.assumptions += ASSUME
    ctx.rule = ("case = one input of one build step (a symbol table + redirect list + section layout; a constants file + script; an offsets registry "
                "+ version; a tool banner; a fake PATH; a version string / go tool banner; environ + overrides; a table to write; a fake go tool "
                "with a go_asm.h tree; an rt0 directory), run 3 times on the real code (2 in one process, 1 in a fresh one). Leg G replays the "
                "inputs TLC enumerated in the small scope (thorough: all; quick: a seeded sample per step), leg T draws seeded random inputs at real "
                "scale (40 symbols / 12 redirects / 64-bit addresses, the kernel's own constants.inc + linker.ld.in, the registered go1.8 / go1.15 "
                "tables, the kernel's rt0 directory, realistic banners), leg P are the pinned reproducers of the open deviations. A case is distinct "
                "by (step, input); all are counted as non-trivial except those whose real result is the empty output of a step with nothing to do")
    d = ctx.spec_dir(*SPEC)
    tier = "Quick" if q else "Full"
    cases_path = os.path.join(ctx.work, "cases.ndjson")

    dev_cache = os.environ.get("XKB_DEV_CASES")   # development only: skip leg M and take the emitted cases from this file
    if dev_cache and os.path.exists(dev_cache):
        cases_path = dev_cache
        ctx.cov["legs"]["MCKbx" + tier] = {"skipped": "XKB_DEV_CASES"}
        ctx.cov["states"] = ctx.cov["transitions"] = 1
    else:
        # ---- leg M: the as-built design satisfies the statements (with the open deviations); the run emits the small-scope inputs
        ctx.model_check(d, "MCKbx", "MCKbx" + tier, env={"CASES": cases_path}, timeout=1500)
        # design mutants, the as-built design without each deviation (all must be rejected), the repaired design without any deviation
        bugs = ["MCKbxBug_" + b for b in BUGS_QUICK] if q else all_cfgs(d, "MCKbxBug_")
        devs = ["MCKbxDev_" + b for b in DEVS_QUICK] if q else all_cfgs(d, "MCKbxDev_")
        with concurrent.futures.ThreadPoolExecutor(max_workers=max(1, min(4, vlib.maxpar()))) as ex:
            list(ex.map(lambda c: ctx.expect_model_violation(d, "MCKbx", c, workers=1, timeout=600), bugs + devs))
        ctx.cov["design_mutants_rejected"] = len(bugs)
        ctx.cov["deviations_shown_necessary_by_TLC"] = len(devs)
        if not q:
            ctx.model_check(d, "MCKbx", "MCKbxStrictFull", timeout=1500)

    # ---- leg G input
    allc = decode_cases(cases_path)
    by = {}
    for c in allc:
        by.setdefault(c["comp"], []).append(c)
    rng = random.Random(ctx.seed * 7919 + 3)
    gcases = []
    for comp in sorted(by):
        v = by[comp]
        if q and len(v) > SAMPLE_QUICK.get(comp, 50):
            v = stratified(rng, v, SAMPLE_QUICK[comp])
        gcases += v
    for c in gcases:
        c["leg"] = "G"
    pinned = []
    for name, c, what in PINNED:
        c = dict(c)
        c["leg"] = "P"
        pinned.append(c)
    ctx.cov["legs"]["MCKbx" + tier]["cases_emitted"] = {k: len(v) for k, v in sorted(by.items())}
    ctx.cov["legs"]["MCKbx" + tier]["cases_replayed"] = len(gcases)

    # ---- legs G, T, P on the real packages
    traces = run_harness(ctx, gcases + pinned, (300, 500) if q else (2000, 3000), True, 2400)

    # ---- leg V
    _, _, mism = judge(ctx, "V-G+T+P", traces, parallel=3 if q else None)
    seen = devs_seen(ctx)
    ncase = {}
    shown = {}
    for ce, runs in read_cases(traces):
        leg, comp = ce.get("leg", "?"), ce["comp"]
        ncase.setdefault(leg, {}).setdefault(comp, 0)
        ncase[leg][comp] += 1
        if runs:
            ctx.distinct([comp, ce["in"]])
            if shown.get((leg, comp), 0) < 1 and leg in ("G", "T") and comp in ("cr", "ve", "ck", "oe") and len(json.dumps(ce["in"])) < 900:
                shown[(leg, comp)] = 1
                ctx.sample({"leg": leg, "component": comp, "in": ce["in"], "runs": [{"proc": r["proc"], "out": r["out"]} for r in runs[:2]]})
    ctx.cov["legs"]["V-G+T+P"]["cases_by_leg_and_component"] = ncase
    ctx.cov["deviations_needed_to_explain_the_real_code"] = sorted(seen)

    # ---- the pinned reproducers: the monitor recorded which of them needed their deviation (statements alone do not explain the run)
    if not ctx.violations:
        hit = set()
        for p in glob.glob(os.path.join(ctx.work, "tlc*", "w*", "tlc.KbxTrace.out")):
            with open(p) as f:
                txt = f.read()
            chunk = os.path.join(os.path.dirname(os.path.dirname(p)), "chunk%s.ndjson" % os.path.basename(os.path.dirname(p))[1:])
            for m in re.finditer(r'<<"VERIF-DEVCASES", "(.*)">>', txt):
                pairs = json.loads(json.loads('"' + m.group(1) + '"'))
                if pairs:
                    with open(chunk) as f:
                        lines = f.read().splitlines()
                    for line, dev in pairs:
                        hit.add((dev, json.dumps(json.loads(lines[line - 1])["in"], sort_keys=True)))
        for n, c, what in PINNED:
            if (n, json.dumps(c["in"], sort_keys=True)) in hit:
                ctx.note("deviation %s (switch '%s' of KbxProps/MCKbxDevs; reproduces on this tree): %s" % (n, n, what))
            else:
                ctx.note("deviation %s was not needed to explain its pinned input on this tree: the switch can be removed from MCKbxDevs.AllDevs" % n)
    ctx.cov["runs_per_case"] = {"same_process": 2, "fresh_process": 1, "pinned_reproducers_same_process": 12}
    ctx.cov["exhaustive"] = (not q) and not ctx.violations
    ctx.cov["explanation"] = ("exhaustive = every input of the TLC small scope (thorough tier, Scope 2) was run on the real code; the quick tier replays "
                              "a seeded sample of the Scope 1 inputs")


def replay(ctx, path):
    with open(path) as f:
        rep = json.load(f)["replay"]
    c = {"comp": rep["comp"], "in": rep["in"], "leg": "R", "runs": rep.get("runs", 4)}
    traces = run_harness(ctx, [c], (0, 0), False, 600)
    keep = traces[0] if rep["comp"] in MAIN_COMPS else traces[1]
    acc, nev, mism = judge(ctx, "replay", [keep], report=False, parallel=1)
    for m in mism:
        ctx.violation({"leg": "replay", "component": rep["comp"], "mismatch": m["mismatch"]}, rep)
    ctx.cov["states"] = max(ctx.cov["states"], 1)
    ctx.cov["transitions"] = max(ctx.cov["transitions"], 1)
    return None
