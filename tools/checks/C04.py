"""C04: page-table operations implement exactly the requested address translation (DESIGN 4.2).
M  PageTables.tla: implementation-shaped model (recursive-window arithmetic + hardware walk + inactive-space swap),
   judged step by step by the abstract monitor PageTablesProps; design mutants must be rejected.
G  every transition TLC generated into the last level is replayed, with the path that reaches it, on the real
   package running on a software MMU (512-entry tables; model indices mapped onto 0 / 256 / 510 / 511);
T  seeded random histories at real scale;  V  PageTablesTrace.tla judges every event."""
import json, os
import vlib
from checks import vmm_a_common as vc

HARNESS = ["vmm/c04_pagetables_test.go"]
TEMP = (510, 511, 511, 511)
WINDOW = 8
# model index -> real index, per level (top level / lower levels)
IDXMAP = {1: ({0: 0}, {0: 0, 1: 511}),
          2: ({0: 0, 1: 256, 2: 510}, {0: 0, 1: 256, 2: 510, 3: 511})}
OFFMAP = {0: 0, 1: 1, 2: 2048, 3: 4095}


def page_num(t):
    return ((t[0] * 512 + t[1]) * 512 + t[2]) * 512 + t[3]


def page_of_num(n):
    return [(n >> 27) & 511, (n >> 18) & 511, (n >> 9) & 511, n & 511]


def real_page(ib, pg):
    top, low = IDXMAP[ib]
    return [top[pg[0]], low[pg[1]], low[pg[2]], low[pg[3]]]


def real_frame(leaf):
    return 0xF000000000 + leaf * 16


def real_size(s):
    return (s // 4) * 4096 + OFFMAP[s % 4]


def convert_case(ib, model_u, c, salt):
    """Model behaviour -> inputs for the real package.  No expected results: only the encoding of pages, frames, sizes."""
    u, seen = [], set()

    def add(p):
        if tuple(p) not in seen:
            seen.add(tuple(p))
            u.append(list(p))
    add(TEMP)
    tn = page_num(TEMP)
    for i in range(1, WINDOW + 1):
        add(page_of_num(tn - i))
    for p in model_u:
        add(real_page(ib, p))
    script, active = [{"op": "pdtinit"}], 1
    for j, o in enumerate(c["script"]):
        op = o["op"]
        if op in ("map", "unmap"):
            r = {"op": op, "pdt": o["pdt"], "pg": real_page(ib, o["pg"]),
                 "via": "pdt" if (o["pdt"] != active or (salt + j) % 2) else "fn"}
            if op == "map":
                r.update({"f": real_frame(o["leaf"]), "fl": list(o["fl"]), "fail": o["fail"]})
        elif op == "maptemp":
            r = {"op": op, "f": real_frame(o["leaf"]), "fail": o["fail"]}
        elif op == "mapregion":
            r = {"op": op, "f": real_frame(o["leaf"]), "size": real_size(o["size"]), "fl": list(o["fl"]), "fail": o["fail"]}
        elif op == "identity":
            p0 = page_num(real_page(ib, o["pg"]))
            size = real_size(o["size"])
            for i in range((size + 4095) // 4096 + 1):
                add(page_of_num(p0 + i))
            r = {"op": op, "f": p0, "size": size, "fl": list(o["fl"]), "fail": o["fail"]}
        elif op == "switch":
            r = {"op": op, "pdt": o["pdt"]}
            active = o["pdt"]
        elif op == "poke":
            r = {"op": op, "pdt": o["pdt"], "pg": real_page(ib, o["pg"]) if o["lvl"] else list(TEMP), "lvl": o["lvl"], "bits": list(o["bits"])}
        else:
            raise vlib.Broken("unknown model op " + op)
        script.append(r)
    return {"U": u, "script": script}


def convert(ctx, ib, model_u, raw, dst, n=0):
    tmp = dst + ".model"
    total, used = vc.decode_cases(raw, tmp, n=n, seed=ctx.seed, key=lambda c: json.dumps(c, sort_keys=True))
    with open(tmp) as f, open(dst, "a") as g:
        for i, line in enumerate(f):
            g.write(json.dumps(convert_case(ib, model_u, json.loads(line), i), separators=(",", ":")) + "\n")
    return total, used


MODEL_U = {1: [[0, a, b, c] for a in (0, 1) for b in (0, 1) for c in (0, 1)],
           2: [[0, 0, 0, 0], [0, 0, 0, 1], [0, 0, 0, 2], [0, 0, 0, 3], [0, 0, 1, 0], [0, 1, 0, 0], [1, 0, 0, 0], [2, 0, 0, 3],
               [2, 3, 2, 3], [2, 3, 3, 0], [2, 3, 3, 1], [2, 3, 3, 2], [2, 3, 3, 3]]}


def to_replay(events):
    """Rebuild the exact inputs of one recorded case from its events."""
    script = []
    for e in events:
        k = e["k"]
        if k == "ptinit":
            u = e["U"]
        elif k in ("map", "unmap"):
            r = {"op": k, "pdt": e["pdt"], "via": e["via"], "pg": e["pg"]}
            if k == "map":
                r.update({"f": vc.limbs(e["f"]), "fl": e["fl"]})
            script.append(r)
        elif k == "maptemp":
            script.append({"op": k, "f": vc.limbs(e["f"])})
        elif k in ("mapregion", "identity"):
            script.append({"op": k, "f": vc.limbs(e["f"]), "size": vc.limbs(e["size"]), "fl": e["fl"]})
        elif k == "translate":
            script.append({"op": k, "pg": e["pg"], "off": e["off"]})
        elif k == "pdtinit":
            script.append({"op": k})
        elif k == "switch":
            script.append({"op": k, "pdt": e["pdt"]})
        elif k == "poke":
            script.append({"op": k, "pdt": e["pdt"], "pg": e["pg"], "lvl": e["lvl"], "bits": e["bits"]})
        if e.get("fail"):
            script[-1]["fail"] = e["fail"]
    return {"kind": "c04", "U": u, "script": script}


def brief(e):
    b = {k: v for k, v in e.items() if k not in ("proj", "U", "ah0", "ah1")}
    for k in ("f", "size", "pa"):
        if k in b:
            b[k] = hex(vc.limbs(b[k]))
    if "proj" in e and "U" not in e:
        b["mapped"] = [sum(1 for x in row if x) for row in e["proj"]]
    if e.get("ah0") != e.get("ah1"):
        b["active_tables_changed"] = True
    return b


def nontrivial(case):
    return any(e.get("res") == "ok" and e["k"] in ("map", "mapregion", "identity", "maptemp") for e in case)


def run(ctx):
    q = ctx.quick
    ctx.assumptions += [
        "hardware semantics are assumptions of the specification: a walk follows present entries through bits 12-51 of four 512-entry levels; INVLPG is 'the address reached the flush seam'",
        "trusted Go: the software MMU (walk/resolve), the seams ptePtrFn/nextAddrFn/flushTLBEntryFn/activePDTFn/switchPDTFn/frame allocator bound to host memory (frame = host address >> 12), the projection and the event logger in harness/vmm/c04_pagetables_test.go",
        "nextAddrFn receives a host pointer shifted by the kernel; the harness applies the same shift to the virtual entry address and resolves it through the MMU (the shift amount itself is taken from the kernel's computation)",
        "leaf flag sets are drawn from all declared PageTableEntryFlag bits (0-9, 63; bit 7 is PAT on a 4K leaf); frame numbers are below 2^40 (52-bit physical addresses); huge-page UPPER-level entries are not generated; the zero-frame protection (C06) is switched off",
        "translations are observed on a per-case universe of pages (about 45: temp page, reservation window, identity run, pages sharing 0-3 upper-level tables, both canonical halves); new tables are inspected entry by entry",
        "the environment ORs extra flag bits (user, PWT, PCD, accessed, dirty, global, NX; never bit 7) into recursive entries and present upper-level entries (raw poke, as the hardware / boot loader would); the active-space digest then decides 'bit for bit'",
        "PageDirectoryTable.Init writes through the temporary mapping: the harness hands Init the host alias of whatever frame the temporary page translates to after the real MapTemporary ran",
    ]
    ctx.rule = ("case = universe + sequence of map / unmap / map-region / identity-map / map-temporary / translate / pdt-init / switch "
                "requests on active and inactive address spaces with allocation failure injected at the k-th allocator call; leg G replays "
                "every transition TLC generated into the last level of the small-scope model (with its path), indices mapped to 0/256/510/511; "
                "leg T draws seeded random histories; a case is distinct by its full event sequence and non-trivial when a mapping succeeded")
    d = ctx.spec_dir("vmm")
    raws = []
    if q:
        legs = [(1, "MCPageTables1Quick", 0), (2, "MCPageTables2Quick", 0)]
    else:
        legs = [(1, "MCPageTables1Quick", 0), (1, "MCPageTables1Full", 0), (1, "MCPageTables1Remap", 0), (2, "MCPageTables2Full", 0)]
    import concurrent.futures
    pool = concurrent.futures.ThreadPoolExecutor(max_workers=4 if q else 2)   # JVM start-up dominates the small legs: overlap them
    mfuts = []
    for ib, cfg, _ in legs:
        raw = os.path.join(ctx.work, "c04_raw_%s.ndjson" % cfg)
        if q:
            mfuts.append(pool.submit(ctx.model_check, d, "MCPageTables", cfg, env={"CASES": raw}, timeout=1500, workers=4))
        else:
            ctx.model_check(d, "MCPageTables", cfg, env={"CASES": raw}, timeout=1500, workers=8)
        raws.append((ib, cfg, raw))
    bugs = ["NoClearNewTable", "NoRestoreRecursive"] if q else \
           ["NoClearNewTable", "NoRestoreRecursive", "StaleBitsOnRemap", "NoFlushOnUnmap", "NoFlushOnMap", "RegionCountUnrounded",
            "UnmapHugeGuardHoisted", "LeafForcedPresent", "RestoreRebuildsEntry", "RemapKeepsFrame"]
    bfuts = [pool.submit(ctx.expect_model_violation, d, "MCPageTables", "MCPageTablesBug_" + b, timeout=300, workers=2 if q else 4)
             for b in bugs]
    for f in mfuts:
        f.result()

    cases = os.path.join(ctx.work, "c04_cases.ndjson")
    exhaustive = True
    for ib, cfg, raw in raws:
        cap = (2500 if ib == 1 else 0) if q else 0
        total, used = convert(ctx, ib, MODEL_U[ib], raw, cases, n=cap)
        exhaustive = exhaustive and used == total
        ctx.cov["legs"][cfg]["transitions_emitted"] = total
        ctx.cov["legs"][cfg]["replayed"] = used
    trg = os.path.join(ctx.work, "c04_trace_g.ndjson")
    vc.go(ctx, HARNESS, "TestVerifC04Cases", {"CASES": cases, "TRACE_OUT": trg}, timeout=900)
    trt = os.path.join(ctx.work, "c04_trace_t.ndjson")
    vc.go(ctx, HARNESS, "TestVerifC04Random", {"TRACE_OUT": trt, "NTRACES": 60 if q else 1500}, timeout=900)
    traces = [("G-transitions", trg), ("T-random", trt)]
    if q:                   # one batch of monitor processes instead of two
        both = os.path.join(ctx.work, "c04_trace_gt.ndjson")
        with open(both, "w") as g:
            for _, pth in traces:
                with open(pth) as f:
                    g.write(f.read())
        traces = [("G-transitions+T-random", both)]
    vc.judge(ctx, "PageTablesTrace", "PageTablesTraceC04", traces,
             to_replay, nontrivial, brief, timeout=1500, parallel=8 if q else None)
    for f in bfuts:
        f.result()          # a Broken raised in an overlapped design-mutant leg surfaces here
    pool.shutdown()
    ctx.cov["exhaustive"] = exhaustive and not ctx.violations
    ctx.cov["explanation"] = ("exhaustive = every transition TLC generated into the last level of the small-scope models "
                              "(2 and 4 entries per table) was replayed on the real code together with a path reaching it; "
                              "the quick tier replays a seeded sample of the 2-entry model's transitions")


def replay(ctx, path):
    with open(path) as f:
        rep = json.load(f)["replay"]
    cf = os.path.join(ctx.work, "replay_case.ndjson")
    with open(cf, "w") as f:
        f.write(json.dumps({"U": rep["U"], "script": rep["script"]}) + "\n")
    tr = os.path.join(ctx.work, "trace_replay.ndjson")
    vc.go(ctx, HARNESS, "TestVerifC04Cases", {"CASES": cf, "TRACE_OUT": tr}, timeout=300)
    acc, nev, mism = ctx.validate_traces("PageTablesTrace", "PageTablesTraceC04", tr, ("vmm",), name="replay")
    for m in mism:
        ctx.violation({"leg": "replay", "mismatch": m["mismatch"]}, rep)
    ctx.cov["states"] = max(ctx.cov["states"], 1)
    ctx.cov["transitions"] = max(ctx.cov["transitions"], 1)
    return None
