"""C19: console drivers paint exactly the addressed cells, never outside the framebuffer.
See DESIGN.md 4.17 and specs/console/{Console,ConsoleModel,MCConsole,ConsoleTrace}.tla.

 M  TLC explores ConsoleModel (byte-level transcription of both drivers) for every geometry of the small
    scope and every Write/Fill/Scroll with arguments from {0,1,2,3,4,2^31,2^32-2,2^32-1}; each produced event
    is judged by the monitor operators of Console.tla (invariant NoMismatch).  Design mutants must be rejected.
 G  the same run emits every geometry and call; the Go harness replays all of them on the real drivers.
 T  seeded random geometries at real scale (all depths, mask layouts, shipped fonts, logos, row padding).
 V  every recorded event (arguments, outcome, diff of the buffer, guard status) is judged by ConsoleTrace.tla.
"""
import json, os, random
import vlib

HARNESS = ["console/c19_trace_test.go"]
PKG = "device/video/console"
DEVS = {"ScrollCopiesPadding": "C19_DEV_SCROLLPAD", "Pack32HighByte": "C19_DEV_PACK32", "VgaWriteBg15": "C19_DEV_VGABG15"}
ALL_BUGS = ["FillClipWraps", "ScrollCopiesPadding", "WriteXGe", "OffsetIgnoresLogo", "MaskNotReset", "Pack15As16",
            "ScrollCopiesLogo", "FillClipWidthAgainstRows", "GridIgnoresLogo", "VgaBg15", "VgaColor16", "EmptyGridUnguarded", "PackWideMaskZero", "Pack32ThreeBytes"]
ASSUME = [
    "pitch >= width * bytes per pixel; the logo is not taller than the framebuffer (SetLogo itself cannot draw a taller one); grids WITHOUT cells are inside the domain (framebuffer narrower than a glyph, no room for a text line below the logo, logo filling the framebuffer, text consoles with 0 columns or rows): Write and Fill must not change anything there",
    "colour masks: three non-overlapping fields inside the pixel, 0-8 bits wide (up to 12 bits in a 32-bit pixel; wider fields are not generated); only bits covered by a mask are constrained in a painted pixel (bit 15 of a 15-bpp pixel and the X byte of an XRGB pixel are don't-care bits); a field narrower than 8 bits holds the top bits of the component, in a wider field the component is left-justified and the low bits are don't-care",
    "fonts: 8-16 pixels wide, 1-28 pixels high, 256 glyphs, BytesPerRow = ceil(GlyphWidth/8) as in every shipped font (a font whose rows carry extra padding bytes is not generated)",
    "text console: Write with a colour index above 15 must store the console's default colour (documented on Write; DefaultColors() is logged per case); Fill documents nothing for indices above 15, so for those only the extent of the change is constrained; Fill content of a text cell is the console's clear character in the requested colours; the framebuffer palette has 256 entries, every uint8 is a valid index",
    "visible pixels that belong to no cell (the margin right of the last whole cell column and the pixel rows below the last whole text line) are unconstrained for every operation: the statement speaks about cells; they only have to stay inside the framebuffer and are not padding",
    "Scroll: the vacated lines are unconstrained (the caller repaints them); logo rows and row padding must keep their bytes; only the directions up and down are driven",
    "not covered: framebuffers wider than 200 px or higher than ~60 px (real screen sizes; byte-exact validation of megabyte buffers is too expensive - the drivers contain no size threshold between the covered sizes and 2^32-byte offsets), text grids beyond 132x60, calls before SetFont",
    "trusted Go: construction of the consoles through DriverInit/SetLogo/SetFont over host memory, the diff/guard projection and the event writer in harness/console (no expected results in them); a periodic full checkpoint cross-checks the diff projection against the monitor's reconstruction",
    "non-termination is decided by process CPU time of an isolated child (1.5 s per call), not wall clock",
]
M32 = 1 << 32

# inputs that exposed defects on the pinned tree: always part of leg G (regression corpus)
VGA43 = {"cons": "vga", "w": 4, "h": 3, "pitch": 4, "bpp": 0, "ci": [0] * 6, "gw": 1, "gh": 1, "offY": 0}
FB16 = {"cons": "fb", "w": 19, "h": 6, "pitch": 41, "bpp": 16, "ci": [11, 5, 5, 6, 0, 5], "gw": 9, "gh": 2, "offY": 1}
PINNED = [
    dict(VGA43, id=901, calls=[[1, 1, 2, 1, M32 - 1, 7, 1]]),                 # y+height-1 wraps: index out of range
    dict(VGA43, id=902, calls=[[1, 2, 1, M32 - 1, 1, 7, 1]]),                 # x+width-1 wraps: nothing filled
    dict(VGA43, id=903, calls=[[0, 65, 7, 15, 2, 2]]),                        # background 15 stored as 0
    dict(VGA43, id=909, calls=[[0, 65, 16, 0, 1, 1], [0, 66, 7, 16, 2, 1], [0, 67, 16, 16, 3, 1], [0, 68, 255, 128, 4, 1],
                               [1, 1, 3, 2, 1, 16, 1], [1, 3, 3, 2, 1, 7, 255]]),   # colours beyond the 16-entry palette
    dict(VGA43, id=904, calls=[[1, 4, 3, M32 - 2, M32 - 2, 3, 2], [1, 0, 0, M32 - 1, M32 - 1, 3, 2]]),
    dict(FB16, id=905, calls=[[2, 0, 1], [2, 1, 1]]),                         # scroll rewrites row padding
    dict(FB16, id=906, calls=[[1, 2, 2, 0, M32 - 1, 0, 9]]),                  # ~2^32 iterations of an empty row loop
    dict(FB16, id=907, calls=[[1, 2, 1, M32 - 1, 1, 0, 9], [1, 1, 2, 1, M32 - 1, 0, 9]]),
    {"id": 908, "cons": "fb", "w": 17, "h": 5, "pitch": 70, "bpp": 32, "ci": [24, 8, 16, 8, 8, 8], "gw": 8, "gh": 2, "offY": 0,
     "calls": [[0, 1, 200, 7, 1, 1], [1, 1, 1, 2, 2, 0, 9], [2, 0, 1]]},      # colour component in byte 3 of the pixel
]
# quantifier audit: grids without cells and colour fields wider than the 8-bit palette components
FB8 = {"cons": "fb", "pitch": 11, "bpp": 8, "ci": [0] * 6, "gw": 8, "gh": 2}
PINNED += [
    dict(FB8, id=910, w=5, h=5, offY=0, calls=[[1, 1, 1, 1, 1, 0, 9]]),           # narrower than a glyph: 0 columns
    dict(FB8, id=911, w=9, h=2, offY=1, calls=[[1, 1, 1, 1, 1, 0, 9]]),           # no room for a text line: 0 rows
    dict(FB8, id=912, w=9, h=3, offY=3, calls=[[0, 1, 2, 3, 1, 1], [1, 2, 2, 1, 1, 0, 9], [2, 0, 1], [2, 1, 0]]),   # logo fills it
    dict(VGA43, id=913, w=0, pitch=0, calls=[[1, 1, 1, 1, 1, 7, 1]]),             # text console without columns
    dict(VGA43, id=914, w=0, pitch=0, calls=[[2, 1, 1]]),
    dict(VGA43, id=915, h=0, calls=[[1, 1, 1, 1, 1, 7, 1], [2, 1, 1], [0, 65, 7, 1, 1, 1]]),
    {"id": 916, "cons": "fb", "w": 17, "h": 5, "pitch": 70, "bpp": 32, "ci": [20, 10, 10, 10, 0, 10], "gw": 8, "gh": 2, "offY": 0,
     "calls": [[0, 1, 200, 7, 1, 1], [1, 1, 1, 2, 2, 0, 9]]},                     # 2:10:10:10
    {"id": 917, "cons": "fb", "w": 17, "h": 5, "pitch": 37, "bpp": 16, "ci": [11, 5, 5, 0, 0, 5], "gw": 8, "gh": 2, "offY": 0,
     "calls": [[0, 1, 200, 7, 1, 1], [1, 1, 1, 2, 2, 0, 9]]},                     # a component without bits
]
PINNED_MIN_ID = 900


def word(v):
    return v[0] * 65536 + v[1]


def conv_call(c):
    if c[0] == 0:
        return [0, c[1], c[2], c[3], word(c[4]), word(c[5])]
    if c[0] == 1:
        return [1, word(c[1]), word(c[2]), word(c[3]), word(c[4]), c[5], c[6]]
    return [2, c[1], word(c[2])]


def load_emitted(path):
    """Lines written by TLC: JSON strings holding JSON ({t:geom,...} / {t:calls,id,script})."""
    geoms, calls = {}, {}
    with open(path) as f:
        for line in f:
            line = line.strip()
            if not line:
                continue
            try:
                j = json.loads(line)
                if isinstance(j, str):
                    j = json.loads(j)
            except Exception:
                raise vlib.Broken("unparsable case line emitted by TLC: %r" % line[:200])
            if j["t"] == "geom":
                geoms[j["id"]] = j
            else:
                calls.setdefault(j["id"], []).append([conv_call(c) for c in j["script"]])
    return geoms, calls


def write_cases(path, geoms, calls, seed):
    """One case per geometry: all emitted scripts of that geometry, shuffled by the seed, run back to back on one console
    (the monitor tracks the content), re-initialised every 400 calls so that validation parallelises."""
    n = 0
    rnd = random.Random(seed)
    with open(path, "w") as f:
        for p in PINNED:     # first, so that the documented reproducers are always reached
            g = dict(p)
            g.update({"font": "", "align": 0, "seed": seed * 100003 + g["id"], "reinit": 0, "chk": 1})
            n += len(g["calls"])
            f.write(json.dumps(g) + "\n")
        for gid in sorted(geoms):
            g = dict(geoms[gid])
            g.pop("t")
            scripts = list(calls.get(gid, []))
            rnd.shuffle(scripts)
            flat = [c for s in scripts for c in s]
            n += len(flat)
            g.update({"font": "", "align": gid % 3, "seed": seed * 100003 + gid * 17, "reinit": 400, "chk": 200, "calls": flat})
            f.write(json.dumps(g) + "\n")
    return n


def case_to_replay(events):
    """The exact input of one recorded case: geometry, environment seed and the calls up to the offending one."""
    e0 = events[0]
    calls = []
    for e in events[1:]:
        if e["k"] == "write":
            calls.append([0, e["ch"], e["fg"], e["bg"], word(e["x"]), word(e["y"])])
        elif e["k"] == "fill":
            calls.append([1, word(e["x"]), word(e["y"]), word(e["w"]), word(e["h"]), e["fg"], e["bg"]])
        elif e["k"] == "scroll":
            calls.append([2, e["dir"], word(e["n"])])
    return {"id": e0["id"], "cons": e0["cons"], "w": e0["w"], "h": e0["h"], "pitch": e0["pitch"], "bpp": e0["bpp"], "ci": e0["ci"],
            "gw": e0["gw"], "gh": e0["gh"], "offY": e0["offY"], "font": e0["font"], "align": e0["align"], "seed": e0["seed"],
            "reinit": 0, "chk": 0, "calls": calls}


def extract_pinned(src, dst, skip):
    """Copy the cases of the pinned reproducers (init id >= PINNED_MIN_ID, not in skip) out of the G trace; returns their number."""
    n, keep = 0, False
    with open(src) as f, open(dst, "w") as o:
        for line in f:
            e = json.loads(line)
            if e["k"] == "init":
                keep = e["id"] >= PINNED_MIN_ID and (e["id"], e["seed"]) not in skip
                n += keep
            if keep:
                o.write(line)
    return n


def brief(e):
    e = dict(e)
    for k in ("fd", "pal", "rows"):
        if k in e:
            e[k] = "<%d values>" % len(e[k])
    if "d" in e and len(json.dumps(e["d"])) > 300:
        e["d"] = "<%d changed rows>" % len(e["d"])
    return e


def run_harness(ctx, env, what):
    rc, out, wall = ctx.gotest("kernel", PKG, HARNESS, "^TestVerifC19$", env=env, timeout=1500)
    st = env["TRACE_OUT"] + ".status"
    if rc != 0 or not os.path.exists(st):
        raise vlib.Broken("console harness (%s) failed:\n%s" % (what, out[-3000:]))
    with open(st) as f:
        j = json.load(f)
    return j["hangs"], bool(j["truncated"]), wall


def account(ctx, name, path):
    """Evidence: distinct non-trivial executions = calls that changed the buffer, keyed by geometry + arguments."""
    g, shown, n = None, 0, 0
    with open(path) as f:
        for line in f:
            e = json.loads(line)
            k = e["k"]
            if k == "init":
                g = [e[x] for x in ("cons", "w", "h", "pitch", "bpp", "ci", "gw", "gh", "offY")]
                shown = 0
            elif k in ("write", "fill", "scroll"):
                n += 1
                if e["d"]:
                    ctx.distinct([g, [e[x] for x in sorted(e) if x not in ("d", "res", "guard", "msg")]])
                    if shown < 1 and len(ctx.cov["samples"]) < 4 and len(json.dumps(e["d"])) < 600:
                        ctx.sample({"leg": name, "geometry": g, "event": e})
                        shown += 1
    return n


def validate(ctx, name, path, open_devs, findings):
    """Strict pass first.  A mismatch that is exactly an open named deviation (diagnosis tagged Dev_<name>, name recorded in
    known_findings.json) is reported as KNOWN-FINDING and the trace is validated again with that deviation accepted, until
    no further open deviation shows up.  Returns the genuine mismatches of the last pass."""
    par = 3 if ctx.quick else 16
    enabled = set()
    while True:
        env = {v: ("1" if k in enabled else "0") for k, v in DEVS.items()}
        leg = name + ("+" + "+".join(sorted(enabled)) if enabled else "")
        acc, nev, mism = ctx.validate_traces("ConsoleTrace", "ConsoleTrace", path, ("console",), env=env, name=leg, timeout=1500,
                                             parallel=par)
        bad, new = [], set()
        for m in mism:
            why = m["mismatch"][2]
            tag = why[0] if why and isinstance(why[0], str) else ""
            if tag.startswith("Dev_") and tag[4:] in open_devs and tag[4:] not in enabled:
                new.add(tag[4:])
            else:
                bad.append(m)
        if not new:
            return bad
        for dv in sorted(new):
            ctx.known_finding(findings[dv])
        enabled |= new


def report(ctx, name, bad, seen):
    """One VIOLATION (with replay file) per kind of mismatch and console type; at most 10 per run."""
    for m in bad:
        why = m["mismatch"][2]
        ev = m["case_events"][:m["line_in_case"]]
        key = json.dumps([ev[0].get("cons"), why[:3] if why[0] == "call did not return normally" else why[:1]])
        if key in seen or len(ctx.violations) >= 10:
            continue
        seen.add(key)
        rep = case_to_replay(ev)
        ctx.violation({"leg": name, "mismatch": m["mismatch"], "geometry": brief(ev[0]), "event": brief(ev[-1])}, rep)


def run(ctx):
    q = ctx.quick
    ctx.assumptions += ASSUME
    ctx.rule = ("one execution = one Write/Fill/Scroll call on a console of some geometry with 32-bit arguments; leg G replays every call TLC "
                "explored in the small scope (grids 0x2 .. 3x3, fonts 8x2/9x2/16x2, padded and unpadded rows, depths 8/15/16/24/32, mask fields of 0-10 bits, arguments 0..4, 2^31, 2^32-2, 2^32-1 and limb-boundary values) "
                "plus the pinned reproducers; leg T draws seeded random geometries at real scale (width 8-70 px, height up to 60 px, pitch up to +17, "
                "five depths, several mask layouts, shipped and synthetic fonts, logo heights 0/5/13, text consoles up to 80x25) with 200 calls each; "
                "an execution is distinct by geometry + arguments and non-trivial when it changed the buffer")
    findings = {f["deviation"]: f.get("what", f["deviation"]) for f in ctx.open_findings() if f.get("deviation") in DEVS}
    open_devs = set(findings)
    d = ctx.spec_dir("console")
    cases = os.path.join(ctx.work, "emitted.ndjson")

    # ---- leg M
    ctx.model_check(d, "MCConsole", "MCConsoleQuick" if q else "MCConsoleFull", env={"CASES": cases}, timeout=1500)
    if not q:
        ctx.model_check(d, "MCConsole", "MCConsoleHist", env={"CASES": os.devnull}, timeout=900)
        ctx.model_check(d, "MCConsole", "MCConsoleLimb", env={"CASES": cases}, timeout=900)     # appends to the emitted cases
    for b in (["FillClipWraps", "ScrollCopiesPadding"] if q else ALL_BUGS):
        ctx.expect_model_violation(d, "MCConsole", "MCConsoleBug_" + b, env={"CASES": os.devnull}, timeout=600, workers=4)

    # ---- leg G: every emitted call replayed on the real drivers
    geoms, calls = load_emitted(cases)
    if not geoms or not calls:
        raise vlib.Broken("TLC emitted no cases")
    gcases = os.path.join(ctx.work, "gcases.ndjson")
    n_g = write_cases(gcases, geoms, calls, ctx.seed)
    ctx.cov["legs"]["emitted"] = {"geometries": len(geoms), "calls": n_g}
    tr_g = os.path.join(ctx.work, "trace_g.ndjson")
    hangs_g, trunc_g, _ = run_harness(ctx, {"C19_MODE": "cases", "C19_CASES": gcases, "TRACE_OUT": tr_g}, "G")
    # ---- leg T: random geometries at real scale
    tr_t = os.path.join(ctx.work, "trace_t.ndjson")
    ncases = 20 if q else 500
    hangs_t, trunc_t, _ = run_harness(ctx, {"C19_MODE": "random", "C19_NCASES": ncases, "C19_NCALLS": 200, "C19_HI32": "1",
                                            "TRACE_OUT": tr_t}, "T")
    ctx.cov["legs"]["harness"] = {"G_calls": n_g, "T_cases": ncases, "calls_cut_off_by_cpu_watchdog": hangs_g + hangs_t}

    # ---- leg V
    total_bad, seen = 0, set()
    for name, path, trunc in (("G-replay", tr_g, trunc_g), ("T-random", tr_t, trunc_t)):
        bad = validate(ctx, name, path, open_devs, findings)
        report(ctx, name, bad, seen)
        total_bad += len(bad)
        account(ctx, name, path)
        if trunc and not bad:
            raise vlib.Broken("harness stopped after calls that did not return but the monitor reported nothing (%s)" % name)
    done_pinned = set()
    if total_bad:
        # a chunk of cases stops at its first mismatch; on a defective tree judge every pinned reproducer on its own so that
        # each documented defect is reported with its replay file
        pin = os.path.join(ctx.work, "trace_pinned.ndjson")
        for rnd in range(6):
            if not extract_pinned(tr_g, pin, done_pinned):
                break
            bad = validate(ctx, "G-pinned%d" % rnd, pin, open_devs, findings)
            if not bad:
                break
            report(ctx, "G-pinned", bad, seen)
            for m in bad:
                done_pinned.add((m["case_events"][0]["id"], m["case_events"][0]["seed"]))
    ctx.cov["exhaustive"] = (not trunc_g) and total_bad == 0
    ctx.cov["explanation"] = ("exhaustive = every geometry and every Write/Fill/Scroll argument combination of this tier's TLC scope "
                              "(%d geometries, %d calls) was replayed on the real drivers and accepted by the monitor; the scope of the quick tier "
                              "is 4 geometries, of the thorough tier 90" % (len(geoms), n_g))


def replay(ctx, path):
    with open(path) as f:
        rep = json.load(f)["replay"]
    findings = {f["deviation"]: f.get("what", f["deviation"]) for f in ctx.open_findings() if f.get("deviation") in DEVS}
    cf = os.path.join(ctx.work, "replay_case.ndjson")
    with open(cf, "w") as f:
        f.write(json.dumps(rep) + "\n")
    tr = os.path.join(ctx.work, "trace_replay.ndjson")
    run_harness(ctx, {"C19_MODE": "cases", "C19_CASES": cf, "TRACE_OUT": tr}, "replay")
    bad = validate(ctx, "replay", tr, set(findings), findings)
    report(ctx, "replay", bad, set())
    ctx.cov["states"] = max(ctx.cov["states"], 1)
    ctx.cov["transitions"] = max(ctx.cov["transitions"], 1)
    return None
