"""C14: only checksum-valid ACPI tables are registered, found via the right root pointer.
DESIGN.md 4.12 (+ section 6 items 7, 7b); specs/acpi/{AcpiEnum,AcpiModel,MCAcpi,AcpiTrace}.tla; harness/acpi/c14_acpi_test.go."""
import json, os, random
import vlib

HARNESS = ["acpi/c14_acpi_test.go"]
PKG = ("kernel", "device/acpi")
DESIGN_BUGS_QUICK = ["Ext40", "StopOnBad", "Trunc32"]
DESIGN_BUGS_FULL = ["NoRsdpChecksum", "RevInverted", "Ext40", "NoTableChecksum", "StopOnBad", "DsdtFromBadFadt", "WidthSwapped", "IgnoreXdsdt", "Sig7", "Trunc32"]
XDSDT = "xdsdt-only"     # id of the rule-shaped known finding (DESIGN section 6 item 7b), honoured only while listed in known_findings.json
ASSUME = [
    "firmware images in ACPI's packed binary layout: root pointer 20 bytes (revision 0) or 36 bytes (extended), FADT with DSDT at offset 40 and X_DSDT at 140, "
    "root tables (RSDT 4-byte entries, XSDT 8-byte entries) with revision field 1 as real firmware has; both root tables are present, checksum-valid and "
    "list different tables so that the choice of the root is observable",
    "structures that only 64-bit pointers refer to (the XSDT, tables listed by it alone, a DSDT behind X_DSDT alone) are placed, in about half of the images, in a second "
    "area at or above 4 GiB whose addresses modulo 2^32 are reserved PROT_NONE: a 64-bit address cut to 32 bits faults or names no root table",
    "at most one root-pointer candidate has a valid checksum; a revision >= 1 candidate with a valid 36-byte sum always has a valid 20-byte sum too "
    "(the statement says 'its checksum'); decoys and near-miss signatures may sit before and after it, also in the neighbouring slots (a revision-0 decoy right before another candidate, any revision-0 candidate two slots before one); every candidate structure lies wholly inside the search window (revision 0 up to slot 8190, otherwise up to 8189) - a decoy crossing the window end is not generated because the statement does not speak about reads behind the window",
    "0..~320 tables of 36 bytes .. ~100 KiB at arbitrary byte alignment; not covered: tables beyond ~100 KiB (table areas are 384 KiB), more than ~320 tables, two valid root pointers, a corrupted root table",
    "tables have distinct signatures; a corrupted table has one byte at an offset >= 8 changed after the checksum was set (signature and length intact); "
    "the DSDT is reachable only through the FADT",
    "the DSDT outcome is constrained when the FADT designates exactly one table: 32-bit pointer set (64-bit null or equal), or only the 64-bit pointer set on "
    "revision >= 1 firmware; 64-bit-only on revision-0 firmware, two different pointers and a FADT without any DSDT pointer are not generated",
    "'reported' = the signature of the bad table occurs in the text written to the init log (wording not constrained); registered = tableMap[signature] points to that table",
    "out-of-image reads are observed as faults on the PROT_NONE pages that follow the search window and the table area",
    "trusted Go: the image builder (abstract image -> bytes in a MAP_32BIT arena), identityMapFn/mapFn/unmapFn bound to the identity, the event logger (no expected results in them)",
]


def decode_cases(raw, dst, n, seed):
    lines = []
    with open(raw) as f:
        for line in f:
            line = line.strip()
            if line:
                v = json.loads(line)
                if isinstance(v, str):
                    v = json.loads(v)
                lines.append(v)
    total = len(lines)
    if n and total > n:
        lines = random.Random(seed).sample(lines, n)
    with open(dst, "w") as f:
        for v in lines:
            f.write(json.dumps(v) + "\n")
    return total, len(lines)


def record(ctx, path, leg):
    evs = vlib.read_ndjson(path)
    if not evs or evs[-1].get("k") != "end":
        raise vlib.Broken("harness trace %s is incomplete (no end marker)" % path)
    nd = 0
    for e in evs:
        if e.get("k") != "acpi":
            continue
        if e["img"]["cands"] or e["img"]["tables"]:
            ctx.distinct([e["img"]])
        if nd < 1 and len(e["img"]["tables"]) >= 3 and e["obs"]["probe"] == "found":
            ctx.sample({"leg": leg, "event": e})
            nd += 1
    return evs


def xdsdt_open(ctx):
    return any(f.get("id") == XDSDT for f in ctx.open_findings())


def is_xdsdt_case(img):
    return any(t["sig"] == "FACP" and t["p32"] == 0 and t["p64"] != 0 and t["bad"] == -1 for t in img["tables"])


def judge(ctx, path, leg, timeout, parallel, cfg="AcpiTrace"):
    acc, nev, mism = ctx.validate_traces("AcpiTrace", cfg, path, ("acpi",), name=leg, timeout=timeout,
                                         is_reset=lambda e: True, parallel=parallel)
    seen = set()
    for m in mism:
        ev = m["case_events"][0]
        why = m["mismatch"][2]
        key = json.dumps(why[0] if isinstance(why, list) else why)
        if key in seen or len(seen) >= 3:
            continue
        seen.add(key)
        ctx.violation({"leg": leg, "mismatch": m["mismatch"][1:], "image": ev["img"], "observed": ev["obs"]},
                      {"img": ev["img"], "fill": ev.get("fill", 0), "scale": ev.get("scale", False)})
    return mism


def run(ctx):
    q = ctx.quick
    ctx.assumptions += ASSUME
    ctx.rule = ("case = one abstract firmware image (root-pointer candidates with slot/revision/checksum state, two root tables, tables with good or "
                "corrupted checksum, FADT pointer mode, DSDT); leg G runs every image TLC enumerated in the small scope (4 window slots mapped to real slots "
                "0/3/4100/8189 x every arrangement of valid/decoy candidates; every list of <= MaxT tables in every order with every good/bad assignment, "
                "FADT 32/64/both, DSDT good/bad, 64-bit-only structures low or above 4 GiB); leg T runs seeded random images (0..~320 tables of 36 B..100 KiB, any slot the structure fits in incl. 8190 for revision 0, neighbouring decoys, "
                "noise-filled window, revisions 0/1/2/3/255); a case is distinct by its image and non-trivial when it has a candidate or a table")
    d = ctx.spec_dir("acpi")
    tier = "Quick" if q else "Full"
    raw = os.path.join(ctx.work, "cases_raw.ndjson")
    # ---- leg M
    r = ctx.model_check(d, "MCAcpi", "MCAcpi" + tier, workers=1, env={"CASES": raw}, timeout=1500, coverage=not q)
    if r.coverage_zero:
        raise vlib.Broken("vacuous bound: actions never taken: %s" % r.coverage_zero)
    for b in (DESIGN_BUGS_QUICK if q else DESIGN_BUGS_FULL):
        ctx.expect_model_violation(d, "MCAcpi", "MCAcpiBug_" + b, workers=1, env={"CASES": os.path.join(ctx.work, "unused.ndjson")}, timeout=300)
    # ---- legs G + T on the real package
    cases = os.path.join(ctx.work, "cases.ndjson")
    total, used = decode_cases(raw, cases, 0, ctx.seed)
    ctx.cov["legs"]["MCAcpi" + tier]["cases_emitted"] = total
    ctx.cov["legs"]["MCAcpi" + tier]["cases_replayed"] = used
    tg, tt = os.path.join(ctx.work, "trace_g.ndjson"), os.path.join(ctx.work, "trace_t.ndjson")
    rc, out, _ = ctx.gotest(PKG[0], PKG[1], HARNESS, "TestVerifC14(Cases|Random)",
                            env={"CASES": cases, "TRACE_G": tg, "TRACE_T": tt, "NTRACES": 400 if q else 40000}, timeout=900)
    if rc != 0 or not all(os.path.exists(p) for p in (tg, tt)):
        raise vlib.Broken("acpi harness failed:\n" + out[-3000:])
    dev = xdsdt_open(ctx)
    cfg = "AcpiTraceDev" if dev else "AcpiTrace"
    par = 6 if q else 12
    skipped = 0
    repro = None
    for leg, p in (("G-cases", tg), ("T-random", tt)):
        evs = record(ctx, p, leg)
        skipped += evs[-1].get("skipped", 0)
        if dev and repro is None:
            repro = next((e for e in evs if e.get("k") == "acpi" and e["obs"]["probe"] == "found" and is_xdsdt_case(e["img"])), None)
        judge(ctx, p, leg, 1500, par, cfg)
    if skipped and not ctx.violations:
        raise vlib.Broken("harness skipped %d cases after repeated crashes but the monitor found no mismatch" % skipped)
    if dev and repro is not None:
        # the deviation is open: show (with the strict monitor) that its reproducer still fails, otherwise the finding should be closed
        rp = os.path.join(ctx.work, "xdsdt_repro.ndjson")
        with open(rp, "w") as f:
            f.write(json.dumps(repro) + "\n")
        acc, nev, mism = ctx.validate_traces("AcpiTrace", "AcpiTrace", rp, ("acpi",), name="known-finding-repro", timeout=300,
                                             is_reset=lambda e: True, parallel=1)
        if mism:
            ctx.known_finding("FADT whose only DSDT pointer is the 64-bit X_DSDT: the DSDT is not registered (enumeration reads the null 32-bit pointer); "
                              "images of that class are not judged beyond the root-pointer stage")
        else:
            ctx.note("known finding '%s' no longer reproduces: remove it from known_findings.json" % XDSDT)
    ctx.cov["exhaustive"] = not ctx.violations
    ctx.cov["explanation"] = ("exhaustive = every image of the TLC small scope of this tier was run through the real probe and DriverInit "
                              "(quick: lists of <= 3 tables, thorough: <= 4)")


def replay(ctx, path):
    with open(path) as f:
        rep = json.load(f)["replay"]
    cf = os.path.join(ctx.work, "replay_case.ndjson")
    with open(cf, "w") as f:
        f.write(json.dumps({"img": rep["img"], "fill": rep.get("fill", 0), "scale": rep.get("scale", False)}) + "\n")
    tg = os.path.join(ctx.work, "trace_replay.ndjson")
    rc, out, _ = ctx.gotest(PKG[0], PKG[1], HARNESS, "TestVerifC14Cases",
                            env={"CASES": cf, "TRACE_G": tg, "VERIF_C14_EXACT": 1}, timeout=300)
    if rc != 0 or not os.path.exists(tg):
        raise vlib.Broken("replay harness failed:\n" + out[-2000:])
    judge(ctx, tg, "replay", 300, 1, "AcpiTraceDev" if xdsdt_open(ctx) else "AcpiTrace")
    ctx.cov["states"] = max(ctx.cov["states"], 1)
    ctx.cov["transitions"] = max(ctx.cov["transitions"], 1)
    return None
