"""C10: multiboot information is decoded exactly and never read past its end.
DESIGN.md 4.8; specs/multiboot/{Mb2,Mb2Model,MCMb2,Mb2Trace}.tla; harness/multiboot/c10_mb_test.go."""
import json, os, random
import vlib

HARNESS = ["multiboot/c10_mb_test.go"]
PKG = ("kernel", "multiboot")
DESIGN_BUGS_QUICK = ["NoAlign", "LastWins", "TypeGt5"]
DESIGN_BUGS_FULL = ["NoAlign", "LastWins", "Stride24", "SizeWithHeader", "TypeGt5", "CmdLenPlusOne", "ReportEmpty", "EagerStrtab", "RgbUnlessText"]
ASSUME = [
    "well-formed blocks only: declared tag sizes are exact, memory-map tag size = 16 + entries*entry_size, command line NUL-terminated inside its tag, "
    "ELF tag with 64-byte (ELF64) section headers: either no section at all (string-table index 0) or >= 1 section with a valid string-table index and name offsets inside a NUL-terminated string table",
    "tag layouts follow GRUB's multiboot2.h (framebuffer: 16-bit reserved field before the colour info; ELF tag: three 32-bit words before the headers)",
    "defined memory-region types are 1..4 (the package's MemoryEntryType constants); every other 32-bit value must be reported as reserved (2)",
    "command-line entries with two or more '=' are neither key=value nor bare flag: blocks containing one are still decoded (fault check) but their "
    "command-line result is not constrained; for a bare flag only the presence of the key is required; a key given twice may report either value; any byte 1..255 except the UTF-8 lead bytes C2/E1/E2/E3 (with them a non-ASCII Unicode space could form, and the statement does not say whether those separate entries); entries are separated by ASCII white space",
    "ELF section flags are generated below 2^32 (the visitor's flag type is 32 bits wide); sections are compared as a bag (the statement orders regions, not sections)",
    "an RGB layout is reported iff the framebuffer tag has type 1 (direct colour); for indexed, EGA-text and unknown types RGBColorInfo() must be nil (logged as an empty list)",
    "reads outside the block are observed as faults on the PROT_NONE page that directly follows the block (and the string table); a stray read that stays "
    "inside mapped memory before the block is visible only through a wrong result",
    "not covered (infeasible or outside the statement): tags of >= 2^31 bytes, ELF section counts >= 65536, ELF32 section headers, memory maps of more than ~600 entries, command lines beyond ~16 KiB, blocks beyond ~400 KiB; T reaches entry sizes up to 70001, 565 entries, 430 sections, names of 500 characters, unknown tags of 100 KiB, tag types >= 2^31",
    "trusted Go: the block encoder (abstract tags -> bytes), the guard-page arena and the event logger in harness/multiboot (no expected results in them)",
]


def decode_cases(raw, dst, n, seed):
    """TLC writes each case as a JSON string holding JSON; write plain ndjson (n > 0: a seeded sample of n cases)."""
    lines = []
    with open(raw) as f:
        for line in f:
            line = line.strip()
            if line:
                v = json.loads(line)
                if isinstance(v, str):
                    v = json.loads(v)
                lines.append(v)
    total = len(lines)
    if n and total > n:
        rnd = random.Random(seed)
        lines = rnd.sample(lines, n)
    with open(dst, "w") as f:
        for v in lines:
            f.write(json.dumps(v) + "\n")
    return total, len(lines)


def nontrivial(ev):
    return any(t["k"] != "other" for t in ev["blk"])


def record(ctx, path, leg):
    evs = vlib.read_ndjson(path)
    if not evs or evs[-1].get("k") != "end":
        raise vlib.Broken("harness trace %s is incomplete (no end marker)" % path)
    nd = 0
    for e in evs:
        if e.get("k") != "decode":
            continue
        if nontrivial(e):
            ctx.distinct([e["blk"], e["padb"]])
        if nd < 1 and len(e["blk"]) >= 2 and len(json.dumps(e)) < 1500:
            ctx.sample({"leg": leg, "event": e})
            nd += 1
    return evs


def judge(ctx, path, leg, timeout, parallel):
    acc, nev, mism = ctx.validate_traces("Mb2Trace", "Mb2Trace", path, ("multiboot",), name=leg, timeout=timeout,
                                         is_reset=lambda e: True, parallel=parallel)
    seen = set()
    for m in mism:
        ev = m["case_events"][0]
        why = m["mismatch"][2]
        key = json.dumps(why[0] if isinstance(why, list) else why)
        if key in seen or len(seen) >= 3:
            continue
        seen.add(key)
        ctx.violation({"leg": leg, "mismatch": m["mismatch"][1:], "block": ev["blk"], "observed": ev["obs"]},
                      {"blk": ev["blk"], "padb": ev["padb"]})
    return mism


def run(ctx):
    q = ctx.quick
    ctx.assumptions += ASSUME
    ctx.rule = ("case = one abstract information block (tag sequence with payloads) + padding byte; leg G decodes every block TLC enumerated in the "
                "small scope (all tag orders/duplicates over a 16-tag menu incl. the empty-payload corner cases (ELF tag without sections, map without entries, empty command line, minimal framebuffer tag) in every position, entry sizes 24/32/40 x all boundary types, every command line over "
                "{a,=,space,tab}, section tables, framebuffer types), each with zero and 0xEE padding; leg T decodes seeded random blocks (<= 13 tags, 0..565 "
                "entries of 24..70001 bytes, arbitrary 32-bit region and tag types, command lines up to kilobytes with any byte, 0..430 sections, tags beyond 64 KiB); a case is distinct by (block, padding) and non-trivial when it "
                "holds at least one decoded tag kind")
    d = ctx.spec_dir("multiboot")
    tier = "Quick" if q else "Full"
    raw = os.path.join(ctx.work, "cases_raw.ndjson")
    # ---- leg M: the design model (offset-level transcription of the decoders) satisfies Judge on every block of the scope
    r = ctx.model_check(d, "MCMb2", "MCMb2" + tier, workers=1, env={"CASES": raw}, timeout=1500, coverage=not q)
    if r.coverage_zero:
        raise vlib.Broken("vacuous bound: actions never taken: %s" % r.coverage_zero)
    for b in (DESIGN_BUGS_QUICK if q else DESIGN_BUGS_FULL):
        ctx.expect_model_violation(d, "MCMb2", "MCMb2Bug_" + b, workers=1, env={"CASES": os.path.join(ctx.work, "unused.ndjson")}, timeout=300)
    # ---- legs G + T on the real package
    cases = os.path.join(ctx.work, "cases.ndjson")
    total, used = decode_cases(raw, cases, 0, ctx.seed)
    ctx.cov["legs"]["MCMb2" + tier]["cases_emitted"] = total
    ctx.cov["legs"]["MCMb2" + tier]["cases_replayed"] = used
    tg, tt = os.path.join(ctx.work, "trace_g.ndjson"), os.path.join(ctx.work, "trace_t.ndjson")
    rc, out, _ = ctx.gotest(PKG[0], PKG[1], HARNESS, "TestVerifC10(Cases|Random)",
                            env={"CASES": cases, "TRACE_G": tg, "TRACE_T": tt, "NTRACES": 250 if q else 20000}, timeout=900)
    if rc != 0 or not all(os.path.exists(p) for p in (tg, tt)):
        raise vlib.Broken("multiboot harness failed:\n" + out[-3000:])
    par = 6 if q else 12
    skipped = 0
    for leg, p in (("G-cases", tg), ("T-random", tt)):
        evs = record(ctx, p, leg)
        skipped += evs[-1].get("skipped", 0)
        judge(ctx, p, leg, 1500, par)
    if skipped and not ctx.violations:
        raise vlib.Broken("harness skipped %d cases after repeated crashes but the monitor found no mismatch" % skipped)
    ctx.cov["exhaustive"] = not ctx.violations
    ctx.cov["explanation"] = ("exhaustive = every block of the TLC small scope of this tier was decoded by the real package, with zero and 0xEE padding "
                              "(quick: <= 3 tags, <= 2 map entries, command lines <= 3 chars, <= 2 sections; thorough: 4 / 3 / 5 / 3)")


def replay(ctx, path):
    with open(path) as f:
        rep = json.load(f)["replay"]
    cf = os.path.join(ctx.work, "replay_case.ndjson")
    with open(cf, "w") as f:
        f.write(json.dumps({"blk": rep["blk"], "padb": rep.get("padb", 0)}) + "\n")
    tg = os.path.join(ctx.work, "trace_replay.ndjson")
    rc, out, _ = ctx.gotest(PKG[0], PKG[1], HARNESS, "TestVerifC10Cases",
                            env={"CASES": cf, "TRACE_G": tg, "VERIF_C10_EXACT": 1}, timeout=300)
    if not os.path.exists(tg):
        raise vlib.Broken("replay harness failed:\n" + out[-2000:])
    judge(ctx, tg, "replay", 300, 1)
    ctx.cov["states"] = max(ctx.cov["states"], 1)
    ctx.cov["transitions"] = max(ctx.cov["transitions"], 1)
    return None
