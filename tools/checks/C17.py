from checks import tty_common


def run(ctx):
    tty_common.run_tty(ctx, "C17")


def replay(ctx, path):
    return tty_common.replay_tty(ctx, "C17", path)
