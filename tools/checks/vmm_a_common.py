"""Helpers shared by C04 (page-table operations) and C07 (virtual-region reservations).
See DESIGN.md 4.2 / 4.5 and specs/vmm/{PageTables*,AddrSpace*}.tla."""
import json, os, random
import vlib


def limbs(w):
    v = 0
    for x in w:
        v = (v << 16) | x
    return v


def decode_cases(src, dst, n=0, seed=1, key=None):
    """TLC's CSVWrite emits each case as a JSON string that contains JSON.  Decode, optionally draw a seeded
    sample of n cases, write clean ndjson.  Returns (total, used)."""
    cases = []
    if os.path.exists(src):
        with open(src) as f:
            for line in f:
                line = line.strip()
                if not line:
                    continue
                v = json.loads(line)
                if isinstance(v, str):
                    v = json.loads(v)
                cases.append(v)
    total = len(cases)
    if total == 0:
        raise vlib.Broken("TLC emitted no cases into " + src)
    if key:
        cases.sort(key=key)
    if n and total > n:
        rnd = random.Random(seed)
        cases = rnd.sample(cases, n)
    with open(dst, "w") as f:
        for c in cases:
            f.write(json.dumps(c, separators=(",", ":")) + "\n")
    return total, len(cases)


def go(ctx, harness, test, env, timeout=600):
    rc, out, wall = ctx.gotest("kernel", "mm/vmm", harness, test, env=env, timeout=timeout)
    if rc != 0:
        raise vlib.Broken("vmm harness %s failed:\n%s" % (test, out[-3000:]))
    ctx.log("Go %s: %.1fs" % (test, wall))
    return out


def iter_cases(path):
    cur = []
    with open(path) as f:
        for line in f:
            if not line.strip():
                continue
            e = json.loads(line)
            if e.get("k") == "reset":
                yield cur
                cur = []
            else:
                cur.append(e)
    if cur:
        yield cur


def split_big(traces, max_events=160000):
    """A monitor process reads its whole chunk into memory: cut very large trace files at case boundaries."""
    out = []
    for name, path in traces:
        with open(path) as f:
            n = sum(1 for _ in f)
        if n <= max_events:
            out.append((name, path))
            continue
        part, cnt, g = 0, 0, None
        with open(path) as f:
            for line in f:
                if g is None:
                    part += 1
                    pp = "%s.part%d" % (path, part)
                    g = open(pp, "w")
                    out.append(("%s.%d" % (name, part), pp))
                g.write(line)
                cnt += 1
                if cnt >= max_events and '"k":"reset"' in line:
                    g.close()
                    g, cnt = None, 0
        if g:
            g.close()
    return out


def judge(ctx, module, cfg, traces, to_replay, nontrivial, brief, timeout=900, max_report=4, parallel=None):
    """Leg V: TLC judges every recorded event.  traces = [(legname, path)]."""
    for name, path in split_big(traces):
        acc, nev, mism = ctx.validate_traces(module, cfg, path, ("vmm",), name=name, timeout=timeout, parallel=parallel)
        nd = 0
        for case in iter_cases(path):
            if nontrivial(case):
                ctx.distinct(case)
            if nd < 1 and len(case) > 1:
                ctx.sample({"leg": name, "events": [brief(e) for e in case[:5]]})
                nd += 1
        seen = set()
        for m in mism:
            mm = m["mismatch"]
            if len(mm) > 1 and mm[1] == "HARNESS":
                raise vlib.Broken("harness/universe problem reported by the monitor: %s" % json.dumps(mm)[:600])
            why = mm[2] if len(mm) > 2 else ""
            ev = m["case_events"][m["line_in_case"] - 1]
            sig = "%s|%s|%s" % (ev.get("k"), mm[1], why if isinstance(why, str) else (why[0] if why else ""))
            if sig in seen or len(seen) >= max_report:
                continue
            seen.add(sig)
            ctx.violation({"leg": name, "mismatch": mm, "event": brief(ev)}, to_replay(m["case_events"]))
