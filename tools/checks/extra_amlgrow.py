"""extra-amlgrow: the AML namespace specification grown towards the full opcode table (DESIGN.md section 5 item 6).
specs/amlx/AmlNsX.tla (loader of C11 + IndexField, BankField, DataTableRegion, Alias, External, CreateXField, Notify/Acquire/Release/
Signal/Wait/Reset, Match, LoadTable, Package with named references, VarPackage, computed Buffer lengths, While, every name form),
MCAmlNsX.tla (generator, legs M/G), MCAmlBodyX.tla + AmlBodyImpl.tla (design model of the parser's operand collection),
AmlNsXTrace.tla (monitor, leg V), AmlEnc*.tla (byte-level encoding); harness/amlx/xa_*.go.
The C11 check and its files are not touched; this family never affects a listed property."""
import concurrent.futures, hashlib, json, os, random, re
import vlib

HARNESS = ["amlx/xa_harness_test.go", "amlx/xa_run_test.go", "amlx/xa_random_test.go", "amlx/xa_enc_test.go"]
PKG = "device/acpi/aml"
C11_IDS = ["D1", "D1b", "D2", "D2c", "D3", "D5", "D6", "D7", "D8", "D9"]
VIA = {"D4": ["D3"], "D6": ["D5", "D7"]}
DEVS = ["IndexFieldNamed", "AliasKeepsSourceName", "ExternalIsObject", "CreateFieldNotNamed", "PackageMethodRefInvoked", "VarPackageCountByte",
        "MatchOperatorBytes", "LoadTableSevenOperands", "IfBodyFlattened", "RelPathInTerm", "ValueNamesFromFinalPlace", "EmptyBufferInDeferred"]
LATE = ["InvisibleCallee", "MethodAsRef", "HiddenNameInDeferred", "BankFieldUnitInDeferred"]
STATEMENTS = [
    "X1 namespace: after the tables of a well-formed program have been parsed in order the tree holds exactly the named objects ACPI's load "
    "rules give (now with DataTableRegion, IndexField/BankField units, Alias, External, scope-level CreateXField), each at its absolute path "
    "with its argument values in order; every deviation of the pinned parser is a documented switch Dev_* of AmlNsX and the tree must then "
    "be exactly what the switch describes",
    "X2 executable code: every method body appears as the same statement sequence with the same block structure, every operator with its "
    "operands in order, every name operand kept as written or resolved to the object the scoping rules designate, every invocation attached "
    "to the designated method with exactly its declared number of arguments (Notify/Acquire/Release/Signal/Wait/Reset/Match/LoadTable/"
    "CreateXField, Package with named references, VarPackage, computed Buffer lengths, While)",
    "X3 encoding: PkgLength, NameString, integer constants and strings are decoded by the stream reader / parsePkgLength / parseNameString "
    "/ parseSimpleArg exactly as the byte-level specification AmlEnc encodes them (all widths and boundary values)",
]
ASSUME = [
    "well-formed = accepted by the loader of AmlNsX.tla (snapshot of the C11 loader + the new productions): every path resolves when it is read, "
    "no object is declared twice, IndexField/BankField/Alias name existing objects of the right kind, every invocation names a method with the "
    "declared number of arguments, every other name an object that is no method (or a field created in the same method, or an External)",
    "the generated language leaves out the trigger constructs of the open C11 findings (made precise here: XD5/XD6/D7 predicates of AmlNsX) and "
    "the kind-B part of every active deviation; each has a pinned minimal program that is parsed on every run",
    "trusted Go: token->AML encoder and tree->(ns, calls, bodies, xs) projection in harness/amlx/xa_harness_test.go (no expected results); the "
    "random generator's bookkeeping is re-derived by the monitor (ill-formed or out-of-language programs are counted as skipped, a skip rate "
    "above one half is a broken check)",
]

# ---------------------------------------------------------------------------------------------------------------- token DSL (pinned programs)
def F(s):
    ab = s.startswith("\\"); s = s.lstrip("\\")
    c = len(s) - len(s.lstrip("^")); s = s.lstrip("^")
    return {"abs": ab, "carets": c, "segs": [x for x in s.split(".") if x]}
def byte(v): return {"t": "byte", "n": [v]}
def word(v): return {"t": "word", "n": [v]}
def sconst(v): return {"t": "string", "s": v}
zero, one = {"t": "zero"}, {"t": "one"}
def arg(i): return {"t": "arg", "n": [i]}
def loc(i): return {"t": "local", "n": [i]}
def ref(n): return {"t": "ref", "f": F(n)}
def call(n, *a): return {"t": "call", "f": F(n), "a": list(a)}
def op(n, *a): return {"t": "op", "s": n, "a": list(a)}
def buf(ln, *bs): return {"t": "buffer", "a": [ln], "n": list(bs)}
def pkg(n, *e): return {"t": "package", "n": [n], "a": list(e)}
def vpkg(cnt, *e): return {"t": "varpackage", "a": [cnt] + list(e)}
def scope(n): return {"k": "scope", "f": F(n), "w": 1}
def dev(n): return {"k": "open", "kind": "Device", "f": F(n), "w": 1, "args": []}
def method(n, flags=0): return {"k": "method", "f": F(n), "w": 1, "flags": flags}
close, end = {"k": "close"}, {"k": "endtable"}
def name(n, v): return {"k": "decl", "kind": "Name", "f": F(n), "args": [v]}
def opreg(n): return {"k": "decl", "kind": "OpRegion", "f": F(n), "args": [byte(1), word(0x1000), byte(16)]}
def unit(n, bits=8): return {"e": "unit", "name": n, "bits": bits, "wl": 1}
def field(r, *els): return {"k": "field", "f": F(r), "w": 1, "flags": 1, "els": list(els)}
def ifield(i, d, *els): return {"k": "ifield", "f": F(i), "g": F(d), "w": 1, "flags": 1, "els": list(els)}
def bfield(r, b, v, *els): return {"k": "bfield", "f": F(r), "g": F(b), "x": [v], "w": 1, "flags": 1, "els": list(els)}
def alias(src, new): return {"k": "alias", "g": F(src), "f": F(new)}
def external(n, ty=0, argc=0): return {"k": "external", "f": F(n), "args": [byte(ty), byte(argc)]}
def cfield(kind, n, *x): return {"k": "cfield", "kind": kind, "f": F(n), "x": list(x)}
def stmt(o, *x): return {"k": "stmt", "op": o, "x": list(x)}
def X(t): return stmt("x", t)
def ret(x): return stmt("ret", x)
def If(x): return {"k": "if", "x": [x], "w": 1}
def While(x): return {"k": "while", "x": [x], "w": 1}
Else = {"k": "else", "w": 1}
inc0, dec1 = stmt("inc", loc(0)), stmt("dec", loc(1))
REG = [opreg("REG0"), field("REG0", unit("IDX0"), unit("DAT0"))]
M1 = [method("MTH1", 1), ret(arg(0)), close]
M0 = [method("MTH0", 0), ret(one), close]
LT = op("LoadTable", sconst("OEM1"), sconst("MYOEM"), sconst("TABLE1"), sconst("\\_SB_"), sconst("MYD"), one)

# dev: switch (or refined C11 finding); kind A: the specification models what the code does while the switch is on (program must be
# judged OK with the switch and not OK without it); kind B: construct left out of the generated language (program fails as recorded);
# genuine: deviation from ACPI inside the grammar the parser claims (parser_opcode_table.go) vs representation / by design
PINNED = [
    ("IndexFieldNamed", "A", REG + [dev("DEV0"), ifield("\\IDX0", "\\DAT0", unit("IFA0", 4)), close, end],
     "IndexField is flagged 'named' in the opcode table: the container takes the last segment of its index name as its own name and is relocated "
     "along that name's path (here to the root); its units then show IDX0 instead of \\IDX0 as their index register"),
    ("IndexFieldNamed", "B", REG + [dev("DEV0"), ifield("IDX0", "DAT0", unit("IFA0", 4)), method("MTH0", 0), ret(ref("IDX0")), close, close, end],
     "the IndexField container named IDX0 inside DEV0 hides the real field unit \\IDX0: Return(IDX0) in \\DEV0.MTH0 designates the container"),
    ("AliasKeepsSourceName", "A", [name("SRC0", byte(1)), alias("SRC0", "ALS0"), end],
     "Alias(SRC0, ALS0) creates no object named ALS0: the opcode table lists the SOURCE name first, so the Alias node is named SRC0"),
    ("AliasKeepsSourceName", "B", M1 + [alias("MTH1", "ALS0"), method("MAIN", 0), X(call("ALS0", byte(1))), close, end],
     "an invocation through an alias is not recognised: ALS0(1) stays an unresolved name and its argument becomes a statement of its own"),
    ("ExternalIsObject", "A", [external("EXT0", 8, 1), method("MAIN", 0), ret(ref("EXT0")), close, end],
     "External(EXT0, ..) creates a named object of kind External that lookups find (ACPI: no namespace object)"),
    ("ExternalIsObject", "B", [external("MTH0", 8, 0)] + M0 + [method("MAIN", 0), X(call("MTH0")), close, end],
     "an External that precedes the real object of the same name is found instead of it: MTH0() is no longer an invocation"),
    ("CreateFieldNotNamed", "A", [name("BUF0", buf(byte(4), 1, 2, 3, 4)), cfield("CreateWordField", "WFL0", ref("BUF0"), byte(0)), end],
     "CreateWordField at scope level creates no named object WFL0 (ACPI: a buffer field in the current scope)"),
    ("CreateFieldNotNamed", "B", [method("MAIN", 1), cfield("CreateWordField", "WFL0", arg(0), zero), While(loc(0)), stmt("store", ref("WFL0"), loc(1)), close, close, end],
     "a field created in a method and used inside a While of the same method rejects the whole table ('unable to resolve path expression')"),
    ("PackageMethodRefInvoked", "A", M0 + [name("PKG0", pkg(2, ref("MTH0"), byte(1))), end],
     "a Package element that names a method is turned into an invocation of it (ACPI: a reference)"),
    ("PackageMethodRefInvoked", "B", M1 + [name("PKG1", pkg(2, ref("MTH1"), byte(1))), end],
     "... and the invocation swallows the following elements as its arguments: Package(2){MTH1, 1} holds the single element MTH1(1)"),
    ("VarPackageCountByte", "A", [method("MAIN", 1), ret(vpkg(arg(0), byte(1), byte(2))), close, end],
     "VarPackage reads its element count as one raw byte: VarPackage(Arg0){1,2} gets the count 0x68 (the opcode of Arg0)"),
    ("VarPackageCountByte", "B", [method("MAIN", 1), ret(vpkg(byte(2), byte(1), byte(2))), close, end],
     "VarPackage(2){1,2} (count = BytePrefix 2) is rejected: the prefix byte is taken as the count and the value as the first element"),
    ("MatchOperatorBytes", "A", [name("PKG0", pkg(2, byte(1), byte(2))), method("MAIN", 0), stmt("store", op("Match", ref("PKG0"), byte(1), byte(2), byte(0), zero, zero), loc(0)), close, end],
     "outside a deferred block the match-operator bytes of Match are parsed as opcodes: MEQ (1) and MTR (0) become the constants One and Zero"),
    ("MatchOperatorBytes", "B", [method("MAIN", 2), ret(op("Match", arg(0), byte(3), arg(1), byte(4), loc(0), byte(9))), close, end],
     "Match with the operators MLE/MLT/MGE/MGT (2..5) outside a deferred block rejects the table"),
    ("LoadTableSevenOperands", "B", [method("MAIN", 0), stmt("store", LT, loc(0)), close, end],
     "LoadTable is listed with seven operands (ACPI: six): Store(LoadTable(..six..), Local0) is rejected, and when a statement follows it "
     "LoadTable swallows Local0 and Store the next statement (pinned by the repository's own parser-testsuite-DSDT.exp)"),
    ("IfBodyFlattened", "A", [method("MAIN", 1), If(arg(0)), inc0, dec1, close, ret(loc(0)), close, end],
     "an If outside a While keeps only its first body statement; the rest of its body follows it as its siblings (pinned by the repository's .exp dumps)"),
    ("IfBodyFlattened", "A", [method("MAIN", 1), If(arg(0)), If(arg(0)), inc0, close, Else, dec1, close, stmt("inc", loc(2)), close, ret(loc(0)), close, end],
     "... and an Else block inside such an If also takes the statements that follow it up to the end of the outer If"),
    ("IfBodyFlattened", "B", [method("MAIN", 1), If(arg(0)), stmt("store", pkg(1, one), loc(0)), inc0, close, close, end],
     "... and so does the element list of a Package inside such an If: it swallows the rest of the If body"),
    ("RelPathInTerm", "A", [scope("\\_SB_"), name("NAM1", byte(1)), close, name("PKG0", pkg(1, ref("_SB_.NAM1"))), end],
     "a relative multi-segment name used as an operand / package element is looked up below its parent node and stays unresolved"),
    ("RelPathInTerm", "B", [scope("\\_SB_"), name("NAM1", byte(1)), close, name("BUF0", buf(ref("_SB_.NAM1"), 1)), end],
     "... in a deferred block (Buffer length) it rejects the table"),
    ("ValueNamesFromFinalPlace", "A", [scope("\\_SB_"), name("BAR0", byte(1)), name("\\FOO0", pkg(1, ref("BAR0"))), close, end],
     "names in the value of a declaration are resolved from where the object lands: \\FOO0 written inside Scope(\\_SB_) does not find \\_SB_.BAR0"),
    ("ValueNamesFromFinalPlace", "B", [scope("\\_SB_"), name("BAR0", byte(1)), name("\\FOO0", buf(ref("BAR0"), 1)), close, end],
     "... and when the name is the length of a Buffer the table is rejected"),
    ("EmptyBufferInDeferred", "B", [method("MAIN", 1), While(loc(0)), ret(buf(one)), inc0, close, close, end],
     "a Buffer with an empty initializer list inside a While takes the bytes that follow it as its contents (its package end is popped too early)"),
    ("D1", "B", [name("NAM0", byte(7)), scope("\\_SB_"), name("PKG0", pkg(1, ref("^NAM0"))), close, end],
     "D1 widened: a ^ in a name used inside a term (package element, operand, argument) is counted from the NODE that holds the name, not from the "
     "current scope: Package(1){^NAM0} written in Scope(\\_SB_) does not designate \\NAM0"),
    ("D5", "B", [method("MTH2", 2), ret(arg(0)), close] + M1 + [method("MAIN", 2), X(call("MTH1", call("MTH2", arg(0), op("Add", arg(0), arg(1))))), close, end],
     "D5 made precise: an operator term among the arguments of an invocation works only as the LAST argument of an invocation that is not itself an argument"),
    ("D6", "B", [name("NAM0", byte(7)), method("MAIN", 1), While(loc(0)), stmt("store", buf(ref("NAM0"), 1), loc(1)), close, close, end],
     "D6 made precise: in a deferred block a name below a node that is not yet attached (operand of an operand, Buffer length of an operand) rejects the table"),
    ("D7", "B", [method("MAIN", 1), While(loc(0)), If(arg(0)), inc0, close, Else, dec1, close, close, ret(loc(0)), close, end],
     "D7 widened: inside a While EVERYTHING that follows a nested If / While block (also its Else) up to the end of the outermost While is dropped"),
    ("D7", "B", [method("MTH3", 3), close, method("MAIN", 1), While(loc(0)), X(call("MTH3", buf(byte(2), 146), loc(0), loc(0))), close, close, end],
     "D7 widened: inside a While a Buffer / Package that is an argument of an invocation leaves its package end behind: the table is rejected"),
    ("D6", "B", REG + [method("MAIN", 1), While(loc(0)), stmt("store", ref("BFA0"), loc(1)), close, close, bfield("REG0", "DAT0", byte(1), unit("BFA0")), end],
     "the units of a BankField exist only once the deferred pass has reached it: a While that is read earlier and names one rejects the table"),
]
# fixed programs inside the generated language that are replayed (and judged strictly) on every run next to the enumerated ones:
# constructs inside deferred blocks that the small TLC scopes only reach in the thorough tier
PRE = REG + [name("NAM0", byte(7)), {"k": "decl", "kind": "Mutex", "f": F("MUT0"), "args": [byte(1)]}, {"k": "decl", "kind": "Event", "f": F("EVT0"), "args": []},
             dev("DEV0"), close] + M1
CORPUS = [
    PRE + [method("MAIN", 1), While(op("LLess", loc(0), byte(5))), stmt("store", ref("IDX0"), loc(1)), X(op("Notify", ref("DEV0"), byte(1))),
           stmt("store", ref("NAM0"), ref("DAT0")), inc0, close, ret(ref("IDX0")), close, end],
    PRE + [method("MAIN", 2), While(loc(0)), stmt("store", op("Match", arg(0), byte(4), byte(7), byte(5), loc(0), zero), loc(1)),
           stmt("store", vpkg(arg(1), byte(1)), loc(2)), stmt("store", op("Acquire", ref("MUT0"), word(10)), loc(3)), X(op("Release", ref("MUT0"))),
           X(call("MTH1", op("Add", ref("NAM0"), one))), If(op("Wait", ref("EVT0"), loc(0))), X(op("Reset", ref("EVT0"))), X(op("Break")), close, close, close, end],
    PRE + [method("MAIN", 1), cfield("CreateQWordField", "QFL0", arg(0), zero), cfield("CreateField", "CFL0", ref("NAM0"), byte(3), byte(9)),
           stmt("store", buf(call("MTH1", ref("NAM0")), 1, 2), loc(0)), ret(op("Add", call("MTH1", ref("QFL0")), op("SizeOf", ref("NAM0")), loc(1))), close,
           bfield("REG0", "DAT0", call("MTH1", byte(2)), unit("BFA0", 3), unit("BFA1", 70000)), end],
]
REPRESENTATION_NOTES = [
    "representation (no deviation): a name in a SuperName/Target position that is parsed by its declared type (before the first TermArg of its operator, "
    "or anywhere inside a deferred block) is kept as written; the others are resolved; a null target is a Zero node in the first pass and absent in the deferred pass",
    "representation: Signal's operand is listed as TermArg in the opcode table (ACPI: SuperName), so it is resolved; Noop leaves no node; a BankField node has no name",
]
GENUINE = {"IndexFieldNamed": True, "AliasKeepsSourceName": True, "ExternalIsObject": False, "CreateFieldNotNamed": True, "PackageMethodRefInvoked": True,
           "VarPackageCountByte": True, "MatchOperatorBytes": True, "LoadTableSevenOperands": True, "IfBodyFlattened": True, "RelPathInTerm": True,
           "ValueNamesFromFinalPlace": True, "EmptyBufferInDeferred": True, "D1": True, "D5": True, "D6": True, "D7": True}


def describe(toks):
    def form(f):
        return ("\\" if f["abs"] else "") + "^" * f["carets"] + ".".join(f["segs"])

    def term(x):
        t = x["t"]
        if t == "call":
            return form(x["f"]) + "(" + ",".join(term(a) for a in x["a"]) + ")"
        if t == "ref":
            return form(x["f"])
        if t == "op":
            return x["s"] + "(" + ",".join(term(a) for a in x["a"]) + ")"
        if t in ("arg", "local"):
            return "%s%d" % (t.capitalize(), x["n"][0])
        if t == "string":
            return json.dumps(x["s"])
        if t == "buffer":
            return "Buffer(%s){%s}" % (term(x["a"][0]), ",".join(map(str, x["n"])))
        if t == "package":
            return "Package(%d){%s}" % (x["n"][0], ",".join(term(a) for a in x["a"]))
        if t == "varpackage":
            return "VarPackage(%s){%s}" % (term(x["a"][0]), ",".join(term(a) for a in x["a"][1:]))
        if "n" not in x:
            return t.capitalize()
        return str(x["n"][0]) if len(x["n"]) == 1 else "0x" + "".join("%04x" % v for v in x["n"])
    out = []
    for t in toks:
        k = t["k"]
        if k == "scope":
            out.append("Scope(%s){" % form(t["f"]))
        elif k == "open":
            out.append("%s(%s){" % (t["kind"], form(t["f"])))
        elif k == "method":
            out.append("Method(%s,%d){" % (form(t["f"]), t["flags"] % 8))
        elif k == "decl":
            out.append("%s(%s%s)" % (t["kind"], form(t["f"]), "".join("," + term(a) for a in t["args"])))
        elif k in ("field", "ifield", "bfield"):
            out.append("%s(%s%s%s){%s}" % ({"field": "Field", "ifield": "IndexField", "bfield": "BankField"}[k], form(t["f"]),
                                           ("," + form(t["g"])) if "g" in t else "", ("," + term(t["x"][0])) if "x" in t else "",
                                           ",".join(e.get("name", e["e"]) + (":%d" % e["bits"] if "bits" in e else "") for e in t["els"])))
        elif k == "alias":
            out.append("Alias(%s,%s)" % (form(t["g"]), form(t["f"])))
        elif k == "external":
            out.append("External(%s,%s)" % (form(t["f"]), ",".join(term(a) for a in t["args"])))
        elif k == "cfield":
            out.append("%s(%s,%s)" % (t["kind"], ",".join(term(x) for x in t["x"]), form(t["f"])))
        elif k == "stmt":
            if t["op"] in ("x", "call"):
                out.append(term(t["x"][0]))
            else:
                out.append({"ret": "Return", "store": "Store", "inc": "Increment", "dec": "Decrement", "noop": "Noop"}[t["op"]] + "(" + ",".join(term(x) for x in t["x"]) + ")")
        elif k in ("if", "while"):
            out.append("%s(%s){" % (k.capitalize(), term(t["x"][0])))
        elif k == "else":
            out.append("Else{")
        elif k == "close":
            out.append("}")
        elif k == "endtable":
            out.append("<end of table>")
    return " ".join(out)


# ---------------------------------------------------------------------------------------------------------------- helpers
def note(ctx, text):
    ctx.note(text)
    ctx.log("note:", text)


def c11_open_ids(ctx):
    """trigger ids of the C11 findings that are still open (known_findings.json is the lead's file; read only)"""
    kf = [f for f in ctx.kf.get("findings", []) if f.get("property") == "C11"]
    fixed = " ".join(x for x in ctx.kf.get("fixed", []) if "property=C11" in x)
    ids = set()
    for e in kf:
        i = e.get("id")
        if not i or re.search(r"\b%s\b" % re.escape(i), fixed):
            continue
        if i in C11_IDS:
            ids.add(i)
        for t in VIA.get(i, []):
            ids.add(t)
    return sorted(ids)


def env_for(devs, c11open):
    e = {"DEV_" + d: ("1" if d in devs else "0") for d in DEVS}
    e.update({"OPEN_" + d: ("1" if d in c11open else "0") for d in C11_IDS})
    return e


def prepare_specs(ctx, devs, c11open):
    d = ctx.spec_dir("amlx")
    sdev = "  Devs = {%s}\n" % ", ".join('"%s"' % x for x in devs)
    sexc = "  Excluded = {%s}\n" % ", ".join('"%s"' % x for x in (c11open + DEVS + LATE))
    for fn in os.listdir(d):
        if fn.startswith(("MCAmlNsX", "MCAmlBodyX")) and fn.endswith(".cfg"):
            p = os.path.join(d, fn)
            with open(p) as f:
                s = f.read()
            s = re.sub(r"  Devs = \{[^}]*\}\n", sdev, s)
            if "Keep_Excluded" not in s:
                s = re.sub(r"  Excluded = \{[^}]*\}\n", sexc, s)
            with open(p, "w") as f:
                f.write(s)
    return d


def write_progs(path, progs):
    with open(path, "w") as f:
        for i, toks in enumerate(progs):
            f.write(json.dumps({"id": i + 1, "toks": toks}, separators=(",", ":")) + "\n")


def run_go(ctx, env, run, timeout=1500):
    e = {"XA_PAR": max(1, min(4, vlib.maxpar()))}
    e.update(env)
    rc, out, wall = ctx.gotest("kernel", PKG, HARNESS, run, env=e, timeout=timeout)
    if rc != 0:
        raise vlib.Broken("extra-amlgrow harness failed:\n" + out[-3000:])
    return wall


def monitor(ctx, cfg, trace_path, env, name, parallel=4, timeout=1500):
    """leg V: split the trace into chunks, one single-worker TLC per chunk.  Returns (judged, skipped dict, mismatches)."""
    with open(trace_path) as f:
        lines = [l for l in f if l.strip()]
    if not lines:
        raise vlib.Broken("empty trace " + trace_path)
    parallel = max(1, min(parallel, len(lines), vlib.maxpar()))
    d = ctx.spec_dir("amlx")
    jobs = []
    for i in range(parallel):
        sub = os.path.join(d, "w%d" % i)
        os.makedirs(sub)
        for fn in os.listdir(d):
            if fn.endswith((".tla", ".cfg")):
                os.symlink(os.path.join(d, fn), os.path.join(sub, fn))
        chunk = lines[i::parallel]
        p = os.path.join(sub, "trace.ndjson")
        with open(p, "w") as f:
            f.writelines(chunk)
        jobs.append((i, sub, p, chunk))

    def one(job):
        i, sub, p, chunk = job
        e = dict(env)
        e["TRACE"] = p
        return job, ctx.tlc(sub, "AmlNsXTrace", cfg, workers=1, env=e, timeout=timeout, dump_trace=False, xmx="2g", name="%s#%d" % (name, i))
    with concurrent.futures.ThreadPoolExecutor(max_workers=parallel) as ex:
        results = list(ex.map(one, jobs))
    judged, skipped, mism, gen = 0, {}, [], 0
    for (i, sub, p, chunk), r in results:
        gen += r.generated
        nskip = 0
        for m in re.finditer(r'<<"VERIF-SKIP", "(.*)">>', r.out):
            v = json.loads(json.loads('"' + m.group(1) + '"'))
            why = v[1][0] + ":" + (",".join(sorted(v[1][1])) if isinstance(v[1][1], list) else str(v[1][1]))
            skipped[why] = skipped.get(why, 0) + 1
            nskip += 1
        m = re.search(r'<<"VERIF-MISMATCH", "(.*)">>', r.out)
        if m:
            mm = json.loads(json.loads('"' + m.group(1) + '"'))
            mism.append({"mismatch": mm, "event": json.loads(chunk[mm[0] - 1])})
            judged += mm[0] - 1 - nskip
        elif r.violated is None and r.ok and r.generated >= len(chunk):
            judged += len(chunk) - nskip
        else:
            raise vlib.Broken("trace validation %s chunk %d neither accepted nor rejected the trace (%s):\n%s" % (name, i, r.violated, r.out[-3000:]))
    for k in [k for k in ctx.cov["legs"] if k.startswith(name + "#")]:
        del ctx.cov["legs"][k]
    ctx.cov["legs"][name] = {"module": "AmlNsXTrace", "cfg": cfg, "programs": len(lines), "judged": judged, "skipped": skipped,
                             "mismatches": len(mism), "states_generated": gen}
    ctx.cov["traces_validated_against_impl"] += judged
    ctx.cov["evaluations"] += len(lines)
    ctx.log("V %s: %d programs, %d judged, %d skipped, %d mismatch(es)" % (name, len(lines), judged, sum(skipped.values()), len(mism)))
    return judged, skipped, mism


def repro(ctx, trace_path, env, name):
    """repro mode: verdict of every line; returns {id: (verdict, filter)}"""
    d = ctx.spec_dir("amlx")
    e = dict(env)
    e["TRACE"] = trace_path
    r = ctx.tlc(d, "AmlNsXTrace", "AmlNsXTraceRepro", workers=1, env=e, timeout=300, dump_trace=False, name=name)
    out = {}
    for m in re.finditer(r'<<"VERIF-REPRO", "(.*)">>', r.out):
        v = json.loads(json.loads('"' + m.group(1) + '"'))
        out[v[0]] = (v[1], v[2])
    if r.violated:
        raise vlib.Broken("pinned-program validation failed (%s):\n%s" % (r.violated, r.out[-2500:]))
    return out


def outcome(verdict, obs):
    if verdict == []:
        return "pass"
    if obs["res"] != "ok":
        return obs["res"]
    return "mismatch"


def pinned_programs(ctx, c11open):
    """Every deviation's minimal program is parsed in its own child process and judged by the monitor with all switches on.
    Kind A must be judged OK (the specification with the switch on describes the code); if it is not, the same program is judged with
    the switch off: OK there means the code no longer deviates (switch dropped for this run), else the code does something the
    specification does not describe at all -> VIOLATION.  Kind B must not be judged OK (else: construct now handled, note)."""
    p_in, p_out = os.path.join(ctx.work, "pin_in.ndjson"), os.path.join(ctx.work, "pin_out.ndjson")
    write_progs(p_in, [p[2] for p in PINNED])
    e_in, e_out = os.path.join(ctx.work, "enc_pin_in.ndjson"), os.path.join(ctx.work, "enc_pin_out.ndjson")
    with open(e_in, "w") as f:
        for dv, c, bs, what in ENC_PINNED:
            f.write(json.dumps({"c": c, "bytes": bs}) + "\n")
    run_go(ctx, {"XA_PIN_IN": p_in, "XA_PIN_OUT": p_out, "XA_ENC_IN": e_in, "XA_ENC_OUT": e_out, "XA_ENC_N": 0}, "^TestVerifXa(Pinned|Enc)$", timeout=600)
    encdevs = enc_pinned(ctx, e_out)
    obs = {e["id"]: e["obs"] for e in vlib.read_ndjson(p_out)}
    v_all = repro(ctx, p_out, env_for(DEVS, c11open), "pinned")
    if len(v_all) != len(PINNED):
        raise vlib.Broken("pinned programs: %d verdicts for %d programs" % (len(v_all), len(PINNED)))
    verdicts = {}          # deviation -> list of (kind, class under all switches, index)
    for i, (dv, kind, toks, what) in enumerate(PINNED):
        verdict, flt = v_all[i + 1]
        if verdict and verdict[1] == "GEN":
            raise vlib.Broken("pinned program %d (%s) is not a well-formed program: %s" % (i + 1, dv, json.dumps(verdict)[:600]))
        cls = outcome(verdict, obs[i + 1])
        ctx.cov["legs"]["pinned"].setdefault("outcomes", []).append([dv, kind, cls])
        verdicts.setdefault(dv, []).append((kind, cls, i))
    dropped = set()
    for dv, vs in verdicts.items():
        a_fail = [i for kind, cls, i in vs if kind == "A" and cls != "pass"]
        has_a = any(kind == "A" for kind, cls, i in vs)
        for kind, cls, i in vs:
            if kind == "B" and cls == "pass":
                note(ctx, "a construct of deviation %s that is left out of the generated language is now parsed as ACPI says: %s" % (dv, describe(PINNED[i][2])))
        if not has_a:
            if all(cls == "pass" for kind, cls, i in vs) and dv in DEVS:
                dropped.add(dv)
            continue
        if not a_fail:
            continue
        # a modelled deviation whose program is not judged OK with the switch on: is the deviation gone?
        v_off = repro(ctx, p_out, env_for([d for d in DEVS if d != dv], c11open), "pinned-without-" + dv)
        if all(v_off[i + 1][0] == [] for i in a_fail):
            note(ctx, "deviation %s is no longer observed (its minimal program is parsed as ACPI says): switch off for this run" % dv)
            dropped.add(dv)
        else:
            for i in a_fail:
                toks = PINNED[i][2]
                ctx.violation({"leg": "pinned", "deviation": dv, "why": v_all[i + 1][0][2] if v_all[i + 1][0] else None, "program": describe(toks),
                               "res": obs[i + 1]["res"], "err": obs[i + 1]["err"]}, {"toks": toks, "devs": DEVS, "open": c11open})
    active = set(DEVS) - dropped
    devs = [d for d in DEVS if d in active and d not in dropped]
    for dv, kind, toks, what in PINNED:
        if dv in devs or (dv in C11_IDS and dv not in dropped):
            note(ctx, "DEVIATION %s (%s, %s): %s | minimal program: %s" % (dv, "modelled" if kind == "A" else "left out of the generated language",
                     "genuine deviation from ACPI inside the claimed grammar" if GENUINE.get(dv) else "by design", what, describe(toks)))
    for n in REPRESENTATION_NOTES:
        ctx.note(n)
    return devs, encdevs


def judge_viol(ctx, mism, leg, devs, c11open):
    out = []
    for m in mism:
        mm, ev = m["mismatch"], m["event"]
        if mm[1] != "extra-amlgrow":
            raise vlib.Broken("generated program is outside the language of the check (%s): %s\n%s" % (leg, json.dumps(mm)[:800], describe(ev["toks"])[:1500]))
        out.append(({"leg": "T-random" if ev.get("id", 0) > 1000000 else leg, "why": mm[2], "program": describe(ev["toks"])[:3000],
                     "res": ev["obs"]["res"], "err": ev["obs"]["err"]}, {"toks": ev["toks"], "devs": devs, "open": c11open}))
    return out


def run(ctx):
    q = ctx.quick
    ctx.assumptions += ASSUME
    ctx.rule = ("a case = one complete program (token stream over the grown grammar); leg G replays the programs TLC enumerated in four small "
                "scopes (field containers; Alias/External/CreateField/values with names; statements; control flow), leg T seeded random programs; "
                "distinct by token stream, non-trivial when the program uses at least one construct that C11 does not generate; leg E: every "
                "enumerated encoding case (PkgLength, NameString, constants, strings, reader operations) run on the real reader functions")
    c11open = c11_open_ids(ctx)
    # ---- pinned minimal programs / cases of every deviation: which switches match the tree under test
    devs, encdevs = pinned_programs(ctx, c11open)
    ctx.cov["active_deviations"] = devs
    ctx.cov["active_encoding_deviations"] = encdevs
    d = prepare_specs(ctx, devs, c11open)
    tier = "Quick" if q else "Full"
    profiles = ["Fields", "Decls", "Stmts", "Flow"]
    mp = vlib.maxpar()
    per = max(1, min(2 if q else 6, mp // 3))

    # ---- leg M (+ emission for G and E): generator profiles, design model of the operand collection, byte-level codec and reader; design mutants
    case_files = {p: os.path.join(ctx.work, "cases_%s.ndjson" % p) for p in profiles}
    ecases, rcases = os.path.join(ctx.work, "enc_cases.ndjson"), os.path.join(ctx.work, "enc_reader_cases.ndjson")
    jobs = [(lambda p=p: ctx.model_check(d, "MCAmlNsX", "MCAmlNsX%s%s" % (p, tier), workers=per, env={"CASES": case_files[p]}, timeout=900 if q else 3000)) for p in profiles]
    jobs.append(lambda: ctx.model_check(d, "MCAmlBodyX", "MCAmlBodyX" + tier, workers=per, env={"CASES": os.path.join(ctx.work, "unused.ndjson")}, timeout=900 if q else 3000))
    jobs.append(lambda: ctx.model_check(d, "AmlEncModel", "MCAmlEnc" + tier, workers=1, env={"CASES": ecases}, timeout=900))
    jobs.append(lambda: ctx.model_check(d, "AmlEncModel", "MCAmlEncReader" + tier, workers=1, env={"CASES": rcases}, timeout=900))
    jobs.append(lambda: ctx.model_check(d, "AmlEncModel", "MCAmlEncAcpi", workers=1, env={"CASES": ecases + ".unused"}, timeout=600))
    bbugs = ["Bug_ConnectBeforeResolve", "Bug_NoParentSiblings"] if q else ["Bug_ConnectBeforeResolve", "Bug_NoParentSiblings", "Bug_ForwardOrder"]
    if "D5" in c11open:
        bbugs.append("Open_D5")
    ebugs = ["Bug_NibbleOrder", "Bug_SegLenWraps8", "Bug_ReadPastPkgEnd"] if q else \
            ["Bug_NibbleOrder", "Bug_OneByteMask4", "Bug_SegCountNotSkipped", "Bug_SegLenWraps8", "Bug_ReadPastPkgEnd", "Open_NameChars"]
    jobs += [(lambda b=b: ctx.expect_model_violation(d, "MCAmlBodyX", "MCAmlBodyX" + b, workers=1, timeout=900)) for b in bbugs]
    jobs += [(lambda b=b: ctx.expect_model_violation(d, "AmlEncModel", "MCAmlEnc" + b, workers=1, timeout=600)) for b in ebugs]
    with concurrent.futures.ThreadPoolExecutor(max_workers=max(1, min(6 if q else 4, mp))) as ex:
        for f in [ex.submit(j) for j in jobs]:
            f.result()

    # ---- leg G input
    n_progs, emitted = 0, 0
    rnd = random.Random(ctx.seed)
    g_in = os.path.join(ctx.work, "g_in.ndjson")
    cap = 900 if q else 150000
    with open(g_in, "w") as gf:
        for p in profiles:
            lines = []
            if os.path.exists(case_files[p]):
                with open(case_files[p]) as f:
                    lines = [l for l in f if l.strip()]
            emitted += len(lines)
            ctx.cov["legs"]["MCAmlNsX%s%s" % (p, tier)]["programs_emitted"] = len(lines)
            if len(lines) > cap:
                lines = rnd.sample(lines, cap)
            gf.writelines(lines)
            n_progs += len(lines)
        for toks in CORPUS:
            gf.write(json.dumps({"toks": toks}, separators=(",", ":")) + "\n")
            n_progs += 1
    if not n_progs:
        raise vlib.Broken("the generator model emitted no program")
    g_out, t_out, e_out = os.path.join(ctx.work, "g_trace.ndjson"), os.path.join(ctx.work, "t_trace.ndjson"), os.path.join(ctx.work, "enc_trace.ndjson")
    n_random = 120 if q else 1500
    run_go(ctx, {"XA_IN": g_in, "XA_OUT": g_out, "XA_N": n_random, "XA_RAND_OUT": t_out, "XA_SIZE": 60 if q else 0,
                 "XA_ENC_IN": ecases + "," + rcases, "XA_ENC_OUT": e_out, "XA_ENC_N": 1500 if q else 40000},
           "^TestVerifXa(Cases|Random|Enc)$", timeout=1500)

    # ---- leg V
    env = env_for(devs, c11open)
    viol = []
    jg, sg, mg = monitor(ctx, "AmlNsXTraceStrict", g_out, env, "G", parallel=4 if q else 12)
    viol += judge_viol(ctx, mg, "G-generated", devs, c11open)
    jt, st, mt = monitor(ctx, "AmlNsXTraceFilter", t_out, env, "T", parallel=3 if q else 12)
    viol += judge_viol(ctx, mt, "T-random", devs, c11open)
    ill = sum(v for k, v in st.items() if k.startswith("ill-formed"))
    if ill:
        raise vlib.Broken("the random generator wrote %d ill-formed programs: %s" % (ill, json.dumps(st)[:800]))
    if jt * 2 < n_random and not mt:
        raise vlib.Broken("more than half of the random programs were outside the generated language: %s" % json.dumps(st)[:800])
    for v, rep in viol[:3]:
        ctx.violation(v, rep)
    for name, path in (("G-generated", g_out), ("T-random", t_out)):
        ns = 0
        with open(path) as f:
            for line in f:
                toks = line.rsplit('"toks":', 1)[1]
                if re.search(r'"k":"(ifield|bfield|alias|external|cfield|while)"|"kind":"DataRegion"|"t":"(op|varpackage)"', toks):
                    ctx.distinct(hashlib.sha1(toks.encode()).hexdigest())
                if ns < 2 and 500 < len(line) < 6000:
                    e = json.loads(line)
                    ctx.sample({"leg": name, "program": describe(e["toks"])[:600], "res": e["obs"]["res"], "objects_in_tree": len(e["obs"]["ns"]),
                                "invocations_in_tree": len(e["obs"]["calls"]), "bodies": len(e["obs"]["bodies"])})
                    ns += 1
    ctx.cov["legs"]["G"]["programs_emitted_by_model"] = emitted
    # byte level
    acc, nev, mism = enc_validate(ctx, e_out, encdevs, "E", parallel=2 if q else 8)
    for m in mism[:3]:
        ev = m["case_events"][0]
        if m["mismatch"][1] == "GEN":
            raise vlib.Broken("encoding case generator slip: %s" % json.dumps(m["mismatch"])[:800])
        ctx.violation({"leg": "E-encoding", "why": m["mismatch"][2:], "case": ev["c"]}, {"enc_case": ev, "encdevs": encdevs})
    with open(e_out) as f:
        for line in f:
            ctx.distinct(hashlib.sha1(line.split('"obs"')[0].encode()).hexdigest())
    ctx.cov["exhaustive"] = (not q) and not ctx.violations and n_progs == emitted + len(CORPUS)
    ctx.cov["explanation"] = ("exhaustive = every complete program of the four TLC scopes (%d programs emitted, %d replayed) and every encoding case of "
                              "AmlEnc was run on the real code and judged; the quick tier replays a seeded sample" % (emitted, n_progs))


ENC_DEVS = ["NameCharsUnchecked", "MultiNameLenWraps"]


def enc_seg(k):
    return [65 + k % 26, 48 + k % 10, 95, 65 + (k * 7) % 26]


ENC_PINNED = [
    ("MultiNameLenWraps", {"k": "name", "abs": False, "carets": 0, "nseg": 64, "multi": True, "bad": 0, "tail": [], "cut": 0},
     [47, 64] + [b for k in range(1, 65) for b in enc_seg(k)],
     "genuine defect: parseNameString multiplies SegCount by 4 in eight bits; a multi-name path with 64 segments is read as 2 bytes (0x2F 0x40), one with "
     "255 segments as 254 bytes, and the rest of the path is parsed as the AML that follows; repair: fixes/extra-amlgrow-multiname-length-wrap.patch"),
    ("NameCharsUnchecked", {"k": "name", "abs": False, "carets": 0, "nseg": 1, "multi": False, "bad": 3, "tail": [], "cut": 0}, [65, 33, 67, 68],
     "by design: the characters of a name segment after the lead character (and all characters of dual / multi name segments) are not checked: 'A!CD' is read as a name"),
]


def enc_env(devs):
    return {"ENCDEV_" + d: ("1" if d in devs else "0") for d in ENC_DEVS}


def enc_validate(ctx, path, devs, name, parallel, timeout=900):
    return ctx.validate_traces("AmlEncTrace", "AmlEncTrace", path, ("amlx",), name=name, timeout=timeout, is_reset=lambda e: True,
                               parallel=parallel, env=enc_env(devs))


def enc_pinned(ctx, p_out):
    """pinned cases of the byte-level deviations: which of them does the tree under test still show?"""
    devs = list(ENC_DEVS)
    acc, nev, mism = enc_validate(ctx, p_out, devs, "E-pinned", parallel=len(ENC_PINNED), timeout=300)
    for m in mism:
        c = m["case_events"][0]["c"]
        dv = [p[0] for p in ENC_PINNED if p[1] == c][0]
        acc2, nev2, mism2 = enc_validate(ctx, p_out, [x for x in devs if x != dv], "E-pinned-without-" + dv, parallel=len(ENC_PINNED), timeout=300)
        if not [x for x in mism2 if x["case_events"][0]["c"] == c]:
            note(ctx, "byte-level deviation %s is no longer observed: switch off for this run" % dv)
            devs.remove(dv)
        else:
            ctx.violation({"leg": "E-pinned", "deviation": dv, "why": m["mismatch"][2:], "case": c}, {"enc_case": m["case_events"][0], "encdevs": devs})
    for dv, c, bs, what in ENC_PINNED:
        if dv in devs:
            note(ctx, "DEVIATION %s (byte level, modelled): %s | minimal case: bytes %s" % (dv, what, " ".join("%02x" % b for b in bs[:12]) + (" ..." if len(bs) > 12 else "")))
    return devs


def replay(ctx, path):
    with open(path) as f:
        rep = json.load(f)["replay"]
    if "enc_case" in rep:
        e_in, e_out = os.path.join(ctx.work, "enc_in.ndjson"), os.path.join(ctx.work, "enc_out.ndjson")
        with open(e_in, "w") as f:
            f.write(json.dumps({"c": rep["enc_case"]["c"], "bytes": rep["enc_case"]["bytes"]}) + "\n")
        run_go(ctx, {"XA_ENC_IN": e_in, "XA_ENC_OUT": e_out, "XA_ENC_N": 0}, "^TestVerifXaEnc$", timeout=300)
        acc, nev, mism = enc_validate(ctx, e_out, rep.get("encdevs", ENC_DEVS), "replay", parallel=1, timeout=300)
        for m in mism[:1]:
            ev = m["case_events"][0]
            ctx.violation({"leg": "E-encoding", "why": m["mismatch"][2:], "case": ev["c"]}, {"enc_case": ev, "encdevs": rep.get("encdevs", ENC_DEVS)})
    else:
        g_in, g_out = os.path.join(ctx.work, "g_in.ndjson"), os.path.join(ctx.work, "g_trace.ndjson")
        write_progs(g_in, [rep["toks"]])
        run_go(ctx, {"XA_IN": g_in, "XA_OUT": g_out}, "^TestVerifXaCases$", timeout=300)
        j, s, m = monitor(ctx, "AmlNsXTraceStrict" if rep.get("strict", True) else "AmlNsXTraceFilter", g_out, env_for(rep.get("devs", DEVS), rep.get("open", [])), "replay", parallel=1, timeout=300)
        for v, r in judge_viol(ctx, m, "replay", rep.get("devs", DEVS), rep.get("open", [])):
            ctx.violation(v, r)
    ctx.cov["states"] = max(ctx.cov["states"], 1)
    ctx.cov["transitions"] = max(ctx.cov["transitions"], 1)
    return None
