"""C01 / C02 / C03: physical memory manager.  See DESIGN.md 4.1 and specs/pmm/*.tla."""
import json, os, random
import vlib

HARNESS = ["pmm/pmm_trace_test.go"]
ASSUME = [
    "multiboot memory maps are sorted and non-overlapping, the kernel image starts page aligned inside one available region (the property's quantifier)",
    "FreeFrame is never called on kernel-image or early-boot frames (neither C01 nor C03 speaks about that call; see DESIGN 4.1 note i)",
    "trusted Go: the multiboot memory-map encoder and the event logger in harness/pmm (no expected results in them)",
    "reserveRegionFn / mapFn seams are bound to host memory and a recorder, as the repository's own tests do",
]


def limbs(w):
    v = 0
    for x in w:
        v = (v << 16) | x
    return v


def case_to_replay(events, mode):
    """Rebuild the exact input of one recorded case: map, kernel placement and the concrete operations."""
    e0 = events[0]
    regs = [{"A": limbs(r["a"]), "L": limbs(r["l"]), "T": (r["t"][0] << 16) | r["t"][1]} for r in e0["regs"]]
    script = []
    for e in events[1:]:
        if e["k"] == "alloc":
            script.append([0])
        elif e["k"] == "free":
            script.append([5, limbs(e["f"])])
    return {"mode": mode, "regs": regs, "ks": limbs(e0["ks"]), "ke": limbs(e0["ke"]), "script": script}


def write_case_file(path, rep):
    with open(path, "w") as f:
        f.write(json.dumps({"regs": [{"a": r["A"], "l": r["L"], "t": r["T"]} for r in rep["regs"]],
                            "ks": rep["ks"], "ke": rep["ke"], "script": rep["script"]}) + "\n")


def sample_lines(src, dst, n, seed):
    with open(src) as f:
        lines = [l for l in f if l.strip()]
    total = len(lines)
    if n and total > n:
        rnd = random.Random(seed)
        lines = rnd.sample(lines, n)
    with open(dst, "w") as f:
        f.writelines(lines)
    return total, len(lines)


def _run_harness(ctx, prop, run, env, timeout, leg, trace_path):
    """Run a pmm harness under the hang guard.  A call of the real allocator that does not return (decided by CPU time)
    is a violation of C02/C03 ("never crashes", every call returns a frame or an error); the events recorded before it
    are still validated."""
    pend = os.path.join(ctx.work, "pending_%s.rec" % leg)
    rc, out, _ = ctx.gotest("kernel", "mm/pmm", HARNESS, run, env=env, timeout=timeout,
                            hang_guard={"pending": pend, "cpu_s": 60})
    if rc == -9:
        h = ctx.last_hang
        tail = []
        try:
            with open(trace_path) as f:
                lines = f.readlines()
            # drop a possibly half-written last line, close the open case so that the monitor accepts the prefix
            lines = [l for l in lines if l.endswith("\n")]
            tail = [json.loads(l) for l in lines[-6:]]
            with open(trace_path, "w") as f:
                f.writelines(lines)
                f.write(json.dumps({"k": "reset"}) + "\n")
        except Exception:
            pass
        if prop in ("C02", "C03"):
            ctx.violation({"leg": leg, "mismatch": [0, prop, ["a call of the allocator did not return", h]], "last_events": tail},
                          {"mode": "hang", "pending": h, "last_events": tail})
        else:
            ctx.note("a call of the allocator did not return (%s); judged by C02/C03, not by %s" % (json.dumps(h), prop))
        return
    if rc != 0:
        raise vlib.Broken("pmm harness %s failed:\n%s" % (run, out[-3000:]))


def run_pmm(ctx, prop):
    boot = prop == "C02"
    mode = "boot" if boot else "main"
    q = ctx.quick
    ctx.assumptions += ASSUME
    ctx.rule = ("cases = (memory map, kernel placement, alloc/free script); leg G replays every map/placement TLC enumerated "
                "in the small scope (model units x1024 bytes) and every script TLC explored on the word-boundary family; leg T "
                "draws seeded random maps at real scale (1-6 regions, 64k+-1 frame counts, unaligned, types incl. >= 2^31, bases "
                "> 4 GiB); a case is distinct by its full event sequence and non-trivial when it contains at least one successful allocation")
    d = ctx.spec_dir("pmm")
    tier = "Quick" if q else "Full"
    cases = os.path.join(ctx.work, "cases.ndjson")
    hist_cases = os.path.join(ctx.work, "hist_cases.ndjson")

    # ---- leg M: the design model satisfies the monitor for every map of the scope
    if boot:
        ctx.model_check(d, "MCPmm", "MCPmmBoot" + tier, timeout=1500)
    else:
        ctx.model_check(d, "MCPmm", "MCPmmInit" + tier, timeout=1800)
        ctx.model_check(d, "MCPmm", "MCPmmHist" + tier, env={"CASES": hist_cases}, timeout=900)
    ctx.model_check(d, "MCPmm", "MCPmmEmit" + tier, env={"CASES": cases}, timeout=900, name="emit-cases")
    ctx.cov["states"] -= ctx.cov["legs"]["emit-cases"]["distinct"]       # the emission run only enumerates Init
    ctx.cov["transitions"] -= ctx.cov["legs"]["emit-cases"]["generated"]
    # design mutants: the monitor must reject realistic wrong designs (guards against a vacuous oracle)
    bugs = ["BootJumpToKernelEnd", "ReplayKeepsCursor", "JumpFromOtherRegion"] if boot else (["CountIsEndMinusStart", "FreeNoBitTest"] if q else
                                                 ["CountIsEndMinusStart", "SkipEarlyReplay", "PoolForFrameStrict", "FreeNoBitTest"])
    for b in bugs:
        ctx.expect_model_violation(d, "MCPmm", "MCPmmBug_" + b, timeout=600)
    if not boot and not q:
        # a different allocation policy (highest clear bit first) keeps the property: the monitor must accept it
        ctx.model_check(d, "MCPmm", "MCPmmPolicy_AllocHighestBit", timeout=600)

    # ---- leg G: replay the TLC-enumerated cases on the real package
    gcases = os.path.join(ctx.work, "gcases.ndjson")
    total, used = sample_lines(cases, gcases, 4500 if q else 0, ctx.seed)
    ctx.cov["legs"]["emit-cases"]["replayed"] = used
    traces = []
    tr = os.path.join(ctx.work, "trace_g.ndjson")
    _run_harness(ctx, prop, "TestVerifPmmCases", {"CASES": gcases, "TRACE_OUT": tr, "VERIF_PMM_MODE": mode}, 900, "G-init", tr)
    traces.append(("G-init", tr))
    if not boot:
        tr2 = os.path.join(ctx.work, "trace_gh.ndjson")
        _run_harness(ctx, prop, "TestVerifPmmCases", {"CASES": hist_cases, "TRACE_OUT": tr2, "VERIF_PMM_MODE": mode}, 900, "G-hist", tr2)
        traces.append(("G-hist", tr2))
    # ---- leg T: random maps and histories at real scale
    tr3 = os.path.join(ctx.work, "trace_t.ndjson")
    n = (150 if q else 4000) if boot else (80 if q else 2500)
    _run_harness(ctx, prop, "TestVerifPmmRandom", {"TRACE_OUT": tr3, "NTRACES": n, "VERIF_PMM_MODE": mode}, 400, "T-random", tr3)
    traces.append(("T-random", tr3))

    # ---- leg V: the TLA+ monitor judges every recorded event
    exhaustive = not q
    for name, path in traces:
        acc, nev, mism = ctx.validate_traces("PmmTrace", "PmmTrace" + prop, path, ("pmm",), name=name, timeout=1500)
        with open(path) as f:
            cur, nd = [], 0
            for line in f:
                e = json.loads(line)
                if e.get("k") == "reset":
                    if any(x.get("res") == "ok" and x["k"] in ("alloc", "balloc") for x in cur):
                        ctx.distinct(cur)
                    if nd < 1 and len(cur) > 1:
                        ctx.sample({"leg": name, "events": cur[:6]})
                        nd += 1
                    cur = []
                else:
                    cur.append(e)
        for m in mism[:3]:
            rep = case_to_replay(m["case_events"], mode)
            ctx.violation({"leg": name, "mismatch": m["mismatch"], "event": m["case_events"][m["line_in_case"] - 1]}, rep)
    ctx.cov["exhaustive"] = exhaustive and not ctx.violations
    ctx.cov["explanation"] = ("exhaustive = every map/kernel placement and every alloc/free script of the TLC small scope was replayed "
                              "on the real code (thorough tier); the quick tier replays a seeded sample of the maps")


def replay_pmm(ctx, prop, path):
    with open(path) as f:
        rep = json.load(f)["replay"]
    cf = os.path.join(ctx.work, "replay_case.ndjson")
    write_case_file(cf, rep)
    tr = os.path.join(ctx.work, "trace_replay.ndjson")
    rc, out, _ = ctx.gotest("kernel", "mm/pmm", HARNESS, "TestVerifPmmCases",
                            env={"CASES": cf, "TRACE_OUT": tr, "VERIF_PMM_MODE": rep["mode"], "VERIF_UNIT": 1}, timeout=300)
    if rc != 0:
        raise vlib.Broken("replay harness failed:\n" + out[-2000:])
    acc, nev, mism = ctx.validate_traces("PmmTrace", "PmmTrace" + prop, tr, ("pmm",), name="replay")
    for m in mism:
        ctx.violation({"leg": "replay", "mismatch": m["mismatch"]}, rep)
    ctx.cov["states"] = max(ctx.cov["states"], 1)
    ctx.cov["transitions"] = max(ctx.cov["transitions"], 1)
    return None
