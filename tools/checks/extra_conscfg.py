"""extra-conscfg: console configuration and decoration (DESIGN.md section 5 item 3).
Specs: specs/conscfg/{ConsCfg,ConsSelModel,MCConsSel,ConsDecModel,MCConsDec,ConsCfgTrace}.tla 
(ConsoleBase.tla = the family's own snapshot of the pixel / diff / Write operators of the C19 module specs/console/Console.tla).

 S1 font.FindByName / font.BestFit / logo.BestFit selection rules      (packages font, logo)
 S2 hal.onConsoleInit: boot command line overrides, capabilities        (package hal)
 S3 SetLogo / SetFont / SetPaletteColor / Palette of the consoles       (package console)

 M  TLC explores ConsSelModel (loop-level transcriptions of the selection functions, the command-line map and onConsoleInit over
    every small case) and ConsDecModel (byte-level transcription of SetLogo/SetFont/SetPaletteColor/replace16/24 over small
    framebuffers); every produced event is judged by the monitor operators of ConsCfg.tla.  Design mutants must be rejected, and
    so must the strict readings of the documentation (they demonstrate the named deviations Dev_*).
 G  the same runs emit every case / script; the Go harnesses replay all of them on the real packages.
 T  seeded random lists, command lines and real-scale framebuffers; sweep of the shipped font and logo lists over resolutions.
 V  every recorded event is judged by ConsCfgTrace.tla.  A probe leg runs the inputs of the excluded classes through the strict
    monitor and reports the deviations of the pinned tree as notes.
"""
import concurrent.futures, json, os, random
import vlib

CONS = "kernel/device/video/console"
SHIMS = {CONS + "/font/zz_verif_xcf_font_shim.go": "conscfg/xcf_font_shim.go",
         CONS + "/logo/zz_verif_xcl_logo_shim.go": "conscfg/xcl_logo_shim.go",
         "kernel/multiboot/zz_verif_xcm_multiboot_shim.go": "conscfg/xcm_multiboot_shim.go"}
CONS_FILES = dict(SHIMS)
CONS_FILES.update({CONS + "/font/zz_verif_xcf_font_test.go": "conscfg/xcf_font_test.go",
                   CONS + "/logo/zz_verif_xcl_logo_test.go": "conscfg/xcl_logo_test.go",
                   CONS + "/zz_verif_xcc_console_test.go": "conscfg/xcc_console_test.go"})
SPECS = ("conscfg",)     # self-contained: ConsoleBase.tla is the family's snapshot of the C19 operators it uses

SEL_BUGS = ["NameLastWins", "NameUnknownFirst", "FontIgnoresHeight", "FontTieKeepsFirst", "FontNoPriority", "FontDocRule", "FontPrioStrict",
            "LogoThresholdWidth", "LogoThresholdEighth", "LogoNoAbs", "LogoTieLastWins", "CmdFirstWins", "CmdBareIsEmpty", "CmdExtraPartsKept",
            "HalEveryConsole", "HalLogoKeyDisables", "HalLogoOffIgnored", "HalUnknownNameNil", "HalFontFromGrid", "HalFontBeforeLogo"]
DEC_BUGS = ["ReplaceComparesFirstByte", "ReplaceFromTop", "ReplaceSwapsRB", "DacNotScaled", "SetPalNoShortcut", "SetPalNeverReplaces",
            "VgaNoIndexCheck", "VgaDacIdentity", "LogoKeepsTransparent", "LogoPaletteReplaces", "LogoPaletteAtStart", "LogoCenterNotHalved",
            "LogoRightIsLeft", "GridIgnoresLogo", "LogoNotReserved"]
# strict readings that TLC must reject: each demonstrates a named deviation on the design
STRICT = [("MCConsSel", "MCConsSelStrictFont"), ("MCConsSel", "MCConsSelStrictLogo"), ("MCConsDec", "MCConsDecUnaligned")]

ASSUME = [
    "console and recommended dimensions below 2^30 (the score is computed in 32-bit arithmetic; no wrap in this domain)",
    "boot command line tokens contain no blanks; a part of a token contains no '='; a token is not empty",
    "SetLogo is applied at most once per console, with a logo that fits the framebuffer (width <= console width, height <= console height), "
    "fewer than 256 palette entries, alignment left/centre/right; SetFont with glyph sizes >= 1; Write only with a grid computed after the logo",
    "direct-colour framebuffers have pitch % bytesPerPixel = 0 in the generators (Dev_ReplaceLinearScan documents the other pitches); "
    "colour masks 1-8 bits wide inside the pixel",
    "the reserved logo rows are not recoloured by SetPaletteColor; a pixel-aligned padding slot holding the old colour may or may not be recoloured",
    "trusted Go: construction of the consoles through DriverInit over guarded host memory, the diff / palette / port projections and the event "
    "writers in harness/conscfg (no expected results in them; full checkpoints cross-check the diff projection); export shims that swap the "
    "package-private font / logo lists and drop the cached command line; positions of returned fonts / logos by pointer identity",
]


# ---------------------------------------------------------------- emitted cases

def unwrap(path):
    out = []
    with open(path) as f:
        for line in f:
            line = line.strip()
            if not line:
                continue
            try:
                j = json.loads(line)
                if isinstance(j, str):
                    j = json.loads(j)
            except Exception:
                raise vlib.Broken("unparsable case line emitted by TLC: %r" % line[:200])
            out.append(j)
    return out


def probe_cases():
    """Inputs of the classes the generators stay out of (see Dev_* in ConsCfg.tla); judged by the strict monitor."""
    l565 = [11, 5, 5, 6, 0, 5]
    pix = [16, 0]     # palette entry 1 = (0,0,128) on a 565 framebuffer
    return [
        # the walk of replace16 reaches a single trailing byte that equals the first byte of the old colour
        {"id": 9001, "cons": "fb", "w": 4, "h": 3, "pitch": 9, "bpp": 16, "ci": l565, "rows": [[0] * 9] * 3, "leg": "P",
         "scripts": [[{"op": "pal", "idx": 0, "c": [200, 0, 0, 0]}]]},
        # even total size: no panic, but the second row is walked at odd offsets and keeps the old colour
        {"id": 9002, "cons": "fb", "w": 4, "h": 2, "pitch": 9, "bpp": 16, "ci": l565, "rows": [pix * 4 + [238]] * 2, "leg": "P",
         "scripts": [[{"op": "pal", "idx": 1, "c": [255, 0, 0, 0]}]]},
        # 24 bpp, pitch rounded up to a multiple of 4
        {"id": 9003, "cons": "fb", "w": 5, "h": 2, "pitch": 16, "bpp": 24, "ci": [16, 8, 8, 8, 0, 8], "rows": [[0] * 16] * 2, "leg": "P",
         "scripts": [[{"op": "pal", "idx": 0, "c": [0, 200, 0, 0]}]]},
        # what hal.onConsoleInit does on a 40x30 framebuffer: SetLogo(logo.BestFit(40, 30))
        {"id": 9005, "cons": "fb", "w": 40, "h": 30, "pitch": 80, "bpp": 16, "ci": l565, "leg": "P", "seed": 5, "paint": [0],
         "logos": [{"best": [40, 30]}], "scripts": [[{"op": "logo", "i": 1}]]},
    ]


def dec_cases(emitted, seed):
    """One case per geometry: tables + initial content + every emitted script."""
    tables, geoms, scripts = None, {}, {}
    for j in emitted:
        if j["t"] == "tables":
            tables = j
        elif j["t"] == "geom":
            geoms[j["id"]] = j
        else:
            scripts.setdefault(j["id"], []).append(j["script"])
    if tables is None or not geoms or not scripts:
        raise vlib.Broken("TLC emitted no decoration cases")
    cases = []
    for gid in sorted(geoms):
        g = dict(geoms[gid])
        g.pop("t")
        g.update({"logos": tables["logos"], "fonts": tables["fonts"], "scripts": scripts.get(gid, []), "leg": "G", "seed": seed * 1009 + gid})
        cases.append(g)
    return cases


# ---------------------------------------------------------------- harness runs

def run_go(ctx, sel_cases, dec_case_file, n_sel, n_hal, n_cons, step, nops, probes, timeout):
    tr = os.path.join(ctx.work, "tr")
    env = {"TRACE_OUT": tr, "XC_CASES": sel_cases or "", "XC_DEC_CASES": dec_case_file or "", "XC_RANDOM": n_sel, "XC_RANDOM_CONS": n_cons,
           "XC_STEP": step, "XC_NOPS": nops, "XC_PROBE": "1" if probes else "0"}
    rc, out, w1 = ctx.gotest("kernel", "device/video/console/...", [], "^TestVerifXc(fFont|lLogo|cConsole)$", env=env,
                             extra_files=CONS_FILES, timeout=timeout)
    if rc != 0:
        raise vlib.Broken("console/font/logo harness failed:\n" + out[-3000:])
    env = dict(env, XC_RANDOM=n_hal)
    rc, out, w2 = ctx.gotest("kernel", "hal", ["conscfg/xch_hal_test.go"], "^TestVerifXchHal$", env=env, extra_files=SHIMS, timeout=timeout)
    if rc != 0:
        raise vlib.Broken("hal harness failed:\n" + out[-3000:])
    for sfx in (".font", ".logo", ".cons", ".hal"):
        if not os.path.exists(tr + sfx):
            raise vlib.Broken("harness wrote no trace " + tr + sfx)
    return tr, w1 + w2


def split_traces(ctx, tr):
    """main trace (all packages, cases closed by reset events) and probe trace (leg P)."""
    main, probe = os.path.join(ctx.work, "trace_main.ndjson"), os.path.join(ctx.work, "trace_probe.ndjson")
    n_main = n_probe = 0
    with open(main, "w") as m, open(probe, "w") as p:
        for sfx in (".font", ".logo", ".hal"):
            with open(tr + sfx) as f:
                for line in f:
                    if '"leg":"P"' in line:
                        p.write(line)
                        p.write('{"k":"reset"}\n')
                        n_probe += 1
                    else:
                        m.write(line)
                        n_main += 1
            m.write('{"k":"reset"}\n')
        with open(tr + ".cons") as f:
            dst = m
            for line in f:
                if line.startswith('{"k":"init"'):
                    dst = p if '"leg":"P"' in line[:200] else m
                    if dst is p:
                        n_probe += 1
                dst.write(line)
                if dst is m:
                    n_main += 1
    return main, probe, n_main, n_probe


def brief(e):
    e = dict(e)
    for k in ("pal", "rows", "fd"):
        if k in e:
            e[k] = "<%d values>" % len(e[k])
    if "l" in e and isinstance(e["l"], dict) and len(e["l"].get("data", [])) > 64:
        e["l"] = dict(e["l"], data="<%d values>" % len(e["l"]["data"]))
    if "d" in e and len(json.dumps(e["d"])) > 400:
        e["d"] = "<%d changed rows>" % len(e["d"])
    if "q" in e and len(e["q"]) > 12:
        e["q"] = e["q"][:12] + ["... %d queries" % len(e["q"])]
    return e


def to_replay(events, dec_index):
    """The exact input of the offending event: a selection / hal case list, or a console case reduced to the offending script."""
    ev = events[-1]
    if ev["k"] in ("fbest", "lbest"):
        key = "fonts" if ev["k"] == "fbest" else "logos"
        return {"kind": "sel", "cases": [{"t": ev["k"], key: ev[key], "w": q[0], "h": q[1]} for q in ev["q"]]}
    if ev["k"] == "fname":
        return {"kind": "sel", "cases": [{"t": "fname", "fonts": ev["fonts"], "name": q[0]} for q in ev["q"]]}
    if ev["k"] == "hal":
        c = {k: ev[k] for k in ("fonts", "logos", "cmd", "capfont", "caplogo", "first", "w", "h")}
        c["t"] = "hal"
        return {"kind": "sel", "cases": [c]}
    init = next(e for e in events if e["k"] == "init")
    case = dec_index.get(init["id"])
    if case is None:
        return {"kind": "events", "events": [brief(e) for e in events]}
    c = dict(case)
    base = case.get("base", 0)
    c["scripts"] = [case["scripts"][init["script"] - base]]
    c["base"] = init["script"]
    return {"kind": "dec", "case": c}


def report(ctx, leg, mism, dec_index, seen):
    for m in mism:
        why = m["mismatch"][2]
        ev = m["case_events"][:m["line_in_case"]]
        last = ev[-1]
        key = json.dumps([last.get("k"), why[:1] if why[0] != "call did not return normally" else why[:3]])
        if key in seen or len(ctx.violations) >= 10:
            continue
        seen.add(key)
        init = [brief(e) for e in ev if e["k"] == "init"][-1:]
        ctx.violation({"leg": leg, "mismatch": m["mismatch"], "console": init, "event": brief(last)}, to_replay(ev, dec_index))


def account(ctx, path):
    """Evidence: distinct non-trivial executions = selection queries with a non-nil answer, hal cases that configured something,
    console calls that changed the buffer, the palette or the grid."""
    geo, kinds = None, {}
    with open(path) as f:
        for line in f:
            e = json.loads(line)
            k = e["k"]
            kinds[k] = kinds.get(k, 0) + 1
            if k in ("fbest", "lbest", "fname"):
                lst = e.get("fonts") or e.get("logos")
                for q in e["q"]:
                    if q[-1] != 0:
                        ctx.distinct([k, lst, q])
                if len(e["q"]) == 1 and e["q"][0][-1] > 1:
                    ctx.sample({"event": brief(e)})
            elif k == "hal":
                if e["calls"]:
                    ctx.distinct([e[x] for x in ("fonts", "logos", "cmd", "capfont", "caplogo", "first", "w", "h")])
                    if len(e["cmd"]) > 1 and e["leg"] == "T":
                        ctx.sample({"event": e})
            elif k == "init":
                geo = [e[x] for x in ("cons", "w", "h", "pitch", "bpp", "ci")]
            elif k in ("setlogo", "setfont", "setpal", "write"):
                if e["d"] or e["pd"] or e["ports"] or k == "setfont":
                    ctx.distinct([geo, {x: e[x] for x in e if x not in ("d", "res", "guard", "fd")}])
                    if k == "setpal" and e["d"] and len(json.dumps(e["d"])) < 500:
                        ctx.sample({"console": geo, "event": e})
    return kinds


def mutants(ctx, d, jobs, workers):
    """Design mutants / strict readings: TLC must reject every one.  Run a few at a time."""
    def one(job):
        return ctx.expect_model_violation(d, job[0], job[1], env={"CASES": os.devnull}, timeout=600, workers=2)
    with concurrent.futures.ThreadPoolExecutor(max_workers=workers) as ex:
        return list(ex.map(one, jobs))


def probe_leg(ctx, probe, dec_index, seen):
    """The inputs of the excluded classes against the strict monitor: a diagnosis tagged Dev_<name> documents the deviation of the
    pinned tree (note); acceptance means the tree no longer deviates (note); any other diagnosis is a violation."""
    # the strict monitor keeps going after a mismatch (KeepGoing): one process judges every probe case; the first
    # diagnosis of a case counts (later events of that case run on a state that already diverged)
    import re
    cases, cur = [], []
    for line in open(probe):
        cur.append(line)
        if line.startswith('{"k":"reset"'):
            cases.append(cur)
            cur = []
    ncases = len(cases)
    d = ctx.spec_dir(*SPECS)
    r = ctx.tlc(d, "ConsCfgTrace", "ConsCfgTraceStrict", workers=1, env={"TRACE": probe}, timeout=600, dump_trace=False, xmx="2g",
                name="V-probes-strict")
    nlines = sum(len(c) for c in cases)
    if r.violated is not None or not r.ok or r.generated < nlines:
        raise vlib.Broken("probe validation did not run through (%s):\n%s" % (r.violated, r.out[-3000:]))
    mism, hit = [], set()
    for m in re.finditer(r'<<"VERIF-MISMATCH", "(.*)">>', r.out):
        mm = json.loads(json.loads('"' + m.group(1) + '"'))
        k = 0
        for i, c in enumerate(cases):
            if mm[0] <= k + len(c):
                if i not in hit:
                    hit.add(i)
                    mism.append({"mismatch": mm, "case_events": [json.loads(x) for x in c], "line_in_case": mm[0] - k, "chunk": 0})
                break
            k += len(c)
    acc = ncases - len(hit)
    ctx.cov["traces_validated_against_impl"] += ncases
    ctx.cov["evaluations"] += nlines
    ctx.log("V probes (strict): %d cases, %d events, %d with a diagnosis, %.1fs" % (ncases, nlines, len(hit), r.wall))
    bad, devs = [], {}
    for m in mism:
        why = m["mismatch"][2]
        ev = m["case_events"][:m["line_in_case"]]
        tag = why[0] if why and isinstance(why[0], str) else ""
        if tag.startswith("Dev_"):
            init = [e for e in ev if e["k"] == "init"]
            where = ("%dx%d %d bpp pitch %d" % (init[-1]["w"], init[-1]["h"], init[-1]["bpp"], init[-1]["pitch"])) if init else ""
            last = brief(ev[-1])
            what = {x: last[x] for x in last if x in ("k", "idx", "c", "res", "q", "fonts", "logos", "nil")}
            devs.setdefault(tag, []).append("%s %s -> %s" % (where, json.dumps(what), json.dumps(why[1:])))
        else:
            bad.append(m)
    for tag in sorted(devs):
        ctx.note("%s confirmed on the real code (probe leg, strict monitor): %s" % (tag, " | ".join(devs[tag])[:1500]))
    if acc:
        ctx.note("%d probe case(s) of the excluded classes were accepted by the strict rule (no deviation shown by them)" % acc)
    report(ctx, "probes", bad, dec_index, seen)
    ctx.cov["legs"]["probes"] = {"cases": ncases, "deviations_confirmed": {k: len(v) for k, v in devs.items()}, "accepted_strict": acc}
    return devs


def run(ctx):
    q = ctx.quick
    ctx.assumptions += ASSUME
    ctx.rule = ("one execution = one call of FindByName / BestFit (font, logo) on a list, one hal.onConsoleInit on a console with given "
                "capabilities, dimensions and command line, or one SetLogo / SetFont / SetPaletteColor / Write call on a console; leg G replays "
                "every case TLC explored (lists of up to 3 fonts / logos, command lines of up to 2 tokens out of 8, framebuffers of 3-5 x 2-5 "
                "pixels at 8/15/16/24/32 bpp with scripts of up to 3 calls, a 4x3 text console); leg T draws seeded random lists, command lines "
                "and framebuffers of 16-70 x 20-60 pixels with shipped and synthetic fonts, and sweeps the shipped lists over resolutions up to "
                "4096x2304; distinct = list/geometry + arguments; non-trivial = a non-nil selection, a configuring hal case, a call that "
                "changed buffer, palette, ports or grid")
    d = ctx.spec_dir(*SPECS)

    # ---- leg M
    sel_emit = os.path.join(ctx.work, "sel_emitted.ndjson")
    dec_emit = os.path.join(ctx.work, "dec_emitted.ndjson")
    ctx.model_check(d, "MCConsSel", "MCConsSelQuick" if q else "MCConsSelFull", env={"CASES": sel_emit}, workers=1, timeout=900)
    ctx.model_check(d, "MCConsDec", "MCConsDecQuick" if q else "MCConsDecFull", env={"CASES": dec_emit}, workers=1, timeout=1500)
    rnd = random.Random(ctx.seed)
    if not q:
        # a driver repaired to walk row by row satisfies the strict rule also on unaligned pitches (the spec does not pin the defect down)
        ctx.model_check(d, "MCConsDec", "MCConsDecRepaired", env={"CASES": os.devnull}, workers=2, timeout=600)
    if q:
        one = ("MCConsSel", "MCConsSelBug_" + rnd.choice(SEL_BUGS)) if ctx.seed % 2 else ("MCConsDec", "MCConsDecBug_" + rnd.choice(DEC_BUGS))
        jobs = [one, STRICT[ctx.seed % 2], STRICT[2]]
    else:
        jobs = [("MCConsSel", "MCConsSelBug_" + b) for b in SEL_BUGS] + [("MCConsDec", "MCConsDecBug_" + b) for b in DEC_BUGS] + STRICT
    mutants(ctx, d, jobs, 3)
    ctx.note("TLC rejects the strict readings of the documentation on the design models (MCConsSelStrictFont: font.BestFit keeps a better-priority "
             "font over a lower score; MCConsSelStrictLogo: logo.BestFit returns logos larger than the console; MCConsDecUnaligned: replace16/24 "
             "ignore the pitch): named deviations Dev_FontPriorityGate, Dev_LogoIgnoresFit, Dev_ReplaceLinearScan in specs/conscfg/ConsCfg.tla")

    # ---- leg G inputs
    sel = unwrap(sel_emit)
    sel_cases = os.path.join(ctx.work, "sel_cases.ndjson")
    with open(sel_cases, "w") as f:
        for c in sel:
            f.write(json.dumps(c) + "\n")
    dec = dec_cases(unwrap(dec_emit), ctx.seed)
    n_scripts = sum(len(c["scripts"]) for c in dec)
    dec_file = os.path.join(ctx.work, "dec_cases.ndjson")
    with open(dec_file, "w") as f:
        for c in dec + probe_cases():
            f.write(json.dumps(c) + "\n")
    ctx.cov["legs"]["emitted"] = {"selection_and_hal_cases": len(sel), "console_geometries": len(dec), "console_scripts": n_scripts}

    # ---- legs G + T on the real packages
    tr, wall = run_go(ctx, sel_cases, dec_file, n_sel=40 if q else 3000, n_hal=400 if q else 30000, n_cons=14 if q else 400,
                      step=256 if q else 16, nops=25, probes=True, timeout=300 if q else 1500)
    dec_index = {c["id"]: c for c in dec + probe_cases()}
    if os.path.exists(tr + ".cons.cases"):
        for c in vlib.read_ndjson(tr + ".cons.cases"):
            dec_index[c["id"]] = c
    main, probe, n_main, n_probe = split_traces(ctx, tr)
    ctx.cov["legs"]["harness"] = {"events": n_main, "probe_cases": n_probe, "go_wall_s": round(wall, 1)}

    # ---- leg V
    seen = set()
    acc, nev, mism = ctx.validate_traces("ConsCfgTrace", "ConsCfgTrace", main, SPECS, parallel=3 if q else 16, name="V", timeout=1500)
    report(ctx, "G+T", mism, dec_index, seen)
    kinds = account(ctx, main)
    ctx.cov["legs"]["events_by_kind"] = kinds
    probe_leg(ctx, probe, dec_index, seen)
    ctx.cov["exhaustive"] = not mism
    ctx.cov["explanation"] = ("exhaustive = every case of this tier's TLC scope (%d selection / hal cases, %d console scripts on %d geometries) was "
                              "replayed on the real packages and accepted by the monitor; real-scale inputs are sampled" % (len(sel), n_scripts, len(dec)))


def replay(ctx, path):
    with open(path) as f:
        rep = json.load(f)["replay"]
    sel_cases = dec_file = None
    dec_index = {}
    if rep["kind"] == "sel":
        sel_cases = os.path.join(ctx.work, "replay_sel.ndjson")
        with open(sel_cases, "w") as f:
            for c in rep["cases"]:
                full = {"t": c["t"], "fonts": [], "logos": [], "w": 0, "h": 0, "name": "", "cmd": [], "capfont": False, "caplogo": False, "first": True}
                full.update(c)
                f.write(json.dumps(full) + "\n")
    elif rep["kind"] == "dec":
        dec_file = os.path.join(ctx.work, "replay_dec.ndjson")
        with open(dec_file, "w") as f:
            f.write(json.dumps(rep["case"]) + "\n")
        dec_index[rep["case"]["id"]] = rep["case"]
    else:
        raise vlib.Broken("replay file holds events only (no re-runnable input)")
    tr, _ = run_go(ctx, sel_cases, dec_file, 0, 0, 0, 0, 25, False, 300)
    main, probe, n_main, n_probe = split_traces(ctx, tr)
    seen = set()
    strict = rep["kind"] == "dec" and rep["case"].get("leg") == "P"
    if strict:
        probe_leg(ctx, probe, dec_index, seen)
    else:
        acc, nev, mism = ctx.validate_traces("ConsCfgTrace", "ConsCfgTrace", main, SPECS, parallel=2, name="V-replay", timeout=600)
        report(ctx, "replay", mism, dec_index, seen)
    ctx.cov["states"] = max(ctx.cov["states"], 1)
    ctx.cov["transitions"] = max(ctx.cov["transitions"], 1)
    return None
