"""extra-kutil: small kernel utilities beyond the listed properties (DESIGN.md section 5, items 2 and 4).

 (a) kfmt.PrefixWriter   specs/kutil/PrefixWriter.tla   + PrefixWriterModel / MCPrefixWriter
 (b) kfmt.Panic          specs/kutil/KPanic.tla         + KPanicModel / MCKPanic
 (c) kernel.Memset/Memcopy  specs/kutil/KMem.tla        + KMemModel
 (d) gate.HandleInterrupt, cpu.IsIntel  specs/kutil/KGate.tla + KGateModel, KCpuModel / MCKCpu
One trace monitor (KutilTrace.tla) judges every event recorded from the real packages with the operators that
judge the design models.  Legs: M (five design models + design mutants), G (every case TLC enumerated, replayed),
T (seeded random at real scale), V (TLC monitor)."""
import concurrent.futures, json, os, random
import vlib

KFMT = ["kutil/xkf_kfmt_test.go"]
MEM = ["kutil/xkm_mem_test.go"]
GATE = ["kutil/xkg_gate_test.go"]
CPU = ["kutil/xkg_cpu_test.go"]
PAGE = 4096

MODELS = [  # (part, module, quick cfgs, thorough cfgs, design mutants (the first is run in the quick tier too), mutant cfg prefix)
    ("pw", "MCPrefixWriter", ["MCPrefixWriterQuick"], ["MCPrefixWriterQuick", "MCPrefixWriterWide"],
     ["EagerAtChunkEnd", "PrefixEveryWrite", "CountsPrefix", "EmptyWritePrefix", "SwallowPartialError", "CountsWholePiece", "BapFromLen", "ErrBeforePrefix"], "MCPrefixWriterBug_"),
    ("kp", "MCKPanic", ["MCKPanicQuick"], ["MCKPanicQuick", "MCKPanicDeep"],
     ["StrFallsThrough", "ErrStaleMessage", "HaltFirst", "ModuleOmitted"], "MCKPanicBug_"),
    ("km", "KMemModel", ["MCKMemQuick"], ["MCKMemFull"], ["NoTail", "LenPlusOne", "ForwardCopy", "SwapArgs", "ZeroTouches"], "MCKMemBug_"),
    ("kg", "KGateModel", ["MCKGateQuick"], ["MCKGateFull"], ["DelimiterThree", "FirstWins", "IstDropped", "SlotOfPrevious"], "MCKGateBug_"),
    ("kc", "MCKCpu", ["MCKCpu"], ["MCKCpu"], ["OrderBCD", "OnlyEbx", "AnyOf", "Leaf1"], "MCKCpuBug_"),
]

DEVIATIONS = [
    "PrefixWriter (as coded, refinement model only - not demanded of the code) Dev_PrefixErrIgnored: the result of Sink.Write(Prefix) is dropped - Write can return (len(p), nil) although prefix bytes never reached the sink",
    "PrefixWriter (as coded, refinement model only) Dev_PrefixBeforeErrCheck: when a '\\n'-terminated piece inside a chunk is refused by the sink, the next line's prefix is still handed to the sink before Write returns the error",
    "PrefixWriter (as coded, refinement model only) Dev_LineStateFromCount: bytesAfterPrefix is the count the sink returned for the last unterminated piece and is untouched by a refused '\\n'-piece; after a sink error the next Write may repeat the prefix in mid-line (e.g. prefix '>', sink refusing 1 byte into 'ab\\n': a retry of 'b\\n' yields '>a>b\\n')",
    "Panic Dev_OtherKindsSilent: a value that is neither error nor string (panic(42) through the runtime.gopanic redirect) prints the frame without any message although the doc says the supplied error is output",
    "Panic Dev_SharedRuntimeError: strings / foreign errors overwrite the Message of the shared errRuntimePanic for good",
    "gate Dev_IstNotMasked: HandleInterrupt stores istOffset unmasked in descriptor byte 4 (bits 3..7 are reserved in hardware)",
    "gate Dev_CodePointerOnly: gateHandlers keeps only the code address of the handler func value; a closure's context is dropped",
    "gate: vectors 21 (#CP) and 29 (#VC), which newer CPUs deliver with an error code, use the no-error-code stub (the code follows the older osdev table); modelled as coded",
]


def segs(bs):
    out = []
    for b in bs:
        if out and out[-1][0] == b:
            out[-1][1] += 1
        else:
            out.append([b, 1, 0])
    return out


def total(sg):
    return sum(s[1] for s in sg)


def unwrap(paths):
    """TLC wrote one JSON *string* per line (CSVWrite of ToJson); the same case can come from two scopes: keep it once"""
    seen, out = set(), []
    for path in paths:
        if not os.path.exists(path):
            continue
        with open(path) as f:
            for l in f:
                l = l.strip()
                if l and l not in seen:
                    seen.add(l)
                    out.append(json.loads(json.loads(l)))
    return out


def pick(items, n, seed):
    return random.Random(seed).sample(items, n) if n and len(items) > n else list(items)


# ------------------------------------------------------------------ case construction (inputs only, no expectations)
def pw_case(c):
    return {"pw": {"prefix": segs(c["prefix"]), "failAt": c["failAt"], "period": c["period"], "sticky": c["sticky"],
                   "chunks": [segs(x) for x in c["chunks"]]}}


def kp_case(c):
    return {"kp": {"calls": [{"kind": x["kind"], "mod": segs(x["mod"]), "msg": segs(x["msg"]), "hmode": x["hmode"]} for x in c["calls"]]}}


def mem_variants(c, model_n, rnd, everything):
    """A model call over model_n cells becomes real calls: (a) byte for byte at the start of a one-page arena, (b) byte for
    byte flush with the trailing guard page, (c) scaled so that 4 model cells are one page, sizes +-1 and offsets
    unaligned by 0/1/7.  `everything` = all variants (thorough), else (a) and one seeded choice among the others."""
    out = []
    keys = ("off",) if c["op"] == "memset" else ("src", "dst")

    def mk(n, base, shift, scale, dsize, doff):
        k = dict(c, n=n, base=base)
        k["size"] = max(0, c["size"] * scale + (dsize if c["size"] > 0 else 0))
        for key in keys:
            k[key] = c[key] * scale + shift + doff
        ends = [k[key] + k["size"] for key in keys]
        if max(ends) > n or min(k[key] for key in keys) < 0:
            return None
        if c["op"] == "memset" and "val" not in k:
            k["val"] = 0
        return k
    out.append(mk(PAGE, 100, 0, 1, 0, 0))
    others = [mk(PAGE, 3, PAGE - model_n, 1, 0, 0)]
    unit = PAGE // 4
    n3 = PAGE * ((model_n * unit + 8) // PAGE + 1)
    for ds in (-1, 0, 1):
        for do in (0, 1, 7):
            others.append(mk(n3, 17 * (ds + 2) + do, 0, unit, ds, do))
    others = [o for o in others if o]
    out += others if everything else [rnd.choice(others)]
    return [o for o in out if o]


# ------------------------------------------------------------------ legs
def run_models(ctx, d, q):
    """leg M.  Returns {part: [case files]} (each TLC run emits into a file of its own)."""
    jobs, files = [], {}
    with concurrent.futures.ThreadPoolExecutor(max_workers=3) as ex:
        for part, module, qcs, fcs, bugs, bugprefix in MODELS:
            for cfg in (qcs if q else fcs):
                cf = os.path.join(ctx.work, "xk_cases_%s_%s.ndjson" % (part, cfg))
                files.setdefault(part, []).append(cf)
                # expression-level coverage doubles the run time: it is taken on the small models, the two large
                # ones (PrefixWriter, Panic) were checked for unreached branches with -coverage 1 when they were written
                jobs.append(ex.submit(ctx.model_check, d, module, cfg, workers=2 if q else 4, timeout=1500, env={"CASES": cf},
                                      coverage=(not q) and part in ("km", "kg", "kc"), name="M-%s-%s" % (part, cfg)))
            for b in (bugs[:1] if q else bugs):
                jobs.append(ex.submit(ctx.expect_model_violation, d, module, bugprefix + b, workers=1, timeout=600,
                                      env={"CASES": os.devnull}))
        for j in jobs:
            r = j.result()
            if getattr(r, "coverage_zero", None):
                raise vlib.Broken("an action of the design model was never taken (vacuous scope): %s" % r.coverage_zero[:3])
    return files


def go(ctx, pkg, files, test, env, intent=None, trace=None):
    """run one harness entry point; a process that died inside a call becomes a `crash` event for the monitor"""
    rc, out, _ = ctx.gotest("kernel", pkg, files, test, env=env, timeout=900)
    if rc != 0:
        ip = os.path.join(ctx.work, intent) if intent else None
        if ip and os.path.exists(ip) and ("fatal error" in out or "signal" in out or "unexpected fault" in out or "SIGSEGV" in out):
            with open(ip) as f:
                what = f.read().strip()
            os.remove(ip)
            with open(trace, "a") as f:
                f.write(json.dumps({"k": "crash", "what": what, "pkg": pkg or "kernel"}) + "\n")
            ctx.log("harness process died inside a call of %s: %s" % (pkg or "kernel", what))
            return
        raise vlib.Broken("harness %s/%s failed:\n%s" % (pkg, test, out[-3000:]))


def write_cases(path, cases):
    with open(path, "w") as f:
        for c in cases:
            f.write(json.dumps(c, separators=(",", ":")) + "\n")


def is_reset(e):
    return e.get("k") in ("reset", "memset", "memcopy", "intel", "crash")


def replay_of(events):
    """the exact input of one recorded case, rebuilt from its events (no expectations involved)"""
    k = events[0]["k"]
    if k == "pwcase":
        e0 = events[0]
        return {"part": "PrefixWriter", "case": {"pw": {"prefix": e0["prefix"], "failAt": e0["failAt"], "period": e0["period"],
                "sticky": e0["sticky"], "chunks": [e["p"] for e in events if e["k"] == "w"]}}}
    if k == "pcase":
        return {"part": "Panic", "case": {"kp": {"calls": [{"kind": e["kind"], "mod": e["mod"], "msg": e["msg"], "hmode": e["hmode"]}
                                                           for e in events if e["k"] == "panic"]}}}
    if k in ("memset", "memcopy"):
        e = events[0]
        c = {"op": k, "n": total(e["pre"]), "base": e["pre"][0][0], "size": e["size"]}
        c.update({x: e[x] for x in ("off", "val", "src", "dst") if x in e})
        return {"part": "Mem", "case": c}
    if k == "greset":
        return {"part": "gate", "case": {"regs": [[e["v"], e["ist"], e["h"]] for e in events if e["k"] == "reg"]}}
    if k == "intel":
        return {"part": "cpu", "case": {"l0": events[0]["l0"], "alt": events[0]["alt"]}}
    if k == "crash":
        return {"part": "crash", "case": events[0]}
    return {"part": "?", "case": events}


def brief(ev):
    e = dict(ev)
    for key in ("pre", "post", "rows", "got", "out"):
        if key in e and len(json.dumps(e[key])) > 300:
            e[key] = json.dumps(e[key])[:300] + "..."
    return e


def judge(ctx, legs, parallel):
    """legs: [(name, trace path)] -> one combined trace, validated by KutilTrace"""
    allp = os.path.join(ctx.work, "xk_trace_all.ndjson")
    shown = {}
    with open(allp, "w") as w:
        for name, path in legs:
            if not os.path.exists(path):
                continue
            first = True
            cur = []
            with open(path) as f:
                for line in f:
                    if not line.strip():
                        continue
                    e = json.loads(line)
                    if first or not cur:
                        e["leg"] = name
                        first = False
                    cur.append(e)
                    w.write(json.dumps(e, separators=(",", ":")) + "\n")
                    if is_reset(e):
                        k0 = cur[0]["k"]
                        nontrivial = ((k0 == "pwcase" and any(x["k"] == "w" and x.get("got") for x in cur)) or k0 == "pcase" or
                                      (k0 in ("memset", "memcopy") and cur[0]["size"] > 0) or k0 == "greset" or k0 == "intel")
                        if nontrivial:
                            ctx.distinct([x for x in cur if x["k"] != "reset"])
                        if shown.get((name, k0), 0) < 1 and nontrivial and len(ctx.cov["samples"]) < 4 and name.startswith("T"):
                            ctx.sample({"leg": name, "events": [brief(x) for x in cur[:4]]})
                            shown[(name, k0)] = 1
                        cur = []
    acc, nev, mism = ctx.validate_traces("KutilTrace", "KutilTrace", allp, ("kutil",), name="V-" + "+".join(n for n, _ in legs)[:60],
                                         timeout=1500, is_reset=is_reset, parallel=parallel)
    for m in mism[:6]:
        evs = m["case_events"]
        bad = evs[m["line_in_case"] - 1]
        rep = replay_of(evs)
        mm = m["mismatch"]
        ctx.violation({"part": rep["part"], "leg": evs[0].get("leg"), "property": mm[1], "why": json.dumps(mm[2])[:1200], "event": brief(bad)},
                      {"part": rep["part"], "case": rep["case"], "mismatch": mm})
    return mism


def run(ctx):
    q = ctx.quick
    ctx.rule = ("PrefixWriter: a case = (prefix, sink budget/mode, sequence of chunks) - every behaviour of the design model (chunks over {a,\\n} up to "
                "2/3 bytes, 3 writes, 3 prefixes, sink failing at every byte position once / for good / periodically) and random chunkings with runs "
                "up to 1500 bytes; Panic: a case = sequence of calls (7 argument kinds x texts incl. '%' and newlines x returning/unwinding halt); "
                "Memset/Memcopy: a case = one call on a guarded arena (every offset/size of the model's 10/13 cells byte for byte at both guards and "
                "scaled to pages +-1 with offsets unaligned by 0/1/7; random sizes 0..80 KiB incl. 2^k+-1, page multiples +-1, overlapping copies); "
                "gate: a case = sequence of registrations from zeroed tables (vectors incl. all error-code vectors, 8 handlers, ist 0..255); "
                "cpu: a case = CPUID answers for leaf 0 and the other leaves.  A case is distinct by its full event list and non-trivial when it "
                "made the real code write something (bytes reached the sink, size > 0, a registration, a CPUID answer).")
    ctx.assumptions += [
        "extension check: the behaviour is specified as coded where the doc comments are silent; the named deviations (Dev_*) are listed in refinement_notes",
        "PrefixWriter: the sink is the environment modelled in PrefixWriter!SinkWrite (byte budget; the call crossing it is cut short and answered with an error; then dead / re-armed / healthy); sinks that return n < len(p) without an error are outside the io.Writer contract and not generated",
        "PrefixWriter: exact output and (len(p), nil) are demanded while the sink has accepted everything; in the first Write with a sink error: exact stream up to the first refusal, nothing invented or reordered afterwards, io.Writer's count/error rules; Writes after the first sink error are only held to io.Writer's contract (the documentation fixes no line state after an error; the code's choices live in the refinement model PWrite, checked in leg M only)",
        "Panic: observed through SetOutputSink and the cpuHaltFn seam; 'never returns' is checked as: halt called exactly once after the complete report, nothing printed afterwards, an unwinding halt is not recovered",
        "Memset/Memcopy: sizes < 2^63 on mapped memory; guard pages (PROT_NONE) on both sides of the arena, faults recovered with debug.SetPanicOnFault; a dead harness process is reported as a violation of the call named in its intent file",
        "gate: only the registration tables are observed (addresses decoded from the package's own machine code; harness fails if the code shape is unknown); the dispatch path is not executed under the host toolchain (register ABI, R14)",
        "trusted Go: segment encoders, the budget sink, the table decoder in harness/kutil (no expected results in them)",
    ]
    for n in DEVIATIONS:
        ctx.note(n)
    d = ctx.spec_dir("kutil")
    rnd = random.Random(ctx.seed)

    # ---- leg M: design models satisfy the monitors on every behaviour of the scope, design mutants are rejected; emits the cases
    files = run_models(ctx, d, q)
    paths = files

    # ---- leg G: replay the emitted cases on the real packages
    emitted = {p: unwrap(files[p]) for p in files}
    sel = {"pw": pick(emitted["pw"], 2500 if q else 0, ctx.seed), "kp": pick(emitted["kp"], 350 if q else 0, ctx.seed),
           "km": emitted["km"], "kg": pick(emitted["kg"], 300 if q else 0, ctx.seed), "kc": pick(emitted["kc"], 600 if q else 0, ctx.seed)}
    model_n = 10 if q else 13
    memcases = [v for c in sel["km"] for v in mem_variants(c, model_n, rnd, not q)]
    for p in paths:
        ctx.cov["legs"]["G-cases-" + p] = {"emitted": len(emitted[p]), "replayed": len(sel[p])}
        if not emitted[p]:
            raise vlib.Broken("the design model of part %s emitted no cases" % p)
    ctx.cov["legs"]["G-cases-km"]["real_calls"] = len(memcases)
    f_kf, f_km, f_kg, f_kc = (os.path.join(ctx.work, "xk_g_%s.ndjson" % x) for x in ("kf", "km", "kg", "kc"))
    write_cases(f_kf, [pw_case(c) for c in sel["pw"]] + [kp_case(c) for c in sel["kp"]])
    write_cases(f_km, memcases)
    write_cases(f_kg, sel["kg"])
    write_cases(f_kc, sel["kc"])
    t = {x: os.path.join(ctx.work, "xk_trace_%s.ndjson" % x) for x in ("g_kf", "g_km", "g_kg", "g_kc", "t_kf", "t_km", "t_kg", "t_kc")}
    go(ctx, "kfmt", KFMT, "TestVerifXkfCases", {"CASES": f_kf, "TRACE_OUT": t["g_kf"]})
    go(ctx, "", MEM, "TestVerifXkmCases", {"CASES": f_km, "TRACE_OUT": t["g_km"]}, "xkm_intent.json", t["g_km"])
    go(ctx, "gate", GATE, "TestVerifXkgCases", {"CASES": f_kg, "TRACE_OUT": t["g_kg"]}, "xkg_intent.json", t["g_kg"])
    go(ctx, "cpu", CPU, "TestVerifXkgCpuCases", {"CASES": f_kc, "TRACE_OUT": t["g_kc"]})
    # ---- leg T: seeded random cases at real scale
    go(ctx, "kfmt", KFMT, "TestVerifXkfRandom", {"NCASES": 150 if q else 3000, "TRACE_OUT": t["t_kf"]})
    go(ctx, "", MEM, "TestVerifXkmRandom", {"NCASES": 500 if q else 8000, "TRACE_OUT": t["t_km"]}, "xkm_intent.json", t["t_km"])
    go(ctx, "gate", GATE, "TestVerifXkgRandom", {"NCASES": 60 if q else 1500, "TRACE_OUT": t["t_kg"]}, "xkg_intent.json", t["t_kg"])
    go(ctx, "cpu", CPU, "TestVerifXkgCpuRandom", {"NCASES": 400 if q else 10000, "TRACE_OUT": t["t_kc"]})

    # ---- leg V: the TLA+ monitor judges every recorded event
    judge(ctx, [("G-kfmt", t["g_kf"]), ("G-mem", t["g_km"]), ("G-gate", t["g_kg"]), ("G-cpu", t["g_kc"]),
                ("T-kfmt", t["t_kf"]), ("T-mem", t["t_km"]), ("T-gate", t["t_kg"]), ("T-cpu", t["t_kc"])], 4 if q else 12)
    ctx.cov["exhaustive"] = (not q) and not ctx.violations and all(len(sel[p]) == len(emitted[p]) for p in paths)
    ctx.cov["explanation"] = ("exhaustive = every case the five design models enumerate in the thorough scope was replayed on the real code "
                              "and judged (Memset/Memcopy: in every placement/scale variant); the quick tier replays a seeded sample")


def replay(ctx, path):
    with open(path) as f:
        rep = json.load(f)["replay"]
    part, case = rep["part"], rep["case"]
    cf = os.path.join(ctx.work, "xk_replay_case.ndjson")
    tr = os.path.join(ctx.work, "xk_trace_replay.ndjson")
    write_cases(cf, [case])
    env = {"CASES": cf, "TRACE_OUT": tr}
    if part in ("PrefixWriter", "Panic"):
        go(ctx, "kfmt", KFMT, "TestVerifXkfCases", env)
    elif part == "Mem":
        go(ctx, "", MEM, "TestVerifXkmCases", env, "xkm_intent.json", tr)
    elif part == "gate":
        go(ctx, "gate", GATE, "TestVerifXkgCases", env, "xkg_intent.json", tr)
    elif part == "cpu":
        go(ctx, "cpu", CPU, "TestVerifXkgCpuCases", env)
    else:
        raise vlib.Broken("replay file names an unknown part: %s" % part)
    judge(ctx, [("replay", tr)], 1)
    ctx.cov["states"] = max(ctx.cov["states"], 1)
    ctx.cov["transitions"] = max(ctx.cov["transitions"], 1)
    return None
