"""C05: the kernel address space maps each loaded section exactly, with W^X permissions.
DESIGN.md 4.3; specs/vmm/KernelPDT*.tla; harness/vmm/c05_kpdt_test.go."""
import json, os
import vlib
from checks import vmm_b_common as vb

HARNESS = ["vmm/c05_kpdt_test.go"]
BUGS = ["RWAlways", "NXDropped", "NoOffsetSub", "LastPageFromSize", "RsvSkipLowest", "NoActivate", "UserBit",
        "NoRangeTest", "RootNotCleared", "RejectMovesCursor", "ZeroSizeVisited"]
ASSUME = [
    "domain = the property's quantifier: no two sections share a page; a section lies wholly at/above or wholly below the kernel "
    "offset; sections stay clear of the reserved pages, the temporary-mapping page and the recursive window (top-level slot 511); "
    "(address - offset) fits the 40-bit frame field",
    "input classes generated since the quantifier audit: empty section table, 0..14 and 30-64 sections, empty (size 0) sections "
    "interleaved, starts at unit offsets 0/1/2048/4095 of a page, sections of 500-1100 pages (more than one last-level table), "
    "ELF flag words with bits up to 2^63, non-loaded sections overlapping at address 0 below the offset, six kernel offsets, load "
    "addresses above 4 GiB, early regions of 500-560 pages, refused oversized requests anywhere in the boot history",
    "classes not covered: a section that straddles the kernel offset or wraps the address space; kernel offsets that are not page "
    "aligned; sections of >= 2^32 bytes (would need millions of table frames); early regions that were reserved but never mapped "
    "before vmm.Init (the statement speaks of regions reserved AND mapped; the real code returns ErrInvalidMapping for them and "
    "the repository's own test pins that)",
    "not constrained (DESIGN 4.3): pages of sections whose allocated flag is clear, permission bits of the carried-over reservations, "
    "the temporary-mapping page, the outcome when a frame allocation fails (a reported success must still be complete)",
    "hardware semantics assumed by the software MMU: 4-level walk, present bit, frame = bits 12-51, writable/user = AND over the "
    "levels, no-execute = OR; CR3 load modelled as the switchPDT seam",
    "trusted Go: the multiboot2 ELF-symbols encoder, the software MMU / page enumeration and the event logger in harness/vmm/c05_kpdt_test.go "
    "(no expected results in them); frame number = host address >> 12",
    "design model KernelPDT keeps address spaces flat (page -> translation); the multi-level mechanics of Map are C04's subject",
]


def case_to_replay(events):
    e0 = events[0]
    return {"off": vb.limbs(e0["off"]),
            "secs": [{"a": vb.limbs(x["a"]), "sz": vb.limbs(x["sz"]), "fl": vb.limbs(x["flr"]) if "flr" in x else x["fl"]} for x in e0["secs"]],
            "hist": [{"k": h["k"], "sz": vb.limbs(h["sz"]), "f": vb.limbs(h["f"]), "fl": h["fl"]} for h in e0["hist"]],
            "failat": e0.get("failat", 0)}


def record(ctx, name, path):
    nd = 0
    for ev in vb.cases_of(path):
        if len(ev) == 2 and ev[1].get("res") == "ok" and ev[1]["walk"]:
            ctx.distinct(ev[0])
        if nd < 2 and len(ev) == 2:
            ctx.sample({"leg": name, "cfg": ev[0], "done": {"res": ev[1]["res"], "pages_translated": len(ev[1]["walk"]),
                                                            "first": ev[1]["walk"][:3]}})
            nd += 1


def run(ctx):
    q = ctx.quick
    ctx.assumptions += ASSUME
    ctx.rule = ("case = (kernel offset, ELF section table, boot history of early virtual-region requests - successful ones mapped with their boot permissions, refused oversized ones up to 2^64-1 -[, failing allocation index]); "
                "leg G replays every configuration TLC enumerated in the small scope (one section: every start/size/flag/offset "
                "combination; every boot history of up to 3 (quick) / 4 (thorough) successful and refused requests; two sections in both orders; linker-like triples with all 8^3 flag combinations), "
                "leg T draws seeded random tables of 2-14 sections at real scale; a case is distinct by its configuration and "
                "non-trivial when initialisation succeeded and the new address space translates at least one page")
    d = ctx.spec_dir("vmm")
    cases = os.path.join(ctx.work, "c05_cases.ndjson")
    # ---- leg M: the design satisfies the monitor for every configuration of the scope; cases are emitted on the way
    r = ctx.model_check(d, "MCKernelPDT", "MCKernelPDTQuick" if q else "MCKernelPDTFull", env={"CASES": cases},
                        workers=6 if q else 16, timeout=240 if q else 1700)
    if not q:
        # vacuity guard: every action of the model must have been taken (measured on the reduced scope: -coverage slows TLC)
        r = ctx.tlc(d, "MCKernelPDT", "MCKernelPDTQuick", env={"CASES": os.path.join(ctx.work, "c05_cov_cases.ndjson")},
                    workers=4, timeout=600, coverage=True, name="coverage")
        if r.violated or not r.ok or r.coverage_zero:
            raise vlib.Broken("coverage run of KernelPDT: violated=%s never-taken actions=%s" % (r.violated, r.coverage_zero))
    for b in vb.pick_bugs(BUGS, 2 if q else len(BUGS), ctx.seed):
        ctx.expect_model_violation(d, "MCKernelPDT", "MCKernelPDTBug_" + b, workers=2, timeout=240)
    # ---- leg G: replay the emitted configurations on the real vmm.Init
    gcases = os.path.join(ctx.work, "c05_gcases.ndjson")
    total, used = vb.sample_lines(cases, gcases, 2000 if q else 0, ctx.seed)
    ctx.cov["legs"]["emitted-cases"] = {"emitted": total, "replayed": used}
    trg = os.path.join(ctx.work, "c05_trace_g.ndjson")
    rc, out, _ = ctx.gotest("kernel", "mm/vmm", HARNESS, "TestVerifC05Cases",
                            env={"CASES": gcases, "TRACE_OUT": trg, "VERIF_LEG": "G-cases"}, timeout=600)
    if rc != 0:
        raise vlib.Broken("C05 case harness failed:\n" + out[-3000:])
    # ---- leg T: random section tables at real scale
    trt = os.path.join(ctx.work, "c05_trace_t.ndjson")
    rc, out, _ = ctx.gotest("kernel", "mm/vmm", HARNESS, "TestVerifC05Random",
                            env={"TRACE_OUT": trt, "NTRACES": 80 if q else 2500, "VERIF_LEG": "T-random"}, timeout=600)
    if rc != 0:
        raise vlib.Broken("C05 random harness failed:\n" + out[-3000:])
    # ---- leg V: the TLA+ monitor judges every recorded event (both legs in one batch of TLC processes)
    tra = os.path.join(ctx.work, "c05_trace_all.ndjson")
    with open(tra, "w") as f:
        for p in (trg, trt):
            with open(p) as g:
                f.write(g.read())
    acc, nev, mism = ctx.validate_traces("KernelPDTTrace", "KernelPDTTrace", tra, ("vmm",), name="V-G+T",
                                         parallel=3 if q else 16, timeout=1200)
    record(ctx, "G-cases", trg)
    record(ctx, "T-random", trt)
    seen = {}
    for m in mism:
        leg = m["case_events"][0].get("leg", "?")
        seen[leg] = seen.get(leg, 0) + 1
        if seen[leg] <= 2:
            ctx.violation({"leg": leg, "mismatch": m["mismatch"], "cfg": m["case_events"][0]}, case_to_replay(m["case_events"]))
    ctx.cov["exhaustive"] = (not q) and not ctx.violations
    ctx.cov["explanation"] = ("exhaustive = every configuration of the TLC small scope was replayed on the real code (thorough tier); "
                              "the quick tier replays a seeded sample of them")


def replay(ctx, path):
    with open(path) as f:
        rep = json.load(f)["replay"]
    cf = os.path.join(ctx.work, "c05_replay.ndjson")
    with open(cf, "w") as f:
        f.write(json.dumps(rep) + "\n")
    tr = os.path.join(ctx.work, "c05_trace_replay.ndjson")
    rc, out, _ = ctx.gotest("kernel", "mm/vmm", HARNESS, "TestVerifC05Cases",
                            env={"CASES": cf, "TRACE_OUT": tr, "VERIF_RAW": 1}, timeout=300)
    if rc != 0:
        raise vlib.Broken("replay harness failed:\n" + out[-2000:])
    acc, nev, mism = ctx.validate_traces("KernelPDTTrace", "KernelPDTTrace", tr, ("vmm",), name="replay")
    for m in mism:
        ctx.violation({"leg": "replay", "mismatch": m["mismatch"]}, rep)
    ctx.cov["states"] = max(ctx.cov["states"], 1)
    ctx.cov["transitions"] = max(ctx.cov["transitions"], 1)
    return None
