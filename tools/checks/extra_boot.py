"""extra-boot: the boot path  multiboot info -> pmm.Init -> vmm.Init  as ONE specification (DESIGN.md 5 item 1).
specs/boot/{BootProps,Boot,MCBoot,BootTrace}.tla; harness/boot/xboot_test.go (mini boot, package pmm) +
harness/boot/xboot_vmm_shim.go (export shim overlaid into package vmm)."""
import json, os, random
import vlib

HARNESS = ["boot/xboot_test.go"]
SHIM = {"kernel/mm/vmm/zz_verif_xboot_shim.go": "boot/xboot_vmm_shim.go"}
SPECS = ("boot", "pmm", "vmm")
BUGS = ["NoSwitchAllocator", "VmmPrivateFrames", "EarlyTablesNotReserved", "RsvNotCopied", "RsvSkipLowest", "RsvReadOnly",
        "NoActivate", "ZeroReturnedToPmm", "CowCopyPrivate", "CowKeepsZeroFrame"]
ASSUME = [
    "domain = the quantifier of BootProps: memory maps sorted and non-overlapping inside the simulated RAM, the kernel image inside one "
    "available region, sections of the kernel's virtual range inside the image and not sharing pages; the boot address space rt0 leaves "
    "behind is a root with the recursive last entry in a frame no map declares available (rt0's identity/2 MiB mappings are not modelled)",
    "FreeFrame is only called on frames the driver obtained itself (DESIGN 4.1 note i: the bitmap cannot tell owners apart)",
    "hardware semantics assumed by the software MMU: 4-level walk, present bit, frame = bits 12-51, writable = AND over the levels; the TLB "
    "is a set of host aliases refreshed on flushTLBEntry / switchPDT; CR3, CR2 and the IDT are the seams activePDTFn/switchPDTFn/readCR2Fn/handleInterruptFn",
    "kernel-half addresses cannot exist in a user process: the temporary-mapping page is served by wrapping the REAL MapTemporary/Unmap (identity "
    "alias of the frame the MMU shows there); the early-reservation area is served by a host window (host = kernel address - tempMappingAddr + "
    "winTop) whose pages alias the frames the ACTIVE address space maps them to; pmm's reserveRegionFn/mapFn are the real vmm.EarlyReserveRegion/"
    "vmm.Map composed with that address translation only; nothing else between pmm and vmm is replaced, mm.SetFrameAllocator is never called by the harness",
    "trusted Go: multiboot2 encoder (memory map + ELF sections), software MMU / page-table enumeration, bitmap read-out and event logger in "
    "harness/boot/xboot_test.go (no expected results in them); physical address = host address (RAM is a memfd at 0x40000000)",
    "Dev_EarlyOom (BootProps.OomSlack = 3): pmm.Init may report out-of-memory with up to 3 usable frames left (boot-allocator quirks of DESIGN "
    "4.1 note ii and the frame of an allocator page whose mapping failed); with more frames left it must succeed",
    "design model Boot.tla keeps the allocator abstract (lowest free frame) and page tables as one table per index prefix; the allocator's "
    "algorithms are C01-C03's subject, the walk mechanics C04's",
]
STATEMENTS = [
    "XB1 every frame vmm owns (kernel root and page tables, zero frame, later page tables and copy-on-write copies) was handed out by pmm, lies "
    "in available RAM outside the kernel image, has exactly one owner, and pmm's bitmap marks exactly the frames that have an owner",
    "XB2 the pages pmm maps for its own tables through EarlyReserveRegion are exactly the reserved pages below the temporary-mapping page; "
    "vmm.Init carries exactly these over and afterwards they still translate, writable, to the same frames",
    "XB3 after vmm.Init the kernel address space is active, maps the loaded sections per C05 onto frames of the kernel image, and the allocator keeps "
    "working through it (C01/C03 accounting for every later allocation / release); pmm.Init / vmm.Init / Map fail only for lack of RAM",
    "XB4 the zero frame reserved by vmm.Init came from pmm, stays zero-filled and protected and is never handed out again",
    "XB5 a write fault on a lazily allocated page (zero frame, copy-on-write) gives the page a private writable zero-filled frame that pmm handed "
    "out during the fault; any other fault never resumes",
]


def cases_of(path):
    cur = []
    with open(path) as f:
        for line in f:
            e = json.loads(line)
            cur.append(e)
            if e.get("k") == "reset":
                yield cur
                cur = []


def record(ctx, name, path):
    nd = 0
    for ev in cases_of(path):
        boot_ok = any(e["k"] == "vmm" and e.get("res") == "ok" for e in ev)
        if boot_ok:
            ctx.distinct(ev[-1].get("case"))
        if nd < 2 and boot_ok:
            ctx.sample({"leg": name, "case": json.loads(ev[-1]["case"]), "events": [
                {k: v for k, v in e.items() if k not in ("walk", "resv", "regs", "secs", "case")} for e in ev[1:6]]})
            nd += 1


def sample_lines(srcs, dst, n, seed):
    lines = []
    for s in srcs:
        with open(s) as f:
            lines += [l for l in f if l.strip()]
    total = len(lines)
    if n and total > n:
        lines = random.Random(seed).sample(lines, n)
    with open(dst, "w") as f:
        f.writelines(lines)
    return total, len(lines)


def harness(ctx, test, env, timeout=600):
    rc, out, _ = ctx.gotest("kernel", "mm/pmm", HARNESS, test, env=env, extra_files=SHIM, timeout=timeout)
    if rc != 0:
        raise vlib.Broken("extra-boot harness %s failed:\n%s" % (test, out[-3000:]))
    return out


def report(ctx, mism):
    seen = {}
    for m in mism:
        last = m["case_events"][-1]
        leg = last.get("leg", "?")
        seen[leg] = seen.get(leg, 0) + 1
        if seen[leg] <= 2:
            ev = m["case_events"][m["line_in_case"] - 1]
            ctx.violation({"leg": leg, "mismatch": m["mismatch"],
                           "event": {k: v for k, v in ev.items() if k not in ("walk", "resv")}},
                          {"case": json.loads(last["case"]) if last.get("case") else None})


def run(ctx):
    q = ctx.quick
    ctx.assumptions += ASSUME
    ctx.cov["statements"] = STATEMENTS
    ctx.rule = ("case = (multiboot memory map, kernel placement, ELF section table, operations after the boot); leg G replays the machines TLC "
                "enumerated in the small scope (6 map shapes x every kernel placement of 1-2 frames x 3 section tables; operation histories on "
                "fixed machines incl. one that runs out of memory) on the real pmm.Init + vmm.Init, leg T draws seeded random machines at real "
                "scale (1-5 regions or 70-110 tiny pools so that the allocator's tables span two pages, unaligned bounds, reserved types, kernel "
                "of 1-12 frames, 1-9 sections) followed by 6-45 operations; a case is distinct by its input and non-trivial when both Init "
                "functions succeeded")
    d = ctx.spec_dir(*SPECS)
    tier = "Quick" if q else "Full"
    # ---- leg M: the composed design satisfies the monitor on every machine / history of the scope (one run; the
    # machines carry their own operation bound); cases are emitted on the way
    cf = os.path.join(ctx.work, "xb_cases.ndjson")
    ctx.model_check(d, "MCBoot", "MCBoot" + tier, env={"CASES": cf}, workers=4 if q else 16, timeout=300 if q else 1500)
    emitted = [cf]
    k = 2 if q else len(BUGS)
    order = BUGS[(ctx.seed * 2) % len(BUGS):] + BUGS[:(ctx.seed * 2) % len(BUGS)]
    for b in order[:k]:
        ctx.expect_model_violation(d, "MCBoot", "MCBootBug_" + b, workers=2, timeout=300)
    # ---- leg G: replay the emitted machines / histories on the real boot path
    gcases = os.path.join(ctx.work, "xb_gcases.ndjson")
    total, used = sample_lines(emitted, gcases, 450 if q else 0, ctx.seed)
    ctx.cov["legs"]["emitted-cases"] = {"emitted": total, "replayed": used}
    trg = os.path.join(ctx.work, "xb_trace_g.ndjson")
    harness(ctx, "TestVerifXbCases", {"CASES": gcases, "TRACE_OUT": trg, "VERIF_LEG": "G-cases"}, timeout=900)
    # ---- leg T: random machines at real scale
    trt = os.path.join(ctx.work, "xb_trace_t.ndjson")
    harness(ctx, "TestVerifXbRandom", {"TRACE_OUT": trt, "NTRACES": 60 if q else 1500, "VERIF_LEG": "T-random"}, timeout=900)
    # ---- leg V: the TLA+ monitor judges every recorded event
    tra = os.path.join(ctx.work, "xb_trace_all.ndjson")
    with open(tra, "w") as f:
        for p in (trg, trt):
            with open(p) as g:
                f.write(g.read())
    acc, nev, mism = ctx.validate_traces("BootTrace", "BootTrace", tra, SPECS, name="V-G+T", parallel=3 if q else 16, timeout=1500)
    record(ctx, "G-cases", trg)
    record(ctx, "T-random", trt)
    report(ctx, mism)
    # vacuity guard (TLC's -coverage runs out of memory on the nested instances): every kind of event / outcome the
    # monitor distinguishes must have been produced by the model's cases on the real code
    seen = set()
    for ev in cases_of(trg):
        for e in ev:
            seen.add((e["k"], (e.get("res") or "")[:6], e.get("what", "")))
    need = {("pmm", "ok", ""), ("pmm", "oom", ""), ("vmm", "ok", ""), ("vmm", "oom", ""), ("alloc", "ok", ""), ("alloc", "oom", ""),
            ("free", "ok", ""), ("free", "double", ""), ("drain", "oom", ""), ("freeall", "ok", ""), ("map", "ok", "lazy"),
            ("map", "ok", "own"), ("map", "oom", "lazy"), ("fault", "resume", ""), ("fault", "panic", ""), ("unmap", "ok", ""), ("snap", "", "")}
    ctx.cov["legs"]["event-kinds"] = {"seen": len(seen), "missing": sorted(need - seen)}
    if not q and not ctx.violations and need - seen:
        raise vlib.Broken("vacuity guard: the replayed model cases never produced %s" % sorted(need - seen))
    ctx.note("Dev_EarlyOom: pmm.Init is allowed to fail with up to 3 usable frames left (BootProps.OomSlack)")
    ctx.cov["exhaustive"] = (not q) and not ctx.violations
    ctx.cov["explanation"] = ("exhaustive = every machine and every operation history of the TLC small scope was replayed on the real code "
                              "(thorough tier); the quick tier replays a seeded sample of them")


def replay(ctx, path):
    with open(path) as f:
        rep = json.load(f)["replay"]
    cf = os.path.join(ctx.work, "xb_replay.ndjson")
    with open(cf, "w") as f:
        f.write(json.dumps(rep["case"]) + "\n")
    tr = os.path.join(ctx.work, "xb_trace_replay.ndjson")
    harness(ctx, "TestVerifXbCases", {"CASES": cf, "TRACE_OUT": tr, "VERIF_RAW": 1, "VERIF_LEG": "replay"}, timeout=300)
    acc, nev, mism = ctx.validate_traces("BootTrace", "BootTrace", tr, SPECS, name="replay", parallel=1)
    report(ctx, mism)
    ctx.cov["states"] = max(ctx.cov["states"], 1)
    ctx.cov["transitions"] = max(ctx.cov["transitions"], 1)
    return None
