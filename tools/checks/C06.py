"""C06: copy-on-write faults get a private copy; the shared zero frame is never writable.
DESIGN.md 4.4; specs/vmm/CoW*.tla; harness/vmm/c06_cow_test.go."""
import json, os
import vlib
from checks import vmm_b_common as vb

HARNESS = ["vmm/c06_cow_test.go"]
BUGS = ["NoRWTest", "NoMapGuard", "CopyReversed", "KeepCoW", "NoTmpGuard", "ResumeAfterAllocFail", "RetargetBeforeCopy",
        "GuardExactFlags", "ResumeAfterTmpFail", "NoFlush", "FlushBeforeRetarget", "GpfReturns", "StaleUpperEntry"]
ASSUME = [
    "hardware semantics assumed by the software MMU: 4-level walk, present bit, frame = bits 12-51; INVLPG = the address was passed "
    "to the flush seam, and the translation of the page at that moment is what the TLB reloads; the aliases that let the handler read "
    "the faulting page are refreshed whenever the code reaches a seam (allocator, MapTemporary, Unmap, flush), i.e. a reordering "
    "of entry update and copy with no seam call in between is not observable",
    "the huge-page bit is never set on upper-level entries (the vmm package rejects huge pages everywhere); all other flag "
    "combinations of the last-level entry, every presence pattern of the upper levels and every RW/user/bit-9/no-execute "
    "combination on each upper level (present, or present above an absent next level) are generated; the hardware walk decides: "
    "only the present bits of upper levels matter, and a resumed fault must leave every upper-level entry (flags and table) as it was",
    "flags compared after a copy-on-write fault: present, writable, user, copy-on-write, no-execute (cache/accessed/dirty/global "
    "bits are generated as inputs but not constrained)",
    "zero-frame protection is checked as: no call of Map, PageDirectoryTable.Map (active and inactive space), MapTemporary, MapRegion, "
    "IdentityMapRegion made after vmm.Init creates a present last-level entry with RW set that points to ReservedZeroedFrame, "
    "in any address space (full scan of all page tables after every call)",
    "trusted Go: software MMU, memfd aliasing, state projection, content-id table (SHA-1 of the 4 KiB) and event logger in "
    "harness/vmm/c06_cow_test.go (no expected results in them); frame number = host address >> 12",
    "input classes generated since the quantifier audit: fault offsets 0/1/2048/4095 in leg G (were 0), the entry bits without "
    "meaning here (write-through, cache-disable, accessed, dirty, PAT, global, available 10/11/52/58, protection key 62) on the "
    "faulting entry, on upper levels and in Map requests, Map requests without the present bit, error codes up to 2^40, faults "
    "handled while a second address space is active, temporary-mapping tables missing so that MapTemporary itself allocates "
    "(allocation failure at steps 2-4), fault addresses below never-created tables",
    "classes not covered: huge-page bit on upper levels (see above); fault addresses are representatives (6 universe pages at four "
    "offsets + 17 other addresses incl. non-canonical, kernel half, temporary page, recursive window), not all 2^64; reserved "
    "physical-address bits 12-51 are never used as flags",
    "after a panic the case ends (the kernel is dead); nothing is required of the state a panicking handler leaves behind",
]


def script_of(events):
    """The concrete calls of a case: echoed by the harness in its closing reset event."""
    return json.loads(events[-1]["script"]) if events and events[-1].get("k") == "reset" else []


def record(ctx, path):
    nd = {}
    for ev in vb.cases_of(path, with_reset=True):
        if len(ev) < 2:
            continue
        leg = ev[-1].get("leg", "?")
        interesting = [e for e in ev if e["k"] in ("fault", "gpf") or (e["k"] == "map" and e["res"] != "ok")]
        if interesting:
            ctx.distinct(ev[-1].get("script"))
        if nd.get(leg, 0) < 2 and any(e["k"] == "fault" and e["res"] == "resume" for e in ev):
            nd[leg] = nd.get(leg, 0) + 1
            ctx.sample({"leg": leg, "script": script_of(ev),
                        "events": [{k: v for k, v in e.items() if k not in ("st", "script")} for e in ev[5:9] if e["k"] != "reset"]})


def run(ctx):
    q = ctx.quick
    ctx.assumptions += ASSUME
    ctx.rule = ("case = script of calls on a freshly initialised vmm (vmm.Init, pages 1-3 lazily allocated from the zero frame, page 4 "
                "private): page faults (page, offset, error code, failing allocation index, failing temporary mapping), attempts to map "
                "the zero frame through every entry point, fork-like sharing, flag/presence changes, stores, GPF; leg G replays every "
                "transition of the TLC small scope (all 32 last-level flag subsets x upper-level presence x error codes x failures; all 16 "
                "flag combinations on each upper level x last-level subsets, and above an absent level; all "
                "call sequences up to the bound), leg T seeded random histories of 8-48 calls over 6 pages; a case is distinct by its "
                "script and non-trivial when it contains a fault, a GPF or a refused mapping")
    d = ctx.spec_dir("vmm")
    tier = "Quick" if q else "Full"
    c1 = os.path.join(ctx.work, "c06_cases_flags.ndjson")
    c2 = os.path.join(ctx.work, "c06_cases_seq.ndjson")
    c3 = os.path.join(ctx.work, "c06_cases_upper.ndjson")
    # ---- leg M
    for cfg, cf, w in (("MCCoWFlags" + tier, c1, 2 if q else 8), ("MCCoWUpper" + tier, c3, 3 if q else 8),
                       ("MCCoWSeq" + tier, c2, 4 if q else 16)):
        r = ctx.model_check(d, "MCCoW", cfg, env={"CASES": cf}, workers=w, timeout=1500, coverage=not q)
        if r.coverage_zero:
            raise vlib.Broken("an action of CoW was never taken (vacuous scope): %s" % r.coverage_zero)
    for b in vb.pick_bugs(BUGS, 3 if q else len(BUGS), ctx.seed):
        ctx.expect_model_violation(d, "MCCoW", "MCCoWBug_" + b, workers=2, timeout=240)
    # ---- leg G
    allc = os.path.join(ctx.work, "c06_cases.ndjson")
    with open(allc, "w") as f:
        for p in (c1, c3, c2):
            with open(p) as g:
                f.write(g.read())
    gcases = os.path.join(ctx.work, "c06_gcases.ndjson")
    total, used = vb.sample_lines(allc, gcases, 0, ctx.seed)
    ctx.cov["legs"]["emitted-cases"] = {"emitted": total, "replayed": used}
    trg = os.path.join(ctx.work, "c06_trace_g.ndjson")
    rc, out, _ = ctx.gotest("kernel", "mm/vmm", HARNESS, "TestVerifC06Cases",
                            env={"CASES": gcases, "TRACE_OUT": trg, "VERIF_LEG": "G-cases"}, timeout=900)
    if rc != 0:
        raise vlib.Broken("C06 case harness failed:\n" + out[-3000:])
    # ---- leg T
    trt = os.path.join(ctx.work, "c06_trace_t.ndjson")
    rc, out, _ = ctx.gotest("kernel", "mm/vmm", HARNESS, "TestVerifC06Random",
                            env={"TRACE_OUT": trt, "NTRACES": 400 if q else 6000, "VERIF_LEG": "T-random"}, timeout=900)
    if rc != 0:
        raise vlib.Broken("C06 random harness failed:\n" + out[-3000:])
    # ---- leg V
    tra = os.path.join(ctx.work, "c06_trace_all.ndjson")
    with open(tra, "w") as f:
        for p in (trg, trt):
            with open(p) as g:
                f.write(g.read())
    mism = []
    if q:
        acc, nev, mism = ctx.validate_traces("CoWTrace", "CoWTrace", tra, ("vmm",), name="V-G+T", parallel=4, timeout=1500)
    else:
        # thorough: several hundred thousand events; validate in slices so that no TLC process has to hold too many of them
        lines = open(tra).readlines()
        ends = [i + 1 for i, l in enumerate(lines) if l.startswith('{"k":"reset"')]
        nslice = max(1, len(lines) // 300000 + 1)
        cut, prev = [], 0
        for k in range(1, nslice + 1):
            tgt = len(lines) * k // nslice
            e = next((x for x in ends if x >= tgt), len(lines))
            if e > prev:
                cut.append((prev, e))
                prev = e
        for n, (a, b) in enumerate(cut):
            sp = os.path.join(ctx.work, "c06_slice%d.ndjson" % n)
            with open(sp, "w") as f:
                f.writelines(lines[a:b])
            acc, nev, mm_ = ctx.validate_traces("CoWTrace", "CoWTrace", sp, ("vmm",), name="V-G+T/%d" % n, parallel=12, timeout=1500)
            mism += mm_
            os.remove(sp)
        del lines
    record(ctx, tra)
    seen = {}
    for m in mism:
        leg = m["case_events"][-1].get("leg", "?")
        seen[leg] = seen.get(leg, 0) + 1
        if seen[leg] <= 2:
            ev = m["case_events"][m["line_in_case"] - 1]
            ctx.violation({"leg": leg, "mismatch": m["mismatch"], "event": {k: v for k, v in ev.items() if k != "script"}},
                          {"script": script_of(m["case_events"])})
    ctx.cov["exhaustive"] = used == total and not ctx.violations
    ctx.cov["explanation"] = ("exhaustive = every transition of the TLC small scope (both families) was replayed on the real code "
                              "(quick: 5 error codes, sequences up to 3 calls; thorough: error codes 0..31, sequences up to 5 calls)")


def replay(ctx, path):
    with open(path) as f:
        rep = json.load(f)["replay"]
    cf = os.path.join(ctx.work, "c06_replay.ndjson")
    with open(cf, "w") as f:
        f.write(json.dumps(rep) + "\n")
    tr = os.path.join(ctx.work, "c06_trace_replay.ndjson")
    rc, out, _ = ctx.gotest("kernel", "mm/vmm", HARNESS, "TestVerifC06Cases", env={"CASES": cf, "TRACE_OUT": tr, "VERIF_LEG": "replay"}, timeout=300)
    if rc != 0:
        raise vlib.Broken("replay harness failed:\n" + out[-2000:])
    acc, nev, mism = ctx.validate_traces("CoWTrace", "CoWTrace", tr, ("vmm",), name="replay")
    for m in mism:
        ctx.violation({"leg": "replay", "mismatch": m["mismatch"]}, rep)
    ctx.cov["states"] = max(ctx.cov["states"], 1)
    ctx.cov["transitions"] = max(ctx.cov["transitions"], 1)
    return None
