from checks import tty_common


def run(ctx):
    tty_common.run_tty(ctx, "C18")


def replay(ctx, path):
    return tty_common.replay_tty(ctx, "C18", path)
