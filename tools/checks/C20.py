"""C20: kernel build finds every runtime redirect, exactly once, reproducibly.
See DESIGN.md 4.18, specs/kbuild/{Redirects,RedirectsModel,RedirectsTrace}.tla, harness/kbuild/c20_redirects_test.go."""
import json, os
import vlib

HARNESS = ["kbuild/c20_redirects_test.go"]
SPEC = ("kbuild",)
ASSUME = [
    "a test file is a file whose name ends in _test.go; a Go source file is any other file ending in .go (the Go convention the statement refers to)",
    "a function's doc comment is the comment block that touches the declaration (no empty line in between): an annotation above an empty line is an ordinary comment",
    "an annotation on a *method* declaration is judged under both readings the statement admits, tree-wide: ignored (a method declaration is not a function declaration in Go's grammar) or one entry whose destination is importpath.(*T).Name / importpath.T.Name; importpath.Name is accepted under neither",
    "an annotation is '//go:redirect-from' followed by blanks and one symbol without blanks; '//go:redirect-fromX', an annotation without a symbol or with several words are not generated (the statement does not say what their source symbol would be)",
    "every generated file is syntactically valid Go (the tool ends the process on a parse error, which the property does not speak about); not generated: symbolic links, unreadable files, directories the go tool itself skips (testdata, _x, .x), files whose build constraints exclude them from the kernel build are treated like any other file",
    "'the same tree twice' = the same directory built again in the same process and in fresh child processes; a copy of the tree at another path or on another file system is not built",
    "the statement demands the same order for every build of a tree, not a particular order: the monitor compares builds with each other; detection of an order that depends on per-process randomness is probabilistic per tree but the generated families contain hundreds of files with several annotated functions",
    "sizes: lines up to 1 MiB, files up to ~3 MiB, 1100 files in a directory, 1200 declarations in a file, directories 12 deep; larger inputs are not generated",
    "trusted Go: the encoder abstract tree -> source text and the line scanner real source -> abstract tree in harness/kbuild (no expected results in them; they are checked to be inverse to each other on generated trees in every run)",
]
BUGS_QUICK = ["MapOrder", "MethodAsFunc"]
BUGS_FULL = ["MapOrder", "MethodAsFunc", "NoTestFilter", "FirstLineOnly", "VarAccepted", "DupPerAnnotation", "PkgFromClause", "FloatingDoc"]


def decode_cases(src):
    out = []
    with open(src) as f:
        for line in f:
            line = line.strip()
            if not line:
                continue
            v = json.loads(line)
            if isinstance(v, str):
                v = json.loads(v)
            out.append(v)
    return out


def n_annotated(case):
    """number of files that hold at least two declarations with an annotation line in their doc (input shape only)"""
    n = 0
    for f in case["files"]:
        k = sum(1 for d in f["decls"] if any(l[0] == "R" for l in d["doc"]))
        n += k >= 2
    return n


def split_events(path):
    cases, cur = [], []
    with open(path) as f:
        for line in f:
            if not line.strip():
                continue
            e = json.loads(line)
            if e.get("k") == "reset":
                cases.append(cur)
                cur = []
            else:
                cur.append(e)
    if cur:
        cases.append(cur)
    return cases


def case_to_replay(events):
    if any(e.get("real") for e in events):
        return {"real": True}
    return {"files": [e["f"] for e in events if e["k"] == "file"]}


def run_harness(ctx, cases_path, ntrees, real, runs, children, timeout):
    tg = os.path.join(ctx.work, "trace_g.ndjson")
    tt = os.path.join(ctx.work, "trace_t.ndjson")
    env = {"TRACE_G": tg, "TRACE_T": tt, "NTREES": ntrees, "C20_REAL": 1 if real else 0,
           "C20_RUNS": runs, "C20_CHILDREN": children}
    if cases_path:
        env["CASES"] = cases_path
    # SelfCheck: encoder and line scanner (the trusted Go) must be inverse to each other on the generated trees
    rc, out, wall = ctx.gotest("kbuild", "", HARNESS, "^TestVerifC20(Run|SelfCheck)$", env=env, timeout=timeout)
    if rc != 0:
        raise vlib.Broken("kbuild harness failed (encoder/scanner self-check, or the build tool ended the process on one of its own "
                          "errors):\n" + out[-3000:])
    ctx.log("harness: %.1fs" % wall)
    return tg, tt


def judge(ctx, name, paths, report=True, parallel=None):
    """leg V over the concatenation of the recorded trace files; returns per-leg counts of non-trivial cases"""
    path = paths[0]
    if len(paths) > 1:
        path = os.path.join(ctx.work, "trace_all.ndjson")
        with open(path, "w") as o:
            for p in paths:
                with open(p) as f:
                    o.write(f.read())
    acc, nev, mism = ctx.validate_traces("RedirectsTrace", "RedirectsTrace", path, SPEC, name=name, timeout=1200, parallel=parallel)
    nontrivial, ncases, shown = {}, {}, {}
    for ev in split_events(path):
        builds = [e for e in ev if e["k"] == "build"]
        leg = builds[0].get("leg", "?") if builds else "?"
        ncases[leg] = ncases.get(leg, 0) + 1
        if any(b["out"] for b in builds):
            nontrivial[leg] = nontrivial.get(leg, 0) + 1
            real = any(e.get("real") for e in ev)
            ctx.distinct("real kernel tree" if real else [e["f"] for e in ev if e["k"] == "file"])
            if shown.get(leg, 0) < 2 and sum(1 for e in ev if e["k"] == "file") <= 120 and \
                    all(len(e["f"]["decls"]) <= 12 for e in ev if e["k"] == "file"):
                shown[leg] = shown.get(leg, 0) + 1
                files = [e["f"] for e in ev if e["k"] == "file"]
                ctx.sample({"leg": leg, "real_kernel_tree": real, "n_files": len(files),
                            "files": [f for f in files if any(l[0] == "R" for d in f["decls"] for l in d["doc"])][:2],
                            "builds": [{"proc": b["proc"], "out": b["out"]} for b in builds[:3]]})
    ctx.cov["legs"][name]["cases_by_leg"] = ncases
    ctx.cov["legs"][name]["nontrivial_by_leg"] = nontrivial
    if report:
        seen = set()
        for m in mism:
            why = m["mismatch"][2][0] if len(m["mismatch"]) > 2 and m["mismatch"][2] else "?"
            ev = m["case_events"][m["line_in_case"] - 1]
            key = (why, ev.get("leg"), bool(ev.get("real")))
            if key in seen or len(ctx.violations) >= 4:
                continue
            seen.add(key)
            ctx.violation({"leg": ev.get("leg"), "real_kernel_tree": bool(ev.get("real")), "mismatch": m["mismatch"], "event": ev},
                          case_to_replay(m["case_events"]))
    return acc, nev, mism


def run(ctx):
    q = ctx.quick
    ctx.assumptions += ASSUME
    ctx.rule = ("case = one source tree (files -> declarations -> comment lines) built several times; leg G builds every tree TLC "
                "enumerated in the small scope (every declaration kind x doc comment x look-alike placement; every sequence of "
                "annotated/unannotated func/var/method declarations in a file; files at depth 0..3 as source/test/other), leg T builds "
                "seeded random trees of up to 60 files (a quarter of them with source lines of 65535..1 MiB bytes as string literal, // or /* */ "
                "comment before/between/after annotated functions), a directory of 1100 files, a file of 1200 declarations, directories 12 deep, "
                "and the repository's kernel tree described by a line scanner; a case is distinct "
                "by its abstract tree and non-trivial when the real tool returned a non-empty table")
    d = ctx.spec_dir(*SPEC)
    tier = "Quick" if q else "Full"
    cases = os.path.join(ctx.work, "cases.ndjson")

    # ---- leg M: the design satisfies the monitor for every tree of the scope; the same run emits the trees
    ctx.model_check(d, "MCRedirects", "MCRedirects" + tier, workers=1, env={"CASES": cases}, timeout=1500)
    for b in (BUGS_QUICK if q else BUGS_FULL):
        ctx.expect_model_violation(d, "MCRedirects", "MCRedirectsBug_" + b, workers=1, timeout=600)

    # ---- leg G input: every emitted tree, in both tiers
    allc = decode_cases(cases)
    total = len(allc)
    ctx.cov["legs"]["MCRedirects" + tier]["trees_with_two_annotated_declarations_in_a_file"] = sum(1 for c in allc if n_annotated(c))
    runs, children = (2, 1) if q else (20, 2)
    if not q:
        # 20 in-process builds where an order can show (two or more annotations in the tree), 3 elsewhere
        for c in allc:
            c["runs"] = runs if sum(1 for f in c["files"] for d in f["decls"] for l in d["doc"] if l[0] == "R") >= 2 else 3
    gcases = os.path.join(ctx.work, "gcases.ndjson")
    with open(gcases, "w") as f:
        for c in allc:
            f.write(json.dumps(c) + "\n")
    ctx.cov["legs"]["MCRedirects" + tier]["trees_emitted"] = total
    ctx.cov["legs"]["MCRedirects" + tier]["trees_replayed"] = len(allc)

    # ---- legs G and T on the real package (one go test run)
    tg, tt = run_harness(ctx, gcases, 40 if q else 600, True, runs, children, 1500)

    # ---- leg V: the TLA+ monitor judges every recorded event (G and T traces in one wave of TLC processes)
    _, _, mism = judge(ctx, "V-G+T", [tg, tt], parallel=6 if q else None)
    if mism and not any(m["case_events"][m["line_in_case"] - 1].get("leg") == "G" for m in mism):
        # TLC stops at the first mismatch of a chunk (the big random trees come first): look for a small reproducer as well
        judge(ctx, "V-G-small-reproducer", [tg], parallel=4)
    ctx.cov["builds_per_tree"] = {"same_process": runs, "child_processes": children}
    ctx.cov["exhaustive"] = not ctx.violations
    ctx.cov["explanation"] = ("exhaustive = every tree of the TLC small scope (thorough: DocLen 3, MaxDecls 3, MaxFiles 3) was written out and "
                              "built on the real tool (thorough tier); the quick tier does the same for the smaller scope (2, 2, 2)")


def replay(ctx, path):
    with open(path) as f:
        rep = json.load(f)["replay"]
    cf = os.path.join(ctx.work, "replay_case.ndjson")
    with open(cf, "w") as f:
        f.write(json.dumps({"files": [], "real": True} if rep.get("real") else {"files": rep["files"]}) + "\n")
    tg, _ = run_harness(ctx, cf, 0, False, 40, 3, 600)
    acc, nev, mism = judge(ctx, "replay", [tg], report=False, parallel=1)
    for m in mism:
        ctx.violation({"leg": "replay", "mismatch": m["mismatch"]}, rep)
    ctx.cov["states"] = max(ctx.cov["states"], 1)
    ctx.cov["transitions"] = max(ctx.cov["transitions"], 1)
    return None
