"""C07: kernel virtual-region reservations never overlap and never wrap (DESIGN 4.5).
M  AddrSpace.tla: 6-bit words with EVERY size (all wrap cases) + 64-bit words with boundary-structured sizes;
   design mutants (among them the pinned tree's wrapping round-up) must be rejected.
G  the 64-bit behaviours TLC enumerated are replayed verbatim on the real EarlyReserveRegion / MapRegion /
   IdentityMapRegion;  T  seeded random histories;  V  AddrSpaceTrace.tla judges every event."""
import json, os, subprocess, shutil, time
import vlib
from checks import vmm_a_common as vc

HARNESS = ["vmm/c07_addrspace_test.go"]


def to_replay(events):
    script = []
    for e in events:
        if e["k"] in ("reserve", "mapregion", "identity"):
            script.append({"op": e["k"], "size": vc.limbs(e["size"]), "f": vc.limbs(e.get("f", [0])), "budget": e.get("budget", 0)})
    return {"kind": "c07", "script": script}


def write_case(path, rep):
    with open(path, "w") as f:
        f.write(json.dumps({"script": [{"op": o["op"], "size": vlib.w64(o["size"]), "f": vlib.w64(o["f"]), "budget": o.get("budget", 0)}
                                       for o in rep["script"]]}) + "\n")


def brief(e):
    b = {k: v for k, v in e.items() if k != "pairs"}
    if e.get("pairs"):
        b["first_pair"] = [hex(vc.limbs(x)) for x in e["pairs"][0]]
    if "pairs" in e:
        b["npairs"] = len(e["pairs"])
    for k in ("size", "addr", "cur", "top", "f", "page"):
        if k in b:
            b[k] = hex(vc.limbs(b[k]))
    return b


def nontrivial(case):
    return any(e.get("res") == "ok" and e["k"] in ("reserve", "mapregion") for e in case)


def apalache(ctx, d):
    """Optional third M leg (thorough): inductive step over unbounded integers (DESIGN 3.6).  Never decides a verdict."""
    exe = shutil.which("apalache-mc")
    leg = {"tool": "apalache", "status": "skipped"}
    ctx.cov["legs"]["apalache-inductive"] = leg
    if not exe or not os.path.exists(os.path.join(d, "AddrSpaceInd.tla")):
        return
    out_dir = os.path.join(ctx.work, "apalache")
    t = time.time()
    results = {}
    for name, init, nxt, length, expect_ok in (("base", "Init", "Next", 0, True), ("step", "IndInit", "Next", 1, True),
                                               ("step-wrapping-design", "IndInitBug", "NextBug", 1, False)):
        cmd = [exe, "check", "--out-dir=" + out_dir, "--init=" + init.replace("Bug", ""), "--next=" + nxt, "--inv=IndInv",
               "--length=%d" % length, "AddrSpaceInd.tla"]
        try:
            p = subprocess.run(cmd, cwd=d, stdout=subprocess.PIPE, stderr=subprocess.STDOUT, text=True, timeout=240,
                               env=dict(os.environ, JVM_ARGS="-Xmx3g"))
        except subprocess.TimeoutExpired:
            leg["status"] = "stalled (timeout) at " + name
            ctx.note("Apalache inductive check stalled; the TLC result stands alone")
            return
        ok = "The outcome is: NoError" in p.stdout
        cex = "The outcome is: Error" in p.stdout
        results[name] = "NoError" if ok else ("Counterexample" if cex else "inconclusive")
        if (expect_ok and not ok) or (not expect_ok and not cex):
            leg["status"] = "inconclusive at %s: %s" % (name, results[name])
            leg["results"] = results
            ctx.note("Apalache inductive check inconclusive (%s); the TLC result stands alone" % name)
            return
    leg.update({"status": "proved", "results": results, "wall_s": round(time.time() - t, 1),
                "claim": "over unbounded integers with M = 2^64, P = 4096: Reserve preserves cursor' <= cursor, alignment and "
                         "(ok => cursor - cursor' >= size); the wrapping round-up is refuted"})
    ctx.log("Apalache inductive step: proved in %.1fs" % (time.time() - t))


def run(ctx):
    q = ctx.quick
    ctx.assumptions += [
        "the reservation cursor starts at the temporary-mapping page (its initial value in addr_space.go); the harness resets it to that value at the start of every case",
        "the recording map seam has a failure budget K chosen by the case (it fails on call K+1): satisfiable huge region sizes (2^32 pages and more, up to the remaining address space) are generated with small K, and the mapper must then have issued K+1 distinct members of the expected pair set (in any order) and return the seam's error; after a seam failure the statement does not say whether the reservation is kept, so later regions are only required to lie below the last SUCCESSFUL one",
        "trusted Go: the recording map seam and the event logger in harness/vmm/c07_addrspace_test.go (no expected results in them)",
        "a request that fits is not required to succeed (the statement only constrains successes and non-fitting requests)",
    ]
    ctx.rule = ("case = sequence of reserve / map-region / identity-map requests (size, frame); leg G replays every behaviour TLC "
                "enumerated over the 64-bit boundary sizes; leg T draws seeded random sequences (small, page+-1, near-cursor, near-2^64 "
                "sizes); a case is distinct by its full event sequence and non-trivial when at least one reservation succeeded")
    d = ctx.spec_dir("vmm")
    import concurrent.futures
    pool = concurrent.futures.ThreadPoolExecutor(max_workers=3 if q else 2)   # JVM start-up dominates the small legs: overlap them
    if q:
        futs = [pool.submit(ctx.model_check, d, "MCAddrSpace", "MCAddrSpace6Quick", timeout=900, workers=6)]
    else:
        # every size, all request kinds, seam budgets 0/1/16, sequences of 2;  every size, plain reservations, sequences of 3
        futs = [pool.submit(ctx.model_check, d, "MCAddrSpace", "MCAddrSpace6Budgets", timeout=900, workers=8),
                pool.submit(ctx.model_check, d, "MCAddrSpace", "MCAddrSpace6Res3", timeout=900, workers=8),
                # design variant that maps regions top-down: the order of map calls is not part of the statement
                pool.submit(ctx.model_check, d, "MCAddrSpace", "MCAddrSpace6TopDown", timeout=900, workers=8)]
    # (MCAddrSpace6Res4.cfg: plain reservations, sequences of 4, 312 639 states - measured once, too slow for the tier budget)
    bugs = ["RoundUpWraps", "PageCountTruncated"] if q else \
           ["RoundUpWraps", "NoRoundUp", "RoundDown", "DecrementBeforeTest", "ReturnOldCursor", "PageCountUnrounded",
            "PageCountTruncated", "SameFrame"]
    for b in bugs:
        futs.append(pool.submit(ctx.expect_model_violation, d, "MCAddrSpace", "MCAddrSpaceBug_" + b, timeout=300, workers=2 if q else 4))
    emit_cfgs = ["MCAddrSpace64Quick"] if q else ["MCAddrSpace64Full2", "MCAddrSpace64Full3"]
    cases = os.path.join(ctx.work, "c07_cases.ndjson")
    nbeh = 0
    with open(cases, "w") as allc:
        for cfg in emit_cfgs:
            raw = os.path.join(ctx.work, "c07_raw_%s.ndjson" % cfg)
            ctx.model_check(d, "MCAddrSpace", cfg, env={"CASES": raw}, timeout=900, workers=4 if q else 8)
            part = raw + ".clean"
            total, used = vc.decode_cases(raw, part)
            ctx.cov["legs"][cfg]["behaviours_emitted"] = total
            ctx.cov["legs"][cfg]["replayed"] = used
            nbeh += used
            with open(part) as f:
                allc.write(f.read())
    if not q:
        apalache(ctx, d)

    trg = os.path.join(ctx.work, "c07_trace_g.ndjson")
    vc.go(ctx, HARNESS, "TestVerifC07Cases", {"CASES": cases, "TRACE_OUT": trg})
    trt = os.path.join(ctx.work, "c07_trace_t.ndjson")
    vc.go(ctx, HARNESS, "TestVerifC07Random", {"TRACE_OUT": trt, "NTRACES": 250 if q else 3000})
    traces = [("G-behaviours", trg), ("T-random", trt)]
    if q:                   # one batch of monitor processes instead of two
        both = os.path.join(ctx.work, "c07_trace_gt.ndjson")
        with open(both, "w") as g:
            for _, pth in traces:
                with open(pth) as f:
                    g.write(f.read())
        traces = [("G-behaviours+T-random", both)]
    vc.judge(ctx, "AddrSpaceTrace", "AddrSpaceTraceC07", traces,
             to_replay, nontrivial, brief, parallel=6 if q else None)
    for f in futs:
        f.result()          # a Broken raised in an overlapped M leg surfaces here
    pool.shutdown()
    ctx.cov["exhaustive"] = not ctx.violations
    ctx.cov["explanation"] = ("exhaustive = every behaviour of the TLC 64-bit scope (%s; 3 request kinds, region mappers with seam "
                              "budgets) was replayed verbatim on the real code (%d behaviours); the 6-bit model additionally covers every "
                              "size exhaustively at the design level"
                              % ("sequences of 2 over 11 boundary/huge sizes" if q else
                                 "sequences of 2 over 20 boundary/huge sizes with budgets 1 and 12, sequences of 3 over 7 sizes", nbeh))


def replay(ctx, path):
    with open(path) as f:
        rep = json.load(f)["replay"]
    cf = os.path.join(ctx.work, "replay_case.ndjson")
    write_case(cf, rep)
    tr = os.path.join(ctx.work, "trace_replay.ndjson")
    vc.go(ctx, HARNESS, "TestVerifC07Cases", {"CASES": cf, "TRACE_OUT": tr}, timeout=300)
    acc, nev, mism = ctx.validate_traces("AddrSpaceTrace", "AddrSpaceTraceC07", tr, ("vmm",), name="replay")
    for m in mism:
        ctx.violation({"leg": "replay", "mismatch": m["mismatch"]}, rep)
    ctx.cov["states"] = max(ctx.cov["states"], 1)
    ctx.cov["transitions"] = max(ctx.cov["transitions"], 1)
    return None
