#!/usr/bin/env python3
"""mkmutant.py <ID> <name> <repo-relative-file> <old> <new> [count]  -> selftest/mutants/<ID>/<name>.patch
Creates a unified diff replacing the (count-th, default only) occurrence of <old> by <new>."""
import difflib, os, sys
V = os.path.dirname(os.path.dirname(os.path.abspath(__file__)))
pid, name, rel, old, new = sys.argv[1:6]
nth = int(sys.argv[6]) if len(sys.argv) > 6 else 0
src = open(os.path.join("/repo", rel)).read()
old = old.encode().decode("unicode_escape"); new = new.encode().decode("unicode_escape")
n = src.count(old)
if n == 0 or (n > 1 and not nth):
    sys.exit("pattern occurs %d times" % n)
if nth:
    parts = src.split(old)
    dst = old.join(parts[:nth]) + new + old.join(parts[nth:])
else:
    dst = src.replace(old, new)
d = "".join(difflib.unified_diff(src.splitlines(True), dst.splitlines(True), "a/" + rel, "b/" + rel))
os.makedirs(os.path.join(V, "selftest", "mutants", pid), exist_ok=True)
open(os.path.join(V, "selftest", "mutants", pid, name + ".patch"), "w").write(d)
print(d)
