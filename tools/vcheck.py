#!/usr/bin/env python3
"""Entry point registered in MANIFEST.json: vcheck.py <property-id> quick|thorough [--replay FILE]"""
import os, sys
sys.path.insert(0, os.path.dirname(os.path.abspath(__file__)))
import vlib
vlib.main()
