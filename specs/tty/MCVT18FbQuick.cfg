CONSTANTS Ws = {2}  Hs = {2}  SBs = {1}  TABs = {2}  MaxOps = 4
  Kind = "fb"  Bug = ""  Props = {"C18"}  EmitMode = "none"  EmitMod = 1
CONSTANT Bytes <- MCBytes
CONSTANT CurVals <- MCCurVals
CONSTANT Chunks <- MCChunk1
CONSTANT Cols <- MCCols1
INIT Init
NEXT Next
INVARIANT NoMismatch
INVARIANT OffsetInBuffer
INVARIANT EmitCase
VIEW ViewN
CHECK_DEADLOCK FALSE
