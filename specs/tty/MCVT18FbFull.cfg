CONSTANTS Ws = {2, 3}  Hs = {2, 3}  SBs = {0, 1}  TABs = {1, 2}  MaxOps = 6
  Kind = "fb"  Bug = ""  Props = {"C18"}  EmitMode = "none"  EmitMod = 1
CONSTANT Bytes <- MCBytes
CONSTANT CurVals <- MCCurVals
INIT Init
NEXT Next
INVARIANT NoMismatch
INVARIANT OffsetInBuffer
INVARIANT EmitCase
VIEW ViewN
CHECK_DEADLOCK FALSE
