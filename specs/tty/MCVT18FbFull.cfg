CONSTANTS Ws = {1, 2, 3}  Hs = {1, 2}  SBs = {0, 1}  TABs = {1}  MaxOps = 5
  Kind = "fb"  Bug = ""  Props = {"C18"}  EmitMode = "none"  EmitMod = 1
CONSTANT Bytes <- MCBytes
CONSTANT CurVals <- MCCurVals
CONSTANT Chunks <- MCChunk1
CONSTANT Cols <- MCCols1
INIT Init
NEXT Next
INVARIANT NoMismatch
INVARIANT OffsetInBuffer
INVARIANT EmitCase
VIEW ViewN
CHECK_DEADLOCK FALSE
