CONSTANTS Ws = {3}  Hs = {3}  SBs = {2}  TABs = {2}  MaxOps = 7
  Kind = "rec"  Bug = ""  Props = {"C17"}  EmitMode = "sample"  EmitMod = 16
CONSTANT Bytes <- MCBytes
CONSTANT CurVals <- MCCurVals
CONSTANT Chunks <- MCNoChunks
CONSTANT Cols <- MCCols1
INIT Init
NEXT Next
INVARIANT NoMismatch
INVARIANT OffsetInBuffer
INVARIANT EmitCase
VIEW View17N
CHECK_DEADLOCK FALSE
