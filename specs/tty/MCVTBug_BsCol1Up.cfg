CONSTANTS Ws = {1, 2, 3}  Hs = {1, 2, 3}  SBs = {0, 1, 2}  TABs = {0, 1, 2}  MaxOps = 4
  Kind = "rec"  Bug = "BsCol1Up"  Props = {"C17"}  EmitMode = "none"  EmitMod = 1
CONSTANT Bytes <- MCBytes
CONSTANT CurVals <- MCCurVals
CONSTANT Chunks <- MCChunks
CONSTANT Cols <- MCCols1
INIT Init
NEXT Next
INVARIANT NoMismatch
INVARIANT EmitCase
VIEW View17N
CHECK_DEADLOCK FALSE
