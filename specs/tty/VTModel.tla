---- MODULE VTModel ----
(***************************************************************************)
(* Design model for C17 / C18 (leg M): a transcription of                   *)
(*   kernel/device/tty/vt.go  (AttachTo, SetState, SetCursorPosition,       *)
(*   WriteByte, doWrite, cr, lf, updateDataOffset)                           *)
(* over cells instead of byte triples, attached to a cell-level console     *)
(* (Write / Scroll / Fill as the shipped consoles implement them for        *)
(* in-range arguments).  The console geometry, scrollback and tab width are *)
(* chosen in Init, so one TLC run quantifies over every geometry of the     *)
(* scope.  Every action produces the event the harness would log for the    *)
(* real code, and the event is judged by the very same monitor (VTConsole!  *)
(* Mon) that judges recorded traces: NoMismatch is C17 /\ C18 for the       *)
(* design.  Design mutants (Bug) re-create realistic wrong designs; TLC     *)
(* must reject each of them.                                                *)
(***************************************************************************)
EXTENDS VTConsole, Json, CSV, IOUtils
CONSTANTS Ws, Hs, SBs, TABs,     \* geometry scope
          Bytes,                 \* byte alphabet
          CurVals,               \* SetCursorPosition arguments (Big stands for 2^32-1)
          Chunks,                \* byte sequences written with one Write call
          Cols,                  \* default colours <<fg, bg>> of the console
          MaxOps,
          Kind,                  \* "rec": character-cell console;  "fb": cells show pixels (Fill ignores fg)
          Bug, Props,
          EmitMode,              \* "none" | "sample": the path to every EmitMod-th distinct state | "branch": every transition
          EmitMod

VARIABLES g,        \* geometry
          t,        \* terminal as implemented + console cells
          nops, script,
          m, mismatch
vars == <<g, t, nops, script, m, mismatch>>

\* glyph classes of the model font: the space has an empty glyph, every other glyph is unique
ModelGc == [i \in 1..256 |-> IF i - 1 = SP THEN -1 ELSE i - 1]
Cons == [kind |-> Kind, gc |-> IF Kind = "fb" THEN ModelGc ELSE <<>>,
         gi |-> IF Kind = "fb" THEN [i \in 1..256 |-> -1] ELSE <<>>]
Garbage == IF Kind = "fb" THEN -1 ELSE Code(63, 9, 9)        \* what the console shows before anyone drew on it

Sat(v) == IF v > Big THEN Big ELSE v

(* ----------------------------------------------------------------------- *)
(* console, cell level                                                      *)
(* ----------------------------------------------------------------------- *)
ConsWrite(t0, ch, f, b, x, y) ==
  [t0 EXCEPT !.calls = Append(@, <<1, ch, f, b, Sat(x), Sat(y)>>),
             !.scr = IF x \in 1..g.w /\ y \in 1..g.h
                     THEN [@ EXCEPT ![(y - 1) * g.w + x] = Canon(Cons, Code(ch, f, b))] ELSE @]
ConsScrollUp(t0, n) ==
  [t0 EXCEPT !.calls = Append(@, <<3, 0, Sat(n)>>),
             !.scr = IF n = 0 \/ n > g.h THEN @
                     ELSE [i \in 1..(g.w * g.h) |-> IF i <= (g.h - n) * g.w THEN @[i + n * g.w] ELSE @[i]]]
ConsFill(t0, x, y, w, h, f, b) ==
  LET x1 == Clip(x, g.w)  y1 == Clip(y, g.h)
      w1 == IF w > g.w - x1 + 1 THEN g.w - x1 + 1 ELSE w
      h1 == IF h > g.h - y1 + 1 THEN g.h - y1 + 1 ELSE h
      cell == IF Kind = "fb" THEN Code(0, AnyFg, b) ELSE Code(SP, f, b)
  IN [t0 EXCEPT !.calls = Append(@, <<2, Sat(x), Sat(y), Sat(w), Sat(h), f, b>>),
                !.scr = [i \in 1..(g.w * g.h) |->
                           LET cx == ((i - 1) % g.w) + 1  cy == ((i - 1) \div g.w) + 1 IN
                           IF cx >= x1 /\ cx < x1 + w1 /\ cy >= y1 /\ cy < y1 + h1 THEN cell ELSE @[i]]]

(* ----------------------------------------------------------------------- *)
(* tty.VT (offsets in cells, 0-based as in the code)                        *)
(* ----------------------------------------------------------------------- *)
NCells == g.w * TH(g)
UpdOff(t0) == [t0 EXCEPT !.off = (t0.vy + (t0.cy - 1)) * g.w + (t0.cx - 1)]

Lf(t00) ==
  LET t0 == [t00 EXCEPT !.cx = 1] IN
  IF t0.cy + 1 <= g.h THEN UpdOff([t0 EXCEPT !.cy = @ + 1])
  ELSE LET adv == t0.vy + g.h < TH(g)
           lo  == IF Bug = "ScrollExtraRow" /\ t0.vy > 0 THEN t0.vy - 1 ELSE t0.vy
           t1  == IF adv THEN [t0 EXCEPT !.vy = @ + 1]
                  ELSE [t0 EXCEPT !.data = [i \in 1..NCells |->
                          IF i > lo * g.w /\ i <= (t0.vy + g.h - 1) * g.w THEN @[i + g.w]
                          ELSE IF i > (t0.vy + g.h - 1) * g.w /\ i <= (t0.vy + g.h) * g.w THEN Blank(g)
                          ELSE @[i]]]
           t2  == IF t1.st = 1
                  THEN LET s == ConsScrollUp(t1, 1) IN
                       IF Bug = "NoFillAfterScroll" THEN s ELSE ConsFill(s, 1, t1.cy, g.w, 1, g.fg, g.bg)
                  ELSE t1
       IN IF Bug = "VyNoOffUpdate" /\ adv THEN t2 ELSE UpdOff(t2)

DoWrite(t0, ch, advance) ==
  IF t0.panic THEN t0 ELSE
  LET t1 == IF t0.st = 1 \/ Bug = "MirrorInactive" THEN ConsWrite(t0, ch, g.fg, g.bg, t0.cx, t0.cy) ELSE t0 IN
  IF t1.off >= NCells THEN [t1 EXCEPT !.panic = TRUE]            \* index out of range
  ELSE LET t2 == [t1 EXCEPT !.data[t1.off + 1] = Code(ch, g.fg, g.bg)] IN
       IF ~advance THEN t2
       ELSE LET t3 == [t2 EXCEPT !.off = @ + 1, !.cx = @ + 1] IN
            IF (IF Bug = "WrapAtGE" THEN t3.cx >= g.w ELSE t3.cx > g.w) THEN Lf(t3) ELSE t3

\* the tab of the mutant that forgets to wrap
DoWriteNoWrap(t0, ch) ==
  IF t0.panic THEN t0 ELSE
  LET t1 == IF t0.st = 1 THEN ConsWrite(t0, ch, g.fg, g.bg, t0.cx, t0.cy) ELSE t0 IN
  IF t1.off >= NCells THEN [t1 EXCEPT !.panic = TRUE]
  ELSE [t1 EXCEPT !.data[t1.off + 1] = Code(ch, g.fg, g.bg), !.off = @ + 1, !.cx = @ + 1]

RECURSIVE Tab(_, _)
Tab(t0, n) == IF n = 0 THEN t0
              ELSE Tab(IF Bug = "TabNoWrap" THEN DoWriteNoWrap(t0, SP) ELSE DoWrite(t0, SP, TRUE), n - 1)

SetCursor(t0, x, y) ==
  UpdOff([t0 EXCEPT !.cx = Clip(x, g.w), !.cy = Clip(y, IF Bug = "ClipTermHeight" THEN TH(g) ELSE g.h)])

WriteByte(t0, b) ==
  CASE b = CR -> UpdOff([t0 EXCEPT !.cx = 1])
    [] b = LF -> Lf(t0)
    [] b = BS -> IF t0.cx > 1 THEN DoWrite(SetCursor(t0, t0.cx - 1, t0.cy), SP, FALSE)
                 ELSE IF Bug = "BsCol1Up" /\ t0.cy > 1 THEN DoWrite(SetCursor(t0, g.w, t0.cy - 1), SP, FALSE)
                 ELSE t0
    [] b = HT -> Tab(t0, g.tab)
    [] OTHER  -> DoWrite(t0, b, TRUE)

\* SetState: full redraw of the viewport on activation
RECURSIVE Redraw(_, _)
Redraw(t0, i) ==
  IF i > g.w * g.h THEN t0
  ELSE LET x == ((i - 1) % g.w) + 1  y == ((i - 1) \div g.w) + 1
           o == IF Bug = "RedrawIgnoresVy" THEN (y - 1) * g.w + x ELSE (y - 1 + t0.vy) * g.w + x
           c == t0.data[o]
       IN Redraw(ConsWrite(t0, CodeCh(c), CodeFg(c), CodeBg(c), x, IF Bug = "RedrawCursorY" THEN t0.cy ELSE y), i + 1)
SetState(t0, a) ==
  IF t0.st = a THEN t0
  ELSE LET t1 == [t0 EXCEPT !.st = a] IN IF a = 1 THEN Redraw(t1, 1) ELSE t1

(* ----------------------------------------------------------------------- *)
(* events                                                                   *)
(* ----------------------------------------------------------------------- *)
Obs(t1) == [res |-> IF t1.panic THEN "panic" ELSE "ok", cx |-> t1.cx, cy |-> t1.cy, vy |-> t1.vy,
            cp |-> IF t1.panic THEN 0 ELSE 1, data |-> IF t1.panic THEN <<>> ELSE t1.data,
            scr |-> IF t1.panic THEN <<>> ELSE t1.scr, cc |-> Len(t1.calls), calls |-> t1.calls, out |-> 0]
T0(gg) == [data |-> [i \in 1..(gg.w * (gg.h + gg.sb)) |-> Code(SP, gg.fg, gg.bg)], cx |-> 1, cy |-> 1, vy |-> 0, off |-> 0,
           st |-> 0, scr |-> [i \in 1..(gg.w * gg.h) |-> Garbage], calls |-> <<>>, panic |-> FALSE]
AttachEv(gg, t1) == [k |-> "attach", w |-> gg.w, h |-> gg.h, sb |-> gg.sb, tab |-> gg.tab, dfg |-> gg.fg, dbg |-> gg.bg,
                     cons |-> Cons.kind, gc |-> Cons.gc, gi |-> Cons.gi,
                     \* the screen holds exactly the cells (the mutant's console reports a column that is not there)
                     pw |-> IF Bug = "GridExceedsScreen" THEN gg.w - 1 ELSE gg.w, ph |-> gg.h, gw |-> 1, gh |-> 1, offy |-> 0]
                    @@ Obs(t1)

Init ==
  \E w \in Ws, h \in Hs, sb \in SBs, tab \in TABs, col \in Cols :
    LET gg == [w |-> w, h |-> h, sb |-> sb, tab |-> tab, fg |-> col[1], bg |-> col[2]]
        \* the terminal is attached while inactive (the order hal.linkTTYToConsole uses); the design mutant
        \* activates it first: AttachTo never draws, so the activation redraw is lost
        a0 == IF Bug = "ActiveAtAttach" THEN 1 ELSE 0
        t0 == [T0(gg) EXCEPT !.st = a0]
        mm == Mon([S0 EXCEPT !.act = a0], AttachEv(gg, t0))
    IN /\ g = gg /\ t = t0 /\ nops = 0 /\ script = <<>>
       /\ m = mm.s /\ mismatch = FirstFail(Props, 0, mm.cs)

Ops == {<<0, b>> : b \in Bytes} \cup {<<1, x, y>> : x \in CurVals, y \in CurVals} \cup {<<2, 0>>, <<2, 1>>}
       \cup {<<3>> \o ch : ch \in Chunks}

\* VT.Write: WriteByte for every byte of the slice
RECURSIVE WriteAll(_, _, _)
WriteAll(t0, bs, i) == IF i > Len(bs) \/ t0.panic THEN t0 ELSE WriteAll(WriteByte(t0, bs[i]), bs, i + 1)

Step(op) ==
  LET t1 == CASE op[1] = 0 -> WriteByte(t, op[2])
              [] op[1] = 1 -> SetCursor(t, op[2], op[3])
              [] op[1] = 2 -> SetState(t, op[2])
              [] OTHER     -> WriteAll(t, Tail(op), 1)
      e  == (CASE op[1] = 0 -> [k |-> "w", b |-> op[2]]
               [] op[1] = 1 -> [k |-> "cur", x |-> op[2], y |-> op[3]]
               [] op[1] = 2 -> [k |-> "st", a |-> op[2]]
               [] OTHER     -> [k |-> "ws", bs |-> Tail(op), n |-> Len(op) - 1]) @@ Obs(t1)
      mm == Mon(m, e)
  IN /\ t' = [t1 EXCEPT !.calls = <<>>]
     /\ m' = mm.s /\ mismatch' = FirstFail(Props, nops + 1, mm.cs)
     /\ nops' = nops + 1 /\ script' = Append(script, op)
     /\ g' = g

Next == /\ mismatch = <<>> /\ ~t.panic /\ nops < MaxOps
        /\ \E op \in Ops : Step(op)

NoMismatch == mismatch = <<>>

\* model-level statement of "no write outside the buffer": the derived offset always addresses the cursor's cell
OffsetInBuffer == ~t.panic => (t.off = (t.vy + t.cy - 1) * g.w + (t.cx - 1) /\ t.off < g.w * TH(g))

\* leg G: replay cases for the Go harness, written while TLC explores (Big, standing for 2^32-1, is written -1).
\*  "sample": the operation sequence that first reached a distinct state, for a seeded 1/EmitMod of the states
\*            (and depths: the depth is part of the VIEW);
\*  "branch": for every distinct state below the depth bound its sequence plus the list of all operations: the
\*            harness replays sequence \o <<op>> for each of them, i.e. every transition of the explored graph.
J(v) == IF v = Big THEN -1 ELSE v
JOp(op) == [j \in 1..Len(op) |-> J(op[j])]
RECURSIVE SeqOf(_)
SeqOf(S) == IF S = {} THEN <<>> ELSE LET x == CHOOSE y \in S : TRUE IN <<JOp(x)>> \o SeqOf(S \ {x})
OpsSeq == SeqOf(Ops)
\* which states are sampled depends on the state (not on the path that happened to reach it first)
RECURSIVE Sum(_, _)
Sum(sq, i) == IF i > Len(sq) THEN 0 ELSE ((sq[i] % 251) * ((i % 13) + 1) + Sum(sq, i + 1)) % 65521
StateChk == (Sum(t.data, 1) * 7 + t.cx * 3 + t.cy * 5 + t.vy * 11 + t.st * 13 + nops * 17
             + g.w * 19 + g.h * 23 + g.sb * 29 + g.tab * 31 + g.fg * 37 + g.bg * 41) % 65521
CaseRec(br) == [w |-> g.w, h |-> g.h, sb |-> g.sb, tab |-> g.tab, dfg |-> g.fg, dbg |-> g.bg, ops |-> [i \in 1..Len(script) |-> JOp(script[i])], br |-> br]
EmitCase ==
  CASE EmitMode = "sample" ->
         (nops >= 1 /\ (StateChk + atoi(IOEnv.EMITSEED)) % EmitMod = 0) =>
            CSVWrite("%1$s", <<ToJson(CaseRec(<<>>))>>, IOEnv.CASES)
    [] EmitMode = "branch" ->
         (nops < MaxOps /\ ~t.panic /\ mismatch = <<>>) => CSVWrite("%1$s", <<ToJson(CaseRec(OpsSeq))>>, IOEnv.CASES)
    [] OTHER -> TRUE

\* VIEW: the model state without the histories (script, monitor copy).  The depth is part of it, so that a
\* state is explored with the budget of every depth it is reachable at (exploration is then independent
\* of the order in which workers reach a state, and the bound means "every sequence of <= MaxOps operations").
ViewN == <<g, t, mismatch, nops>>
View17N == <<g, [t EXCEPT !.scr = <<>>], mismatch, nops>>       \* C17 does not look at the console
====
