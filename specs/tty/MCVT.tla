---- MODULE MCVT ----
(* Model-checking instance of VTModel.  The cfg files pick the scope:                          *)
(*   MCVT17* / MCVT18*  : leg M for C17 / C18 (C18 explores the console cells as well)          *)
(*   MCVTEmit*          : single-worker run that writes the replay cases of leg G               *)
(*   MCVTBug_*          : design mutants that TLC must reject                                   *)
EXTENDS VTModel
\* SetCursorPosition arguments of the scope: both sides of every clip boundary for W, H <= 3, and 2^32-1
MCCurVals == {0, 1, 2, 3, 4, Big}
\* a, b, CR, LF, BS, HT
MCBytes == {97, 98, CR, LF, BS, HT}
\* Write calls with several bytes: a wrap-and-feed, a tab followed by a character, a backspace before a return
MCChunks == {<<97, LF>>, <<HT, 98>>, <<98, BS, CR>>}
\* default colours of the console: the shipped consoles' light gray on black, and another pair
MCNoChunks == {}
MCChunk1 == {<<97, LF>>}
MCCols1 == {<<7, 0>>}
MCCols2 == {<<7, 0>>, <<2, 9>>}
====
