---- MODULE MCVT ----
(* Model-checking instance of VTModel.  The cfg files pick the scope:                          *)
(*   MCVT17* / MCVT18*  : leg M for C17 / C18 (C18 explores the console cells as well)          *)
(*   MCVTEmit*          : single-worker run that writes the replay cases of leg G               *)
(*   MCVTBug_*          : design mutants that TLC must reject                                   *)
EXTENDS VTModel
\* SetCursorPosition arguments of the scope: both sides of every clip boundary for W, H <= 3, and 2^32-1
MCCurVals == {0, 1, 2, 3, 4, Big}
\* a, b, CR, LF, BS, HT
MCBytes == {97, 98, CR, LF, BS, HT}
====
