CONSTANTS Ws = {2}  Hs = {2}  SBs = {1}  TABs = {2}  MaxOps = 5
  Kind = "rec"  Bug = ""  Props = {"C17"}  EmitMode = "sample"  EmitMod = 4
CONSTANT Bytes <- MCBytes
CONSTANT CurVals <- MCCurVals
CONSTANT Chunks <- MCChunks
CONSTANT Cols <- MCCols2
INIT Init
NEXT Next
INVARIANT NoMismatch
INVARIANT OffsetInBuffer
INVARIANT EmitCase
VIEW View17N
CHECK_DEADLOCK FALSE
