---- MODULE VTConsole ----
(***************************************************************************)
(* C18: an active terminal and its console show the same thing.             *)
(* Extends the reference terminal (VT) with the console side of an event    *)
(* and the combined monitor Mon used by the design model and by the trace   *)
(* monitor.                                                                 *)
(*                                                                          *)
(* Console side of an event (logged by the harness, or produced by the      *)
(* design model):                                                           *)
(*   cc    number of console calls (Write / Fill / Scroll / SetPaletteColor) *)
(*         the terminal made during the call                                *)
(*   calls the Write / Fill / Scroll calls themselves, arguments saturated  *)
(*         at Big:  <<1, ch, fg, bg, x, y>>  <<2, x, y, w, h, fg, bg>>       *)
(*         <<3, dir, lines>>                                                *)
(*   out   number of bytes outside the cell grid (guard bytes around the    *)
(*         frame buffer, logo rows above the text area) that differ from    *)
(*         what they held when the console was set up                       *)
(*   scr   at checkpoints: what every console cell SHOWS, as a cell code:   *)
(*         text mode: the character / attribute pair of the cell;           *)
(*         frame buffer: the <<ch, fg, bg>> whose glyph rendered in the     *)
(*         console's packing equals the cell's pixels exactly, in canonical *)
(*         form (see Canon), -1 if no character and colours give these      *)
(*         pixels.                                                          *)
(* The attach event describes the console: its screen (pw x ph pixels - for *)
(* text mode the character cells of the mapped screen memory -, glyph size  *)
(* gw x gh, offy pixel rows reserved above the text), kind ("rec" recording *)
(* grid,                                                                    *)
(* "vga" VgaTextConsole, "fb" VesaFbConsole) and for "fb" the font's glyph  *)
(* classes gc[ch + 1]: -1 the glyph has no pixel set, -2 all pixels set,    *)
(* otherwise the lowest character code with the same glyph; and gi[ch + 1]: *)
(* the lowest character whose glyph is the inverse picture, or -1 (code     *)
(* page 437 fonts have such pairs: 7/8, 9/10, 220/223, 221/222).            *)
(***************************************************************************)
EXTENDS VT

\* a frame-buffer cell shows pixels, not characters: two triples whose renderings are equal are the
\* same picture.  Canon maps a triple to the representative the harness logs for that picture.
Canon(c, code) ==
  IF c.kind # "fb" THEN code
  ELSE LET cls == c.gc[CodeCh(code) + 1]  f == CodeFg(code)  b == CodeBg(code) IN
       IF cls = -1 \/ f = b THEN Code(0, AnyFg, b)          \* one colour everywhere: the background
       ELSE IF cls = -2 THEN Code(0, AnyFg, f)              \* one colour everywhere: the foreground
       ELSE LET inv == c.gi[CodeCh(code) + 1] IN
            IF inv >= 0 /\ inv < cls THEN Code(inv, b, f)     \* same picture: inverse glyph, colours swapped
            ELSE Code(cls, f, b)

\* what the console must display: the terminal's current viewport (h lines of the buffer from the
\* viewport origin); data is the terminal's OWN buffer as observed, so C18 does not depend on C17
Viewport(g, data, vy) == [i \in 1..(g.w * g.h) |-> data[vy * g.w + i]]

\* does a console call address cells of the w x h grid only?
CallInGrid(g, c) ==
  CASE c[1] = 1 -> c[5] \in 1..g.w /\ c[6] \in 1..g.h
    [] c[1] = 2 -> /\ c[2] >= 1 /\ c[3] >= 1 /\ c[4] >= 0 /\ c[5] >= 0
                   /\ c[4] <= g.w /\ c[5] <= g.h                  \* (also keeps the sums below in range)
                   /\ c[2] + c[4] - 1 <= g.w /\ c[3] + c[5] - 1 <= g.h
    [] c[1] = 3 -> c[3] <= g.h
    [] OTHER -> FALSE

(* ----------------------------------------------------------------------- *)
(* Monitor state: geometry, console description, reference terminal (C17),  *)
(* terminal state as commanded (C18), the last screen observed while the    *)
(* console was not allowed to change (<<>> = unknown).                      *)
(* ----------------------------------------------------------------------- *)
C0 == [kind |-> "", gc |-> <<>>, gi |-> <<>>]
S0 == [g |-> G0, c |-> C0, r |-> R0, act |-> 0, scr |-> <<>>, on |-> FALSE]

Checks18(m, g, c, e, a0, a1) ==
  LET att   == e.k = "attach"
      badc  == (a0 = 1 \/ a1 = 1) /\ \E i \in 1..Len(e.calls) : ~CallInGrid(g, e.calls[i])
      cmp   == a1 = 1 /\ e.res = "ok" /\ e.cp = 1 /\ ~att     \* (the statement speaks of writes and of activation)
      sized == cmp /\ Len(e.data) >= (e.vy + g.h) * g.w /\ Len(e.scr) = g.w * g.h
      v     == Viewport(g, e.data, e.vy)
      bads  == sized /\ \E i \in 1..(g.w * g.h) : e.scr[i] # Canon(c, v[i])
  IN
  << <<"C18", att /\ (e.w * e.gw > e.pw \/ e.offy + e.h * e.gh > e.ph),
       IF ~att THEN <<>> ELSE
       <<"the console reports a grid of", e.w, e.h, "cells of", e.gw, e.gh, "pixels, but only", e.pw \div e.gw,
         (e.ph - e.offy) \div e.gh, "cells are completely on its screen of", e.pw, e.ph, "pixels, text from row", e.offy>> >>,
     <<"C18", (a0 = 1 \/ a1 = 1) /\ e.res # "ok",
       <<"call on an active terminal did not complete (panic / no return in the terminal or in the console it drives)", e.k, e.res>> >>,
     <<"C18", a0 = 0 /\ a1 = 0 /\ e.cc # 0,
       <<"console touched while the terminal is inactive: calls", e.cc, e.calls>> >>,
     <<"C18", a0 = 0 /\ a1 = 0 /\ ~att /\ e.cp = 1 /\ m.scr # <<>> /\ e.scr # m.scr,
       <<"console contents changed while the terminal is inactive">> >>,
     <<"C18", e.out # 0,
       <<"bytes outside the console's cell grid changed", e.out>> >>,
     <<"C18", badc,
       IF ~badc THEN <<>> ELSE
       LET i == CHOOSE j \in 1..Len(e.calls) : ~CallInGrid(g, e.calls[j]) IN
       <<"console call outside the cell grid", e.calls[i], "grid", g.w, g.h>> >>,
     <<"C18", bads,
       IF ~bads THEN <<>> ELSE
       LET i == CHOOSE j \in 1..(g.w * g.h) : e.scr[j] # Canon(c, v[j]) /\ \A k \in 1..(j - 1) : e.scr[k] = Canon(c, v[k])
           s == e.scr[i]
       IN <<"console cell (x, y)", ((i - 1) % g.w) + 1, ((i - 1) \div g.w) + 1,
            "shows <<ch, fg, bg>>", IF s < 0 THEN <<"garbage">> ELSE <<CodeCh(s), CodeFg(s), CodeBg(s)>>,
            "terminal viewport has", <<CodeCh(v[i]), CodeFg(v[i]), CodeBg(v[i])>>, "after", e.k>> >>,
     <<"C18", cmp /\ Len(e.scr) # g.w * g.h,
       <<"console grid size", Len(e.scr), "expected", g.w * g.h>> >> >>

\* one monitor step: [s |-> next monitor state, cs |-> checks]
Mon(m, e) ==
  IF e.k = "reset" THEN [s |-> S0, cs |-> <<>>]
  ELSE IF e.k = "st" /\ m.g = G0
       \* SetState on a terminal that is not attached yet (nothing to observe): only the commanded state
       \* changes; AttachTo does not change it either
       THEN [s |-> [m EXCEPT !.act = e.a], cs |-> <<>>]
  ELSE IF e.k # "attach" /\ ~m.on THEN [s |-> m, cs |-> << <<"C17", TRUE, <<"event before attach", e.k>> >> >>]
  ELSE
  LET g  == IF e.k = "attach" THEN GeomOf(e) ELSE m.g
      c  == IF e.k = "attach" THEN [kind |-> e.cons, gc |-> e.gc, gi |-> e.gi] ELSE m.c
      r2 == RefAfter(g, m.r, e)
      a0 == m.act
      a1 == IF e.k = "st" THEN e.a ELSE a0
      scr2 == IF e.cp = 1 THEN e.scr ELSE IF a0 = 0 /\ a1 = 0 THEN m.scr ELSE <<>>
  IN [s  |-> [g |-> g, c |-> c, r |-> r2, act |-> a1, scr |-> scr2, on |-> e.res = "ok"],
      cs |-> Checks17(g, r2, e) \o Checks18(m, g, c, e, a0, a1)]

\* the first failing check of a property in props: <<line, property, why>> or <<>>
FirstFail(props, line, cs) ==
  LET S == {i \in 1..Len(cs) : cs[i][1] \in props /\ cs[i][2]} IN
  IF S = {} THEN <<>> ELSE LET i == CHOOSE j \in S : \A k \in S : j <= k IN <<line, cs[i][1], cs[i][3]>>
====
