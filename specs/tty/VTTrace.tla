---- MODULE VTTrace ----
(* Trace monitor (leg V): events recorded from the real kernel/device/tty.VT (and the real      *)
(* consoles attached to it) are judged by the operators of VT / VTConsole, one event per step.   *)
EXTENDS VTConsole, Json, IOUtils, TraceLib
CONSTANT Props
Trace == ndJsonDeserialize(IOEnv.TRACE)

VARIABLES l, s, mismatch
vars == <<l, s, mismatch>>

Init == l = 1 /\ s = S0 /\ mismatch = <<>>
Next == /\ l <= Len(Trace) /\ mismatch = <<>>
        /\ l' = l + 1
        /\ LET mm == Mon(s, Trace[l]) IN s' = mm.s /\ mismatch' = FirstFail(Props, l, mm.cs)
        /\ Report(mismatch')
NoMismatch == mismatch = <<>>
Accepted == TLCGet("stats").diameter - 1 = Len(Trace)
====
