---- MODULE VT ----
(***************************************************************************)
(* C17: the reference terminal of the property statement and the monitor    *)
(* that judges one recorded event of a terminal against it.                  *)
(*                                                                          *)
(* The operators of this module are shared by the design model VTModel       *)
(* (leg M: TLC explores a transcription of kernel/device/tty/vt.go in a      *)
(* small scope and every event it produces is judged here) and by the trace  *)
(* monitor VTTrace (leg V: every event recorded from the REAL tty.VT is      *)
(* judged here).  Nothing below knows how vt.go is written.                  *)
(*                                                                          *)
(* A cell (char, fg, bg) is one integer Code(ch, f, b); fg 256 = "any".      *)
(* uint32 arguments are logged saturated at Big = 2^30 (TLC integers are 32  *)
(* bit); every geometry is far below that, so no information the reference   *)
(* needs is lost: the reference clips to the viewport anyway.                *)
(***************************************************************************)
EXTENDS Integers, Sequences, FiniteSets, TLC

CR == 13  LF == 10  BS == 8  HT == 9  SP == 32
Big == 1073741824
AnyFg == 256
Code(ch, f, b) == (b * 257 + f) * 256 + ch
CodeCh(c) == c % 256
CodeFg(c) == (c \div 256) % 257
CodeBg(c) == c \div (256 * 257)

(* ----------------------------------------------------------------------- *)
(* Reference terminal.  g = [w, h, sb, tab, fg, bg] (console size in cells, *)
(* scrollback lines, tab width, the console's default colours).             *)
(* r = [lines, top, x, y]: h+sb lines of w cells, viewport origin (number of *)
(* lines above the viewport), 1-based cursor inside the viewport.            *)
(* ----------------------------------------------------------------------- *)
TH(g) == g.h + g.sb
Blank(g) == Code(SP, g.fg, g.bg)
BlankLine(g) == [j \in 1..g.w |-> Blank(g)]
RefInit(g) == [lines |-> [i \in 1..TH(g) |-> BlankLine(g)], top |-> 0, x |-> 1, y |-> 1]

\* line feed: start of the next line; on the last viewport line the viewport first moves down
\* through the scrollback and, once that is used up, the viewport's lines scroll up by one and
\* the last one is blanked (lines above the viewport are history and stay)
RefLf(g, r0) ==
  LET r == [r0 EXCEPT !.x = 1] IN
  IF r.y < g.h THEN [r EXCEPT !.y = r.y + 1]
  ELSE IF r.top + g.h < TH(g) THEN [r EXCEPT !.top = r.top + 1]
  ELSE [r EXCEPT !.lines = [i \in 1..TH(g) |->
                              IF i > r.top /\ i < r.top + g.h THEN r.lines[i + 1]
                              ELSE IF i = r.top + g.h THEN BlankLine(g)
                              ELSE r.lines[i]]]

\* store at the cursor in the default colours, advance, wrap after the last column
RefPut(g, r, ch) ==
  LET r1 == [r EXCEPT !.lines[r.top + r.y][r.x] = Code(ch, g.fg, g.bg), !.x = r.x + 1] IN
  IF r1.x > g.w THEN RefLf(g, r1) ELSE r1

RECURSIVE RefTab(_, _, _)
RefTab(g, r, n) == IF n = 0 THEN r ELSE RefTab(g, RefPut(g, r, SP), n - 1)

RefWrite(g, r, b) ==
  CASE b = CR -> [r EXCEPT !.x = 1]
    [] b = LF -> RefLf(g, r)
    [] b = BS -> IF r.x > 1 THEN [r EXCEPT !.x = r.x - 1, !.lines[r.top + r.y][r.x - 1] = Blank(g)] ELSE r
    [] b = HT -> RefTab(g, r, g.tab)
    [] OTHER  -> RefPut(g, r, b)

\* a byte stream written with one call (io.Writer): the bytes one after the other
RECURSIVE RefWriteAll(_, _, _, _)
RefWriteAll(g, r, bs, i) == IF i > Len(bs) THEN r ELSE RefWriteAll(g, RefWrite(g, r, bs[i]), bs, i + 1)

Clip(v, hi) == IF v < 1 THEN 1 ELSE IF v > hi THEN hi ELSE v
RefSetCursor(g, r, x, y) == [r EXCEPT !.x = Clip(x, g.w), !.y = Clip(y, g.h)]

\* the whole buffer, line after line (what the terminal keeps: viewport + scrollback)
Flat(g, r) == [i \in 1..(g.w * TH(g)) |-> r.lines[((i - 1) \div g.w) + 1][((i - 1) % g.w) + 1]]

(* ----------------------------------------------------------------------- *)
(* Events (one per call of the terminal API, logged after the call returns) *)
(*   attach : w h sb tab dfg dbg  + observation                             *)
(*   w      : b                    WriteByte(b)                              *)
(*   ws     : bs n                 Write(bs) returned n (and no error)       *)
(*   cur    : x y                  SetCursorPosition(x, y)  (saturated)      *)
(*   st     : a                    SetState(a)  a = 1 active, 0 inactive     *)
(* observation: res ("ok" | "panic" | "err" | "hang"), cx cy (CursorPosition()), *)
(*   vy (viewport origin), cp (1 = checkpoint: data holds the whole buffer   *)
(*   as cell codes), and the console side (see VTConsole).                   *)
(* ----------------------------------------------------------------------- *)
GeomOf(e) == [w |-> e.w, h |-> e.h, sb |-> e.sb, tab |-> e.tab, fg |-> e.dfg, bg |-> e.dbg]
G0 == [w |-> 0, h |-> 0, sb |-> 0, tab |-> 0, fg |-> 0, bg |-> 0]
R0 == [lines |-> <<>>, top |-> 0, x |-> 0, y |-> 0]

\* the reference after the operation of event e
RefAfter(g, r, e) ==
  CASE e.k = "attach" -> RefInit(g)
    [] e.k = "w"      -> RefWrite(g, r, e.b)
    [] e.k = "ws"     -> RefWriteAll(g, r, e.bs, 1)
    [] e.k = "cur"    -> RefSetCursor(g, r, e.x, e.y)
    [] OTHER          -> r                     \* state changes do not concern the terminal contents

\* checks of C17 on event e, given the reference r2 after the operation: <<prop, failed, why>>
\* (TLC builds tuples eagerly, so every explanation is guarded by its own condition)
Checks17(g, r2, e) ==
  LET ok   == e.res = "ok"
      f    == Flat(g, r2)
      bad  == ok /\ e.cp = 1 /\ e.data # f
  IN
  << <<"C17", ~ok,
       <<"terminal call did not complete (panic: how Go shows a write outside the buffer; hang: it never returned)", e.k, e.res>> >>,
     <<"C17", ok /\ e.k = "ws" /\ e.n # Len(e.bs),
       IF e.k # "ws" THEN <<>> ELSE <<"Write accepted", e.n, "of", Len(e.bs), "bytes">> >>,
     <<"C17", ok /\ ~(e.cx \in 1..g.w /\ e.cy \in 1..g.h),
       <<"cursor outside the viewport", e.cx, e.cy, "viewport", g.w, g.h>> >>,
     <<"C17", ok /\ (e.cx # r2.x \/ e.cy # r2.y),
       <<"cursor", e.cx, e.cy, "reference", r2.x, r2.y, "after", e.k>> >>,
     <<"C17", ok /\ e.vy # r2.top,
       <<"viewport origin (scrollback position)", e.vy, "reference", r2.top>> >>,
     <<"C17", bad,
       IF ~bad THEN <<>>
       ELSE IF Len(e.data) # Len(f) THEN <<"buffer size in cells", Len(e.data), "reference", Len(f)>>
       ELSE LET i == CHOOSE j \in 1..Len(f) : e.data[j] # f[j] /\ \A k \in 1..(j - 1) : e.data[k] = f[k] IN
            <<"buffer cell (line, column, 1-based)", ((i - 1) \div g.w) + 1, ((i - 1) % g.w) + 1,
              "holds <<ch, fg, bg>>", <<CodeCh(e.data[i]), CodeFg(e.data[i]), CodeBg(e.data[i])>>,
              "reference", <<CodeCh(f[i]), CodeFg(f[i]), CodeBg(f[i])>>, "after", e.k>> >> >>
====
