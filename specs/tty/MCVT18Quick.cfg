CONSTANTS Ws = {1, 2, 3}  Hs = {1, 2, 3}  SBs = {0, 1, 2}  TABs = {0, 1, 2}  MaxOps = 3
  Kind = "rec"  Bug = ""  Props = {"C18"}  EmitMode = "sample"  EmitMod = 5
CONSTANT Bytes <- MCBytes
CONSTANT CurVals <- MCCurVals
CONSTANT Chunks <- MCNoChunks
CONSTANT Cols <- MCCols1
INIT Init
NEXT Next
INVARIANT NoMismatch
INVARIANT OffsetInBuffer
INVARIANT EmitCase
VIEW ViewN
CHECK_DEADLOCK FALSE
