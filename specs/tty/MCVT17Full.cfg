CONSTANTS Ws = {1, 2, 3}  Hs = {1, 2, 3}  SBs = {0, 1, 2}  TABs = {0, 1, 2}  MaxOps = 5
  Kind = "rec"  Bug = ""  Props = {"C17"}  EmitMode = "sample"  EmitMod = 16
CONSTANT Bytes <- MCBytes
CONSTANT CurVals <- MCCurVals
CONSTANT Chunks <- MCChunk1
CONSTANT Cols <- MCCols1
INIT Init
NEXT Next
INVARIANT NoMismatch
INVARIANT OffsetInBuffer
INVARIANT EmitCase
VIEW View17N
CHECK_DEADLOCK FALSE
