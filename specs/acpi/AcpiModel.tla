---- MODULE AcpiModel ----
(***************************************************************************)
(* Design model for C14: Init chooses a firmware image, the actions follow   *)
(* the driver (kernel/device/acpi/acpi.go):                                  *)
(*   ScanSlot     locateRSDT: next 16-byte slot that carries the signature,  *)
(*                checksum over 20 bytes (revision 0) or the 36-byte         *)
(*                extended structure (otherwise); accept -> choose the root  *)
(*   NextEntry    enumerateTables: map the listed table, checksum it,        *)
(*                register or report-and-skip; a good FADT leads to the DSDT *)
(*   Finish       the observation (shape of the harness event) is judged by  *)
(*                AcpiEnum!Judge, the operator that judges the real code     *)
(* NoMismatch is C14 for the design.  Bug # "" re-creates a realistic wrong  *)
(* design which TLC must reject.                                             *)
(***************************************************************************)
EXTENDS AcpiEnum, TraceLib, CSV, IOUtils
CONSTANTS Bug, Emit, Images

VARIABLES img, pc, ci, root, ei, probe, init, map, rep, mismatch
vars == <<img, pc, ci, root, ei, probe, init, map, rep, mismatch>>

Init == /\ img \in Images
        /\ pc = "scan" /\ ci = 1 /\ root = "" /\ ei = 1 /\ probe = "" /\ init = "" /\ map = {} /\ rep = {}
        /\ mismatch = <<>>

\* candidates in address order (the scan walks the window upwards)
RECURSIVE SortCands(_)
SortCands(S) == IF S = {} THEN <<>> ELSE LET m == CHOOSE c \in S : \A d \in S : c.slot <= d.slot IN <<m>> \o SortCands(S \ {m})
Cands == SortCands(Range(img.cands))

ImplValid(c) == IF ~c.sig /\ Bug # "Sig7" THEN FALSE             \* the signature loop rejects the slot
                ELSE IF Bug = "NoRsdpChecksum" THEN TRUE
                ELSE IF (c.rev = 0) # (Bug = "RevInverted") THEN c.s20
                ELSE c.s36 /\ (Bug = "Ext40" => c.tail = 0)          \* Ext40: 40 bytes summed (Go's padded struct size)
ImplRoot(c) == IF (c.rev = 0) # (Bug = "RevInverted") THEN "rsdt" ELSE "xsdt"

ScanSlot == /\ pc = "scan"
            /\ IF ci > Len(Cands)
               THEN /\ probe' = "none" /\ pc' = "finish" /\ UNCHANGED <<ci, root>>
               ELSE IF ImplValid(Cands[ci])
               THEN /\ probe' = "found" /\ root' = ImplRoot(Cands[ci]) /\ pc' = "enum" /\ UNCHANGED ci
               ELSE /\ ci' = ci + 1 /\ UNCHANGED <<probe, root, pc>>
            /\ UNCHANGED <<img, ei, init, map, rep, mismatch>>

Entries == IF root = "rsdt" THEN img.rsdt ELSE img.xsdt
ImplGood(t) == Bug = "NoTableChecksum" \/ Good(t)
\* the pointer the driver follows from a FADT (0 = it would map physical address 0)
ImplDsdt(f) == IF Bug = "IgnoreXdsdt" THEN f.p32 ELSE IF f.p32 # 0 THEN f.p32 ELSE f.p64

NextEntry ==
  /\ pc = "enum"
  /\ IF \/ Bug = "WidthSwapped" /\ Len(Entries) > 0
        \/ Bug = "Trunc32" /\ root = "xsdt" /\ (img.xhigh \/ \E i \in 1..Len(Entries) : img.tables[Entries[i]].high)
     THEN /\ init' = "fault" /\ pc' = "finish" /\ UNCHANGED <<ei, map, rep>>       \* entries read with the wrong width / 64-bit addresses cut to 32 bits are wild pointers
     ELSE IF ei > Len(Entries)
     THEN /\ init' = "ok" /\ pc' = "finish" /\ UNCHANGED <<ei, map, rep>>
     ELSE LET i == Entries[ei]  t == img.tables[i] IN
          IF ~ImplGood(t) /\ Bug = "StopOnBad"
          THEN /\ init' = "error" /\ pc' = "finish" /\ UNCHANGED <<ei, map, rep>>
          ELSE IF ~ImplGood(t) /\ ~(Bug = "DsdtFromBadFadt" /\ IsFadt(t))
          THEN /\ rep' = rep \cup {t.sig} /\ ei' = ei + 1 /\ UNCHANGED <<init, pc, map>>
          ELSE LET m1 == IF ImplGood(t) THEN map \cup {<<t.sig, i>>} ELSE map
                   r1 == IF ImplGood(t) THEN rep ELSE rep \cup {t.sig}
                   d == IF IsFadt(t) THEN ImplDsdt(t) ELSE -1
               IN IF d = -1 THEN /\ map' = m1 /\ rep' = r1 /\ ei' = ei + 1 /\ UNCHANGED <<init, pc>>
                  ELSE IF d = 0 THEN /\ init' = "fault" /\ pc' = "finish" /\ map' = m1 /\ rep' = r1 /\ UNCHANGED ei
                  ELSE IF ImplGood(img.tables[d])
                  THEN /\ map' = m1 \cup {<<img.tables[d].sig, d>>} /\ rep' = r1 /\ ei' = ei + 1 /\ UNCHANGED <<init, pc>>
                  ELSE /\ map' = m1 /\ rep' = r1 \cup {img.tables[d].sig} /\ ei' = ei + 1 /\ UNCHANGED <<init, pc>>
  /\ UNCHANGED <<img, ci, root, probe, mismatch>>

RECURSIVE SeqOf(_)
SeqOf(S) == IF S = {} THEN <<>> ELSE LET x == CHOOSE y \in S : TRUE IN <<x>> \o SeqOf(S \ {x})
Obs == [probe |-> probe, root |-> root, init |-> init, map |-> SeqOf(map), rep |-> SeqOf(rep)]

Finish == /\ pc = "finish"
          /\ pc' = "done"
          /\ mismatch' = FirstFailIn({"C14"}, ci, Judge(img, Obs))
          /\ UNCHANGED <<img, ci, root, ei, probe, init, map, rep>>

Next == ScanSlot \/ NextEntry \/ Finish

NoMismatch == mismatch = <<>>
\* leg G: every image of the scope is written out as a case for the Go harness
EmitCase == (Emit /\ pc = "done") => CSVWrite("%1$s", <<ToJson([img |-> img])>>, IOEnv.CASES)
====
