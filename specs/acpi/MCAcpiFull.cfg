CONSTANTS Bug = ""  Emit = TRUE  MaxT = 4  Dev = {}
CONSTANT Images <- MCImages
INIT Init
NEXT Next
INVARIANT NoMismatch
INVARIANT EmitCase
CHECK_DEADLOCK FALSE
