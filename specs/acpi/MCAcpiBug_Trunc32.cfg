CONSTANTS Bug = "Trunc32"  Emit = FALSE  MaxT = 2  Dev = {}
CONSTANT Images <- MCImages
INIT Init
NEXT Next
INVARIANT NoMismatch
INVARIANT EmitCase
CHECK_DEADLOCK FALSE
