---- MODULE AcpiTrace ----
(* Trace monitor for C14: every "acpi" event holds the abstract firmware image the harness built   *)
(* (img) and what the real kernel/device/acpi package did with it (obs); AcpiEnum!Judge decides.   *)
EXTENDS AcpiEnum, TraceLib, IOUtils
Trace == ndJsonDeserialize(IOEnv.TRACE)

VARIABLES l, mismatch
vars == <<l, mismatch>>

Init == l = 1 /\ mismatch = <<>>
Next == /\ l <= Len(Trace) /\ mismatch = <<>>
        /\ l' = l + 1
        /\ LET e == Trace[l] IN
           mismatch' = IF e.k = "acpi" THEN FirstFailIn({"C14"}, l, Judge(e.img, e.obs)) ELSE <<>>
        /\ Report(mismatch')
NoMismatch == mismatch = <<>>
Accepted == AllConsumed(Len(Trace))
====
