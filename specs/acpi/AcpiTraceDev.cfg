CONSTANT Dev = {"xdsdt-only"}
INIT Init
NEXT Next
POSTCONDITION Accepted
CHECK_DEADLOCK FALSE
