---- MODULE MCAcpi ----
(* Small scope for C14 (DESIGN 4.12).                                                              *)
(*  window family : 4 slots, each empty / valid (revision 0, 1, 2; the revision-2 one also with a   *)
(*                  non-zero byte behind the 36-byte structure) / decoy (signature, bad checksum;   *)
(*                  revision 0 or 2) / near-miss signature with a good checksum, at most one valid; the two root tables list different tables  *)
(*  neighbour family: decoys / near misses in the slot right before, or two slots before, another       *)
(*                  candidate; a revision-0 candidate in model slot 4 sits in the last slot it fits in  *)
(*  enum family   : root pointer fixed; every list of <= MaxT distinct tables over APIC, SSDT, HPET, *)
(*                  FACP in every order with every good/bad assignment; FADT with 32-bit, 64-bit or  *)
(*                  both DSDT pointers; DSDT good/bad; the other root table lists a different table; *)
(*                  for the 64-bit root: everything low, or XSDT + listed tables (+ the DSDT behind  *)
(*                  X_DSDT alone) at or above 4 GiB                                                  *)
EXTENDS AcpiModel
CONSTANTS MaxT

T(sig, len, bad) == [sig |-> sig, len |-> len, bad |-> bad, p32 |-> 0, p64 |-> 0, high |-> FALSE]
TH(sig, len, bad, hi) == [T(sig, len, bad) EXCEPT !.high = hi]
Cand(slot, rev, s20, s36, tail) == [slot |-> slot, rev |-> rev, sig |-> TRUE, s20 |-> s20, s36 |-> s36, tail |-> tail]

\* ---- window family
SlotKinds == {"none", "V0", "V1", "V2", "V2t", "D0", "D2", "N0"}
IsValidKind(k) == k \in {"V0", "V1", "V2", "V2t"}
CandOf(slot, k) == CASE k = "V0"  -> Cand(slot, 0, TRUE, TRUE, 0)
                     [] k = "V1"  -> Cand(slot, 1, TRUE, TRUE, 0)
                     [] k = "V2"  -> Cand(slot, 2, TRUE, TRUE, 0)
                     [] k = "V2t" -> Cand(slot, 2, TRUE, TRUE, 7)
                     [] k = "D0"  -> Cand(slot, 0, FALSE, FALSE, 0)
                     [] k = "D2"  -> Cand(slot, 2, TRUE, FALSE, 0)
                     [] k = "N0"  -> [Cand(slot, 0, TRUE, TRUE, 0) EXCEPT !.sig = FALSE]
Windows == {w \in [1..4 -> SlotKinds] : Cardinality({i \in 1..4 : IsValidKind(w[i])}) <= 1}
RECURSIVE CandSeq(_, _)
CandSeq(w, i) == IF i > 4 THEN <<>> ELSE (IF w[i] = "none" THEN <<>> ELSE <<CandOf(i, w[i])>>) \o CandSeq(w, i + 1)
\* (the 64-bit root table and the table it lists sit above 4 GiB)
WindowImages == { [cands |-> CandSeq(w, 1), rsdt |-> <<1>>, xsdt |-> <<2>>, xhigh |-> TRUE,
                   tables |-> <<T("APIC", 44, -1), TH("HPET", 56, -1, TRUE)>>] : w \in Windows }

\* ---- neighbour family: candidates in adjacent slots (model slots 3, 5, 6 = real slots 4100, 4101, 4102).  A revision-0
\* decoy or near miss may sit in the slot right before another candidate (its last 4 bytes are the neighbour's "RSD "),
\* any revision-0 candidate two slots before one.
Win(cs) == [cands |-> cs, rsdt |-> <<1>>, xsdt |-> <<2>>, xhigh |-> TRUE,
            tables |-> <<T("APIC", 44, -1), TH("HPET", 56, -1, TRUE)>>]
NeighbourImages ==
  { Win(<<CandOf(3, d), CandOf(5, v)>>) : d \in {"D0", "N0"}, v \in {"V0", "V1", "V2", "V2t", "D2"} }
  \cup { Win(<<CandOf(3, d), CandOf(6, v)>>) : d \in {"D0", "N0"}, v \in {"V0", "V2", "D0", "D2"} }
  \cup { Win(<<CandOf(3, "V0"), CandOf(6, v)>>) : v \in {"D0", "D2"} }
  \cup { Win(<<CandOf(3, "D0"), CandOf(5, "D0"), CandOf(6, v)>>) : v \in {"V0", "V2"} }

Sigs == {"APIC", "SSDT", "HPET", "FACP"}
LenOf(sig) == CASE sig = "APIC" -> 44 [] sig = "SSDT" -> 37 [] sig = "HPET" -> 56 [] OTHER -> 244
BadAt(sig) == CASE sig = "APIC" -> 9 [] sig = "SSDT" -> 36 [] sig = "HPET" -> 8 [] OTHER -> 243     \* checksum byte, last byte, revision byte, last byte
Lists == UNION { {q \in [1..n -> Sigs] : \A i, j \in 1..n : q[i] = q[j] => i = j} : n \in 0..MaxT }
HasFadt(q) == \E i \in 1..Len(q) : q[i] = "FACP"
\* tables = listed tables in list order, then the DSDT (if a FADT is listed), then the decoy the other root table lists
\* hi: everything only 64-bit pointers refer to (XSDT, the tables it lists, the DSDT behind X_DSDT alone) lies above 4 GiB
Mk(rev, q, goods, mode, dgood, hi) ==
  LET n == Len(q)
      hasF == HasFadt(q)
      d == IF hasF THEN n + 1 ELSE 0
      decoy == IF hasF THEN n + 2 ELSE n + 1
      tb == [i \in 1..n |-> IF q[i] = "FACP"
                             THEN [sig |-> "FACP", len |-> IF mode = "32" /\ rev = 0 THEN 116 ELSE 244,
                                   bad |-> IF goods[i] THEN -1 ELSE (IF mode = "32" /\ rev = 0 THEN 115 ELSE 243),
                                   p32 |-> IF mode \in {"32", "both"} THEN d ELSE 0, p64 |-> IF mode \in {"64", "both"} THEN d ELSE 0,
                                   high |-> hi]
                             ELSE TH(q[i], LenOf(q[i]), IF goods[i] THEN -1 ELSE BadAt(q[i]), hi)]
      all == tb \o (IF hasF THEN <<TH("DSDT", 61, IF dgood THEN -1 ELSE 60, hi /\ mode = "64")>> ELSE <<>>) \o <<T("DCOY", 36, -1)>>
      lst == [i \in 1..n |-> i]
  IN [cands |-> <<Cand(2, rev, TRUE, TRUE, 0)>>,
      rsdt |-> IF rev = 0 THEN lst ELSE <<decoy>>, xsdt |-> IF rev = 0 THEN <<decoy>> ELSE lst, tables |-> all, xhigh |-> hi]
His(rev) == IF rev = 0 THEN {FALSE} ELSE BOOLEAN           \* (revision 0 follows 32-bit pointers only)
MCEnumImages ==
  UNION { { Mk(rev, q, goods, "32", TRUE, hi) : goods \in [1..Len(q) -> BOOLEAN], hi \in His(rev) } : rev \in {0, 2}, q \in {l \in Lists : ~HasFadt(l)} }
  \cup UNION { { Mk(rev, q, goods, mode, dg, hi) : goods \in [1..Len(q) -> BOOLEAN], dg \in BOOLEAN, hi \in His(rev),
                                                   mode \in (IF rev = 0 THEN {"32", "both"} ELSE {"32", "64", "both"}) }
               : rev \in {0, 2}, q \in {l \in Lists : HasFadt(l)} }
MCImages == WindowImages \cup NeighbourImages \cup MCEnumImages
====
