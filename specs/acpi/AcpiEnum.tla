---- MODULE AcpiEnum ----
(***************************************************************************)
(* C14 - what a firmware memory image MEANS for ACPI table discovery.       *)
(*                                                                          *)
(* image = [cands  |-> <<[slot, rev, sig, s20, s36, tail]>>,  root-pointer    *)
(*                     candidates of the BIOS search window in ascending     *)
(*                     slot order (slot = 16-byte index): revision, sig =    *)
(*                     "all 8 signature bytes present" (FALSE: a near miss),  *)
(*                     "first 20 bytes sum to zero", "the 36 bytes *)
(*                     of the extended structure sum to zero", value of the  *)
(*                     byte that follows the 36-byte structure               *)
(*          rsdt   |-> <<table index>>,  entries of the 32-bit root table    *)
(*          xsdt   |-> <<table index>>,  entries of the 64-bit root table    *)
(*          tables |-> <<[sig, len, bad, p32, p64, high]>>,                  *)
(*          xhigh  |-> the 64-bit root table lies at or above 4 GiB]          *)
(* bad = -1 for a table whose bytes sum to zero, else the offset of the byte *)
(* that was corrupted after the checksum was set.  p32 / p64 are the FADT's  *)
(* 32- and 64-bit DSDT pointers as table indices (0 = null; 0 in every       *)
(* other table).  high = the table lies at or above 4 GiB (only tables no    *)
(* 32-bit pointer refers to); placement never changes the expected outcome.  *)
(* All structures have ACPI's packed binary layout; root      *)
(* tables carry revision 1 as real firmware does.                            *)
(*                                                                          *)
(* Judge compares the expected outcome with what kernel/device/acpi did.     *)
(* The same operators judge the design model (AcpiModel) and recorded        *)
(* executions of the real code (AcpiTrace).                                  *)
(***************************************************************************)
EXTENDS Integers, Sequences, FiniteSets, TLC
CONSTANT Dev          \* named deviations that are open known findings (normally {})

Range(s) == {s[i] : i \in 1..Len(s)}

\* --- root pointer: first candidate (lowest address) whose checksum is valid
\* (generators never produce a revision >= 1 candidate with s36 /\ ~s20: the statement says "its checksum")
Valid(c) == c.sig /\ (IF c.rev = 0 THEN c.s20 ELSE c.s20 /\ c.s36)
FoundIdx(img) == LET S == {i \in 1..Len(img.cands) : Valid(img.cands[i])} IN
                 IF S = {} THEN 0 ELSE CHOOSE i \in S : \A j \in S : img.cands[i].slot <= img.cands[j].slot
\* 32-bit root table for revision-0 firmware, the 64-bit one otherwise
RootOf(c) == IF c.rev = 0 THEN "rsdt" ELSE "xsdt"
Listed(img) == IF RootOf(img.cands[FoundIdx(img)]) = "rsdt" THEN img.rsdt ELSE img.xsdt

Good(t) == t.bad = -1
IsFadt(t) == t.sig = "FACP"
\* the DSDT a FADT points to: the one table designated by its non-null pointer(s)
DsdtOf(f) == IF f.p32 # 0 /\ f.p64 \in {0, f.p32} THEN f.p32
             ELSE IF f.p32 = 0 /\ f.p64 # 0 THEN f.p64
             ELSE 0
\* ... which the statement fixes unless the two pointers disagree, or only the 64-bit one is set on
\* revision-0 firmware (whose FADT has no such field)
DsdtFixed(rev, f) == \/ f.p32 # 0 /\ f.p64 \in {0, f.p32}
                     \/ f.p32 = 0 /\ f.p64 # 0 /\ rev # 0
XdsdtOnly(f) == f.p32 = 0 /\ f.p64 # 0

GoodListed(img) == {i \in Range(Listed(img)) : Good(img.tables[i])}
GoodFadts(img) == {i \in GoodListed(img) : IsFadt(img.tables[i])}
Dsdts(img) == {DsdtOf(img.tables[f]) : f \in GoodFadts(img)} \ {0}
\* registered: every listed table, plus the DSDT a checksum-valid FADT points to, iff its bytes sum to zero
ExpMap(img) == {<<img.tables[i].sig, i>> : i \in GoodListed(img) \cup {d \in Dsdts(img) : Good(img.tables[d])}}
\* reported: every such table whose bytes do not sum to zero
ExpRep(img) == {img.tables[i].sig : i \in {j \in Range(Listed(img)) \cup Dsdts(img) : ~Good(img.tables[j])}}

Constrained(img) == LET rev == img.cands[FoundIdx(img)].rev IN
  \A f \in GoodFadts(img) : /\ DsdtFixed(rev, img.tables[f])
                            /\ ~("xdsdt-only" \in Dev /\ XdsdtOnly(img.tables[f]))

\* obs = [probe |-> "found" | "none" | "fault" | "panic" | "crash" | "hang",
\*        root  |-> "rsdt" | "xsdt" | "other" | "",       which root table the returned driver follows
\*        init  |-> "ok" | "error" | "fault" | ... | "",   outcome of DriverInit
\*        map   |-> <<<<signature, index of the table the registered header points to (0: none)>>>>,
\*        rep   |-> <<signatures of the image that occur in the text written to the init log>>]
\* (TLC builds the whole verdict tuple eagerly: explanations are guarded by their condition)
Chk(failed, why) == <<"C14", failed, why>>
Judge(img, o) ==
  LET fi == FoundIdx(img)
      found == fi # 0 /\ o.probe = "found"
      rootOk == found /\ o.root = RootOf(img.cands[fi])
      con == rootOk /\ Constrained(img)
      c1 == o.probe \notin {"found", "none"}
      c2 == fi = 0 /\ o.probe = "found"
      c3 == fi # 0 /\ o.probe = "none"
      c4 == found /\ ~rootOk
      c5 == con /\ o.init # "ok"
      c6 == con /\ o.init = "ok" /\ Range(o.map) # ExpMap(img)
      c7 == con /\ o.init = "ok" /\ ~(ExpRep(img) \subseteq Range(o.rep))
  IN <<
  Chk(c1, <<"probe did not return normally (fault = read outside the firmware image)", o.probe>>),
  Chk(c2, <<"a driver was returned although no root pointer has a valid checksum", img.cands>>),
  Chk(c3, IF c3 THEN <<"valid root pointer not found", img.cands[fi], "candidates", img.cands>> ELSE <<>>),
  Chk(c4, IF c4 THEN <<"wrong root table followed", "revision", img.cands[fi].rev, "expected", RootOf(img.cands[fi]), "got", o.root>> ELSE <<>>),
  Chk(c5, IF c5 THEN <<"enumeration did not complete", o.init, "registered", o.map, "tables", img.tables, "listed", Listed(img)>> ELSE <<>>),
  Chk(c6, IF c6 THEN <<"registered tables", "expected", ExpMap(img), "got", o.map, "tables", img.tables, "listed", Listed(img)>> ELSE <<>>),
  Chk(c7, IF c7 THEN <<"table with bad checksum not reported", "expected", ExpRep(img), "got", o.rep>> ELSE <<>>)
  >>
====
