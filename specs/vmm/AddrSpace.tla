---- MODULE AddrSpace ----
(***************************************************************************)
(* Design model for C07: the kernel's downward-growing reservation cursor   *)
(* (kernel/mm/vmm/addr_space.go EarlyReserveRegion) and the two region      *)
(* mappers of map.go (MapRegion, IdentityMapRegion), transcribed over words *)
(* of module Word so that the very same text is explored                    *)
(*   (i)  with 6-bit words (LimbBits = 2, NLimbs = 3, 4-unit pages): EVERY  *)
(*        size 0..63, so every wrap of the round-up and of the subtraction  *)
(*        is inside the scope, and                                          *)
(*   (ii) with 64-bit words and boundary-structured sizes (MCAddrSpace);    *)
(*        those behaviours are written out and replayed verbatim on the     *)
(*        real code (leg G).                                                *)
(* Every action produces the event the real code would log; the event is    *)
(* judged by the operators of AddrSpaceProps (the monitor that also judges  *)
(* real traces).  The *design* is the repaired one: a size whose page       *)
(* round-up leaves the word range is rejected.  `Bug` re-creates realistic  *)
(* wrong designs, among them the arithmetic of the pinned tree              *)
(* ("RoundUpWraps"); TLC must reject each.                                  *)
(***************************************************************************)
EXTENDS Integers, Sequences, FiniteSets, TLC, Json, CSV, IOUtils
CONSTANTS LimbBits, NLimbs, PB,
          Top,            \* address of the temporary-mapping page (a word): initial cursor
          SizesFor(_),    \* cursor -> set of request sizes explored from that state
          Frames,         \* start frames (words) used by the region mappers
          OpKinds,        \* subset of {"reserve", "mapregion", "identity"}
          Budgets,        \* map-seam budgets K: the seam accepts K calls and fails on call K+1
          MaxOps,
          Bug, Emit, Props

P == INSTANCE AddrSpaceProps
W == INSTANCE Word

VARIABLES cursor,         \* earlyReserveLastUsed
          hist,           \* successful reservations so far: sequence of [a, size]
          nops, script,
          s, mismatch     \* monitor state and verdict
vars == <<cursor, hist, nops, script, s, mismatch>>

Init == /\ cursor = Top /\ hist = <<>> /\ nops = 0 /\ script = <<>>
        /\ s = P!MonInit(P!S0, [k |-> "asinit", top |-> Top, cur |-> Top]).s
        /\ mismatch = <<>>

--------------------------------------------------------------------------
(* the code *)
\* size rounded up to whole pages as the design does it: [v, fail]
Rounded(size) ==
  LET r == W!RoundUpC(size, PB) IN
  CASE Bug = "NoRoundUp"     -> [v |-> size, fail |-> FALSE]
    [] Bug = "RoundDown"     -> [v |-> W!RoundDown(size, PB), fail |-> FALSE]
    [] Bug = "RoundUpWraps"  -> [v |-> r.v, fail |-> FALSE]        \* (size + PageSize-1) & ^(PageSize-1), no overflow test
    [] OTHER                 -> [v |-> r.v, fail |-> r.c = 1]

\* EarlyReserveRegion(size) from cursor c: [ok, cur, addr]
ReserveImpl(c, size) ==
  LET r == Rounded(size) IN
  IF r.fail THEN [ok |-> FALSE, cur |-> c, addr |-> W!Zero]
  ELSE IF Bug = "DecrementBeforeTest"
       THEN LET d == W!SubC(c, r.v) IN
            IF d.c = 1 THEN [ok |-> FALSE, cur |-> d.v, addr |-> W!Zero] ELSE [ok |-> TRUE, cur |-> d.v, addr |-> d.v]
  ELSE IF Bug = "ReturnOldCursor"
       THEN IF W!Lt(c, r.v) THEN [ok |-> FALSE, cur |-> c, addr |-> W!Zero] ELSE [ok |-> TRUE, cur |-> W!Sub(c, r.v), addr |-> c]
  ELSE IF W!Lt(c, r.v) THEN [ok |-> FALSE, cur |-> c, addr |-> W!Zero]
  ELSE [ok |-> TRUE, cur |-> W!Sub(c, r.v), addr |-> W!Sub(c, r.v)]

\* number of pages the region mappers want to map for `size`
PageCount(size) ==
  LET n == W!ShiftR(Rounded(size).v, PB) IN
  CASE Bug = "PageCountUnrounded" -> W!ShiftR(size, PB)
    [] Bug = "PageCountTruncated" -> W!LowBits(n, W!Width \div 2)     \* counter kept in half a word (uint32 on amd64)
    [] OTHER -> n
\* the seam accepts K calls and fails on call K+1: calls made, and whether the seam failed
SeamFails(n, K) == W!Lt(W!FromNat(K), n)
Calls(n, K) == IF SeamFails(n, K) THEN K + 1 ELSE W!ToNat(n)
PairsUp(p0, f0, calls) == [i \in 1..calls |-> <<P!Nth(p0, i), IF Bug = "SameFrame" THEN f0 ELSE P!Nth(f0, i)>>]
\* design VARIANT (not a bug): map the region top-down, last page first - the monitor must accept it as well
PairsDown(p0, f0, calls, n) == [i \in 1..calls |-> <<W!Sub(W!Add(p0, n), W!FromNat(i)), W!Sub(W!Add(f0, n), W!FromNat(i))>>]
PairsOf(p0, f0, calls, n) == IF Bug = "VariantTopDown" THEN PairsDown(p0, f0, calls, n) ELSE PairsUp(p0, f0, calls)

Step(e, c2, newhist, op) ==
  LET m == P!Mon(s, e) IN
  /\ cursor' = c2 /\ hist' = newhist /\ nops' = nops + 1 /\ script' = Append(script, op)
  /\ s' = m.s /\ mismatch' = P!FirstFail(nops + 1, m.cs)

Reserve(size) ==
  LET r == ReserveImpl(cursor, size)
      e == [k |-> "reserve", size |-> size, res |-> IF r.ok THEN "ok" ELSE "err", addr |-> r.addr, cur |-> r.cur]
  IN Step(e, r.cur, IF r.ok THEN Append(hist, [a |-> r.addr, size |-> size]) ELSE hist,
          [op |-> "reserve", size |-> size, f |-> W!Zero, budget |-> 0])

MapRegion(f, size, K) ==
  LET fail0 == Rounded(size).fail
      r  == IF fail0 THEN [ok |-> FALSE, cur |-> cursor, addr |-> W!Zero] ELSE ReserveImpl(cursor, Rounded(size).v)
      n  == PageCount(size)
      sf == r.ok /\ SeamFails(n, K)
      pg == W!ShiftR(r.addr, PB)
      e  == [k |-> "mapregion", f |-> f, size |-> size, budget |-> K,
             res |-> IF ~r.ok THEN "err" ELSE IF sf THEN "seamerr" ELSE "ok",
             page |-> IF r.ok /\ ~sf THEN pg ELSE W!Zero, cur |-> r.cur,
             pairs |-> IF r.ok THEN PairsOf(pg, f, Calls(n, K), n) ELSE <<>>, seamfail |-> sf]
  IN Step(e, r.cur, IF r.ok THEN Append(hist, [a |-> r.addr, size |-> size]) ELSE hist,
          [op |-> "mapregion", size |-> size, f |-> f, budget |-> K])

Identity(f, size, K) ==
  LET fail0 == Rounded(size).fail
      n  == PageCount(size)
      sf == ~fail0 /\ SeamFails(n, K)
      e  == [k |-> "identity", f |-> f, size |-> size, budget |-> K,
             res |-> IF fail0 THEN "err" ELSE IF sf THEN "seamerr" ELSE "ok",
             page |-> IF fail0 \/ sf THEN W!Zero ELSE f, cur |-> cursor,
             pairs |-> IF fail0 THEN <<>> ELSE PairsOf(f, f, Calls(n, K), n), seamfail |-> sf]
  IN Step(e, cursor, hist, [op |-> "identity", size |-> size, f |-> f, budget |-> K])

Next == /\ mismatch = <<>> /\ nops < MaxOps
        /\ \E size \in SizesFor(cursor) :
             \/ ("reserve" \in OpKinds /\ Reserve(size))
             \/ ("mapregion" \in OpKinds /\ \E f \in Frames, K \in Budgets : MapRegion(f, size, K))
             \/ ("identity" \in OpKinds /\ \E f \in Frames, K \in Budgets : Identity(f, size, K))

--------------------------------------------------------------------------
(* properties *)
NoMismatch == mismatch = <<>>          \* the monitor (C07 as it judges real traces) accepts every step of the design

\* the formal statement, directly on the history of successful reservations
EndOf(r) == W!AddC(r.a, r.size)
RegionsSound ==
  \A i \in 1..Len(hist) :
    /\ P!Aligned(hist[i].a)
    /\ EndOf(hist[i]).c = 0                                              \* never wraps
    /\ W!Le(EndOf(hist[i]).v, Top)                                       \* below the temporary-mapping page
    /\ \A j \in 1..(i - 1) : W!Le(EndOf(hist[i]).v, hist[j].a)           \* entirely below every earlier region
PairwiseDisjoint ==
  \A i, j \in 1..Len(hist) : i # j =>
     \/ W!Le(EndOf(hist[i]).v, hist[j].a) \/ W!Le(EndOf(hist[j]).v, hist[i].a)
CursorIsLowest == Len(hist) > 0 => cursor = hist[Len(hist)].a

\* leg G: every maximal behaviour is written out for the Go harness (64-bit scope only)
EmitScript == (Emit /\ nops = MaxOps) => CSVWrite("%1$s", <<ToJson([script |-> script])>>, IOEnv.CASES)

ViewNoScript == <<cursor, hist, nops, s, mismatch>>
ViewAll == vars
====
