---- MODULE AddrSpaceProps ----
(***************************************************************************)
(* Property C07 (kernel virtual-region reservations never overlap and      *)
(* never wrap) written once as a *monitor*: operators that take the        *)
(* monitor state `s` and one observed event `e` and return the next        *)
(* monitor state plus the checks the event has to pass.                    *)
(*                                                                          *)
(* The same operators judge (a) the design model AddrSpace.tla, explored    *)
(* exhaustively by TLC over 6-bit words (every size, every wrap case) and   *)
(* over 64-bit words with boundary-structured sizes, and (b) traces         *)
(* recorded from the real EarlyReserveRegion / MapRegion /                  *)
(* IdentityMapRegion (AddrSpaceTrace.tla).  Machine values are words (limb  *)
(* tuples, lib/Word.tla).                                                   *)
(*                                                                          *)
(* The monitor is property-shaped, not implementation-shaped: a successful  *)
(* reservation may return ANY page-aligned address `a` with                 *)
(*      a <= low  /\  low - a >= size                                       *)
(* where `low` is the start of the lowest region handed out so far          *)
(* (initially the temporary-mapping page).  Because every region lies below *)
(* all earlier ones, pairwise disjointness follows (checked separately as   *)
(* an invariant of the model).  A request that does not fit has no such     *)
(* address, so any "success" for it is flagged.                             *)
(*                                                                          *)
(* Event shapes (k = kind):                                                 *)
(*  asinit    top cur                      cursor reset to the temp page    *)
(*  reserve   size res addr cur            EarlyReserveRegion(size)         *)
(*  mapregion f size res page cur pairs capped   MapRegion(f, size, _)      *)
(*  identity  f size res page cur pairs capped   IdentityMapRegion(f,size,_)*)
(*  reset                                  end of one case                  *)
(* size/addr/cur/top/f/page: words; res: "ok" | "err" | "panic";            *)
(* cur: the package's reservation cursor after the call (projected state);  *)
(* pairs: the <<page, frame>> numbers handed to the map seam, in call order;*)
(* capped: the seam refused to record more than its cap (only reachable by  *)
(* code that maps more pages than any generated request needs).             *)
(***************************************************************************)
EXTENDS Integers, Sequences, FiniteSets
CONSTANTS LimbBits, NLimbs, PB, Props
W == INSTANCE Word

S0 == [low |-> W!Zero, cur |-> W!Zero]

Aligned(a) == W!IsZero(W!LowBits(a, PB))
\* pages needed to cover `size` bytes: n (a word) and whether the round-up leaves the word range
Need(size) == LET r == W!RoundUpC(size, PB) IN [n |-> W!ShiftR(r.v, PB), ovf |-> r.c = 1]
\* [a, a+size) lies below every earlier region and below the temporary-mapping page, without wrapping
Below(s, a, size) == W!Le(a, s.low) /\ W!Le(size, W!Sub(s.low, a))
Nth(w, i) == W!Add(w, W!FromNat(i - 1))

FirstFail(line, cs) ==
  LET S == {i \in 1..Len(cs) : cs[i][1] \in Props /\ cs[i][2]} IN
  IF S = {} THEN <<>> ELSE LET i == CHOOSE j \in S : \A k \in S : j <= k IN <<line, cs[i][1], cs[i][3]>>

MonInit(s, e) == [s |-> [low |-> e.top, cur |-> e.cur], cs |-> <<>>]

\* checks shared by every successful reservation (plain or through MapRegion)
PlacementChecks(s, a, size) == <<
  <<"C07", ~Aligned(a), <<"reserved region is not page aligned", a>> >>,
  <<"C07", ~W!Le(a, s.low), <<"reserved region does not lie below the earlier regions / the temporary-mapping page", a, "lowest so far", s.low>> >>,
  <<"C07", W!Le(a, s.low) /\ ~W!Le(size, W!Sub(s.low, a)),
           <<"reserved region is smaller than requested (overlaps what lies above it or wrapped)", a, "size", size, "room", W!Sub(s.low, a)>> >> >>

MonReserve(s, e) ==
  IF e.res = "ok"
  THEN [s |-> [low |-> e.addr, cur |-> e.cur], cs |-> PlacementChecks(s, e.addr, e.size)]
  ELSE [s |-> [s EXCEPT !.cur = e.cur],
        cs |-> <<
          <<"C07", e.res = "panic", <<"EarlyReserveRegion panicked", e.size>> >>,
          <<"C07", e.res # "panic" /\ e.cur # s.cur, <<"failed reservation changed the reservation cursor", s.cur, e.cur>> >> >>]

\* the recorded map-seam calls are exactly n consecutive (page, frame) pairs starting at (p0, f0)
PairChecks(e, need, p0, f0) == <<
  <<"C07", e.capped, "region mapping issued more map calls than any generated request needs">>,
  <<"C07", need.ovf, <<"size cannot be covered by whole pages (round-up leaves the word range) but the mapping reported success", e.size>> >>,
  <<"C07", ~need.ovf /\ W!FromNat(Len(e.pairs)) # need.n,
           <<"number of pages mapped", Len(e.pairs), "pages needed to cover the size", need.n>> >>,
  <<"C07", \E i \in 1..Len(e.pairs) : e.pairs[i] # <<Nth(p0, i), Nth(f0, i)>>,
           "map calls are not consecutive pages to consecutive frames starting at the region start">> >>

MonMapRegion(s, e) ==
  LET a == W!ShiftL(e.page, PB) IN
  IF e.res = "ok"
  THEN [s |-> [low |-> a, cur |-> e.cur],
        cs |-> PlacementChecks(s, a, e.size) \o PairChecks(e, Need(e.size), e.page, e.f)]
  ELSE [s |-> [s EXCEPT !.cur = e.cur],
        cs |-> <<
          <<"C07", e.res = "panic", <<"MapRegion panicked", e.size>> >>,
          <<"C07", e.capped, "region mapping issued more map calls than any generated request needs">>,
          <<"C07", e.res # "panic" /\ e.cur # s.cur, <<"failed region mapping changed the reservation cursor", s.cur, e.cur>> >>,
          <<"C07", e.res # "panic" /\ Len(e.pairs) # 0, <<"failed region mapping mapped pages", Len(e.pairs)>> >> >>]

MonIdentity(s, e) ==
  IF e.res = "ok"
  THEN [s |-> [s EXCEPT !.cur = e.cur],
        cs |-> << <<"C07", e.page # e.f, <<"identity region does not start at the page with the frame's own number", e.page, e.f>> >> >>
               \o PairChecks(e, Need(e.size), e.f, e.f)]
  ELSE [s |-> [s EXCEPT !.cur = e.cur],
        cs |-> <<
          <<"C07", e.res = "panic", <<"IdentityMapRegion panicked", e.size>> >>,
          <<"C07", e.capped, "region mapping issued more map calls than any generated request needs">> >>]

Mon(s, e) ==
  CASE e.k = "asinit"    -> MonInit(s, e)
    [] e.k = "reserve"   -> MonReserve(s, e)
    [] e.k = "mapregion" -> MonMapRegion(s, e)
    [] e.k = "identity"  -> MonIdentity(s, e)
    [] e.k = "reset"     -> [s |-> S0, cs |-> <<>>]
====
