---- MODULE AddrSpaceProps ----
(***************************************************************************)
(* Property C07 (kernel virtual-region reservations never overlap and      *)
(* never wrap) written once as a *monitor*: operators that take the        *)
(* monitor state `s` and one observed event `e` and return the next        *)
(* monitor state plus the checks the event has to pass.                    *)
(*                                                                          *)
(* The same operators judge (a) the design model AddrSpace.tla, explored    *)
(* exhaustively by TLC over 6-bit words (every size, every wrap case) and   *)
(* over 64-bit words with boundary-structured sizes, and (b) traces         *)
(* recorded from the real EarlyReserveRegion / MapRegion /                  *)
(* IdentityMapRegion (AddrSpaceTrace.tla).  Machine values are words (limb  *)
(* tuples, lib/Word.tla).                                                   *)
(*                                                                          *)
(* The monitor is property-shaped, not implementation-shaped: a successful  *)
(* reservation may return ANY page-aligned address `a` with                 *)
(*      a <= low  /\  low - a >= size                                       *)
(* where `low` is the start of the lowest region handed out so far          *)
(* (initially the temporary-mapping page).  Because every region lies below *)
(* all earlier ones, pairwise disjointness follows (checked separately as   *)
(* an invariant of the model).  A request that does not fit has no such     *)
(* address, so any "success" for it is flagged.                             *)
(*                                                                          *)
(* Event shapes (k = kind):                                                 *)
(*  asinit    top cur                      cursor reset to the temp page    *)
(*  reserve   size res addr cur            EarlyReserveRegion(size)         *)
(*  mapregion f size budget res page cur pairs seamfail  MapRegion(f,size,_)*)
(*  identity  f size budget res page cur pairs seamfail  IdentityMapRegion  *)
(*  reset                                  end of one case                  *)
(* size/addr/cur/top/f/page: words; res: "ok" | "err" | "seamerr" (the very *)
(* error the map seam returned came back) | "panic";                        *)
(* cur: the package's reservation cursor after the call (projected state);  *)
(* budget K: the map seam accepts K calls and fails on call K+1 (an input);  *)
(* pairs: the <<page, frame>> numbers of ALL calls made to the map seam, in  *)
(* call order (including the failing one); seamfail: call K+1 happened.     *)
(* The ORDER of the map calls is not part of the statement: success <=> the  *)
(* issued pairs are exactly {(start+i, frame+i) : i < ceil(size/page)}, each *)
(* once; a mapper whose seam fails at call K+1 must have issued K+1 distinct *)
(* members of that set and return that error - so huge satisfiable sizes     *)
(* (2^32 pages and more) are checked with a small K.                         *)
(***************************************************************************)
EXTENDS Integers, Sequences, FiniteSets
CONSTANTS LimbBits, NLimbs, PB, Props
W == INSTANCE Word

S0 == [low |-> W!Zero, cur |-> W!Zero]

Aligned(a) == W!IsZero(W!LowBits(a, PB))
\* pages needed to cover `size` bytes: n (a word) and whether the round-up leaves the word range
Need(size) == LET r == W!RoundUpC(size, PB) IN [n |-> W!ShiftR(r.v, PB), ovf |-> r.c = 1]
\* [a, a+size) lies below every earlier region and below the temporary-mapping page, without wrapping
Below(s, a, size) == W!Le(a, s.low) /\ W!Le(size, W!Sub(s.low, a))
Nth(w, i) == W!Add(w, W!FromNat(i - 1))

FirstFail(line, cs) ==
  LET S == {i \in 1..Len(cs) : cs[i][1] \in Props /\ cs[i][2]} IN
  IF S = {} THEN <<>> ELSE LET i == CHOOSE j \in S : \A k \in S : j <= k IN <<line, cs[i][1], cs[i][3]>>

MonInit(s, e) == [s |-> [low |-> e.top, cur |-> e.cur], cs |-> <<>>]

\* checks shared by every successful reservation (plain or through MapRegion)
PlacementChecks(s, a, size) == <<
  <<"C07", ~Aligned(a), <<"reserved region is not page aligned", a>> >>,
  <<"C07", ~W!Le(a, s.low), <<"reserved region does not lie below the earlier regions / the temporary-mapping page", a, "lowest so far", s.low>> >>,
  <<"C07", W!Le(a, s.low) /\ ~W!Le(size, W!Sub(s.low, a)),
           <<"reserved region is smaller than requested (overlaps what lies above it or wrapped)", a, "size", size, "room", W!Sub(s.low, a)>> >> >>

MonReserve(s, e) ==
  IF e.res = "ok"
  THEN [s |-> [low |-> e.addr, cur |-> e.cur], cs |-> PlacementChecks(s, e.addr, e.size)]
  ELSE [s |-> [s EXCEPT !.cur = e.cur],
        cs |-> <<
          <<"C07", e.res = "panic", <<"EarlyReserveRegion panicked", e.size>> >>,
          <<"C07", e.res # "panic" /\ e.cur # s.cur, <<"failed reservation changed the reservation cursor", s.cur, e.cur>> >> >>]

\* The statement fixes WHICH pages are mapped to WHICH frames, not the order of the map calls.
\* Expected set for a region of n pages starting at page p0 / frame f0: {(p0 + i, f0 + i) : i < n}.
\* Membership of a pair without enumerating the (possibly 2^32 and more) members:
Off(pr, f0) == W!Sub(pr[2], f0)                                    \* which member it would be
Member(pr, p0, f0, n) == W!Lt(Off(pr, f0), n) /\ pr[1] = W!Add(p0, Off(pr, f0))
AllMembers(e, p0, f0, n) == \A i \in 1..Len(e.pairs) : Member(e.pairs[i], p0, f0, n)
Distinct(e) == Cardinality({e.pairs[i] : i \in 1..Len(e.pairs)}) = Len(e.pairs)
\* where a region containing pair pr (as some member) starts
StartOf(pr, f0) == W!Sub(pr[1], Off(pr, f0))

\* outcome checks shared by both region mappers; p0/f0: where the region starts.
\*  success           <=> the issued pairs are exactly the expected set, each once (count = n, distinct, all members)
\*  seam fails at K+1 (only legal when more than K pages are needed): exactly K+1 distinct members, the seam's error returned
MapperChecks(e, need, p0, f0, what) == <<
  <<"C07", e.res = "panic", <<what, "panicked", e.size>> >>,
  <<"C07", e.res = "ok" /\ need.ovf,
           <<what, "size cannot be covered by whole pages (round-up leaves the word range) but the mapping reported success", e.size>> >>,
  <<"C07", e.res = "ok" /\ ~need.ovf /\ (e.seamfail \/ W!FromNat(Len(e.pairs)) # need.n),
           <<what, "reported success after mapping", Len(e.pairs), "page(s); pages needed to cover the size", need.n>> >>,
  <<"C07", e.seamfail /\ e.res \notin {"seamerr", "panic"},
           <<what, "the map seam failed but the mapper returned", e.res>> >>,
  <<"C07", ~e.seamfail /\ e.res = "seamerr", <<what, "returned the seam's error although the seam did not fail">> >>,
  <<"C07", e.seamfail /\ Len(e.pairs) # e.budget + 1, <<what, "map calls after the seam failed", Len(e.pairs), "budget", e.budget>> >>,
  <<"C07", e.seamfail /\ (need.ovf \/ ~W!Lt(W!FromNat(e.budget), need.n)),
           <<what, "issued more map calls than pages needed", Len(e.pairs), "needed", need.n>> >>,
  <<"C07", e.res \in {"ok", "seamerr"} /\ ~need.ovf /\ ~AllMembers(e, p0, f0, need.n),
           <<what, "a map call is not one of the pairs (start page + i, start frame + i), i < pages needed; region start", p0, "pages", need.n>> >>,
  <<"C07", e.res \in {"ok", "seamerr"} /\ ~Distinct(e), <<what, "the same (page, frame) pair was mapped twice">> >>,
  <<"C07", e.res = "err" /\ Len(e.pairs) # 0, <<what, "failed without a seam failure but mapped pages", Len(e.pairs)>> >> >>

\* MapRegion: on success the region start is returned; when the seam fails no page is returned and the region start
\* is derived from the first recorded call (pair (p, f) is member f - f0, so the region starts at p - (f - f0)); every
\* other call must then be a member of the same region, and that start must be a legal placement too.  After a seam
\* failure the statement does not say whether the reservation is kept, so `low` is left alone (lenient both ways).
MonMapRegion(s, e) ==
  LET p0 == IF e.res = "ok" \/ Len(e.pairs) = 0 THEN e.page ELSE StartOf(e.pairs[1], e.f)
      a  == W!ShiftL(p0, PB)
      placed == e.res = "ok" \/ (e.res = "seamerr" /\ Len(e.pairs) > 0)
  IN [s |-> [low |-> IF e.res = "ok" THEN a ELSE s.low, cur |-> e.cur],
      cs |-> MapperChecks(e, Need(e.size), p0, e.f, "MapRegion")
             \o (IF placed THEN PlacementChecks(s, a, e.size) ELSE <<>>)
             \o << <<"C07", e.res = "err" /\ e.cur # s.cur, <<"failed region mapping changed the reservation cursor", s.cur, e.cur>> >> >>]

MonIdentity(s, e) ==
  [s |-> [s EXCEPT !.cur = e.cur],
   cs |-> MapperChecks(e, Need(e.size), e.f, e.f, "IdentityMapRegion")
          \o << <<"C07", e.res = "ok" /\ e.page # e.f, <<"identity region does not start at the page with the frame's own number", e.page, e.f>> >> >>]

Mon(s, e) ==
  CASE e.k = "asinit"    -> MonInit(s, e)
    [] e.k = "reserve"   -> MonReserve(s, e)
    [] e.k = "mapregion" -> MonMapRegion(s, e)
    [] e.k = "identity"  -> MonIdentity(s, e)
    [] e.k = "reset"     -> [s |-> S0, cs |-> <<>>]
====
