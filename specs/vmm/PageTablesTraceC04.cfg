CONSTANT Props = {"C04"}
INIT Init
NEXT Next
POSTCONDITION Accepted
CHECK_DEADLOCK FALSE
