CONSTANTS Families = {"one", "rsv", "two", "three"}  Bug = ""  Emit = TRUE
  TwoFlags = {3, 6}
  TwoSizes = {5}
  ThreeSizes = {5}
  HistLen = 3
CONSTANT OneRsv <- MCOneRsvQuick
INIT Init
NEXT Next
INVARIANT NoMismatch
INVARIANT EmitCase
CHECK_DEADLOCK FALSE
