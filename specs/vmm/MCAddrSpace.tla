---- MODULE MCAddrSpace ----
EXTENDS AddrSpace
\* (i) 6-bit words: 4 page-number bits, 2 offset bits; the temporary-mapping page sits high but not at the very top,
\*     like 0xffffff7ffffff000 does in 64 bits (binary 1101|00)
MCTop6 == <<3, 1, 0>>
MCSizesAll(c) == {W!FromNat(n) : n \in 0..(W!Pow2(W!Width) - 1)}
MCFrames6 == {<<0, 0, 3>>}

\* (ii) 64-bit words, 4 KiB pages, the real temporary-mapping address 0xffffff7ffffff000
MCTop64 == <<65535, 65407, 65535, 61440>>
N(n) == W!FromNat(n)
PS == N(4096)
MCSizes64(c) ==
  { N(0), N(1), N(4095), PS, N(4097), N(8192),
    W!Sub(c, PS), W!Sub(c, N(4095)), W!Sub(c, N(1)), c, W!Add(c, N(1)),
    <<32768, 0, 0, 0>>,                      \* 2^63
    <<65535, 65535, 65535, 61440>>,          \* 2^64 - 4096: the largest size whose round-up does not wrap
    <<65535, 65535, 65535, 61441>>,          \* 2^64 - 4095: the smallest whose round-up wraps
    <<65535, 65535, 65535, 65535>> }         \* 2^64 - 1
\* satisfiable HUGE sizes: 2^32 pages and more (page count with low 32 bits zero / small); they fit below the
\* temporary-mapping page, so the mappers must go on mapping until the seam's budget is used up
MCHuge64 == { <<0, 4096, 0, 0>>,             \* 2^44 = 2^32 pages
              <<0, 4096, 0, 1>>,             \* 2^44 + 1
              <<0, 4096, 0, 20480>>,         \* 2^44 + 5 pages
              <<0, 8192, 0, 8209>>,          \* 2^45 + 2 pages + 17
              <<0, 12288, 0, 0>> }           \* 3 * 2^44
MCSizes64H(c) == MCSizes64(c) \cup MCHuge64
\* reduced family (quick tier, and sequences of three)
MCSizes64Q(c) == { N(0), N(1), N(4097), W!Sub(c, N(4095)), c, W!Add(c, N(1)),
                   <<65535, 65535, 65535, 61441>>, <<65535, 65535, 65535, 65535>>,
                   <<0, 4096, 0, 0>>, <<0, 4096, 0, 20480>>, <<0, 12288, 0, 0>> }
\* smallest family (sequences of three)
MCSizes64T(c) == { N(0), N(4097), W!Sub(c, N(4095)), W!Add(c, N(1)), <<65535, 65535, 65535, 61441>>,
                   <<0, 4096, 0, 0>>, <<0, 4096, 0, 20480>> }
MCFrames64 == {<<0, 0, 13, 61441>>}          \* frame 0xdf001 (odd: frame + i differs from frame | i at once)
====
