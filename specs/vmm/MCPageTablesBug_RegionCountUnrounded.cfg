CONSTANTS IB = 1  PB = 2  NF = 10  Leafs = {20}  Sizes = {0, 1, 4, 5}  FailPoints = {0, 1, 2, 3}  MaxOps = 2  Bug = "RegionCountUnrounded"  Emit = FALSE
  OpKinds = {"map", "unmap", "maptemp", "mapregion", "identity", "switch", "poke"}
  PokeBits = {5, 6, 63}
  Props = {"C04"}
CONSTANT U <- MCU1
CONSTANT OpPages <- MCOpPages1
CONSTANT IdPages <- MCIdPages1
CONSTANT FlagSets <- MCFlagsA
INIT Init
NEXT Next
INVARIANT NoMismatch
INVARIANT TranslateAgrees
INVARIANT Refines
INVARIANT RecursiveIntact
ACTION_CONSTRAINT EmitTransition
VIEW View
CHECK_DEADLOCK FALSE
