CONSTANTS Family = "upper"  MaxOps = 1  Bug = ""  Emit = TRUE  Wide = FALSE
CONSTANT Codes <- MCCodesTwo
INIT Init
NEXT Next
INVARIANT NoMismatch
ACTION_CONSTRAINT EmitEdge
VIEW View
CHECK_DEADLOCK FALSE
