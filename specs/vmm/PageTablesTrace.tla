---- MODULE PageTablesTrace ----
(* Trace monitor for C04: events recorded from the real kernel/mm/vmm package running on the software   *)
(* MMU (512-entry tables, 4 KiB pages, 64-bit values as 4x16-bit limbs) are judged by the operators of  *)
(* PageTablesProps, one event per step.                                                                 *)
EXTENDS Integers, Sequences, FiniteSets, TLC, Json, IOUtils, TraceLib
CONSTANT Props
P == INSTANCE PageTablesProps WITH LimbBits <- 16, NLimbs <- 4, IB <- 9, PB <- 12
Trace == ndJsonDeserialize(IOEnv.TRACE)

VARIABLES l, s, mismatch
vars == <<l, s, mismatch>>

Init == l = 1 /\ s = P!S0 /\ mismatch = <<>>
Next == /\ l <= Len(Trace) /\ mismatch = <<>>
        /\ l' = l + 1
        /\ LET m == P!Mon(s, Trace[l]) IN s' = m.s /\ mismatch' = P!FirstFail(l, m.cs)
        /\ Report(mismatch')
NoMismatch == mismatch = <<>>
Accepted == TLCGet("stats").diameter - 1 = Len(Trace)
====
