---- MODULE PageTables ----
(***************************************************************************)
(* Implementation-shaped design model of kernel/mm/vmm:                     *)
(*   walk / Map / Unmap / Translate (map.go, pdt.go) on a 4-level table     *)
(*   that is only reachable through the RECURSIVE last entry of the root,   *)
(*   PageDirectoryTable.Map / Unmap on an inactive space (swap the active   *)
(*   root's recursive entry, operate, restore), MapTemporary, MapRegion     *)
(*   (reservation cursor growing down from the temporary-mapping page) and  *)
(*   IdentityMapRegion.                                                     *)
(* Every memory access of the kernel goes through Deref(): the spec's model *)
(* of the hardware walk applied to the *virtual* entry address the code     *)
(* computes (tableAddr + index*8, then entryAddr << 9).  So TLC checks that *)
(* the recursive trick addresses the right entry for every page.            *)
(* Each action emits the event the real harness would log (projection of    *)
(* the tables by the hardware walk, flush list, new tables, digest of the   *)
(* active space) and the event is judged by PageTablesProps - the monitor   *)
(* that also judges traces of the real code.  `Bug` re-creates realistic    *)
(* wrong designs which TLC must reject.                                     *)
(* Scale: IB index bits per level (9 on amd64; 1 or 2 here), pages of       *)
(* 2^PB bytes, NF table frames.                                             *)
(***************************************************************************)
EXTENDS Integers, Sequences, FiniteSets, TLC, Json, CSV, IOUtils
CONSTANTS IB, PB, NF,
          U,           \* universe: sequence of pages <<i1,i2,i3,i4>> whose translation is projected
          OpPages,     \* pages map / unmap are applied to
          IdPages,     \* start pages of identity mappings (the frame number is the page number)
          Leafs,       \* frame numbers used as mapping targets (never dereferenced)
          FlagSets,    \* flag-bit sets callers pass (with and without 0 = present)
          Sizes,       \* region sizes in bytes
          FailPoints,  \* 0 = the allocator never fails; k = its k-th call during the operation fails
          PokeBits,    \* flag bits the environment may OR into upper-level / recursive entries (accessed, dirty, NX ...)
          OpKinds, MaxOps, Bug, Emit, Props

LB == 3
NL == 3
P == INSTANCE PageTablesProps WITH LimbBits <- LB, NLimbs <- NL
Wd == INSTANCE Word WITH LimbBits <- LB, NLimbs <- NL
Wn(n) == Wd!FromNat(n)

E == Wd!Pow2(IB)
PS == Wd!Pow2(PB)
L == E - 1                      \* last index: the recursive slot of every root
Idx == 0..L
TFrames == 0..(NF - 1)
Temp == <<L - 1, L, L, L>>      \* the temporary-mapping page (510,511,511,511 on amd64)
ZeroE == [f |-> 0, fl |-> {}]
PoisonE == [f |-> 999, fl |-> {0, 2, 5, 7, 63}]     \* what an uncleared frame holds (0xA5.. pattern: present, junk address)
ZeroTable == [i \in Idx |-> ZeroE]
PoisonTable == [i \in Idx |-> PoisonE]
Present(e) == 0 \in e.fl

RECURSIVE SeqOfSet(_)
SeqOfSet(S) == IF S = {} THEN <<>> ELSE LET m == CHOOSE x \in S : \A y \in S : x <= y IN <<m>> \o SeqOfSet(S \ {m})

VARIABLES mem,        \* frame -> table contents
          free,       \* frames not yet handed out by the frame allocator
          roots,      \* sequence: address-space id -> root frame
          active,     \* id of the active address space
          cursor,     \* reservation cursor as a page (grows down from Temp)
          nops, script,
          s, mismatch
vars == <<mem, free, roots, active, cursor, nops, script, s, mismatch>>

--------------------------------------------------------------------------
(* hardware: walk 4 levels from table frame tbl.  <<>> not present, <<f, fl>> leaf, <<-1>> ran into a non-table *)
RECURSIVE HW(_, _, _, _)
HW(m, tbl, pg, lvl) ==
  LET e == m[tbl][pg[lvl]] IN
  IF ~Present(e) THEN <<>>
  ELSE IF lvl = 4 THEN <<e.f, e.fl>>
  ELSE IF e.f \notin TFrames THEN <<-1>>
  ELSE HW(m, e.f, pg, lvl + 1)

ProjEntry(t) == IF Len(t) = 2 THEN <<Wn(t[1]), SeqOfSet(t[2])>> ELSE t
Proj(m) == [r \in 1..Len(roots) |-> [i \in 1..Len(U) |-> ProjEntry(HW(m, roots[r], U[i], 1))]]

\* tables reachable from a root (the recursive slot is not followed)
RECURSIVE Reach(_, _, _)
Reach(m, tbl, lvl) ==
  {tbl} \cup (IF lvl = 3 THEN {}
              ELSE UNION {Reach(m, m[tbl][i].f, lvl + 1) :
                            i \in {j \in Idx : Present(m[tbl][j]) /\ m[tbl][j].f \in TFrames /\ ~(lvl = 0 /\ j = L)}})

--------------------------------------------------------------------------
(* the kernel's recursive-window arithmetic.  An entry address is <<i1,i2,i3,i4,j>>: entry j of the page   *)
(* <<i1..i4>>.  pdtVirtualAddr = <<L,L,L,L>>;  (entryAddr << IB) = drop the first index.                    *)
PdtVA == <<L, L, L, L>>
ShiftVA(ea) == <<ea[2], ea[3], ea[4], ea[5]>>
\* where a dereference of entry address ea lands when root frame `rt` is in CR3
Deref(m, rt, ea) == LET t == HW(m, rt, <<ea[1], ea[2], ea[3], ea[4]>>, 1) IN
                    [ok |-> Len(t) = 2 /\ t[1] \in TFrames, f |-> IF Len(t) = 2 THEN t[1] ELSE 0, j |-> ea[5]]

\* walk state: m memory, fr free frames, fail countdown to the failing allocation (0 never), err, flush, new
St0(m, fail) == [m |-> m, fr |-> free, fail |-> fail, err |-> "", flush |-> <<>>, new |-> {}, afail |-> FALSE]

\* Map(page, frame, flags) with root frame rt in CR3
RECURSIVE MapWalk(_, _, _, _, _, _, _)
MapWalk(st, rt, tblVA, pg, lvl, leaf, fls) ==
  LET ea  == <<tblVA[1], tblVA[2], tblVA[3], tblVA[4], pg[lvl]>>
      loc == Deref(st.m, rt, ea)
  IN IF ~loc.ok THEN [st EXCEPT !.err = "FAULT"]
     ELSE LET e == st.m[loc.f][loc.j] IN
       IF lvl = 4
       THEN [st EXCEPT !.m[loc.f][loc.j] = [f |-> IF Bug = "RemapKeepsFrame" /\ Present(e) THEN e.f ELSE leaf, fl |-> IF Bug = "StaleBitsOnRemap" THEN e.fl \cup fls
                                                           ELSE IF Bug = "LeafForcedPresent" THEN fls \cup {0} ELSE fls],
                       !.flush = IF Bug = "NoFlushOnMap" THEN @ ELSE Append(@, pg)]
       ELSE IF 7 \in e.fl THEN [st EXCEPT !.err = "EHUGE"]                  \* huge-page bit in an UPPER-level entry
       ELSE IF Present(e) THEN MapWalk(st, rt, ShiftVA(ea), pg, lvl + 1, leaf, fls)
       ELSE IF st.fail = 1 \/ st.fr = {} THEN [st EXCEPT !.err = "ENOMEM", !.afail = TRUE, !.fail = 0]
       ELSE LET nf  == CHOOSE x \in st.fr : \A y \in st.fr : x <= y
                m1  == [st.m EXCEPT ![loc.f][loc.j] = [f |-> nf, fl |-> {0, 1}]]
                \* clear the new table through the window: nextTableAddr = entryAddr << IB, entry 0 of that page
                nt  == Deref(m1, rt, <<ea[2], ea[3], ea[4], ea[5], 0>>)
                m2  == IF nt.ok /\ Bug # "NoClearNewTable" THEN [m1 EXCEPT ![nt.f] = ZeroTable] ELSE m1
                st2 == [st EXCEPT !.m = m2, !.fr = st.fr \ {nf}, !.new = st.new \cup {nf},
                                  !.fail = IF st.fail > 1 THEN st.fail - 1 ELSE 0]
            IN IF ~nt.ok THEN [st2 EXCEPT !.err = "FAULT"]
               ELSE MapWalk(st2, rt, ShiftVA(ea), pg, lvl + 1, leaf, fls)

RECURSIVE UnmapWalk(_, _, _, _, _)
UnmapWalk(st, rt, tblVA, pg, lvl) ==
  LET ea  == <<tblVA[1], tblVA[2], tblVA[3], tblVA[4], pg[lvl]>>
      loc == Deref(st.m, rt, ea)
  IN IF ~loc.ok THEN [st EXCEPT !.err = "FAULT"]
     ELSE LET e == st.m[loc.f][loc.j] IN
       IF Bug = "UnmapHugeGuardHoisted" /\ Present(e) /\ 7 \in e.fl THEN [st EXCEPT !.err = "EHUGE"]
       ELSE IF lvl = 4 THEN [st EXCEPT !.m[loc.f][loc.j].fl = e.fl \ {0},   \* the leaf is handled BEFORE the huge-page guard (bit 7 = PAT there)
                                  !.flush = IF Bug = "NoFlushOnUnmap" THEN @ ELSE Append(@, pg)]
       ELSE IF ~Present(e) THEN [st EXCEPT !.err = "EINVAL"]
       ELSE IF 7 \in e.fl THEN [st EXCEPT !.err = "EHUGE"]
       ELSE UnmapWalk(st, rt, ShiftVA(ea), pg, lvl + 1)

\* pteForAddress + Translate: <<"ok", pa>> | <<"err">> | <<"FAULT">>
RECURSIVE XlateWalk(_, _, _, _, _, _)
XlateWalk(m, rt, tblVA, pg, lvl, off) ==
  LET ea  == <<tblVA[1], tblVA[2], tblVA[3], tblVA[4], pg[lvl]>>
      loc == Deref(m, rt, ea)
  IN IF ~loc.ok THEN <<"FAULT">>
     ELSE LET e == m[loc.f][loc.j] IN
       IF ~Present(e) THEN <<"err">>
       ELSE IF lvl = 4 THEN <<"ok", e.f * PS + off>>
       ELSE XlateWalk(m, rt, ShiftVA(ea), pg, lvl + 1, off)

\* PageDirectoryTable.Map/Unmap on space pdt: point the active root's recursive entry at it, operate, restore
AF == roots[active]
WithPdt(m, pdt) == IF pdt = active THEN m ELSE [m EXCEPT ![AF][L].f = roots[pdt]]
Restore(m, pdt) == IF pdt = active \/ Bug = "NoRestoreRecursive" THEN m
                   ELSE IF Bug = "RestoreRebuildsEntry" THEN [m EXCEPT ![AF][L] = [f |-> AF, fl |-> {0, 1}]]   \* loses A/D/G/NX bits
                   ELSE [m EXCEPT ![AF][L].f = AF]

--------------------------------------------------------------------------
Res(st) == CASE st.err = "" -> "ok" [] st.err = "ENOMEM" -> "enomem" [] st.err = "FAULT" -> "panic" [] st.err = "EHUGE" -> "err:huge pages are not supported" [] OTHER -> "err:EINVAL"
NewTab(m2, new) == LET q == SeqOfSet(new) IN [t \in 1..Len(q) |-> SeqOfSet({j \in Idx : m2[q[t]][j] # ZeroE})]
Digest(m, fs) == [f \in fs |-> m[f]]
\* the fields every table-changing event carries
Common(e, st, m2, pdt, via) ==
  LET R == Reach(mem, AF, 0) IN
  e @@ [pdt |-> pdt, via |-> via, res |-> Res(st), afail |-> st.afail, flush |-> st.flush,
        newtab |-> NewTab(m2, st.new), proj |-> Proj(m2), ah0 |-> Digest(mem, R), ah1 |-> Digest(m2, R)]

Step(e, m2, fr2, act2, cur2, op) ==
  LET m == P!Mon(s, e) IN
  /\ mem' = m2 /\ free' = fr2 /\ active' = act2 /\ cursor' = cur2 /\ UNCHANGED roots
  /\ nops' = nops + 1 /\ script' = Append(script, op)
  /\ s' = m.s /\ mismatch' = P!FirstFail(nops + 1, m.cs)

Fl(fls) == SeqOfSet(fls)

DoMap(pdt, pg, leaf, fls, fail) ==
  LET st == MapWalk(St0(WithPdt(mem, pdt), fail), AF, PdtVA, pg, 1, leaf, fls)
      m2 == Restore(st.m, pdt)
      via == IF pdt = active THEN "fn" ELSE "pdt"
      e  == Common([k |-> "map", pg |-> pg, f |-> Wn(leaf), fl |-> Fl(fls)], st, m2, pdt, via)
  IN Step(e, m2, st.fr, active, cursor, [op |-> "map", pdt |-> pdt, pg |-> pg, leaf |-> leaf, fl |-> Fl(fls), fail |-> fail])

DoUnmap(pdt, pg) ==
  LET st == UnmapWalk(St0(WithPdt(mem, pdt), 0), AF, PdtVA, pg, 1)
      m2 == Restore(st.m, pdt)
      via == IF pdt = active THEN "fn" ELSE "pdt"
      e  == Common([k |-> "unmap", pg |-> pg], st, m2, pdt, via)
  IN Step(e, m2, st.fr, active, cursor, [op |-> "unmap", pdt |-> pdt, pg |-> pg])

DoMapTemp(leaf, fail) ==
  LET st == MapWalk(St0(mem, fail), AF, PdtVA, Temp, 1, leaf, {0, 1})
      e  == Common([k |-> "maptemp", f |-> Wn(leaf), page |-> IF st.err = "" THEN Temp ELSE <<0, 0, 0, 0>>], st, st.m, active, "fn")
  IN Step(e, st.m, st.fr, active, cursor, [op |-> "maptemp", leaf |-> leaf, fail |-> fail])

\* map n consecutive pages from p0 to frames f0, f0+1, ... in the active space; stop at the first error
RECURSIVE MapSeq(_, _, _, _, _, _)
MapSeq(st, p0, f0, fls, i, n) ==
  IF i > n \/ st.err # "" THEN st
  ELSE MapSeq(MapWalk(st, AF, PdtVA, P!PgAdd(p0, i - 1), 1, f0 + (i - 1), fls), p0, f0, fls, i + 1, n)

NPages(size) == IF Bug = "RegionCountUnrounded" THEN size \div PS ELSE (size + PS - 1) \div PS
PageNum(pg) == ((pg[1] * E + pg[2]) * E + pg[3]) * E + pg[4]
RECURSIVE PgSubR(_, _, _)
PgSubR(pg, n, l) == IF l = 0 THEN pg ELSE LET v == pg[l] - n IN PgSubR([pg EXCEPT ![l] = v % E], IF v < 0 THEN 1 ELSE 0, l - 1)
PgSub(pg, n) == PgSubR(pg, n, 4)          \* n < E
InU(p0, n) == \A k \in 1..n : \E i \in 1..Len(U) : U[i] = P!PgAdd(p0, k - 1)

DoMapRegion(leaf, size, fls, fail) ==
  LET nres == (size + PS - 1) \div PS          \* the reservation is always rounded
      n  == NPages(size)
      p0 == PgSub(cursor, nres)
  IN /\ nres < E /\ InU(p0, nres)
     /\ LET st == MapSeq(St0(mem, fail), p0, leaf, fls, 1, n)
            e  == Common([k |-> "mapregion", f |-> Wn(leaf), size |-> Wn(size), fl |-> Fl(fls),
                          page |-> IF st.err = "" THEN p0 ELSE <<0, 0, 0, 0>>], st, st.m, active, "fn")
        IN Step(e, st.m, st.fr, active, p0, [op |-> "mapregion", leaf |-> leaf, size |-> size, fl |-> Fl(fls), fail |-> fail])

DoIdentity(pg, size, fls, fail) ==
  LET n == NPages(size)
      f0 == PageNum(pg)
  IN /\ InU(pg, (size + PS - 1) \div PS)
     /\ LET st == MapSeq(St0(mem, fail), pg, f0, fls, 1, n)
            e  == Common([k |-> "identity", f |-> Wn(f0), size |-> Wn(size), fl |-> Fl(fls),
                          page |-> IF st.err = "" THEN pg ELSE <<0, 0, 0, 0>>], st, st.m, active, "fn")
        IN Step(e, st.m, st.fr, active, cursor, [op |-> "identity", pg |-> pg, size |-> size, fl |-> Fl(fls), fail |-> fail])

DoSwitch(pdt) ==
  /\ pdt # active
  /\ Step([k |-> "switch", pdt |-> pdt, proj |-> Proj(mem)], mem, free, pdt, cursor, [op |-> "switch", pdt |-> pdt])

\* the environment ORs PokeBits into the recursive entry of space pdt (lvl = 0) or into the present level-lvl entry
\* (lvl 1..3) on the way to page pg in that space; enabled only if it changes something
PokeLoc(pdt, pg, lvl) ==
  IF lvl = 0 THEN <<roots[pdt], L>>
  ELSE LET RECURSIVE Down(_, _)
           Down(tbl, l) == IF l = lvl THEN <<tbl, pg[l]>>
                           ELSE LET e == mem[tbl][pg[l]] IN IF Present(e) /\ e.f \in TFrames THEN Down(e.f, l + 1) ELSE <<-1, 0>>
       IN Down(roots[pdt], 1)
DoPoke(pdt, pg, lvl) ==
  LET loc == PokeLoc(pdt, pg, lvl) IN
  /\ loc[1] # -1 /\ Present(mem[loc[1]][loc[2]]) /\ ~(PokeBits \subseteq mem[loc[1]][loc[2]].fl)
  /\ LET m2 == [mem EXCEPT ![loc[1]][loc[2]].fl = @ \cup PokeBits] IN
     Step([k |-> "poke", proj |-> Proj(m2)], m2, free, active, cursor,
          [op |-> "poke", pdt |-> pdt, pg |-> pg, lvl |-> lvl, bits |-> SeqOfSet(PokeBits)])

RootTable(f) == [ZeroTable EXCEPT ![L] = [f |-> f, fl |-> {0, 1}]]
Init ==
  /\ roots = <<0, 1>> /\ active = 1
  /\ mem = [f \in TFrames |-> IF f \in {0, 1} THEN RootTable(f) ELSE PoisonTable]
  /\ free = TFrames \ {0, 1}
  /\ cursor = Temp /\ nops = 0 /\ script = <<>>
  /\ s = [U |-> U, temp |-> Temp, trans |-> <<P!Empty(U), P!Empty(U)>>, active |-> 1]
  /\ mismatch = <<>>

Next ==
  /\ mismatch = <<>> /\ nops < MaxOps
  /\ \/ "map" \in OpKinds /\ \E pdt \in 1..Len(roots), pg \in OpPages, leaf \in Leafs, fls \in FlagSets, fail \in FailPoints :
          DoMap(pdt, pg, leaf, fls, fail)
     \/ "unmap" \in OpKinds /\ \E pdt \in 1..Len(roots), pg \in OpPages : DoUnmap(pdt, pg)
     \/ "maptemp" \in OpKinds /\ \E leaf \in Leafs, fail \in FailPoints : DoMapTemp(leaf, fail)
     \/ "mapregion" \in OpKinds /\ \E leaf \in Leafs, size \in Sizes, fls \in FlagSets, fail \in FailPoints : DoMapRegion(leaf, size, fls, fail)
     \/ "identity" \in OpKinds /\ \E pg \in IdPages, size \in Sizes, fls \in FlagSets, fail \in FailPoints : DoIdentity(pg, size, fls, fail)
     \/ "switch" \in OpKinds /\ \E pdt \in 1..Len(roots) : DoSwitch(pdt)
     \/ "poke" \in OpKinds /\ \E pdt \in 1..Len(roots) : DoPoke(pdt, Temp, 0)
     \/ "poke" \in OpKinds /\ \E pg \in OpPages, lvl \in 1..3 : DoPoke(active, pg, lvl)

--------------------------------------------------------------------------
NoMismatch == mismatch = <<>>          \* C04 as the monitor states it holds for every step of the design

\* Translate agrees with the abstract translation in every reachable state, for every page and offset
TranslateAgrees ==
  \A i \in 1..Len(U), off \in {0, PS - 1} :
    LET r == XlateWalk(mem, AF, PdtVA, U[i], 1, off)
        e == [k |-> "translate", pg |-> U[i], off |-> off,
              res |-> IF r[1] = "FAULT" THEN "panic" ELSE r[1], pa |-> IF r[1] = "ok" THEN Wn(r[2]) ELSE Wn(0)]
    IN P!FirstFail(0, P!MonTranslate(s, e).cs) = <<>>

\* the concrete tables refine the abstract translation the monitor carries
Refines == s.trans = Proj(mem) /\ s.active = active
RecursiveIntact == \A r \in 1..Len(roots) : mem[roots[r]][L].f = roots[r] /\ {0, 1} \subseteq mem[roots[r]][L].fl

\* leg G: every generated transition into the last level is written out with the path that reaches it
EmitTransition == (Emit /\ nops' = MaxOps) => CSVWrite("%1$s", <<ToJson([script |-> script'])>>, IOEnv.CASES)
\* alternative: one behaviour per distinct state
EmitState == (Emit /\ nops > 0) => CSVWrite("%1$s", <<ToJson([script |-> script])>>, IOEnv.CASES)

View == <<mem, free, roots, active, cursor, nops, s, mismatch>>
====
