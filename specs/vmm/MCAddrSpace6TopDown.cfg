CONSTANTS LimbBits = 2  NLimbs = 3  PB = 2  MaxOps = 2  Bug = "VariantTopDown"  Emit = FALSE
  OpKinds = {"reserve", "mapregion", "identity"}
  Budgets = {0, 1, 16}
  Props = {"C07"}
CONSTANT Top <- MCTop6
CONSTANT SizesFor <- MCSizesAll
CONSTANT Frames <- MCFrames6
INIT Init
NEXT Next
INVARIANT NoMismatch
INVARIANT RegionsSound
INVARIANT PairwiseDisjoint
INVARIANT CursorIsLowest
INVARIANT EmitScript
VIEW ViewNoScript
CHECK_DEADLOCK FALSE
