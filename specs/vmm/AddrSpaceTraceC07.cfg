CONSTANT Props = {"C07"}
INIT Init
NEXT Next
POSTCONDITION Accepted
CHECK_DEADLOCK FALSE
