CONSTANTS Families = {"one", "rsv", "two", "three"}  Bug = ""  Emit = TRUE
  TwoFlags = {0, 1, 2, 3, 4, 5, 6, 7}
  TwoSizes = {1, 4, 5}
  ThreeSizes = {1, 4, 5}
CONSTANT OneRsv <- MCOneRsvFull
INIT Init
NEXT Next
INVARIANT NoMismatch
INVARIANT EmitCase
CHECK_DEADLOCK FALSE
