CONSTANTS Families = {"one", "rsv", "two", "three"}  Bug = ""  Emit = TRUE
  TwoFlags = {0, 2, 3, 6, 7}
  TwoSizes = {1, 5}
  ThreeSizes = {1, 4, 5}
  HistLen = 4
CONSTANT OneRsv <- MCOneRsvFull
INIT Init
NEXT Next
INVARIANT NoMismatch
INVARIANT EmitCase
CHECK_DEADLOCK FALSE
