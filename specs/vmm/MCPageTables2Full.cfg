CONSTANTS IB = 2  PB = 2  NF = 14  Leafs = {20}  Sizes = {0, 1, 4, 5, 8}  FailPoints = {0, 1, 2, 4}  MaxOps = 2  Bug = ""  Emit = TRUE
  OpKinds = {"map", "unmap", "maptemp", "mapregion", "identity", "switch", "poke"}
  PokeBits = {5, 6, 63}
  Props = {"C04"}
CONSTANT U <- MCU2
CONSTANT OpPages <- MCOpPages2
CONSTANT IdPages <- MCIdPages2
CONSTANT FlagSets <- MCFlagsB
INIT Init
NEXT Next
INVARIANT NoMismatch
INVARIANT TranslateAgrees
INVARIANT Refines
INVARIANT RecursiveIntact
ACTION_CONSTRAINT EmitTransition
VIEW View
CHECK_DEADLOCK FALSE
