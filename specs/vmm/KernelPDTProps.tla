---- MODULE KernelPDTProps ----
(***************************************************************************)
(* C05: what the address space the kernel builds for itself must look like, *)
(* written once as a *monitor*: operators that take the monitor state `s`   *)
(* and one observed event `e` and return the next monitor state plus the    *)
(* list of checks <<property, failed?, explanation>>.                       *)
(*                                                                          *)
(* The same operators judge (a) the design model KernelPDT (a transcription *)
(* of setupPDTForKernel, explored exhaustively by TLC in a small scope) and *)
(* (b) traces recorded from the real vmm.Init running on a software MMU     *)
(* (KernelPDTTrace).  Addresses, sizes, page and frame numbers are words    *)
(* (limb tuples, module Word): 10-bit words in the model, 64-bit in traces. *)
(*                                                                          *)
(* Events                                                                   *)
(*  cfg   off secs rsv tmp failat                                           *)
(*        off   kernel offset (address)                                     *)
(*        secs  sequence of [a, sz, fl]: section address, size (words) and  *)
(*              the ELF section flags (bit 0 writable, bit 1 allocated =    *)
(*              loaded, bit 2 executable; other bits carry no meaning here) *)
(*        rsv   sequence of [p, f]: the pages from the early-reservation    *)
(*              cursor up to the temporary-mapping page and the frames the  *)
(*              *boot* address space translates them to                     *)
(*        tmp   page number of the temporary-mapping page                   *)
(*  done  res walk bad nfail                                                *)
(*        res   "ok" | "err:<text>" | "panic"  of initialisation            *)
(*        walk  EVERY page the active root translates after the call (the   *)
(*              recursive window, top-level slot 511, excluded): [p, f, fl] *)
(*              with fl = <<writable, user, no-execute>> as the hardware    *)
(*              combines them over the four levels, and lus = the user bit  *)
(*              of the last-level entry itself                              *)
(*        bad   present upper-level entries pointing outside physical memory *)
(*        nfail frame allocations that failed during the call (environment) *)
(*  reset       end of one case                                             *)
(*                                                                          *)
(* Sections of size 0 (the ELF null section, an empty .bss) may appear in   *)
(* the table; they have no pages.                                           *)
(* Domain (the property's quantifier): no two sections share a page, a      *)
(* section lies wholly at/above or wholly below the offset, sections stay    *)
(* clear of the reserved pages, the temporary page and the recursive window. *)
(*                                                                          *)
(* What is deliberately NOT constrained (DESIGN 4.3): pages of sections      *)
(* whose allocated flag is clear (the statement speaks of loaded sections); *)
(* the permission bits of the carried-over reservations (the statement says  *)
(* they keep their translations); the temporary-mapping page; the outcome    *)
(* when a frame allocation failed (but if initialisation then reports        *)
(* success the address space must be complete all the same).                 *)
(***************************************************************************)
EXTENDS Integers, Sequences, FiniteSets
CONSTANTS LimbBits, NLimbs, PB
W == INSTANCE Word

Bit(n, i) == (n \div W!Pow2(i)) % 2
IsW(fl) == Bit(fl, 0) = 1
IsA(fl) == Bit(fl, 1) = 1
IsX(fl) == Bit(fl, 2) = 1

PageOf(a) == W!ShiftR(a, PB)            \* page number of an address

\* per-section constants, computed once per case
SecInfo(off, sec) ==
  LET first == PageOf(sec.a)
      last  == PageOf(W!Add(sec.a, W!Sub(sec.sz, W!FromNat(1))))
  IN [first |-> first, last |-> last,
      n     |-> W!ToNat(W!Sub(last, first)) + 1,          \* pages it touches
      inr   |-> W!Le(off, sec.a),                          \* lies in the kernel's virtual range
      fr0   |-> PageOf(W!Sub(sec.a, off)),                 \* frame its first page was loaded at
      w |-> IsW(sec.fl), a |-> IsA(sec.fl), x |-> IsX(sec.fl)]

S0 == [off |-> W!Zero, secs |-> <<>>, rsv |-> <<>>, tmp |-> W!Zero]

\* an empty section (size 0) has no page: nothing is demanded for it and nothing is allowed because of it
MonCfg(s, e) ==
  LET real == SelectSeq(e.secs, LAMBDA x : ~W!IsZero(x.sz)) IN
  [s |-> [off |-> e.off, secs |-> [i \in 1..Len(real) |-> SecInfo(e.off, real[i])], rsv |-> e.rsv, tmp |-> e.tmp],
   cs |-> <<>>]

InSec(si, p) == W!Le(si.first, p) /\ W!Le(p, si.last)
\* the translation the property demands for page number first+j of a loaded section inside the range
\* (never user-accessible: neither through the walk nor by the mark on the entry itself, which is one
\* upper-level change away from exposure)
ExpRec(si, j) == [p |-> W!Add(si.first, W!FromNat(j)), f |-> W!Add(si.fr0, W!FromNat(j)),
                  fl |-> <<IF si.w THEN 1 ELSE 0, 0, IF si.x THEN 0 ELSE 1>>, lus |-> 0]

Loaded(s)   == {i \in 1..Len(s.secs) : s.secs[i].inr /\ s.secs[i].a}
Unloaded(s) == {i \in 1..Len(s.secs) : s.secs[i].inr /\ ~s.secs[i].a}

MonDone(s, e) ==
  LET ws    == {e.walk[i] : i \in 1..Len(e.walk)}
      pages == {w.p : w \in ws}
      \* loaded section pages that are missing or translated differently
      missing == {<<i, j>> \in UNION {{i} \X (0..(s.secs[i].n - 1)) : i \in Loaded(s)} : ExpRec(s.secs[i], j) \notin ws}
      rsvbad  == {i \in 1..Len(s.rsv) : ~\E w \in ws : w.p = s.rsv[i].p /\ w.f = s.rsv[i].f}
      \* every translated page has to be accounted for
      Allowed(w) == \/ \E i \in Loaded(s) : InSec(s.secs[i], w.p)
                    \/ \E i \in Unloaded(s) : InSec(s.secs[i], w.p)
                    \/ \E i \in 1..Len(s.rsv) : s.rsv[i].p = w.p
                    \/ w.p = s.tmp
      extra   == {w \in ws : ~Allowed(w)}
      Got(p)  == IF p \in pages THEN CHOOSE w \in ws : w.p = p ELSE "unmapped"
      ok      == e.res = "ok"
  IN [s |-> s,
      cs |-> <<
        <<"C05", e.res = "panic" /\ e.nfail = 0, "initialisation panicked">>,
        <<"C05", ~ok /\ e.res # "panic" /\ e.nfail = 0, <<"initialisation failed although no frame allocation failed", e.res>> >>,
        <<"C05", ok /\ e.bad # 0, <<"active address space has table entries pointing outside physical memory (or too many pages)", e.bad>> >>,
        <<"C05", ok /\ Cardinality(pages) # Len(e.walk), "harness: a page was walked twice">>,
        <<"C05", ok /\ missing # {},
                 IF missing = {} THEN "" ELSE
                 LET m == CHOOSE m \in missing : TRUE  x == ExpRec(s.secs[m[1]], m[2]) IN
                 <<"page of a loaded section not mapped as required: section", m[1], "expected", x, "got", Got(x.p)>> >>,
        <<"C05", ok /\ rsvbad # {},
                 IF rsvbad = {} THEN "" ELSE
                 LET i == CHOOSE i \in rsvbad : TRUE IN
                 <<"early reservation lost its translation", s.rsv[i], "got", Got(s.rsv[i].p)>> >>,
        <<"C05", ok /\ extra # {},
                 IF extra = {} THEN "" ELSE
                 <<"page mapped that belongs to no loaded section in range and to no reservation", CHOOSE w \in extra : TRUE>> >> >>]

Mon(s, e) ==
  CASE e.k = "cfg"   -> MonCfg(s, e)
    [] e.k = "done"  -> MonDone(s, e)
    [] e.k = "reset" -> [s |-> S0, cs |-> <<>>]
====
