---- MODULE KernelPDT ----
(***************************************************************************)
(* Design model of the kernel address-space construction (C05): a           *)
(* transcription of setupPDTForKernel (kernel/mm/vmm/pdt.go) over small     *)
(* integers.  The configuration (kernel offset, section table, early         *)
(* reservations) is chosen in Init, so one TLC run quantifies over every     *)
(* configuration of the scope.  Actions mirror the code:                     *)
(*   MkRoot (allocate + clear the new root, recursive slot),                 *)
(*   MapSection(i) (the visitor: range test, flags from the ELF flags,       *)
(*   page/frame loop), CopyRsv (second loop), Activate.                      *)
(* When the construction is done the model produces the events the real      *)
(* code would log (every page the active root translates) and they are       *)
(* judged by the very same monitor operators (KernelPDTProps) that judge     *)
(* traces of the real package: NoMismatch is C05 for the design.             *)
(*                                                                           *)
(* Scale: 10-bit addresses, 4 address units per page, 256 pages; page 191    *)
(* (indices <<2,3,3,3>> with 2 index bits per level) is the temporary page,  *)
(* pages 192..255 the recursive window.  An address space is the set of its     *)
(* translations (flat, one per page): the multi-level mechanics of Map belong  *)
(* to C04; what is modelled here is which pages, frames and permissions the  *)
(* construction asks for.                                                    *)
(* Design-mutant switches (Bug) re-create realistic wrong designs; TLC must  *)
(* reject each of them.                                                      *)
(***************************************************************************)
EXTENDS Integers, Sequences, FiniteSets, TLC, Json, CSV, IOUtils
CONSTANTS Families,    \* subset of {"one", "rsv", "two", "three", "mini"}: which configuration families Init ranges over
          OneRsv,      \* boot histories combined with every single-section geometry
          HistLen,     \* the "rsv" family ranges over every boot history of up to HistLen reservation requests
          Bug,         \* "" or the name of a design mutant
          Emit,        \* write every configuration to IOEnv.CASES (leg G)
          TwoFlags,    \* ELF flag values used for each section of the two-section family
          TwoSizes,    \* section sizes of the two-section family
          ThreeSizes   \* section sizes of the linker-like three-section family

LB == 2
NL == 5
PBits == 2
PS == 4
P == INSTANCE KernelPDTProps WITH LimbBits <- LB, NLimbs <- NL, PB <- PBits
Wd == INSTANCE Word WITH LimbBits <- LB, NLimbs <- NL
Wn(n) == Wd!FromNat(n)

TempPage == 191
Walkable == 0..191                 \* everything below the recursive window
KOff == 512                        \* page 128: first slot of the "kernel half" <<2,0,0,0>>

VARIABLES cfg,        \* [off, secs: Seq([a, sz, fl]), hist: Seq(Int)]  hist = the early-reservation requests made
                      \* before initialisation: c >= 0 a one-page request that is then mapped with boot
                      \* permission code c; -1..-5 an oversized request (see FailSize) that must be refused
          pc, i,
          cursor,     \* earlyReserveLastUsed when initialisation starts
          boot, new,  \* page -> entry of the boot / the new address space
          active,     \* "boot" | "new"
          s, mismatch
vars == <<cfg, pc, i, cursor, boot, new, active, s, mismatch>>

\* an address space is the set of its translations [p, f, rw, us, nx] (at most one per page)
Ent(p, f, rw, us, nx) == [p |-> p, f |-> f, rw |-> rw, us |-> us, nx |-> nx]
MapOne(pt, e) == {x \in pt : x.p # e.p} \cup {e}
Bit(n, k) == (n \div (2 ^ k)) % 2

Sec(a, sz, fl) == [a |-> a, sz |-> sz, fl |-> fl]
PagesOf(g) == (g.a \div PS)..((g.a + g.sz - 1) \div PS)

\* section geometries: start page-aligned or mid-page, sizes around the page size, in a window that
\* crosses a last-level table boundary (pages off+2 .. off+7); below the offset: low memory and the
\* last pages before the offset
InCands(off, sizes) == {[a |-> PS * p + o, sz |-> z] : p \in ((off \div PS) + 2)..((off \div PS) + 7), o \in {0, 2}, z \in sizes}
\* more start offsets inside the page (first unit after the boundary, last unit of the page) and empty sections
EdgeCands(off) == {[a |-> PS * p + o, sz |-> z] : p \in {(off \div PS) + 2, (off \div PS) + 5}, o \in {1, 3}, z \in {1, 3, 4, 5, 8}}
                  \cup {[a |-> PS * ((off \div PS) + 2) + o, sz |-> 0] : o \in {0, 2}}
\* sections starting exactly at the offset (and one page above it)
AtCands(off) == {[a |-> off, sz |-> z] : z \in {1, 4, 5}} \cup {[a |-> off + PS + 2, sz |-> 1]}
BelowCands(off) == IF off = 0 THEN {}
                   ELSE {g \in {[a |-> PS * p + o, sz |-> z] : p \in {5, 126}, o \in {0, 2}, z \in {1, 4, 6}} : g.a + g.sz <= off}

Configs(fam) ==
  CASE fam = "one" ->
         UNION {{[off |-> off, secs |-> <<Sec(g.a, g.sz, fl)>>, hist |-> r] :
                   fl \in 0..7, r \in OneRsv,
                   g \in InCands(KOff, {1, 3, 4, 5, 8}) \cup BelowCands(KOff) \cup InCands(0, {1, 4, 5}) \cup AtCands(off) \cup EdgeCands(KOff)} :
                off \in {0, KOff}}
    [] fam = "rsv" ->
         \* 0..3 reserved pages with every boot permission combination on the lowest one, and every boot
         \* history of up to HistLen requests that mixes successful and refused (oversized) requests
         {[off |-> KOff, secs |-> <<>>, hist |-> r] : r \in {<<>>, <<3>>, <<3, -2>>}}                \* no section at all
         \cup {[off |-> KOff, secs |-> <<Sec(KOff + 8, 0, 3), Sec(KOff + 8, 5, 2), Sec(KOff + 18, 0, 7)>>, hist |-> <<3>>]}  \* empty sections around a real one
         \cup
         {[off |-> KOff, secs |-> <<Sec(KOff + 8, 5, 2)>>, hist |-> r] :
            r \in {<<>>} \cup {<<c>> : c \in 0..7} \cup {<<1, c>> : c \in 0..7} \cup {<<3, 6, c>> : c \in 0..7}
                  \cup UNION {[1..k -> {3, 5, -1, -2, -3, -4, -5}] : k \in 1..HistLen}}
    [] fam = "mini" ->
         \* smallest scope in which every design mutant shows (used by the MCKernelPDTBug_* configurations)
         {[off |-> KOff, secs |-> q, hist |-> r] :
            q \in {<<Sec(KOff + 8, 4, 2)>>, <<Sec(KOff + 10, 5, 6)>>, <<Sec(20, 4, 2)>>, <<Sec(KOff + 10, 0, 2)>>}, r \in {<<>>, <<3>>, <<3, -2>>}}
    [] fam = "two" ->
         {[off |-> KOff, secs |-> <<Sec(g[1].a, g[1].sz, f1), Sec(g[2].a, g[2].sz, f2)>>, hist |-> <<3>>] :
            f1 \in TwoFlags, f2 \in TwoFlags,
            g \in {h \in (InCands(KOff, TwoSizes) \cup BelowCands(KOff)) \X (InCands(KOff, TwoSizes) \cup BelowCands(KOff)) :
                     PagesOf(h[1]) \cap PagesOf(h[2]) = {}}}
    [] fam = "three" ->
         \* linker-like: three sections on consecutive page-aligned blocks, every flag combination
         {[off |-> KOff, secs |-> <<Sec(KOff + 8, z[1], f[1]),
                                    Sec(KOff + 8 + PS * ((z[1] + PS - 1) \div PS), z[2], f[2]),
                                    Sec(KOff + 8 + PS * ((z[1] + PS - 1) \div PS) + PS * ((z[2] + PS - 1) \div PS), z[3], f[3])>>,
           hist |-> <<>>] :
            z \in ThreeSizes \X ThreeSizes \X ThreeSizes, f \in (0..7) \X (0..7) \X (0..7)}

(* ---- boot history: EarlyReserveRegion (addr_space.go) as the boot code used it before vmm.Init ---- *)
Mod == 1024
TempAddr == TempPage * PS
\* sizes that cannot be satisfied: just above the space that is left, and near the top of the word
FailSize(k, cur) == CASE k = -1 -> cur + 1 [] k = -2 -> cur + PS [] k = -3 -> Mod - 2 * PS [] k = -4 -> Mod - PS [] OTHER -> Mod - 1
\* EarlyReserveRegion(size) with the cursor at cur: <<accepted, cursor afterwards>>
Reserve(cur, size) ==
  IF size > Mod - 1 - (PS - 1) THEN <<FALSE, cur>>                       \* the round-up would wrap
  ELSE LET r == ((size + PS - 1) \div PS) * PS IN
       IF r > cur THEN <<FALSE, IF Bug = "RejectMovesCursor" THEN (cur + Mod - r) % Mod ELSE cur>>
       ELSE <<TRUE, cur - r>>
\* replay of the history: cursor at the end and the pages handed out (in request order, with their permission code)
RECURSIVE Boot(_, _, _, _)
Boot(h, j, cur, got) ==
  IF j > Len(h) THEN [cur |-> cur, got |-> got]
  ELSE LET r == Reserve(cur, IF h[j] >= 0 THEN PS ELSE FailSize(h[j], TempAddr - PS * Len(got))) IN
       Boot(h, j + 1, r[2], IF r[1] /\ h[j] >= 0 THEN Append(got, <<r[2] \div PS, h[j]>>) ELSE got)
B0 == Boot(cfg.hist, 1, TempAddr, <<>>)
NRsv == Len(B0.got)

EvCfg == [k |-> "cfg", off |-> Wn(cfg.off),
          secs |-> [j \in 1..Len(cfg.secs) |-> [a |-> Wn(cfg.secs[j].a), sz |-> Wn(cfg.secs[j].sz), fl |-> cfg.secs[j].fl]],
          rsv |-> [j \in 1..NRsv |-> [p |-> Wn(B0.got[j][1]), f |-> Wn(40 + j)]],
          tmp |-> Wn(TempPage), failat |-> 0]

Init ==
  /\ cfg \in UNION {Configs(f) : f \in Families}
  /\ pc = "root" /\ i = 1 /\ active = "boot"
  /\ cursor = B0.cur
  \* boot address space: the reservations (arbitrary permissions) and an identity-mapped low page
  /\ boot = {Ent(B0.got[j][1], 40 + j, Bit(B0.got[j][2], 0), Bit(B0.got[j][2], 2), Bit(B0.got[j][2], 1)) : j \in 1..NRsv}
            \cup {Ent(10, 10, 1, 0, 0)}
  /\ new = {Ent(77, 77, 1, 1, 0)}          \* whatever the fresh frame happened to contain
  /\ s = P!MonCfg(P!S0, EvCfg).s
  /\ mismatch = <<>>

--------------------------------------------------------------------------
\* kernelPDT.Init: allocate a frame, clear it, install the recursive entry (outside Walkable)
MkRoot ==
  /\ pc = "root"
  /\ new' = IF Bug = "RootNotCleared" THEN new ELSE {}
  /\ pc' = "sec"
  /\ UNCHANGED <<cfg, i, cursor, boot, active, s, mismatch>>

\* the visitor closure for section i
RECURSIVE MapPages(_, _, _, _, _)
MapPages(pt, page, last, frame, e) ==
  IF page > last THEN pt ELSE MapPages(MapOne(pt, [e EXCEPT !.p = page, !.f = frame]), page + 1, last, frame + 1, e)

MapSection ==
  /\ pc = "sec" /\ i <= Len(cfg.secs)
  /\ LET g == cfg.secs[i]
         \* multiboot.VisitElfSections does not report empty sections
         inRange == (g.sz # 0 \/ Bug = "ZeroSizeVisited") /\ (IF Bug = "NoRangeTest" THEN TRUE ELSE g.a >= cfg.off)
         e == Ent(0, 0, IF Bug = "RWAlways" THEN 1 ELSE Bit(g.fl, 0),
                        IF Bug = "UserBit" THEN 1 ELSE 0,
                        IF Bug = "NXDropped" THEN 0 ELSE 1 - Bit(g.fl, 2))
         cur  == g.a \div PS
         last == IF Bug = "LastPageFromSize" THEN (g.a + g.sz) \div PS ELSE (g.a + g.sz - 1) \div PS
         fr   == IF Bug = "NoOffsetSub" THEN g.a \div PS
                 ELSE IF g.a >= cfg.off THEN (g.a - cfg.off) \div PS ELSE (g.a + 1024 - cfg.off) \div PS   \* unsigned wrap
     IN new' = IF inRange THEN MapPages(new, cur, last, fr, e) ELSE new
  /\ i' = i + 1
  /\ UNCHANGED <<cfg, pc, cursor, boot, active, s, mismatch>>

SectionsDone ==
  /\ pc = "sec" /\ i > Len(cfg.secs)
  /\ pc' = "rsv"
  /\ UNCHANGED <<cfg, i, cursor, boot, new, active, s, mismatch>>

\* second loop: everything from the reservation cursor up to the temporary page is translated in the
\* boot address space and mapped present + writable in the new one
CopyRsv ==
  /\ pc = "rsv"
  /\ LET from == (cursor \div PS) + (IF Bug = "RsvSkipLowest" THEN 1 ELSE 0)
         todo == {p \in from..(TempPage - 1) : TRUE}
         cp   == {Ent(b.p, b.f, 1, 0, 0) : b \in {x \in boot : x.p \in todo}}
         \* a page of the range that the boot address space does not translate makes initialisation fail
         untranslated == \E p \in todo : \A x \in boot : x.p # p
     IN /\ new' = IF untranslated THEN new ELSE {x \in new : \A c \in cp : c.p # x.p} \cup cp
        /\ pc' = IF untranslated THEN "fail" ELSE "act"
  /\ UNCHANGED <<cfg, i, cursor, boot, active, s, mismatch>>

RECURSIVE SeqOfSet(_)
SeqOfSet(S) == IF S = {} THEN <<>> ELSE LET m == CHOOSE x \in S : \A y \in S : x.p <= y.p IN <<m>> \o SeqOfSet(S \ {m})

WalkOf(pt) == LET ps == SeqOfSet({x \in pt : x.p \in Walkable}) IN
              [j \in 1..Len(ps) |-> [p |-> Wn(ps[j].p), f |-> Wn(ps[j].f), fl |-> <<ps[j].rw, ps[j].us, ps[j].nx>>, lus |-> ps[j].us]]

Activate ==
  /\ pc \in {"act", "fail"}
  /\ active' = IF Bug = "NoActivate" \/ pc = "fail" THEN active ELSE "new"
  /\ pc' = "done"
  /\ LET e == [k |-> "done", res |-> IF pc = "fail" THEN "err:translate" ELSE "ok", walk |-> WalkOf(IF active' = "new" THEN new ELSE boot), bad |-> 0, nfail |-> 0]
         m == P!MonDone(s, e)
         S == {j \in 1..Len(m.cs) : m.cs[j][2]}
     IN /\ s' = m.s
        /\ mismatch' = IF S = {} THEN <<>> ELSE LET j == CHOOSE j \in S : \A k \in S : j <= k IN <<m.cs[j][1], m.cs[j][3]>>
  /\ UNCHANGED <<cfg, i, cursor, boot, new>>

Next == MkRoot \/ MapSection \/ SectionsDone \/ CopyRsv \/ Activate

NoMismatch == mismatch = <<>>

\* leg G: every configuration is written out as a case for the Go harness
EmitCase == (Emit /\ pc = "root") => CSVWrite("%1$s", <<ToJson(cfg)>>, IOEnv.CASES)
====
