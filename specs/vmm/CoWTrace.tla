---- MODULE CoWTrace ----
(* Trace monitor for C06: events recorded from the real vmm package (page-fault handler, mapping   *)
(* interface) are judged by the operators of CoWProps, one event per step.                         *)
EXTENDS Integers, Sequences, FiniteSets, TLC, Json, IOUtils, TraceLib
P == INSTANCE CoWProps
Trace == ndJsonDeserialize(IOEnv.TRACE)

VARIABLES l, s, mismatch
vars == <<l, s, mismatch>>

Init == l = 1 /\ s = P!S0 /\ mismatch = <<>>
Next == /\ l <= Len(Trace) /\ mismatch = <<>>
        /\ l' = l + 1
        /\ LET m == P!Mon(s, Trace[l]) IN s' = m.s /\ mismatch' = FirstFailIn({"C06"}, l, m.cs)
        /\ Report(mismatch')
NoMismatch == mismatch = <<>>
Accepted == TLCGet("stats").diameter - 1 = Len(Trace)
====
