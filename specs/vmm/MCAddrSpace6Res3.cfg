CONSTANTS LimbBits = 2  NLimbs = 3  PB = 2  MaxOps = 3  Bug = ""  Emit = FALSE
  OpKinds = {"reserve"}
  Budgets = {3}
  Props = {"C07"}
CONSTANT Top <- MCTop6
CONSTANT SizesFor <- MCSizesAll
CONSTANT Frames <- MCFrames6
INIT Init
NEXT Next
INVARIANT NoMismatch
INVARIANT RegionsSound
INVARIANT PairwiseDisjoint
INVARIANT CursorIsLowest
INVARIANT EmitScript
VIEW ViewNoScript
CHECK_DEADLOCK FALSE
