CONSTANTS LimbBits = 16  NLimbs = 4  PB = 12  MaxOps = 2  Bug = ""  Emit = TRUE
  OpKinds = {"reserve", "mapregion", "identity"}
  Budgets = {1, 12}
  Props = {"C07"}
CONSTANT Top <- MCTop64
CONSTANT SizesFor <- MCSizes64H
CONSTANT Frames <- MCFrames64
INIT Init
NEXT Next
INVARIANT NoMismatch
INVARIANT RegionsSound
INVARIANT PairwiseDisjoint
INVARIANT CursorIsLowest
INVARIANT EmitScript
VIEW ViewAll
CHECK_DEADLOCK FALSE
