CONSTANTS LimbBits = 16  NLimbs = 4  PB = 12  MaxOps = 2  MaxPairs = 16  Bug = ""  Emit = TRUE
  OpKinds = {"reserve", "mapregion", "identity"}
  Props = {"C07"}
CONSTANT Top <- MCTop64
CONSTANT SizesFor <- MCSizes64
CONSTANT Frames <- MCFrames64
INIT Init
NEXT Next
INVARIANT NoMismatch
INVARIANT RegionsSound
INVARIANT PairwiseDisjoint
INVARIANT CursorIsLowest
INVARIANT EmitScript
VIEW ViewAll
CHECK_DEADLOCK FALSE
