---- MODULE CoW ----
(***************************************************************************)
(* Design model for C06: the zero-frame guard of the mapping interface       *)
(* (Map, PageDirectoryTable.Map, MapTemporary, MapRegion; map.go) and the    *)
(* page-fault handler (pageFaultHandler, fault_amd64.go) over a small        *)
(* universe: NP pages, frames 1..NF, content identifiers instead of 4 KiB    *)
(* of bytes.  Each action is one call of the real interface; it produces     *)
(* the event the real code would log (with the projected state after the     *)
(* call) and the event is judged by the very same monitor operators          *)
(* (CoWProps) that judge traces of the real package: NoMismatch is C06 for   *)
(* the design.                                                               *)
(*                                                                           *)
(* The initial state is "vmm initialised" (zero frame reserved and cleared,  *)
(* guard armed) followed by the standard set-up the Go replay performs too:  *)
(* pages 1..3 lazily allocated from the zero frame (present, copy-on-write,  *)
(* no-execute - the flags goruntime uses), page 4 private and writable.      *)
(* Families:                                                                 *)
(*   "flags"  one fault on page 1 for EVERY subset of the five last-level    *)
(*            flag bits x every presence pattern of the upper levels x every *)
(*            error code of Codes x {no failure, allocation fails,           *)
(*            temporary mapping fails}                                       *)
(*   "upper"  one fault on page 1 with every combination of RW / user /      *)
(*            bit 9 / no-execute on each upper level in turn (present, or    *)
(*            present above an absent next level with arbitrary bits)        *)
(*   "seq"    every sequence of up to MaxOps calls out of: faults on all     *)
(*            pages (with failures), attempts to map the zero frame through  *)
(*            each entry point, fork-like sharing, stores, GPF               *)
(* Bug re-creates realistic wrong designs; TLC must reject each of them.     *)
(***************************************************************************)
EXTENDS Integers, Sequences, FiniteSets, TLC, Json, CSV, IOUtils
CONSTANTS Family, MaxOps, Codes, Bug, Emit,
          Wide       \* TRUE: every fault at both ends of its page; FALSE: offsets 0 / 1 / 2048 / 4095 in a deterministic mix.
                     \* (The meaningless entry bits - cache, accessed, dirty, PAT, global, available - are set in half of
                     \* the set-ups, chosen by the parity of the flag combination.)
P == INSTANCE CoWProps

NP == 4
NF == 12
Z == 1                         \* the reserved frame
Bits(S) == <<IF 1 \in S THEN 1 ELSE 0, IF 2 \in S THEN 1 ELSE 0, IF 3 \in S THEN 1 ELSE 0, IF 4 \in S THEN 1 ELSE 0, IF 5 \in S THEN 1 ELSE 0>>
\* the same flag set as the integer the Go harness decodes (bit i-1 = flag i)
Code(fl) == fl[1] + 2 * fl[2] + 4 * fl[3] + 8 * fl[4] + 16 * fl[5]
AllFlagSets == {Bits(S) : S \in SUBSET (1..5)}
LazyFl == <<1, 0, 0, 1, 1>>    \* present | copy-on-write | no-execute
PrivFl == <<1, 1, 0, 0, 1>>
\* an upper-level entry is <<P, RW, US, CoW, NX, table id>>; Map creates them present + writable
UStd(l) == <<1, 1, 0, 0, 0, 50 + l>>
UpStd == <<UStd(1), UStd(2), UStd(3)>>
UEnt(pbit, b, l) == <<pbit, b[1], b[2], b[3], b[4], 50 + l>>
Up4 == {<<a, b, c, d>> : a \in {0, 1}, b \in {0, 1}, c \in {0, 1}, d \in {0, 1}}
\* presence patterns of the upper levels (the first 0 = the entry whose present bit the environment cleared)
UpPatterns == {<<1, 1, 1>>, <<1, 1, 0>>, <<1, 0, 0>>, <<0, 0, 0>>}
PatUp(pat) == [l \in 1..3 |-> IF pat[l] = 0 /\ \A k \in 1..(l - 1) : pat[k] = 1 THEN UEnt(0, <<1, 0, 0, 0>>, l) ELSE UStd(l)]

VARIABLES pg,        \* page -> [up, fl, f]   (the active address space as a hardware walk sees it)
          content,   \* frame -> content id
          nextf,     \* next frame the allocator hands out
          zextra,    \* writable mappings of the zero frame outside the universe (temporary page, regions, other spaces)
          dead,      \* the kernel panicked
          nops, script,
          xbits,     \* mask of meaningless bits the environment put into page 1's entry (flags / upper families)
          s, mismatch
vars == <<pg, content, nextf, zextra, dead, nops, script, xbits, s, mismatch>>
\* offsets of the fault address inside its page, and masks of meaningless entry bits
Offsets == <<0, 1, 2048, 4095>>
OffsFor(k) == IF Wide THEN {0, 4095} ELSE {Offsets[(k % 4) + 1]}
XFor(k) == {IF k % 2 = 0 THEN 0 ELSE 2047}

Rec(up, fl, f) == [up |-> up, fl |-> fl, f |-> f]
\* number of upper levels the walk passes (leading present entries)
Lead(up) == CHOOSE n \in 0..3 : (\A k \in 1..n : up[k][1] = 1) /\ (n = 3 \/ up[n + 1][1] = 0)
\* what the hardware walk reports for a page whose entries are as stored: entries up to and including the one
\* that stops it (that one without its table), nothing below
SeenUp(up) == [l \in 1..3 |-> IF l <= Lead(up) THEN up[l]
                               ELSE IF l = Lead(up) + 1 THEN <<0, up[l][2], up[l][3], up[l][4], up[l][5], 0>>
                               ELSE <<0, 0, 0, 0, 0, 0>>]
Seen(r) == IF Lead(r.up) < 3 THEN Rec(SeenUp(r.up), <<0, 0, 0, 0, 0>>, 0)
           ELSE IF r.fl[1] = 0 THEN Rec(r.up, r.fl, 0) ELSE r

RECURSIVE SeqOfSet(_)
SeqOfSet(S) == IF S = {} THEN <<>> ELSE LET m == CHOOSE x \in S : \A y \in S : x <= y IN <<m>> \o SeqOfSet(S \ {m})

SetToSeq(S) == LET RECURSIVE F(_)
                   F(T) == IF T = {} THEN <<>> ELSE LET x == CHOOSE x \in T : TRUE IN <<x>> \o F(T \ {x})
               IN F(S)

St(pgs, cont, zx) ==
  LET shown == {Z} \cup {Seen(pgs[i]).f : i \in {j \in 1..NP : P!Mapped(Seen(pgs[j]))}}
      fs == SeqOfSet(shown)
      zu == {<<0, i>> : i \in {j \in 1..NP : P!Mapped(Seen(pgs[j])) /\ pgs[j].f = Z /\ pgs[j].fl[2] = 1}}
  IN [z |-> Z, pg |-> [i \in 1..NP |-> Seen(pgs[i])], ct |-> [i \in 1..Len(fs) |-> [f |-> fs[i], c |-> cont[fs[i]]]],
      zrw |-> SetToSeq(zu \cup zx)]

Pg0 == [i \in 1..NP |-> IF i <= 3 THEN Rec(UpStd, LazyFl, Z) ELSE Rec(UpStd, PrivFl, 2)]
Content0 == [f \in 1..NF |-> IF f = Z THEN 0 ELSE 100 + f]

\* monitor state after the init event and the set-up calls
SInit(pgs) == [inited |-> TRUE, st |-> St(pgs, Content0, {})]

Init ==
  /\ \/ /\ Family = "flags"
        /\ \E fl \in AllFlagSets, up \in UpPatterns, x \in {0, 2047} :
             /\ x \in XFor(Code(fl) + up[1] + up[2] + up[3])
             /\ xbits = x
             \* a page that is to be writable does not sit on the zero frame (the environment never creates the violation itself)
             /\ pg = [Pg0 EXCEPT ![1] = Rec(PatUp(up), fl, IF fl[2] = 1 THEN 3 ELSE Z)]
             \* the set-up the Go replay performs to get there
             /\ script = (IF fl[2] = 1 THEN <<<<"mapnew", 1, 19>>>> ELSE <<>>) \o <<<<"poke", 1, Code(fl), x>>>>
                          \o (CASE up = <<1, 1, 1>> -> <<>> [] up = <<1, 1, 0>> -> <<<<"pokeup", 1, 2, 0>>>>
                                [] up = <<1, 0, 0>> -> <<<<"pokeup", 1, 1, 0>>>> [] OTHER -> <<<<"pokeup", 1, 0, 0>>>>)
     \/ /\ Family = "upper"
        \* (i) every upper level in turn carries every combination of RW / user / bit 9 / no-execute while present,
        \*     under every last-level flag subset
        /\ \/ \E l \in 1..3, b \in Up4, fl \in AllFlagSets, x \in {0, 2047} :
                /\ x \in XFor(Code(fl) + l + b[1] + b[3])
                /\ xbits = x
                /\ pg = [Pg0 EXCEPT ![1] = Rec([UpStd EXCEPT ![l] = UEnt(1, b, l)], fl, IF fl[2] = 1 THEN 3 ELSE Z)]
                /\ script = (IF fl[2] = 1 THEN <<<<"mapnew", 1, 19>>>> ELSE <<>>) \o <<<<"poke", 1, Code(fl)>>>>
                             \o <<<<"pokeupf", 1, l - 1, 1 + 2 * b[1] + 4 * b[2] + 8 * b[3] + 16 * b[4], x>>>>
           \* (ii) the walk stops at level l (entry absent, any other bits) below a present level l-1 with any bits
           \/ \E l \in 1..3, b2 \in Up4, b1 \in Up4 :
                /\ l = 1 => b1 = <<1, 0, 0, 0>>
                /\ xbits = 0
                /\ pg = [Pg0 EXCEPT ![1] = Rec([k \in 1..3 |-> IF k = l THEN UEnt(0, b2, l) ELSE IF k = l - 1 THEN UEnt(1, b1, k) ELSE UStd(k)],
                                                LazyFl, Z)]
                /\ script = <<<<"pokeupf", 1, l - 1, 2 * b2[1] + 4 * b2[2] + 8 * b2[3] + 16 * b2[4]>>>>
                             \o (IF l > 1 THEN <<<<"pokeupf", 1, l - 2, 1 + 2 * b1[1] + 4 * b1[2] + 8 * b1[3] + 16 * b1[4]>>>> ELSE <<>>)
     \/ /\ Family = "seq"
        /\ pg = Pg0 /\ xbits = 0
        /\ script = <<>>
  /\ content = Content0 /\ nextf = 4 /\ zextra = {} /\ dead = FALSE /\ nops = 0
  /\ s = SInit(pg) /\ mismatch = <<>>

--------------------------------------------------------------------------
Judge(e) ==
  LET m == P!Mon(s, e)
      S == {j \in 1..Len(m.cs) : m.cs[j][2]}
  IN /\ s' = m.s
     /\ mismatch' = IF S = {} THEN <<>> ELSE LET j == CHOOSE j \in S : \A k \in S : j <= k IN <<nops + 1, m.cs[j][1], m.cs[j][3]>>

Step(op) == nops' = nops + 1 /\ script' = Append(script, op) /\ xbits' = xbits

(* ---- the mapping interface ------------------------------------------------------------------ *)
Guarded(f, fl) ==
  CASE Bug = "NoMapGuard"      -> FALSE
    [] Bug = "GuardExactFlags" -> f = Z /\ fl = <<1, 1, 0, 0, 0>>      \* compares the flag word instead of testing the bit
    [] OTHER                   -> f = Z /\ fl[2] = 1

\* Map(page p, frame f, flags) through Map / kernelPDT.Map (via 0, 1) or on an inactive space (via 2)
MapCall(p, f, fl, via) ==
  /\ ~dead /\ nops < MaxOps
  /\ LET ok == ~Guarded(f, fl)
         pg2 == IF ok /\ via # 2 THEN [pg EXCEPT ![p] = Rec(UpStd, fl, f)] ELSE pg
         zx2 == IF ok /\ via = 2 /\ f = Z /\ fl[1] = 1 /\ fl[2] = 1 THEN zextra \cup {<<1, p>>} ELSE zextra
     IN /\ pg' = pg2 /\ zextra' = zx2
        /\ Judge([k |-> "map", via |-> via, pg |-> p, fr |-> f, fl |-> Code(fl), res |-> IF ok THEN "ok" ELSE "err:guard",
                  st |-> St(pg2, content, zx2)])
  /\ UNCHANGED <<content, nextf, dead>>

MapZero(p, fl, via) == MapCall(p, Z, fl, via) /\ Step(<<"mapz", p, Code(fl), via>>)
Share(q, p, fl) == Seen(pg[p]).f > 0 /\ q # p /\ MapCall(q, pg[p].f, fl, 0) /\ Step(<<"share", q, p, Code(fl)>>)

\* MapTemporary(zero frame): always RW
TmpZero ==
  /\ ~dead /\ nops < MaxOps
  /\ LET ok == Bug = "NoTmpGuard"
         zx2 == IF ok THEN zextra \cup {<<2, 0>>} ELSE zextra
     IN /\ zextra' = zx2
        /\ Judge([k |-> "map", via |-> "tmp", pg |-> 0, fr |-> Z, fl |-> 3, res |-> IF ok THEN "ok" ELSE "err:guard", st |-> St(pg, content, zx2)])
  /\ Step(<<"tmpz">>)
  /\ UNCHANGED <<pg, content, nextf, dead>>

\* MapRegion over n frames the k-th of which (0-based) is the zero frame: Map is called frame by frame and
\* the first refusal aborts the call
RegionZero(k, n, fl) ==
  /\ ~dead /\ nops < MaxOps
  /\ LET refused == k < n /\ Guarded(Z, fl)
         zx2 == IF k < n /\ ~refused /\ fl[1] = 1 /\ fl[2] = 1 THEN zextra \cup {<<3, nops>>} ELSE zextra
     IN /\ zextra' = zx2
        /\ Judge([k |-> "map", via |-> "region", pg |-> 0, fr |-> Z - k, fl |-> Code(fl), res |-> IF refused THEN "err:guard" ELSE "ok",
                  st |-> St(pg, content, zx2)])
  /\ Step(<<"regionz", k, 4096 * n, Code(fl), 0>>)
  /\ UNCHANGED <<pg, content, nextf, dead>>

(* ---- the page-fault handler ------------------------------------------------------------------- *)
\* fail: 0 none, 1 the frame allocation fails, 2 the temporary mapping fails
Fault(p, code, fail, off) ==
  /\ ~dead /\ nops < MaxOps
  /\ LET o    == Seen(pg[p])
         \* Lookup: the walk stops at the first absent level; the entry is used only if present
         have == P!UpPresent(o) /\ o.fl[1] = 1
         \* design mutant: the last PRESENT entry the walk visited is taken for the page's entry
         ld    == Lead(pg[p].up)
         stale == Bug = "StaleUpperEntry" /\ ~have /\ ld >= 1 /\ pg[p].up[ld][2] = 0 /\ pg[p].up[ld][4] = 1
         cow  == (have /\ o.fl[4] = 1 /\ (Bug = "NoRWTest" \/ o.fl[2] = 0)) \/ stale
         copy == nextf
         allocFails == cow /\ fail = 1
         tmpFails   == cow /\ fail = 2 /\ ~allocFails
         resume == cow /\ (~allocFails \/ Bug = "ResumeAfterAllocFail") /\ (~tmpFails \/ Bug = "ResumeAfterTmpFail")
         done   == cow /\ ~allocFails /\ ~tmpFails            \* the copy is really made
         nfl    == <<1, 1, o.fl[3], IF Bug = "KeepCoW" THEN o.fl[4] ELSE 0, o.fl[5]>>
         pg2    == IF done /\ stale THEN [pg EXCEPT ![p].up[ld] = <<1, 1, @[3], 0, @[5], copy>>]
                   ELSE IF done THEN [pg EXCEPT ![p] = Rec(pg[p].up, nfl, copy)] ELSE pg
         ct2    == IF ~done \/ stale THEN content
                   ELSE IF Bug = "CopyReversed" THEN [content EXCEPT ![o.f] = content[copy]]
                   ELSE IF Bug = "RetargetBeforeCopy" THEN content          \* the page already shows the new frame: copies it onto itself
                   ELSE [content EXCEPT ![copy] = content[o.f]]
         fl2    == IF ~done \/ stale \/ Bug = "NoFlush" THEN <<>>
                   ELSE IF Bug = "FlushBeforeRetarget" THEN <<[pg |-> p, f |-> o.f, rw |-> o.fl[2], cow |-> o.fl[4]]>>
                   ELSE <<[pg |-> p, f |-> copy, rw |-> 1, cow |-> nfl[4]]>>
     IN /\ pg' = pg2 /\ content' = ct2
        /\ nextf' = IF cow /\ ~allocFails THEN nextf + 1 ELSE nextf
        /\ dead' = ~resume
        /\ Judge([k |-> "fault", pg |-> p, off |-> off, code |-> code, pre |-> o, afail |-> IF fail = 1 THEN 1 ELSE 0, tfail |-> IF fail = 2 THEN 1 ELSE 0,
                  nfail |-> IF allocFails THEN 1 ELSE 0, tfailed |-> IF tmpFails THEN 1 ELSE 0,
                  alloc |-> IF cow /\ ~allocFails THEN <<copy>> ELSE <<>>, flush |-> fl2,
                  res |-> IF resume THEN "resume" ELSE "panic", st |-> St(pg2, ct2, zextra)])
  /\ Step(<<"fault", p, off, code, IF fail = 1 THEN 1 ELSE 0, IF fail = 2 THEN 1 ELSE 0>>)
  /\ UNCHANGED zextra

Gpf ==
  /\ ~dead /\ nops < MaxOps
  /\ dead' = TRUE
  /\ Judge([k |-> "gpf", res |-> IF Bug = "GpfReturns" THEN "resume" ELSE "panic", st |-> St(pg, content, zextra)])
  /\ Step(<<"gpf">>)
  /\ UNCHANGED <<pg, content, nextf, zextra>>

(* ---- the environment: the resumed code stores to a page it may write ------------------------------ *)
Store(p) ==
  /\ ~dead /\ nops < MaxOps
  /\ P!Mapped(Seen(pg[p])) /\ pg[p].fl[2] = 1 /\ pg[p].f # Z
  /\ content' = [content EXCEPT ![pg[p].f] = 200 + nops]
  /\ Judge([k |-> "env", what |-> "store", st |-> St(pg, content', zextra)])
  /\ Step(<<"store", p>>)
  /\ UNCHANGED <<pg, nextf, zextra, dead>>

SeqFlags == {<<1, 1, 0, 0, 0>>, <<1, 0, 0, 1, 1>>, <<1, 1, 0, 1, 1>>}
Next ==
  /\ mismatch = <<>>
  /\ \/ (Family \in {"flags", "upper"} /\ \E c \in Codes, fail \in 0..2 : \E off \in OffsFor(c + fail + Code(pg[1].fl)) : Fault(1, c, fail, off))
     \/ (Family = "seq" /\ \E p \in 1..NP, fail \in 0..2 : \E off \in OffsFor(p + fail + nops) : Fault(p, 2, fail, off))
     \/ (Family = "seq" /\ \E p \in {1, 4}, fl \in SeqFlags, via \in 0..2 : MapZero(p, fl, via))
     \/ (Family = "seq" /\ TmpZero)
     \/ (Family = "seq" /\ \E k \in {0, 1}, fl \in {<<1, 1, 0, 0, 0>>, <<1, 0, 0, 0, 1>>} : RegionZero(k, 2, fl))
     \/ (Family = "seq" /\ \E qp \in {<<2, 1>>, <<4, 1>>, <<1, 4>>, <<3, 2>>} : Share(qp[1], qp[2], LazyFl))
     \/ (Family = "seq" /\ \E p \in {1, 2, 4} : Store(p))
     \/ (Family = "seq" /\ Gpf)

NoMismatch == mismatch = <<>>

\* leg G: every transition TLC generates is written out as a case: the calls that lead to its source state
\* (set-up of page 1 included) followed by the call itself.  Used as an always-true ACTION_CONSTRAINT.
EmitEdge == Emit => CSVWrite("%1$s", <<ToJson([script |-> script'])>>, IOEnv.CASES)

View == <<pg, content, nextf, zextra, dead, nops, xbits, s, mismatch>>
====
