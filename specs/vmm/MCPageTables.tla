---- MODULE MCPageTables ----
EXTENDS PageTables
\* IB = 1: two entries per table; the whole non-recursive address space is 8 pages, all of them projected.
\* <<0,1,1,1>> is the temporary-mapping page, the reservation window lies below it.
MCU1 == << <<0,0,0,0>>, <<0,0,0,1>>, <<0,0,1,0>>, <<0,0,1,1>>, <<0,1,0,0>>, <<0,1,0,1>>, <<0,1,1,0>>, <<0,1,1,1>> >>
MCOpPages1 == { <<0,0,0,0>>, <<0,0,0,1>>, <<0,0,1,0>>, <<0,1,0,0>> }
MCIdPages1 == { <<0,0,0,1>> }
\* IB = 2: four entries per table; pages sharing three / two / one / no upper-level tables, both halves,
\* the temporary-mapping page <<2,3,3,3>> and the reservation window below it (crossing into the next table)
MCU2 == << <<0,0,0,0>>, <<0,0,0,1>>, <<0,0,0,2>>, <<0,0,0,3>>, <<0,0,1,0>>, <<0,1,0,0>>, <<1,0,0,0>>, <<2,0,0,3>>,
           <<2,3,2,3>>, <<2,3,3,0>>, <<2,3,3,1>>, <<2,3,3,2>>, <<2,3,3,3>> >>
MCOpPages2 == { <<0,0,0,0>>, <<0,0,0,1>>, <<0,0,1,0>>, <<0,1,0,0>>, <<1,0,0,0>>, <<2,0,0,3>> }
MCIdPages2 == { <<0,0,0,1>> }
\* leaf flag sets are drawn from ALL declared PageTableEntryFlag bits: 0 present, 1 RW, 2 user, 3 write-through, 4 no-cache,
\* 5 accessed, 6 dirty, 7 huge page (= PAT on a 4K leaf), 8 global, 9 copy-on-write, 63 no-execute
\* sets WITHOUT bit 0 ask for a non-present leaf: the page must stay / become unmapped
MCFlagsA == { {0}, {0,1,7,63}, {1,2} }
\* two sets only (sequences of three are expensive): a present leaf with bit 7 and NX, and a non-present request
MCFlagsA2 == { {0,1,7,63}, {1,2} }
\* small scope for re-mapping a page to a DIFFERENT frame (two leaf frames, sequences of three)
MCOpPagesR == { <<0,0,0,0>>, <<0,0,0,1>>, <<0,1,0,0>> }
MCFlagsB == { {0,10,52,62}, {0,1,5,6,7}, {0,2,63}, {0,7,9,63}, {0,1,2,3,4,8}, {1,9,63} }
====
