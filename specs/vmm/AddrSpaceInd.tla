---- MODULE AddrSpaceInd ----
(***************************************************************************)
(* C07, optional third leg (DESIGN 3.6 / 4.5 iii): the reservation step     *)
(* over UNBOUNDED integers with the machine constants M = 2^64, P = 4096,   *)
(* Top = 0xffffff7ffffff000, checked by Apalache as an inductive invariant: *)
(*   IndInit /\ Next => IndInv'   for every cursor and every size in 0..M-1 *)
(* and refuted for the wrapping round-up of the pinned tree (NextBug).      *)
(* TLC + trace validation decide the property; this only widens the M leg.  *)
(***************************************************************************)
EXTENDS Integers
M == 18446744073709551616
PSz == 4096
Top == 18446743523953733632

VARIABLES
  \* @type: Int;
  cursor,
  \* @type: Int;
  prev,
  \* @type: Int;
  size,
  \* @type: Bool;
  ok

IndInv == /\ cursor >= 0 /\ cursor <= Top /\ cursor % PSz = 0
          /\ prev >= 0 /\ prev <= Top /\ prev % PSz = 0
          /\ size >= 0 /\ size < M
          /\ cursor <= prev                                  \* the cursor only moves down: regions lie below earlier ones
          /\ (ok => prev - cursor >= size)                   \* a successful reservation is at least as large as requested
          /\ (~ok => cursor = prev)                          \* a failed one reserves nothing

Init == cursor = Top /\ prev = Top /\ size = 0 /\ ok = FALSE
IndInit == cursor \in Int /\ prev \in Int /\ size \in Int /\ ok \in BOOLEAN /\ IndInv

\* the repaired design: reject sizes whose round-up leaves the word range
Reserve(sz) ==
  LET r == ((sz + (PSz - 1)) \div PSz) * PSz IN
  /\ size' = sz /\ prev' = cursor
  /\ IF sz > M - PSz \/ r > cursor
     THEN cursor' = cursor /\ ok' = FALSE
     ELSE cursor' = cursor - r /\ ok' = TRUE

\* the pinned tree: (size + 4095) & ^4095 in 64-bit arithmetic, no overflow test
ReserveBug(sz) ==
  LET w == (sz + (PSz - 1)) % M
      r == w - (w % PSz) IN
  /\ size' = sz /\ prev' = cursor
  /\ IF r > cursor
     THEN cursor' = cursor /\ ok' = FALSE
     ELSE cursor' = cursor - r /\ ok' = TRUE

Next == \E sz \in Int : sz >= 0 /\ sz < M /\ Reserve(sz)
NextBug == \E sz \in Int : sz >= 0 /\ sz < M /\ ReserveBug(sz)
====
