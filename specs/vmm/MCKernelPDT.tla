---- MODULE MCKernelPDT ----
EXTENDS KernelPDT
\* tuple-valued constants cannot be written in a cfg file
MCOneRsvQuick == {<<3>>}
MCOneRsvFull  == {<<>>, <<3>>, <<0, 5>>}
====
