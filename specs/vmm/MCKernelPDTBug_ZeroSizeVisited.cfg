CONSTANTS Families = {"mini"}  Bug = "ZeroSizeVisited"  Emit = FALSE
  TwoFlags = {}
  TwoSizes = {}
  ThreeSizes = {}
  HistLen = 2
CONSTANT OneRsv <- MCOneRsvQuick
INIT Init
NEXT Next
INVARIANT NoMismatch
INVARIANT EmitCase
CHECK_DEADLOCK FALSE
