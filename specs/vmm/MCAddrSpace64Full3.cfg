CONSTANTS LimbBits = 16  NLimbs = 4  PB = 12  MaxOps = 3  Bug = ""  Emit = TRUE
  OpKinds = {"reserve", "mapregion", "identity"}
  Budgets = {2}
  Props = {"C07"}
CONSTANT Top <- MCTop64
CONSTANT SizesFor <- MCSizes64T
CONSTANT Frames <- MCFrames64
INIT Init
NEXT Next
INVARIANT NoMismatch
INVARIANT RegionsSound
INVARIANT PairwiseDisjoint
INVARIANT CursorIsLowest
INVARIANT EmitScript
VIEW ViewAll
CHECK_DEADLOCK FALSE
