CONSTANTS Family = "seq"  MaxOps = 2  Bug = "CopyReversed"  Emit = FALSE  Wide = FALSE
CONSTANT Codes <- MCCodesQuick
INIT Init
NEXT Next
INVARIANT NoMismatch
ACTION_CONSTRAINT EmitEdge
VIEW View
CHECK_DEADLOCK FALSE
