---- MODULE CoWProps ----
(***************************************************************************)
(* C06: copy-on-write page faults and the protection of the shared zero     *)
(* frame, written once as a *monitor*: operators that take the monitor      *)
(* state `s` and one observed event `e` and return the next monitor state   *)
(* plus the list of checks <<property, failed?, explanation>>.              *)
(*                                                                          *)
(* The same operators judge (a) the design model CoW (map guard + fault     *)
(* handler, explored exhaustively by TLC in a small scope) and (b) traces   *)
(* recorded from the real vmm package running on a software MMU over host   *)
(* memory (CoWTrace).                                                       *)
(*                                                                          *)
(* Every event carries `st`, the projected machine state AFTER the call:    *)
(*   z    id of the reserved zero frame (0 = none yet)                      *)
(*   pg   one record per page of the observed universe:                     *)
(*          up  <<u0,u1,u2>> the three upper-level entries as the hardware  *)
(*              walk meets them: u = <<P,RW,US,CoW,NX,t>> flag bits of the  *)
(*              entry and id t of the table it points to (0 unless P); the  *)
(*              entry that stops the walk is reported with its other bits,  *)
(*              everything below it as zeros                                *)
(*          fl  <<P,RW,US,CoW,NX>> bits of the last-level entry (zeros if   *)
(*              the walk does not get there)                                *)
(*          f   id of the frame the last-level entry points to (0 = none)   *)
(*   ct   <<[f, c]>> content id c of the zero frame and of every frame a    *)
(*        universe page shows (equal ids <=> equal 4 KiB contents, id 0 <=> *)
(*        all bytes zero)                                                   *)
(*   zrw  every last-level entry, in EVERY address space, that is present,  *)
(*        points to the zero frame and has RW set (any hashable tag)        *)
(* Event kinds                                                              *)
(*   init   vmm.Init returned (res)                                         *)
(*   map    a call of the mapping interface (Map, PageDirectoryTable.Map,   *)
(*          MapTemporary, MapRegion, IdentityMapRegion) returned            *)
(*   fault  the installed page-fault handler returned (res = "resume") or   *)
(*          panicked (res = "panic"); pg/off = faulting page and offset,    *)
(*          code = error code, pre = the hardware walk of the fault address *)
(*          before the call, nfail/tfailed = frame allocations / temporary  *)
(*          mappings that failed during the call (environment), alloc = ids *)
(*          of the frames handed out during the call, flush = TLB flushes   *)
(*          <<[pg, f, rw, cow]>> with the translation of the page AT THE    *)
(*          TIME OF THE FLUSH                                               *)
(*   gpf    the installed general-protection handler returned / panicked    *)
(*   env    the environment changed page tables or memory behind the        *)
(*          interface (test set-up: flag bits, stores of the resumed code)  *)
(*   reset  end of one case                                                 *)
(***************************************************************************)
EXTENDS Integers, Sequences, FiniteSets

FP == 1
FRW == 2
FUS == 3
FCOW == 4
FNX == 5

EmptySt == [z |-> 0, pg |-> <<>>, ct |-> <<>>, zrw |-> <<>>]
S0 == [inited |-> FALSE, st |-> EmptySt]

Range(q) == {q[i] : i \in 1..Len(q)}
HasContent(st, f) == \E i \in 1..Len(st.ct) : st.ct[i].f = f
Content(st, f) == IF HasContent(st, f) THEN (CHOOSE x \in Range(st.ct) : x.f = f).c ELSE -1
\* the hardware walk decides: only the present bits of the upper levels matter for reaching the last level
UpPresent(r) == \A l \in 1..3 : r.up[l][1] = 1
Mapped(r) == UpPresent(r) /\ r.fl[FP] = 1

\* (a) no call of the interface may create a writable mapping of the zero frame once vmm is initialised
ZeroChecks(s, e) ==
  LET new == Range(e.st.zrw) \ Range(s.st.zrw) IN <<
    <<"C06", s.inited /\ new # {},
             IF new = {} THEN "" ELSE <<"zero frame mapped writable by", e.k, "at", CHOOSE x \in new : TRUE>> >>,
    <<"C06", s.inited /\ e.st.z # s.st.z, <<"the reserved zero frame changed", s.st.z, e.st.z>> >>,
    <<"C06", s.inited /\ Content(e.st, e.st.z) # 0, <<"zero frame is no longer zero-filled after", e.k>> >> >>

MonInit(s, e) ==
  IF e.res # "ok" THEN [s |-> [s EXCEPT !.st = e.st], cs |-> <<>>]
  ELSE [s |-> [inited |-> TRUE, st |-> e.st],
        cs |-> <<
          <<"C06", e.st.z = 0, "no zero frame reserved by initialisation">>,
          <<"C06", e.st.z # 0 /\ Content(e.st, e.st.z) # 0, "reserved frame is not zero-filled">>,
          <<"C06", e.st.zrw # <<>>, <<"zero frame left mapped writable by initialisation", e.st.zrw>> >> >>]

MonMap(s, e) == [s |-> [s EXCEPT !.st = e.st], cs |-> ZeroChecks(s, e)]

\* (whatever other bits - read-only, bit 9, user, no-execute - upper-level entries carry is irrelevant)
Recoverable(pre) == UpPresent(pre) /\ pre.fl[FP] = 1 /\ pre.fl[FRW] = 0 /\ pre.fl[FCOW] = 1

MonFault(s, e) ==
  LET p      == e.pg
      o      == e.pre
      tracked == IF p > 0 THEN s.st.pg[p] ELSE o
      failed == e.nfail > 0 \/ e.tfailed > 0
      must   == Recoverable(o) /\ ~failed                 \* the only faults that may (and must) resume
      post   == e.st
      q      == IF p > 0 THEN post.pg[p] ELSE o          \* (faults outside the universe never have to resume)
      others == {i \in 1..Len(post.pg) : i # p}
  IN IF ~s.inited THEN [s |-> [s EXCEPT !.st = e.st], cs |-> <<>>]
     ELSE [s |-> [s EXCEPT !.st = e.st],
      cs |-> <<
        <<"C06", tracked # o, <<"harness: walk before the fault differs from the tracked state", tracked, o>> >>,
        <<"C06", ~must /\ e.res # "panic",
                 <<"fault that must end in a panic did not", e.res, "walk", o, "failed allocations", e.nfail, "failed temporary mappings", e.tfailed>> >>,
        <<"C06", must /\ e.res # "resume", <<"copy-on-write fault did not resume", e.res, "walk", o>> >>,
        <<"C06", must /\ e.res = "resume" /\ q.up # o.up, <<"a page fault modified an upper-level entry", o.up, q.up>> >>,
        <<"C06", must /\ e.res = "resume" /\ q.fl # <<1, 1, o.fl[FUS], 0, o.fl[FNX]>>,
                 <<"flags after copy-on-write", q.fl, "expected", <<1, 1, o.fl[FUS], 0, o.fl[FNX]>> >> >>,
        <<"C06", must /\ e.res = "resume" /\ (q.f <= 0 \/ q.f \notin Range(e.alloc) \/ q.f = s.st.z \/ \E i \in 1..Len(s.st.pg) : s.st.pg[i].f = q.f),
                 <<"page does not point to a freshly allocated frame", q.f, "allocated during the call", e.alloc>> >>,
        <<"C06", must /\ e.res = "resume" /\ Content(post, q.f) # Content(s.st, o.f),
                 <<"private copy differs from what the page showed before", Content(post, q.f), Content(s.st, o.f)>> >>,
        <<"C06", must /\ e.res = "resume" /\ \E i \in others : post.pg[i] # s.st.pg[i],
                 IF \E i \in others : post.pg[i] # s.st.pg[i]
                 THEN LET i == CHOOSE i \in others : post.pg[i] # s.st.pg[i] IN <<"mapping of another page changed", i, s.st.pg[i], post.pg[i]>>
                 ELSE "">>,
        <<"C06", must /\ e.res = "resume" /\ \E i \in others : Mapped(s.st.pg[i]) /\ post.pg[i] = s.st.pg[i]
                                                               /\ Content(post, post.pg[i].f) # Content(s.st, s.st.pg[i].f),
                 "contents shown by another page changed">>,
        <<"C06", must /\ e.res = "resume" /\ ~\E k \in 1..Len(e.flush) : e.flush[k] = [pg |-> p, f |-> q.f, rw |-> 1, cow |-> 0],
                 <<"TLB entry of the page not invalidated after the entry was updated", e.flush>> >> >>
        \o (IF e.res = "resume" THEN ZeroChecks(s, e) ELSE <<>>)]

MonGpf(s, e) ==
  [s |-> [s EXCEPT !.st = e.st],
   cs |-> << <<"C06", s.inited /\ e.res # "panic", <<"general protection fault did not end in a panic", e.res>> >> >>]

Mon(s, e) ==
  CASE e.k = "init"  -> MonInit(s, e)
    [] e.k = "map"   -> MonMap(s, e)
    [] e.k = "fault" -> MonFault(s, e)
    [] e.k = "gpf"   -> MonGpf(s, e)
    [] e.k = "env"   -> [s |-> [s EXCEPT !.st = e.st], cs |-> <<>>]
    [] e.k = "reset" -> [s |-> S0, cs |-> <<>>]
====
