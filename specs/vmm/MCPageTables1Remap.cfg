CONSTANTS IB = 1  PB = 2  NF = 10  Leafs = {20, 24}  Sizes = {0, 1, 4, 5}  FailPoints = {0}  MaxOps = 3  Bug = ""  Emit = TRUE
  OpKinds = {"map", "unmap", "switch"}
  PokeBits = {5, 6, 63}
  Props = {"C04"}
CONSTANT U <- MCU1
CONSTANT OpPages <- MCOpPagesR
CONSTANT IdPages <- MCIdPages1
CONSTANT FlagSets <- MCFlagsA2
INIT Init
NEXT Next
INVARIANT NoMismatch
INVARIANT TranslateAgrees
INVARIANT Refines
INVARIANT RecursiveIntact
ACTION_CONSTRAINT EmitTransition
VIEW View
CHECK_DEADLOCK FALSE
