CONSTANTS Family = "upper"  MaxOps = 1  Bug = "StaleUpperEntry"  Emit = FALSE  Wide = FALSE
CONSTANT Codes <- MCCodesOne
INIT Init
NEXT Next
INVARIANT NoMismatch
ACTION_CONSTRAINT EmitEdge
VIEW View
CHECK_DEADLOCK FALSE
