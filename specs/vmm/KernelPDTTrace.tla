---- MODULE KernelPDTTrace ----
(* Trace monitor for C05: events recorded from the real vmm.Init (64-bit words as 4x16-bit limbs,  *)
(* 4 KiB pages) are judged by the operators of KernelPDTProps, one event per step.                 *)
EXTENDS Integers, Sequences, FiniteSets, TLC, Json, IOUtils, TraceLib
P == INSTANCE KernelPDTProps WITH LimbBits <- 16, NLimbs <- 4, PB <- 12
Trace == ndJsonDeserialize(IOEnv.TRACE)

VARIABLES l, s, mismatch
vars == <<l, s, mismatch>>

Init == l = 1 /\ s = P!S0 /\ mismatch = <<>>
Next == /\ l <= Len(Trace) /\ mismatch = <<>>
        /\ l' = l + 1
        /\ LET m == P!Mon(s, Trace[l]) IN s' = m.s /\ mismatch' = FirstFailIn({"C05"}, l, m.cs)
        /\ Report(mismatch')
NoMismatch == mismatch = <<>>
Accepted == TLCGet("stats").diameter - 1 = Len(Trace)
====
