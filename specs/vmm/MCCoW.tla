---- MODULE MCCoW ----
EXTENDS CoW
MCCodesOne == {2}
MCCodesTwo == {2, 17}
MCCodesQuick == {0, 2, 3, 16, 31}
MCCodesFull == 0..31
====
