---- MODULE MCCoW ----
EXTENDS CoW
MCCodesQuick == {0, 2, 3, 16, 31}
MCCodesFull == 0..31
====
