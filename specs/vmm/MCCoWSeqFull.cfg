CONSTANTS Family = "seq"  MaxOps = 5  Bug = ""  Emit = TRUE  Wide = FALSE
CONSTANT Codes <- MCCodesQuick
INIT Init
NEXT Next
INVARIANT NoMismatch
ACTION_CONSTRAINT EmitEdge
VIEW View
CHECK_DEADLOCK FALSE
