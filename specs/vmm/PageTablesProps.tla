---- MODULE PageTablesProps ----
(***************************************************************************)
(* Property C04 (page-table operations implement exactly the requested      *)
(* address translation) as a *monitor* over the ABSTRACT state              *)
(*      trans : address space -> page -> unmapped | <<frame, flag bits>>    *)
(* Each observed event carries the operation, its arguments and result and  *)
(* the PROJECTION of the concrete page tables: what a hardware walk from    *)
(* each root yields for every page of a fixed universe U.  The monitor      *)
(* computes the translation the property allows after the operation and     *)
(* compares.  The same operators judge (a) the implementation-shaped design *)
(* model PageTables.tla (recursive-window arithmetic, explored by TLC with  *)
(* 2 or 4 entries per table) and (b) traces of the real Go package running  *)
(* on a software MMU with 512-entry tables (PageTablesTrace.tla).           *)
(*                                                                          *)
(* Values: a page is the tuple of its four table indices <<i1,i2,i3,i4>>;   *)
(* frames, sizes and physical addresses are words (lib/Word.tla); flag bits *)
(* are the ascending tuple of the bit numbers set in the hardware entry     *)
(* outside the frame field (0 = present, 1 = RW, 2 = user, 9 = CoW, 63 = NX)*)
(* A request whose flags lack bit 0 must leave the page NOT mapped.          *)
(* A projection entry is <<>> (walk hits a non-present entry), <<f, fl>>    *)
(* (leaf entry present) or <<-1>> (walk runs into a frame that is no table).*)
(*                                                                          *)
(* Events (k): ptinit U temp proj | map / unmap / mapregion / identity /    *)
(* maptemp (common fields: pdt via res afail flush newtab proj ah0 ah1) |   *)
(* translate pg off res pa | pdtinit pdt ... | switch pdt proj | poke proj   *)
(* | reset                                                                  *)
(*  res    "ok" | "enomem" (the injected allocator error came back) |       *)
(*         "err:<text>" | "panic"                                           *)
(*  afail  the frame allocator was made to fail during this call            *)
(*  flush  pages whose address reached the TLB-flush seam                   *)
(*  newtab for every frame the allocator handed out during the call: the    *)
(*         ascending tuple of its non-zero entry indices after the call     *)
(*  ah0/1  digest of all table memory reachable from the ACTIVE root before *)
(*         / after the call                                                 *)
(***************************************************************************)
EXTENDS Integers, Sequences, FiniteSets, TLC
CONSTANTS LimbBits, NLimbs, IB, PB, Props
W == INSTANCE Word

E == W!Pow2(IB)
Unm == <<>>
Range(q) == {q[i] : i \in 1..Len(q)}
IdxOf(U, pg) == LET S == {i \in 1..Len(U) : U[i] = pg} IN IF S = {} THEN 0 ELSE CHOOSE i \in S : TRUE

\* page arithmetic on index tuples (base E, most significant first)
RECURSIVE PgAddR(_, _, _)
PgAddR(pg, n, l) == IF l = 0 THEN pg ELSE LET v == pg[l] + n IN PgAddR([pg EXCEPT ![l] = v % E], v \div E, l - 1)
PgAdd(pg, n) == PgAddR(pg, n, 4)
\* the page whose number equals frame number f (identity mapping); f must be below E^4
PageOfFrame(f) == [l \in 1..4 |-> W!ToNat(W!LowBits(W!ShiftR(f, IB * (4 - l)), IB))]
FrameIsPage(f) == W!IsZero(W!ShiftR(f, 4 * IB))
Nth(w, i) == W!Add(w, W!FromNat(i - 1))
Need(size) == LET r == W!RoundUpC(size, PB) IN [n |-> W!ShiftR(r.v, PB), ovf |-> r.c = 1]

\* what the hardware shows for a leaf written with frame f and flag bits fl: a leaf without the present bit translates nothing
Leaf(f, fl) == IF 0 \in Range(fl) THEN <<f, fl>> ELSE Unm

S0 == [U |-> <<>>, temp |-> <<>>, trans |-> <<>>, active |-> 0]

FirstFail(line, cs) ==
  LET S == {i \in 1..Len(cs) : cs[i][1] \in Props \cup {"HARNESS"} /\ cs[i][2]} IN
  IF S = {} THEN <<>> ELSE LET i == CHOOSE j \in S : \A k \in S : j <= k IN <<line, cs[i][1], cs[i][3]>>

Empty(U) == [i \in 1..Len(U) |-> Unm]

--------------------------------------------------------------------------
(* the core comparison.  T: function from universe indices (the target pages of the operation in address     *)
(* space pdt) to their new entries.  exact: every target must show its new entry; otherwise (allocation      *)
(* failure) a target may also still show the old one.  Every non-target entry of every address space must be *)
(* what it was.                                                                                              *)
EntryOK(s, proj, pdt, T, exact, r, i) ==
  IF r = pdt /\ i \in DOMAIN T
  THEN proj[r][i] = T[i] \/ (~exact /\ proj[r][i] = s.trans[r][i])
  ELSE proj[r][i] = s.trans[r][i]
BadEntries(s, proj, pdt, T, exact) ==
  {ri \in (1..Len(s.trans)) \X (1..Len(s.U)) : ~EntryOK(s, proj, pdt, T, exact, ri[1], ri[2])}
ShapeOK(s, proj) == Len(proj) = Len(s.trans) /\ \A r \in 1..Len(proj) : Len(proj[r]) = Len(s.U)
ProjOK(s, proj, pdt, T, exact) == ShapeOK(s, proj) /\ BadEntries(s, proj, pdt, T, exact) = {}
Explain(s, proj, pdt, T, exact) ==
  IF ~ShapeOK(s, proj) THEN <<"projection has the wrong shape">>
  ELSE LET B == BadEntries(s, proj, pdt, T, exact)
           ri == CHOOSE x \in B : \A y \in B : x[1] < y[1] \/ (x[1] = y[1] /\ x[2] <= y[2])
       IN <<"address space", ri[1], "page", s.U[ri[2]], "hardware walk yields", proj[ri[1]][ri[2]],
            IF ri[1] = pdt /\ ri[2] \in DOMAIN T THEN "requested" ELSE "must be unchanged",
            IF ri[1] = pdt /\ ri[2] \in DOMAIN T THEN T[ri[2]] ELSE s.trans[ri[1]][ri[2]]>>

Changed(s, proj, pdt) == {i \in 1..Len(s.U) : proj[pdt][i] # s.trans[pdt][i]}
NotFlushed(s, e, pdt) == {i \in Changed(s, e.proj, pdt) : s.U[i] \notin Range(e.flush)}
\* a table created during the call may only contain entries on the way to one of the target pages
AllowedIdx(pages) == {pg[l] : pg \in pages, l \in 2..4}
DirtyNewTables(e, pages) == {t \in 1..Len(e.newtab) : \E j \in Range(e.newtab[t]) : j \notin AllowedIdx(pages)}

\* checks common to every table-changing operation on address space pdt with targets T (idx -> entry)
OpChecksP(s, e, pdt, T, pages, what) ==
  LET exact == ~e.afail
      shape == ShapeOK(s, e.proj) /\ pdt \in 1..Len(s.trans)
  IN <<
    <<"C04", e.res = "panic", <<what, "panicked">> >>,
    <<"HARNESS", ~shape, <<what, "projection shape / address space id">> >>,
    <<"C04", e.afail /\ e.res # "enomem", <<what, "frame allocation failed but the operation returned", e.res>> >>,
    <<"C04", ~e.afail /\ e.res = "enomem", <<what, "returned the allocator's error although no allocation failed">> >>,
    <<"C04", shape /\ ~ProjOK(s, e.proj, pdt, T, exact),
             IF shape /\ ~ProjOK(s, e.proj, pdt, T, exact) THEN <<what>> \o Explain(s, e.proj, pdt, T, exact) ELSE <<>> >>,
    <<"C04", shape /\ NotFlushed(s, e, pdt) # {},
             IF shape /\ NotFlushed(s, e, pdt) # {}
             THEN <<what, "translation changed without a TLB flush of page", s.U[CHOOSE i \in NotFlushed(s, e, pdt) : TRUE], "flushed", e.flush>>
             ELSE <<>> >>,
    <<"C04", DirtyNewTables(e, pages) # {},
             IF DirtyNewTables(e, pages) # {}
             THEN <<what, "newly created table does not start empty: non-zero entries", e.newtab[CHOOSE t \in DirtyNewTables(e, pages) : TRUE]>>
             ELSE <<>> >>,
    <<"C04", pdt # s.active /\ e.ah0 # e.ah1, <<what, "on an inactive address space changed memory of the active one">> >> >>

OpChecks(s, e, pdt, T, what) == OpChecksP(s, e, pdt, T, {s.U[i] : i \in DOMAIN T}, what)

Adopt(s, e) == [s EXCEPT !.trans = e.proj]
ViaOK(s, e) == e.via = "pdt" \/ e.pdt = s.active

--------------------------------------------------------------------------
MonPtInit(s, e) ==
  LET s1 == [U |-> e.U, temp |-> e.temp, trans |-> <<Empty(e.U)>>, active |-> 1] IN
  [s |-> s1, cs |-> << <<"HARNESS", e.proj # s1.trans, "initial address space is not empty">>,
                       <<"HARNESS", e.temp # <<>> /\ IdxOf(e.U, e.temp) = 0, "temporary-mapping page missing from the universe">> >>]

MonMap(s, e) ==
  LET i == IdxOf(s.U, e.pg)
      T == IF i = 0 THEN <<>> ELSE (i :> Leaf(e.f, e.fl))
  IN [s |-> Adopt(s, e),
      cs |-> << <<"HARNESS", i = 0 \/ ~ViaOK(s, e), "map: page outside the universe or wrong address space">>,
                <<"C04", ~e.afail /\ e.res \notin {"ok", "panic"}, <<"map failed without an allocation failure", e.res>> >> >>
             \o OpChecks(s, e, e.pdt, T, "map")]

MonUnmap(s, e) ==
  LET i == IdxOf(s.U, e.pg)
      T == IF i = 0 THEN <<>> ELSE (i :> Unm)
  IN [s |-> Adopt(s, e),
      cs |-> << <<"HARNESS", i = 0 \/ ~ViaOK(s, e), "unmap: page outside the universe or wrong address space">>,
                \* an error is only an acceptable answer for a page that is not mapped (huge upper-level entries are not generated)
                <<"C04", i # 0 /\ e.pdt \in 1..Len(s.trans) /\ e.res \notin {"ok", "panic"}
                         /\ (IF i # 0 /\ e.pdt \in 1..Len(s.trans) THEN s.trans[e.pdt][i] # Unm ELSE FALSE),
                         <<"unmap of a mapped page returned", e.res>> >> >>
             \o OpChecks(s, e, e.pdt, T, "unmap")]

MonMapTemp(s, e) ==
  LET i == IdxOf(s.U, s.temp)
      T == (i :> <<e.f, <<0, 1>> >>)
  IN [s |-> Adopt(s, e),
      cs |-> << <<"C04", ~e.afail /\ e.res \notin {"ok", "panic"}, <<"maptemp failed without an allocation failure", e.res>> >>,
                <<"C04", e.res = "ok" /\ e.page # s.temp, <<"maptemp returned a page other than the temporary-mapping page", e.page>> >> >>
             \o OpChecks(s, e, s.active, T, "maptemp")]

\* n consecutive pages from p0 to consecutive frames from f
RegionT(s, p0, f, fl, n) ==
  LET idx(k) == IdxOf(s.U, PgAdd(p0, k - 1)) IN
  [i \in {idx(k) : k \in 1..n} |-> LET k == CHOOSE k \in 1..n : idx(k) = i IN Leaf(Nth(f, k), fl)]
RegionInU(s, p0, n) == \A k \in 1..n : IdxOf(s.U, PgAdd(p0, k - 1)) # 0

MonIdentity(s, e) ==
  LET nd == Need(e.size)
      n  == IF nd.ovf \/ ~W!FitsNat(nd.n) THEN 0 ELSE W!ToNat(nd.n)
      p0 == PageOfFrame(e.f)
      inU == FrameIsPage(e.f) /\ RegionInU(s, p0, n)
      T  == IF inU THEN RegionT(s, p0, e.f, e.fl, n) ELSE <<>>
  IN [s |-> Adopt(s, e),
      cs |-> << <<"HARNESS", nd.ovf \/ ~inU, "identity: region outside the universe">>,
                <<"C04", ~e.afail /\ e.res \notin {"ok", "panic"}, <<"identity-map failed without an allocation failure", e.res>> >>,
                <<"C04", e.res = "ok" /\ e.page # p0, <<"identity-map returned a page other than the frame's own", e.page>> >> >>
             \o OpChecks(s, e, s.active, T, "identity-map")]

\* MapRegion: the region start is an output (placement is C07's business); on failure no start page is returned,
\* so any window of n universe pages that explains all changes is accepted
MonMapRegion(s, e) ==
  LET nd == Need(e.size)
      n  == IF nd.ovf \/ ~W!FitsNat(nd.n) THEN 0 ELSE W!ToNat(nd.n)
  IN IF e.res = "ok" \/ ~e.afail
     THEN LET inU == RegionInU(s, e.page, n)
              T == IF inU THEN RegionT(s, e.page, e.f, e.fl, n) ELSE <<>>
          IN [s |-> Adopt(s, e),
              cs |-> << <<"HARNESS", nd.ovf \/ (e.res = "ok" /\ ~inU), "map-region: region outside the universe">>,
                        <<"C04", ~e.afail /\ e.res \notin {"ok", "panic"}, <<"map-region failed without an allocation failure", e.res>> >> >>
                     \o OpChecks(s, e, s.active, T, "map-region")]
     ELSE LET Starts == {q \in 1..Len(s.U) : RegionInU(s, s.U[q], n) /\ ShapeOK(s, e.proj)
                                            /\ ProjOK(s, e.proj, s.active, RegionT(s, s.U[q], e.f, e.fl, n), FALSE)}
              q == IF Starts = {} THEN 0 ELSE CHOOSE x \in Starts : TRUE
              T == IF q = 0 THEN <<>> ELSE RegionT(s, s.U[q], e.f, e.fl, n)
              pages == {PgAdd(s.U[x], k - 1) : x \in Starts, k \in 1..n}
          IN [s |-> Adopt(s, e),
              cs |-> << <<"C04", Starts = {} /\ ShapeOK(s, e.proj) /\ e.proj # s.trans,
                          <<"failed map-region changed translations that no region of the requested size explains">> >> >>
                     \o OpChecksP(s, e, s.active, T, pages, "map-region")]

MonTranslate(s, e) ==
  LET i == IdxOf(s.U, e.pg)
      cur == IF i = 0 THEN Unm ELSE s.trans[s.active][i]
  IN [s |-> s,
      cs |-> <<
        <<"HARNESS", i = 0, "translate: page outside the universe">>,
        <<"C04", e.res = "panic", "translate panicked">>,
        <<"C04", i # 0 /\ cur = Unm /\ e.res = "ok", <<"translate of an unmapped page succeeded", e.pg, e.pa>> >>,
        <<"C04", i # 0 /\ cur # Unm /\ e.res # "ok", <<"translate of a mapped page failed", e.pg, e.res>> >>,
        <<"C04", i # 0 /\ cur # Unm /\ e.res = "ok" /\ e.pa # W!Add(W!ShiftL(cur[1], PB), W!FromNat(e.off)),
                 <<"translate returned", e.pa, "expected frame", IF cur # Unm THEN cur[1] ELSE cur, "plus offset", e.off>> >> >>]

\* PageDirectoryTable.Init of a fresh root (through the temporary mapping of the active space)
MonPdtInit(s, e) ==
  LET i == IdxOf(s.U, s.temp)
      T == (i :> Unm)
  IN IF e.res = "ok"
     THEN LET s1 == [s EXCEPT !.trans = Append(s.trans, Empty(s.U))]      \* the new space translates nothing
          IN [s |-> [s EXCEPT !.trans = e.proj],
              cs |-> << <<"HARNESS", e.pdt # Len(s.trans) + 1, "pdtinit: unexpected id">> >>
                     \o OpChecks(s1, e, s.active, T, "pdt-init")]
     ELSE [s |-> Adopt(s, e),
           cs |-> << <<"C04", ~e.afail /\ e.res # "panic", <<"pdt-init failed without an allocation failure", e.res>> >> >>
                  \o OpChecks(s, e, s.active, T, "pdt-init")]

\* the environment (the CPU setting accessed/dirty, a boot loader setting global/NX/cache bits) ORs flag bits into an
\* UPPER-level entry or into a root's recursive entry: translations are untouched, nothing for the kernel to answer for
MonPoke(s, e) ==
  [s |-> s, cs |-> << <<"HARNESS", e.proj # s.trans, "poke of an upper-level entry changed a translation">> >>]

MonSwitch(s, e) ==
  [s |-> [s EXCEPT !.active = e.pdt],
   cs |-> << <<"HARNESS", e.pdt \notin 1..Len(s.trans), "switch: unknown address space">>,
             <<"C04", e.proj # s.trans, "activating an address space changed a translation">> >>]

Mon(s, e) ==
  CASE e.k = "ptinit"    -> MonPtInit(s, e)
    [] e.k = "map"       -> MonMap(s, e)
    [] e.k = "unmap"     -> MonUnmap(s, e)
    [] e.k = "maptemp"   -> MonMapTemp(s, e)
    [] e.k = "mapregion" -> MonMapRegion(s, e)
    [] e.k = "identity"  -> MonIdentity(s, e)
    [] e.k = "translate" -> MonTranslate(s, e)
    [] e.k = "pdtinit"   -> MonPdtInit(s, e)
    [] e.k = "switch"    -> MonSwitch(s, e)
    [] e.k = "poke"      -> MonPoke(s, e)
    [] e.k = "reset"     -> [s |-> S0, cs |-> <<>>]
====
