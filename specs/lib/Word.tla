---- MODULE Word ----
(* Fixed-width unsigned words as tuples of limbs, most significant first.      *)
(* TLC integers are 32-bit, so 64-bit machine values never appear as TLA+ ints *)
EXTENDS Integers, Sequences
CONSTANTS LimbBits, NLimbs

RECURSIVE Pow2(_)
Pow2(n) == IF n = 0 THEN 1 ELSE 2 * Pow2(n - 1)
B == Pow2(LimbBits)
Width == LimbBits * NLimbs

IsWord(w) == /\ DOMAIN w = 1..NLimbs /\ \A i \in 1..NLimbs : w[i] \in 0..(B-1)
Zero == [i \in 1..NLimbs |-> 0]
\* little helper: limb index 1 is the most significant; bit offset of limb i
Off(i) == (NLimbs - i) * LimbBits

RECURSIVE FromNatR(_, _)
FromNatR(n, i) == IF i = 0 THEN <<>> ELSE Append(FromNatR(n \div B, i - 1), n % B)
FromNat(n) == FromNatR(n, NLimbs)

RECURSIVE ToNatR(_, _)
ToNatR(w, i) == IF i = 0 THEN 0 ELSE ToNatR(w, i - 1) * B + w[i]
ToNat(w) == ToNatR(w, NLimbs)            \* only if it fits
FitsNat(w) == \A i \in 1..NLimbs : (Off(i) >= 30 => w[i] = 0)

\* comparison
RECURSIVE CmpR(_, _, _)
CmpR(a, b, i) == IF i > NLimbs THEN 0 ELSE IF a[i] < b[i] THEN -1 ELSE IF a[i] > b[i] THEN 1 ELSE CmpR(a, b, i + 1)
Cmp(a, b) == CmpR(a, b, 1)
Lt(a, b) == Cmp(a, b) < 0
Le(a, b) == Cmp(a, b) <= 0

\* addition with carry-out: returns [v |-> word, c |-> 0/1]
RECURSIVE AddR(_, _, _, _)
AddR(a, b, i, c) == IF i = 0 THEN [v |-> <<>>, c |-> c]
                    ELSE LET s == a[i] + b[i] + c
                             r == AddR(a, b, i - 1, s \div B)
                         IN [v |-> Append(r.v, s % B), c |-> r.c]
AddC(a, b) == AddR(a, b, NLimbs, 0)
Add(a, b) == AddC(a, b).v                \* modulo 2^Width
\* subtraction with borrow-out
RECURSIVE SubR(_, _, _, _)
SubR(a, b, i, c) == IF i = 0 THEN [v |-> <<>>, c |-> c]
                    ELSE LET d == a[i] - b[i] - c
                             r == SubR(a, b, i - 1, IF d < 0 THEN 1 ELSE 0)
                         IN [v |-> Append(r.v, IF d < 0 THEN d + B ELSE d), c |-> r.c]
SubC(a, b) == SubR(a, b, NLimbs, 0)
Sub(a, b) == SubC(a, b).v

\* clear the low k bits
RoundDown(w, k) == [i \in 1..NLimbs |->
                      IF Off(i) + LimbBits <= k THEN 0
                      ELSE IF Off(i) >= k THEN w[i]
                      ELSE w[i] - (w[i] % Pow2(k - Off(i)))]
LowBits(w, k) == Sub(w, RoundDown(w, k))
\* round up to a multiple of 2^k: [v, c] where c = 1 means the result wrapped
RoundUpC(w, k) == LET m == Sub(FromNat(Pow2(k)), FromNat(1))
                      s == AddC(w, m)
                  IN [v |-> RoundDown(s.v, k), c |-> s.c]
\* logical shift right by k bits (k < Width)
ShiftR(w, k) == LET q == k \div LimbBits  r == k % LimbBits IN
   [i \in 1..NLimbs |->
      LET src == i - q IN
      IF src < 1 THEN 0
      ELSE LET lo == w[src] \div Pow2(r)
               hi == IF src - 1 >= 1 THEN (w[src - 1] % Pow2(r)) * Pow2(LimbBits - r) ELSE 0
           IN lo + hi]
ShiftL(w, k) == LET q == k \div LimbBits  r == k % LimbBits IN
   [i \in 1..NLimbs |->
      LET src == i + q IN
      IF src > NLimbs THEN 0
      ELSE LET hi == (w[src] * Pow2(r)) % B
               lo == IF src + 1 <= NLimbs THEN w[src + 1] \div Pow2(LimbBits - r) ELSE 0
           IN hi + lo]
\* long division by a small divisor d (d * B must fit in an int): [q, r]
RECURSIVE DivR(_, _, _, _)
DivR(w, d, i, rem) == IF i > NLimbs THEN [q |-> <<>>, r |-> rem]
                      ELSE LET cur == rem * B + w[i]
                               rest == DivR(w, d, i + 1, cur % d)
                           IN [q |-> <<cur \div d>> \o rest.q, r |-> rest.r]
DivSmall(w, d) == DivR(w, d, 1, 0)
IsZero(w) == \A i \in 1..NLimbs : w[i] = 0
Neg(w) == Sub(Zero, w)
====
