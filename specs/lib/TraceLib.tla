---- MODULE TraceLib ----
(* Helpers shared by all trace monitors.                                                        *)
(* A monitor consumes one recorded event per step; when the specification does not allow what   *)
(* the real code did it stores <<line, property, why...>> in its `mismatch` variable, reports   *)
(* it on stdout (one line the runner greps for) and stops.  Reporting through PrintT instead of *)
(* an INVARIANT keeps TLC from printing a 10^4-state counterexample for a long trace.           *)
EXTENDS Integers, Sequences, TLC, Json

Report(m) == IF m = <<>> THEN TRUE ELSE PrintT(<<"VERIF-MISMATCH", ToJson(m)>>)

\* cs: sequence of <<property, failed?, explanation>>; the first enabled failing check wins
FirstFailIn(props, line, cs) ==
  LET S == {i \in 1..Len(cs) : cs[i][1] \in props /\ cs[i][2]} IN
  IF S = {} THEN <<>> ELSE LET i == CHOOSE j \in S : \A k \in S : j <= k IN <<line, cs[i][1], cs[i][3]>>

\* POSTCONDITION for monitors that take exactly one step per trace line
AllConsumed(n) == TLCGet("stats").diameter - 1 = n
====
