CONSTANTS Scope = 1  NRuns = 2  Design = "asbuilt"  Bug = "CrReportsFirstOnly"  Emit = FALSE
CONSTANT Comps <- Only_cr
CONSTANT DevSet <- AllDevs
INIT Init
NEXT Next
INVARIANT NoMismatch
CHECK_DEADLOCK FALSE
