CONSTANTS Scope = 1  NRuns = 2  Design = "asbuilt"  Bug = ""  Emit = FALSE
CONSTANT Comps <- Only_ve
CONSTANT DevSet <- Without_GnuXorrisoBanner
INIT Init
NEXT Next
INVARIANT NoMismatch
CHECK_DEADLOCK FALSE
