CONSTANTS Scope = 1  NRuns = 2  Design = "asbuilt"  Bug = ""  Emit = FALSE
CONSTANT Comps <- Only_mm
CONSTANT DevSet <- Without_GoPrerelease
INIT Init
NEXT Next
INVARIANT NoMismatch
CHECK_DEADLOCK FALSE
