CONSTANTS Scope = 1  NRuns = 2  Design = "asbuilt"  Bug = "RtGoFirst"  Emit = FALSE
CONSTANT Comps <- Only_rt
CONSTANT DevSet <- AllDevs
INIT Init
NEXT Next
INVARIANT NoMismatch
CHECK_DEADLOCK FALSE
