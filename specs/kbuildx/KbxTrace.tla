---- MODULE KbxTrace ----
(* Trace monitor: events recorded from the real kbuild packages (harness/kbuildx) are judged by the *)
(* operators of module KbxProps, one event per step.  DevSet is the set of deviations of the pinned *)
(* code that are open (KbxTrace.cfg: all of them; KbxTraceStrict.cfg: none).  When the last event   *)
(* has been consumed the monitor prints the deviations that were needed to explain a run.           *)
EXTENDS Integers, Sequences, FiniteSets, TLC, Json, IOUtils, TraceLib, MCKbxDevs
CONSTANTS DevSet,
          Collect     \* FALSE: stop at the first mismatch (the verdict);  TRUE: go on and print all of them at the end (reports)
P == INSTANCE KbxProps WITH Devs <- DevSet
Trace == ndJsonDeserialize(IOEnv.TRACE)

VARIABLES l, s, mismatch, found,
          cl,        \* line of the case event of the current case
          devs,      \* deviations needed to explain some run so far
          devcases   \* <<line of the case event, deviation>> for the pinned reproducers (leg "P")
vars == <<l, s, mismatch, found, cl, devs, devcases>>

Init == l = 1 /\ s = P!S0 /\ mismatch = <<>> /\ found = <<>> /\ cl = 0 /\ devs = {} /\ devcases = {}
Next == /\ l <= Len(Trace) /\ mismatch = <<>>
        /\ l' = l + 1
        /\ cl' = IF Trace[l].k = "case" THEN l ELSE cl
        /\ LET m == P!Mon(s, Trace[l])
               f == P!FirstFail(l, m.cs)
           IN /\ s' = m.s
              /\ mismatch' = IF Collect THEN <<>> ELSE f
              /\ found' = IF Collect /\ f # <<>> THEN Append(found, <<l, f[2]>>) ELSE found
              /\ devs' = devs \cup m.s.devs
              /\ devcases' = IF cl' > 0 /\ "leg" \in DOMAIN Trace[cl'] /\ Trace[cl'].leg = "P"
                              THEN devcases \cup {<<cl', d>> : d \in m.s.devs} ELSE devcases
              /\ (l = Len(Trace) /\ mismatch' = <<>>) => /\ PrintT(<<"VERIF-DEVS", ToJson(devs')>>)
                                                        /\ PrintT(<<"VERIF-DEVCASES", ToJson(devcases')>>)
                                                        /\ (Collect => PrintT(<<"VERIF-FOUND", ToJson(found')>>))
        /\ Report(mismatch')
NoMismatch == mismatch = <<>>
Accepted == TLCGet("stats").diameter - 1 = Len(Trace)
====
