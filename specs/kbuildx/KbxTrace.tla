---- MODULE KbxTrace ----
(* Trace monitor: events recorded from the real kbuild packages (harness/kbuildx) are judged by the *)
(* operators of module KbxProps, one event per step.  DevSet is the set of deviations of the pinned *)
(* code that are open (KbxTrace.cfg: all of them; KbxTraceStrict.cfg: none).  When the last event   *)
(* has been consumed the monitor prints the deviations that were needed to explain a run.           *)
EXTENDS Integers, Sequences, FiniteSets, TLC, Json, IOUtils, TraceLib, MCKbxDevs
CONSTANT DevSet
P == INSTANCE KbxProps WITH Devs <- DevSet
Trace == ndJsonDeserialize(IOEnv.TRACE)

VARIABLES l, s, mismatch
vars == <<l, s, mismatch>>

Init == l = 1 /\ s = P!S0 /\ mismatch = <<>>
Next == /\ l <= Len(Trace) /\ mismatch = <<>>
        /\ l' = l + 1
        /\ LET m == P!Mon(s, Trace[l]) IN
             /\ s' = m.s /\ mismatch' = P!FirstFail(l, m.cs)
             /\ (l = Len(Trace) /\ mismatch' = <<>>) => PrintT(<<"VERIF-DEVS", ToJson(m.s.devs)>>)
        /\ Report(mismatch')
NoMismatch == mismatch = <<>>
Accepted == TLCGet("stats").diameter - 1 = Len(Trace)
====
