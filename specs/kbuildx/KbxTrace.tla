---- MODULE KbxTrace ----
(* Trace monitor: events recorded from the real kbuild packages (harness/kbuildx) are judged by the *)
(* operators of module KbxProps, one event per step.  DevSet is the set of deviations of the pinned *)
(* code that are open (KbxTrace.cfg: all of them; KbxTraceStrict.cfg: none).  When the last event   *)
(* has been consumed the monitor prints the deviations that were needed to explain a run.           *)
EXTENDS Integers, Sequences, FiniteSets, TLC, Json, IOUtils, TraceLib, MCKbxDevs
CONSTANTS DevSet,
          Collect     \* FALSE: stop at the first mismatch (the verdict);  TRUE: go on and print all of them at the end (reports)
P == INSTANCE KbxProps WITH Devs <- DevSet
Trace == ndJsonDeserialize(IOEnv.TRACE)

VARIABLES l, s, mismatch, found
vars == <<l, s, mismatch, found>>

Init == l = 1 /\ s = P!S0 /\ mismatch = <<>> /\ found = <<>>
Next == /\ l <= Len(Trace) /\ mismatch = <<>>
        /\ l' = l + 1
        /\ LET m == P!Mon(s, Trace[l])
               f == P!FirstFail(l, m.cs)
           IN /\ s' = m.s
              /\ mismatch' = IF Collect THEN <<>> ELSE f
              /\ found' = IF Collect /\ f # <<>> THEN Append(found, <<l, f[2]>>) ELSE found
              /\ (l = Len(Trace) /\ mismatch' = <<>>) => /\ PrintT(<<"VERIF-DEVS", ToJson(m.s.devs)>>)
                                                        /\ (Collect => PrintT(<<"VERIF-FOUND", ToJson(found')>>))
        /\ Report(mismatch')
NoMismatch == mismatch = <<>>
Accepted == TLCGet("stats").diameter - 1 = Len(Trace)
====
