CONSTANTS Scope = 1  NRuns = 2  Design = "asbuilt"  Bug = "DoLeavesWork"  Emit = FALSE
CONSTANT Comps <- Only_do
CONSTANT DevSet <- AllDevs
INIT Init
NEXT Next
INVARIANT NoMismatch
CHECK_DEADLOCK FALSE
