CONSTANT DevSet <- AllDevs
CONSTANT Collect = FALSE
INIT Init
NEXT Next
POSTCONDITION Accepted
CHECK_DEADLOCK FALSE
