CONSTANTS Scope = 2  NRuns = 2  Design = "strict"  Bug = ""  Emit = FALSE
CONSTANT Comps <- AllComps
CONSTANT DevSet <- NoDevs
INIT Init
NEXT Next
INVARIANT NoMismatch
CHECK_DEADLOCK FALSE
