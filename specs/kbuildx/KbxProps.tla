---- MODULE KbxProps ----
(***************************************************************************)
(* extra-kbuild: what the rest of the kernel build tool /repo/kbuild must   *)
(* do (redirect discovery itself is property C20, specs/kbuild).            *)
(*                                                                          *)
(* PROPERTY STATEMENTS                                                      *)
(*  CR  CompleteRedirects.  If the linked image has a symbol table and a    *)
(*      `.goredirectstbl` section of at least 16*n bytes and, for each of   *)
(*      the n redirects, symbols named exactly like its source and its      *)
(*      destination exist with a non-zero address, the build succeeds and   *)
(*      the section starts with n records in slice order, record i =        *)
(*      LE64(address of a symbol named src_i), LE64(address of a symbol     *)
(*      named dst_i); no other byte of the image changes.  Otherwise the    *)
(*      build aborts, the image is byte-for-byte unchanged (no partial      *)
(*      table), and when only symbols are missing every redirect that lacks *)
(*      one is named in the output (by its source position or by one of its *)
(*      symbols; the wording of diagnostics is not specified anywhere).     *)
(*  LS  CompileLinkerScript.  `NAME equ VALUE` lines of constants.inc       *)
(*      (blank and `;` lines skipped, last definition of a name wins)       *)
(*      are inlined into linker.ld.in: the output is the script with every  *)
(*      occurrence of every name replaced by its value, and it is the same  *)
(*      text on every build.  A malformed line or a missing input aborts    *)
(*      the build before linker.ld is written.                              *)
(*  WO  GetOffsets / WriteOffsets.  The offsets table registered for        *)
(*      exactly the toolchain's goX.Y is selected (none registered: abort,  *)
(*      nothing written); go_asm_offsets.inc defines, as the assembler      *)
(*      reads it (`SYMBOL equ NUMBER` lines), exactly the table's symbols   *)
(*      with their offsets, identically on every build.                     *)
(*  VE  Tool versions.  The version of objcopy is the text after the last   *)
(*      space of the banner's first line, that of xorriso the field after   *)
(*      the leading word `xorriso`; the tool is accepted (empty message)    *)
(*      iff that is a version >= 2.26.0 resp. 1.5.0 in semantic-version     *)
(*      precedence (pre-releases precede their release); a rejection is a   *)
(*      non-empty message that shows the version text found.  VE-doc: every objcopy >= 2.26 / xorriso >= 1.5 is  *)
(*      accepted, also when the distribution appends a release suffix       *)
(*      (`2.30-93.el8`, `2.35.1.20201123-1`, `1.5.6.pl02`) or the banner    *)
(*      starts with `GNU xorriso`.                                          *)
(*  CD  CheckDeps.  objcopy, xorriso, grub-mkrescue and nasm are looked up  *)
(*      and probed in this order; if one is missing / failing / too old the *)
(*      build aborts and every such tool is named in the output, in this    *)
(*      order; with none the build continues with the paths found.          *)
(*  MM  goMajorMinorVersion / GoVersion.  `go` + a version string           *)
(*      MAJOR[.MINOR[.PATCH[-PRE][+BUILD]]] yields goMAJOR.MINOR (minor 0   *)
(*      when absent), anything else is invalid; GoVersion applies this to   *)
(*      the field after `go version ` in the tool's banner and fails when   *)
(*      the tool fails.  MM-doc: every Go release version string,           *)
(*      including betas and release candidates (go1.16beta1, go1.16rc1),    *)
(*      is valid.                                                           *)
(*  OE  OverrideEnv.  The result is environ with, for each override in      *)
(*      order, the entry of the same variable replaced in place or, if      *)
(*      there is none, the override appended; environ is not modified; an   *)
(*      entry without `=` that has to be inspected is a panic.  OE-doc: a   *)
(*      process started with the result sees, for every overridden          *)
(*      variable, the value of the last override of that variable (also     *)
(*      when environ holds the variable more than once).                    *)
(*  BW  build.WriteOffsets.  The generated file is a Go file of the given   *)
(*      package whose first line is the `Code generated ... DO NOT EDIT.`   *)
(*      marker and which registers, under the key goX.Y, a table            *)
(*      SymbolOffsetsForGoXY holding exactly the given entries in order.    *)
(*  DO  build.DeriveOffsets.  Fails when the tool fails, when linux/GOARCH  *)
(*      is not listed, when the build prints no WORK directory or when an   *)
(*      offset of interest is not an unsigned number; otherwise returns,    *)
(*      for the go_asm.h files of the WORK tree in lexical path order and   *)
(*      their lines in file order, one entry GO_<UPPER(name)> = value per   *)
(*      `[#define ]name value` line whose name starts with g_, m_ or        *)
(*      stack_; it removes the WORK tree.                                   *)
(*  RT  CompileRT0 / LinkKernel.  One assembler run per regular `*.s` file  *)
(*      of arch/GOARCH/rt0 in name order, each told NUM_REDIRECTS = number  *)
(*      of redirects (the table CompleteRedirects fills is sized by it),    *)
(*      stopping at the first failure; the linker gets the objects in that  *)
(*      order followed by go.o.                                             *)
(*  CK  CompileKernel.  The go tool is asked (GOARCH set, cgo off,            *)
(*      GOPATH=/kernel) for the build script of the kernel's main package;  *)
(*      build.sh is a prologue followed by that script with $WORK           *)
(*      replaced by the work directory and without the lines starting with  *)
(*      `mv ` and the `<path/>buildid -w ...` calls - every other line      *)
(*      unchanged, in order.  It is run, and the entry point is exported:   *)
(*      objcopy gets --add-symbol kernel.Kmain=.text:0xADDR, ADDR being the *)
(*      address column of the first `go tool nm` line that ends in          *)
(*      kmain.Kmain, and --globalize-symbol for runtime.g0, runtime.m0 and  *)
(*      runtime.physPageSize.  A failing tool, no such nm line or one       *)
(*      without an address column aborts (build.sh is only written when the *)
(*      go tool delivered the script).                                      *)
(*  DET Every output above is a function of the input: repeated builds (in  *)
(*      one process, and in a fresh process, where Go's map iteration order *)
(*      differs) yield the same result.                                     *)
(*                                                                          *)
(* DEVIATIONS of the pinned code from these statements (constant Devs is    *)
(* the set of the ones that are open; the monitor accepts a run that only   *)
(* the deviating rule explains and records the name):                       *)
(*  LastSymbolWins   CR: the address used is that of the LAST symbol of the *)
(*                   name in the symbol table; if that one is 0 the symbol  *)
(*                   counts as missing although another one is defined.     *)
(*  NoSectionBound   CR: the section size is not checked: 16*n bytes are    *)
(*                   written even when the section is smaller.              *)
(*  LinkerMapOrder   LS/DET: constants are substituted in Go map iteration  *)
(*                   order; when a name occurs inside another name or inside*)
(*                   a value the output differs from build to build.        *)
(*  VersionSuffix    VE-doc: distribution release suffixes are rejected as  *)
(*                   `not a valid version`.                                 *)
(*  GnuXorrisoBanner VE-doc: `GNU xorriso 1.5.4 : ...` is rejected.         *)
(*  GoPrerelease     MM-doc: go1.16beta1 / go1.16rc1 are invalid.           *)
(*  EnvDuplicateShadow OE-doc: with a variable that occurs twice in environ *)
(*                   only the first occurrence is replaced, the process     *)
(*                   still sees the old value of the last one.              *)
(*                                                                          *)
(* Everything is written as a monitor: Mon(s, e) takes the monitor state    *)
(* and one observed event and returns the next state and the failed checks. *)
(* Events: case comp in | run proc out | reset.                             *)
(***************************************************************************)
EXTENDS Integers, Sequences, FiniteSets, TLC, KbxText
CONSTANT Devs

Range(q) == {q[i] : i \in 1..Len(q)}

ZeroW == <<0, 0, 0, 0>>

--------------------------------------------------------------------------
(* CR - CompleteRedirects *)
(* in:  syms = <<name, addr>>*, reds = <<src, dst>>*, symtab (bool), sec (-1: no section, else its size in bytes),    *)
(*      fill (word the section and the bytes after it are filled with)                                                *)
(* out: res, words (the 8-byte words from the section start after the run), outside (bytes changed elsewhere),         *)
(*      named = for each redirect: does its position text, or its source or destination symbol as a word, occur in      *)
(*      any line the tool printed (the wording of the diagnostics is not specified)                                     *)
CrIdx(in, name) == {j \in 1..Len(in.syms) : in.syms[j][1] = name}
CrNonZero(in, name) == {in.syms[j][2] : j \in CrIdx(in, name)} \ {ZeroW}
CrLast(in, name) == IF CrIdx(in, name) = {} THEN ZeroW ELSE in.syms[MaxOf(CrIdx(in, name))][2]
CrAddrs(in, name, D) == IF "LastSymbolWins" \in D THEN {CrLast(in, name)} \ {ZeroW} ELSE CrNonZero(in, name)
CrPos(i) == "f" \o ToString(i) \o ".go:" \o ToString(i) \o ":1"
CrMissing(in, i, D) == (IF CrAddrs(in, in.reds[i][1], D) = {} THEN {<<"src", in.reds[i][1]>>} ELSE {}) \cup
                       (IF CrAddrs(in, in.reds[i][2], D) = {} THEN {<<"dst", in.reds[i][2]>>} ELSE {})
CrBad(in, D) == {i \in 1..Len(in.reds) : CrMissing(in, i, D) # {}}
CrTooSmall(in, D) == "NoSectionBound" \notin D /\ in.sec < 16 * Len(in.reds)
CrNoTable(in) == ~in.symtab \/ in.sec < 0
CrAbort(in, D) == CrNoTable(in) \/ CrBad(in, D) # {} \/ CrTooSmall(in, D)
CrWordOk(in, out, k, D) ==
  LET n == Len(in.reds)  i == (k + 1) \div 2 IN
  IF k <= 2 * n THEN out.words[k] \in CrAddrs(in, in.reds[i][IF k % 2 = 1 THEN 1 ELSE 2], D)
  ELSE out.words[k] = in.fill
CrBadWords(in, out, D) == {k \in 1..Len(out.words) : ~CrWordOk(in, out, k, D)}
CrTouched(in, out) == {k \in 1..Len(out.words) : out.words[k] # in.fill}
CrJudge(in, out, D) ==
  LET ab == CrAbort(in, D) IN
  << <<"CR", out.res \notin {"ok", "exit"}, <<"the build neither completed nor aborted", out.res>> >>,
     <<"CR", ab /\ out.res = "ok", <<"the build must abort", "no symbol table or section", CrNoTable(in),
                                     "redirects without symbol", CrBad(in, D), "section too small", CrTooSmall(in, D)>> >>,
     <<"CR", ~ab /\ out.res = "exit", <<"the build must succeed: every symbol is defined">> >>,
     <<"CR", ab /\ (out.outside # 0 \/ CrTouched(in, out) # {}),
             <<"the image changed although the build must abort (partial table)", "words", CrTouched(in, out), "other bytes", out.outside>> >>,
     <<"CR", ~ab /\ out.res = "ok" /\ Len(out.words) < 2 * Len(in.reds), <<"harness: window shorter than the table">> >>,
     <<"CR", ~ab /\ out.res = "ok" /\ Len(out.words) >= 2 * Len(in.reds) /\ CrBadWords(in, out, D) # {},
             <<"table is not <<src_i, dst_i>> in slice order followed by untouched bytes",
               "word", IF CrBadWords(in, out, D) # {} THEN MinOf(CrBadWords(in, out, D)) ELSE 0>> >>,
     <<"CR", ~ab /\ out.res = "ok" /\ out.outside # 0, <<"bytes outside the section window changed", out.outside>> >>,
     <<"CR", ab /\ out.res = "exit" /\ ~CrNoTable(in) /\ ~CrTooSmall(in, D) /\ \E i \in CrBad(in, D) : ~out.named[i],
             <<"a redirect that lacks a symbol is not named in the tool's output (neither its position nor one of its symbols)",
               "lacking", CrBad(in, D), "named", out.named>> >> >>

--------------------------------------------------------------------------
(* LS - CompileLinkerScript *)
(* in:  have ("both" | "noconst" | "noscript"), consts = lines (character sequences), script (characters)   *)
(* out: res, written (linker.ld exists), text                                                                *)
Equ == <<" ", "e", "q", "u", " ">>
LsLine(ln) == LET t == TrimSpace(ln) IN
              IF t = <<>> \/ t[1] = ";" THEN [k |-> "skip"]
              ELSE LET ps == SplitSub(t, Equ) IN
                   IF Len(ps) # 2 THEN [k |-> "bad"]
                   ELSE [k |-> "def", name |-> TrimSpace(ps[1]), val |-> TrimSpace(ps[2])]
LsLines(in) == [i \in 1..Len(in.consts) |-> LsLine(in.consts[i])]
LsBad(in) == \E i \in 1..Len(in.consts) : LsLine(in.consts[i]).k = "bad"
LsDefs(in) == SelectSeq(LsLines(in), LAMBDA r : r.k = "def")
LsNames(in) == {LsDefs(in)[i].name : i \in 1..Len(LsDefs(in))}
LsVal(in, name) == LET ds == LsDefs(in) IN ds[MaxOf({i \in 1..Len(ds) : ds[i].name = name})].val
\* substituting the names one after the other in the order given by the sequence ord
RECURSIVE LsApply(_, _, _, _)
LsApply(in, txt, ord, i) == IF i > Len(ord) THEN txt
                            ELSE LsApply(in, ReplaceAll(txt, ord[i], LsVal(in, ord[i])), ord, i + 1)
RECURSIVE Orders(_)          \* all orders (sequences without repetition) of the elements of S
Orders(S) == IF S = {} THEN {<<>>} ELSE UNION { { <<x>> \o q : q \in Orders(S \ {x}) } : x \in S }
LsResults(in) == {Str(LsApply(in, in.script, ord, 1)) : ord \in Orders(LsNames(in))}
LsAbort(in) == in.have # "both" \/ LsBad(in)
\* per-case constant, computed once when the case starts: the set of texts the script may become
LsPre(in) == IF LsAbort(in) THEN {} ELSE LsResults(in)
LsJudge(in, pre, out, D) ==
  << <<"LS", out.res \notin {"ok", "exit"}, <<"the step neither completed nor aborted", out.res>> >>,
     <<"LS", LsAbort(in) /\ (out.res = "ok" \/ out.written), <<"a malformed constants line or a missing input must abort before linker.ld is written",
                                                               "res", out.res, "written", out.written>> >>,
     <<"LS", ~LsAbort(in) /\ (out.res # "ok" \/ ~out.written), <<"the linker script must be produced", out.res>> >>,
     LET bad == ~LsAbort(in) /\ out.res = "ok" /\ out.written /\ out.text \notin pre IN
     <<"LS", bad, IF bad THEN <<"linker.ld is not the script with the constants inlined", "got", out.text, "allowed", pre>> ELSE <<>> >> >>
\* is the result required to be the same on every build?
LsDet(in, pre, D) == ~("LinkerMapOrder" \in D /\ Cardinality(pre) > 1)

--------------------------------------------------------------------------
(* WO - GetOffsets / WriteOffsets *)
(* in:  reg = <<version, <<symbol, offset>>* >>*, ver   out: res, offs, written, text                        *)
WoTables(in) == {in.reg[i][2] : i \in {j \in 1..Len(in.reg) : in.reg[j][1] = in.ver}}
WoAbort(in) == WoTables(in) = {} \/ WoTables(in) = {<<>>}
\* defs: the definitions of go_asm_offsets.inc as nasm reads them (`NAME equ NUMBER`, comments and blank lines ignored; a line
\* nasm would not accept as such shows up as <<"?", ...>>)
SameBag(a, b) == \A x \in Range(a) \cup Range(b) : Cardinality({i \in 1..Len(a) : a[i] = x}) = Cardinality({i \in 1..Len(b) : b[i] = x})
WoJudge(in, out, D) ==
  << <<"WO", out.res \notin {"ok", "exit"}, <<"the step neither completed nor aborted", out.res>> >>,
     <<"WO", WoAbort(in) /\ (out.res = "ok" \/ out.written), <<"no table is registered for this version: the build must abort", in.ver>> >>,
     <<"WO", ~WoAbort(in) /\ out.res # "ok", <<"a table is registered for this version", in.ver>> >>,
     <<"WO", ~WoAbort(in) /\ out.res = "ok" /\ {out.offs} # WoTables(in), <<"selected table is not the one registered for", in.ver, "got", out.offs>> >>,
     <<"WO", ~WoAbort(in) /\ out.res = "ok" /\ {out.offs} = WoTables(in) /\ (~out.written \/ ~SameBag(out.defs, out.offs)),
             <<"go_asm_offsets.inc does not define exactly the symbols of the table with their offsets", "got", out.defs>> >> >>

--------------------------------------------------------------------------
(* VE - tool version banners.  in: tool, banner (characters)   out: msg *)
VeWant(tool) == IF tool = "objcopy" THEN << <<"2">>, <<"2", "6">>, <<"0">> >> ELSE << <<"1">>, <<"5">>, <<"0">> >>
VeWantS(tool) == IF tool = "objcopy" THEN "v2.26.0" ELSE "v1.5.0"
VePkg(tool) == IF tool = "objcopy" THEN "binutils" ELSE "xorriso"
Bq(tool) == "`" \o tool \o "`"
VeFirstLine(b) == LET i == IndexOf(b, "\n") IN IF i = 0 THEN b ELSE Upto(b, i - 1)
\* the text the pinned code looks at
VeToken(tool, b) ==
  IF tool = "objcopy"
  THEN LET l == VeFirstLine(b)  i == LastIndexOf(l, " ") IN TrimSpace(IF i = 0 THEN l ELSE From(l, i))
  ELSE LET r == TrimPrefix(b, <<"x", "o", "r", "r", "i", "s", "o", " ">>)  i == IndexOf(r, " ")
       IN TrimSpace(IF i = 0 THEN r ELSE Upto(r, i - 1))
\* the text a reader of the banner takes for the version (VE-doc): the same, with `GNU ` in front of xorriso skipped
VeDocToken(tool, b) == IF tool = "xorriso" /\ HasPrefix(b, <<"G", "N", "U", " ">>) THEN VeToken(tool, From(b, 5)) ELSE VeToken(tool, b)
VeAccept(tool, tok) == LET w == VeWant(tool) IN VerValid(tok) /\ VerCmpRelease(tok, w[1], w[2], w[3]) >= 0
\* distribution style: N.N or N.N.N followed by a release suffix that makes it an invalid semantic version
VeDistro(tok) ==
  LET S == {k \in 1..(Len(tok) - 1) : tok[k] \in {"-", "."} /\ tok[k + 1] \in Digits \cup LowerS \cup UpperS /\
                                  LET c == SplitChar(Upto(tok, k - 1), ".") IN
                                  Len(c) \in 2..3 /\ \A i \in 1..Len(c) : IsCanonNum(c[i])} IN
  IF VerValid(tok) \/ S = {} THEN <<>> ELSE Upto(tok, MaxOf(S) - 1)
VeDocAllows(tool, b, ok) ==
  LET tok == VeDocToken(tool, b)  core == VeDistro(tok)  w == VeWant(tool) IN
  IF core = <<>> THEN ok = VeAccept(tool, tok)
  ELSE ok <=> VerCmpRelease(core, w[1], w[2], w[3]) >= 0
VeDevOf(tool, b) == IF VeDocToken(tool, b) # VeToken(tool, b) THEN "GnuXorrisoBanner" ELSE "VersionSuffix"
\* a text that a message can show verbatim (nothing a quoting function would escape)
VePlain(tok) == tok # <<>> /\ \A i \in 1..Len(tok) : tok[i] \notin {"\n", "\t", "\r", "\"", "\\"}
\* out: ok (accepted: empty message), msg (the message, characters)
VeJudge(in, out, D) ==
  << <<"VE", (VeDevOf(in.tool, in.banner) \notin D /\ ~VeDocAllows(in.tool, in.banner, out.ok))
             \/ (VeDevOf(in.tool, in.banner) \in D /\ out.ok # VeAccept(in.tool, VeToken(in.tool, in.banner))),
             <<"wrong verdict on the tool's version banner", "version text", Str(VeDocToken(in.tool, in.banner)), "accepted", out.ok>> >>,
     <<"VE", ~out.ok /\ \A u \in {VeToken(in.tool, in.banner), VeDocToken(in.tool, in.banner)} : VePlain(u) /\ IndexOfSub(out.msg, u) = 0,
             <<"the rejection does not show the version text that was found", Str(VeToken(in.tool, in.banner)), "message", Str(out.msg)>> >> >>

--------------------------------------------------------------------------
(* CD - CheckDeps.  in: tools = <<name, "absent"|"present", exit code, banner>> (4, fixed order) *)
\* out: res, paths, mention = for each tool the offset of the first occurrence of its name in everything the run printed (-1: none)
CdFails(t) == t[2] = "absent" \/ t[3] # 0 \/ (t[1] \in {"objcopy", "xorriso"} /\ ~VeAccept(t[1], VeToken(t[1], t[4])))
CdFailed(in) == {i \in 1..Len(in.tools) : CdFails(in.tools[i])}
CdJudge(in, out, D) ==
  LET f == CdFailed(in) IN
  << <<"CD", out.res \notin {"ok", "exit"}, <<"the step neither completed nor aborted", out.res>> >>,
     <<"CD", f # {} /\ out.res = "ok", <<"a dependency is missing, failing or too old: the build must abort", f>> >>,
     <<"CD", f = {} /\ out.res # "ok", <<"all dependencies are fine: the build must continue">> >>,
     <<"CD", f # {} /\ out.res = "exit" /\ \E i \in f : out.mention[i] < 0,
             <<"a failed dependency is not named in the output", "failed", f, "first mentions", out.mention>> >>,
     <<"CD", f # {} /\ out.res = "exit" /\ \E i, j \in f : i < j /\ out.mention[i] >= 0 /\ out.mention[j] >= 0 /\ out.mention[i] >= out.mention[j],
             <<"the failed dependencies are not listed in probing order", "failed", f, "first mentions", out.mention>> >>,
     <<"CD", f = {} /\ out.res = "ok" /\ out.paths # [i \in 1..Len(in.tools) |-> in.tools[i][1]],
             <<"the tool paths recorded are not the ones found", out.paths>> >> >>

--------------------------------------------------------------------------
(* MM - goMajorMinorVersion.  in: v (characters)   out: ok, majmin *)
GoPfx == <<"g", "o">>
MmValid(v) == HasPrefix(v, GoPfx) /\ VerValid(From(v, 3))
MmResult(v) == "go" \o Str(VerMajorMinor(From(v, 3)))
\* Go release version strings: go1, go1.15, go1.15.3, go1.16beta1, go1.16rc2
MmGoRelease(v) ==
  /\ HasPrefix(v, GoPfx)
  /\ LET r == From(v, 3)
         A == {i \in 1..Len(r) : r[i] \notin Digits \cup {"."}}
         k == IF A = {} THEN Len(r) + 1 ELSE MinOf(A)
         core == SplitChar(Upto(r, k - 1), ".")
         suf == From(r, k)
     IN /\ Len(core) \in 1..3 /\ \A i \in 1..Len(core) : IsCanonNum(core[i])
        /\ \/ suf = <<>>
           \/ /\ Len(core) = 2
              /\ \E w \in {<<"b", "e", "t", "a">>, <<"r", "c">>} : HasPrefix(suf, w) /\ IsCanonNum(From(suf, Len(w) + 1))
MmDocResult(v) == LET r == From(v, 3)
                      A == {i \in 1..Len(r) : r[i] \notin Digits \cup {"."}}
                      k == IF A = {} THEN Len(r) + 1 ELSE MinOf(A)
                  IN "go" \o Str(VerMajorMinor(Upto(r, k - 1)))
MmExpect(v, D) == IF MmValid(v) THEN <<TRUE, MmResult(v)>>
                  ELSE IF "GoPrerelease" \notin D /\ MmGoRelease(v) THEN <<TRUE, MmDocResult(v)>>
                  ELSE <<FALSE, "">>
MmJudge(in, out, D) ==
  << <<"MM", <<out.ok, out.majmin>> # MmExpect(in.v, D), <<"wrong major.minor of the Go version", "got", <<out.ok, out.majmin>>,
                                                          "want", MmExpect(in.v, D)>> >> >>
(* GV - GoVersion over a (fake) go tool.  in: banner (characters), rc   out: res, ver *)
GvToken(b) == LET r == TrimPrefix(b, <<"g", "o", " ", "v", "e", "r", "s", "i", "o", "n", " ">>)
                  i == IndexOf(r, " ")
              IN IF i > 1 THEN Upto(r, i - 1) ELSE r
GvExpect(in, D) == IF in.rc # 0 THEN <<"err", "">>
                   ELSE LET e == MmExpect(GvToken(in.banner), D) IN IF e[1] THEN <<"ok", e[2]>> ELSE <<"err", "">>
GvJudge(in, out, D) ==
  << <<"MM", <<out.res, out.ver>> # GvExpect(in, D), <<"wrong Go version derived from the tool's banner", "got", <<out.res, out.ver>>,
                                                      "want", GvExpect(in, D)>> >> >>

--------------------------------------------------------------------------
(* OE - OverrideEnv.  Entries are <<name, value, hasEq>>.  in: env, ovr   out: res, out, envafter *)
\* one override applied to the list built so far: [res, out]
RECURSIVE OeScan(_, _, _)
OeScan(lst, o, i) == IF i > Len(lst) THEN [res |-> "ok", out |-> Append(lst, o)]
                     ELSE IF ~lst[i][3] THEN [res |-> "panic", out |-> <<>>]
                     ELSE IF lst[i][1] = o[1] THEN [res |-> "ok", out |-> [lst EXCEPT ![i] = o]]
                     ELSE OeScan(lst, o, i + 1)
RECURSIVE OeFold(_, _, _)
OeFold(lst, ovr, k) == IF k > Len(ovr) THEN [res |-> "ok", out |-> lst]
                       ELSE IF ~ovr[k][3] THEN [res |-> "panic", out |-> <<>>]
                       ELSE LET r == OeScan(lst, ovr[k], 1) IN
                            IF r.res # "ok" THEN r ELSE OeFold(r.out, ovr, k + 1)
OeExact(in) == OeFold(in.env, in.ovr, 1)
\* the value a process started with this environment sees (os/exec: the last entry of a variable counts)
OeSeen(lst, name) == LET S == {i \in 1..Len(lst) : lst[i][3] /\ lst[i][1] = name} IN
                     IF S = {} THEN <<FALSE, "">> ELSE <<TRUE, lst[MaxOf(S)][2]>>
OeIneffective(in, out) == {k \in 1..Len(in.ovr) : in.ovr[k][3] /\ OeSeen(out.out, in.ovr[k][1]) # OeSeen(in.ovr, in.ovr[k][1])}
\* some overridden variable occurs more than once in environ
OeDupes(in) == \E k \in 1..Len(in.ovr) : in.ovr[k][3] /\ Cardinality({i \in 1..Len(in.env) : in.env[i][3] /\ in.env[i][1] = in.ovr[k][1]}) > 1
OeJudge(in, out, D) ==
  LET x == OeExact(in) IN
  << <<"OE", out.res # x.res, <<"panic exactly when an entry without '=' has to be inspected", "got", out.res, "want", x.res>> >>,
     <<"OE", ("EnvDuplicateShadow" \in D \/ ~OeDupes(in)) /\ out.res = "ok" /\ x.res = "ok" /\ out.out # x.out, <<"result is not environ with first occurrences replaced in place and the rest appended in order",
                                                                 "got", out.out, "want", x.out>> >>,
     <<"OE", out.envafter # in.env, <<"environ was modified", out.envafter>> >>,
     <<"OE", "EnvDuplicateShadow" \notin D /\ out.res = "ok" /\ OeIneffective(in, out) # {},
             <<"an override is not the value the started process sees", "overrides", OeIneffective(in, out), "result", out.out>> >> >>

--------------------------------------------------------------------------
(* BW - build.WriteOffsets.  in: pkg, ver (characters), entries = <<symbol, offset>>*                           *)
(* out: res, parsed (the file parses as Go), pkg, header, key, initvar, varname, entries (as the Go parser sees the file) *)
BwSuffix(ver) == RemoveChar(TrimPrefix(ver, GoPfx), ".")
BwJudge(in, out, D) ==
  LET v == Str(in.ver)  name == "SymbolOffsetsForGo" \o Str(BwSuffix(in.ver)) IN
  << <<"BW", out.res # "ok", <<"writing the table failed", out.res>> >>,
     <<"BW", out.res = "ok" /\ ~out.parsed, <<"the generated file is not a Go source file">> >>,
     <<"BW", out.res = "ok" /\ out.parsed /\ ~out.marker, <<"first line is not a `// Code generated ... DO NOT EDIT.` marker", out.header>> >>,
     <<"BW", out.res = "ok" /\ out.parsed /\ (out.pkg # in.pkg \/ out.key # v \/ out.varname # name \/ out.initvar # name),
             <<"the file does not register table", name, "under key", v, "in package", in.pkg,
               "got", <<out.pkg, out.key, out.initvar, out.varname>> >> >>,
     <<"BW", out.res = "ok" /\ out.parsed /\ out.entries # in.entries, <<"the table does not hold exactly the entries in order", "got", out.entries>> >> >>

--------------------------------------------------------------------------
(* DO - build.DeriveOffsets over a fake go tool.                                                                 *)
(* in:  goarch, dist = <<os, arch>>*, distrc, buildrc, work (bool: WORK= line printed),                          *)
(*      files = [key (path as sequence of name ranks, lexical order = numeric order), asm (is a go_asm.h),       *)
(*               lines = [form, name (characters), val]*]*                                                       *)
(* out: res, entries, workleft                                                                                   *)
DoRelevant(name) == \E p \in {<<"g", "_">>, <<"m", "_">>, <<"s", "t", "a", "c", "k", "_">>} : HasPrefix(name, p)
DoCounts(l) == l.form \in {"def", "bare", "badnum", "neg"} /\ DoRelevant(l.name)
RECURSIVE LexLess(_, _, _)
LexLess(a, b, i) == IF i > Len(a) THEN i <= Len(b)
                    ELSE IF i > Len(b) THEN FALSE
                    ELSE IF a[i] # b[i] THEN a[i] < b[i] ELSE LexLess(a, b, i + 1)
DoAsm(in) == SortSeq(SelectSeq(in.files, LAMBDA f : f.asm), LAMBDA a, b : LexLess(a.key, b.key, 1))
DoFileEntries(f) == LET ls == SelectSeq(f.lines, DoCounts) IN
                    [i \in 1..Len(ls) |-> <<"GO_" \o Str(ToUpper(ls[i].name)), ls[i].val>>]
RECURSIVE DoConcat(_, _)
DoConcat(fs, i) == IF i > Len(fs) THEN <<>> ELSE DoFileEntries(fs[i]) \o DoConcat(fs, i + 1)
DoBadNumber(in) == \E i \in 1..Len(in.files) : in.files[i].asm /\
                      \E j \in 1..Len(in.files[i].lines) : DoCounts(in.files[i].lines[j]) /\ in.files[i].lines[j].form \in {"badnum", "neg"}
DoSupported(in) == \E i \in 1..Len(in.dist) : in.dist[i] = <<"linux", in.goarch>>
DoErr(in) == in.distrc # 0 \/ ~DoSupported(in) \/ in.buildrc # 0 \/ ~in.work \/ DoBadNumber(in)
DoJudge(in, out, D) ==
  << <<"DO", DoErr(in) /\ out.res = "ok", <<"offsets must not be derived: tool failure, unsupported GOARCH, no WORK directory or a malformed offset",
                                            "got", out.entries>> >>,
     <<"DO", ~DoErr(in) /\ out.res # "ok", <<"offsets must be derived", out.res>> >>,
     LET bad == ~DoErr(in) /\ out.res = "ok" /\ out.entries # DoConcat(DoAsm(in), 1) IN
     <<"DO", bad, IF bad THEN <<"entries are not the g_/m_/stack_ definitions of the go_asm.h files in path order", "got", out.entries,
                                "want", DoConcat(DoAsm(in), 1)>> ELSE <<>> >>,
     <<"DO", in.distrc = 0 /\ DoSupported(in) /\ in.buildrc = 0 /\ in.work /\ out.workleft, <<"the WORK tree was left behind">> >> >>

--------------------------------------------------------------------------
(* RT - CompileRT0 + LinkKernel over fake tools.                                                                 *)
(* in:  files = <<rank, kind>>* (name rank: lexical order = numeric order; kind "s" | "inc" | "dir.s" | "S"),    *)
(*      nred, failat (rank of the source whose assembly fails, 0: none)                                          *)
(* out: res, calls = [src (rank), obj (rank), nred, fmt]*, link = ranks of the objects then -1 for go.o          *)
RtSources(in) == SortSeq(SelectSeq(in.files, LAMBDA f : f[2] = "s"), LAMBDA a, b : a[1] < b[1])
RtUpto(in) == LET s == RtSources(in)  F == {i \in 1..Len(s) : s[i][1] = in.failat} IN
              IF F = {} THEN s ELSE Upto(s, MinOf(F))
RtFails(in) == \E i \in 1..Len(RtSources(in)) : RtSources(in)[i][1] = in.failat
RtJudge(in, out, D) ==
  LET s == RtUpto(in) IN
  << <<"RT", RtFails(in) /\ out.res = "ok", <<"an assembler failure must fail the step">> >>,
     <<"RT", ~RtFails(in) /\ out.res # "ok", <<"the step must succeed", out.res>> >>,
     <<"RT", [i \in 1..Len(out.calls) |-> out.calls[i].src] # [i \in 1..Len(s) |-> s[i][1]],
             <<"not one assembler run per regular *.s file in name order (up to the first failure)", "got", out.calls>> >>,
     <<"RT", \E i \in 1..Len(out.calls) : out.calls[i].nred # in.nred \/ out.calls[i].obj # out.calls[i].src \/ out.calls[i].fmt # "elf64",
             <<"an assembler run without NUM_REDIRECTS = number of redirects, or with the wrong object name or format", out.calls>> >>,
     <<"RT", ~RtFails(in) /\ out.res = "ok" /\ out.link # [i \in 1..Len(s) |-> s[i][1]] \o <<-1>>,
             <<"the linker does not get the assembly objects in order followed by go.o", out.link>> >> >>

--------------------------------------------------------------------------
(* CK - CompileKernel over fake tools.                                                                           *)
(* in:  lines (the script `go build -n` prints, as character sequences), nm (the lines of `go tool nm`),         *)
(*      buildrc, nmrc, objrc (exit codes of go build, go tool nm, objcopy)                                       *)
(* out: res, written (build.sh exists), script (its text, work directory spelled $DIR/work), goenv, goargs,      *)
(*      objcopy (the argument lists of the objcopy runs)                                                         *)
CkWorkVar == <<"$", "W", "O", "R", "K">>
CkWorkDir == <<"$", "D", "I", "R", "/", "w", "o", "r", "k">>
CkMv == <<"m", "v", " ">>
CkBuildid == <<"b", "u", "i", "l", "d", "i", "d">>
CkDashW == <<" ", "-", "w", " ">>
CkKmain == <<"k", "m", "a", "i", "n", ".", "K", "m", "a", "i", "n">>
CkBase(w) == LET i == LastIndexOf(w, "/") IN IF i = 0 THEN w ELSE From(w, i + 1)
CkKept(l) == LET i == IndexOf(l, " ") IN
             /\ ~HasPrefix(l, CkMv)
             /\ ~(i > 0 /\ CkBase(Upto(l, i - 1)) = CkBuildid /\ HasPrefix(From(l, i), CkDashW))
CkSubst(in) == [i \in 1..Len(in.lines) |-> ReplaceAll(in.lines[i], CkWorkVar, CkWorkDir)]
CkKeptLines(in) == LET k == SelectSeq(CkSubst(in), CkKept) IN [i \in 1..Len(k) |-> Str(k[i])]
\* build.sh (out.lines) = a prologue that holds none of the script's lines, followed by exactly the kept lines
CkScriptOk(in, out) ==
  LET k == CkKeptLines(in)  n == Len(out.lines) - Len(k)
      all == {Str(CkSubst(in)[i]) : i \in 1..Len(in.lines)} \ {""}
  IN n >= 0 /\ SubSeq(out.lines, n + 1, Len(out.lines)) = k /\ \A i \in 1..n : out.lines[i] \notin all
CkHits(in) == {i \in 1..Len(in.nm) : HasSuffix(TrimSpace(in.nm[i]), CkKmain)}
CkLine(in) == TrimSpace(in.nm[MinOf(CkHits(in))])
CkNoAddr(in) == in.nmrc # 0 \/ CkHits(in) = {} \/ IndexOf(CkLine(in), " ") = 0
CkAbort(in) == in.buildrc # 0 \/ CkNoAddr(in) \/ in.objrc # 0
CkGo == <<"build", "-ldflags=-tmpdir=$DIR/work -linkmode=external '-extldflags=-nostartfiles -nodefaultlibs -nostdlib -r'", "-n",
          "github.com/ProjectSerenity/firefly/kernel/main">>
CkObjcopy(in) == <<"--add-symbol", "kernel.Kmain=.text:0x" \o Str(Upto(CkLine(in), IndexOf(CkLine(in), " ") - 1)),
                   "--globalize-symbol", "runtime.g0", "--globalize-symbol", "runtime.m0", "--globalize-symbol", "runtime.physPageSize",
                   "$DIR/work/go.o", "$DIR/work/go.o">>
CkJudge(in, out, D) ==
  << <<"CK", out.res \notin {"ok", "exit"}, <<"the step neither completed nor aborted", out.res>> >>,
     <<"CK", CkAbort(in) /\ out.res = "ok", <<"a failing tool or a missing kmain.Kmain address must abort the build">> >>,
     <<"CK", ~CkAbort(in) /\ out.res # "ok", <<"the kernel must be compiled", out.res>> >>,
     <<"CK", out.goargs # CkGo \/ out.goenv # "GOARCH=amd64 CGO_ENABLED=0 GOPATH=/kernel",
             <<"the go tool is not asked for the build script of the kernel's main package in the kernel's environment", out.goargs, out.goenv>> >>,
     <<"CK", in.buildrc # 0 /\ out.written, <<"build.sh written although the go tool failed">> >>,
     LET bad == in.buildrc = 0 /\ (~out.written \/ ~CkScriptOk(in, out)) IN
     <<"CK", bad, IF bad THEN <<"build.sh is not a prologue + the script without `mv` and `buildid -w` lines, $WORK replaced", "got", out.lines,
                                "want (after the prologue)", CkKeptLines(in)>> ELSE <<>> >>,
     <<"CK", (in.buildrc # 0 \/ CkNoAddr(in)) /\ out.objcopy # <<>>, <<"objcopy run although the entry point's address is unknown", out.objcopy>> >>,
     LET bad == in.buildrc = 0 /\ ~CkNoAddr(in) /\ out.objcopy # <<CkObjcopy(in)>> IN
     <<"CK", bad, IF bad THEN <<"objcopy is not told to add kernel.Kmain at the address of kmain.Kmain and to globalize g0, m0, physPageSize",
                                "got", out.objcopy, "want", CkObjcopy(in)>> ELSE <<>> >> >>

--------------------------------------------------------------------------
(* the monitor *)
Judge(comp, in, pre, out, D) ==
  CASE comp = "cr" -> CrJudge(in, out, D) [] comp = "ls" -> LsJudge(in, pre, out, D) [] comp = "wo" -> WoJudge(in, out, D)
    [] comp = "ve" -> VeJudge(in, out, D) [] comp = "cd" -> CdJudge(in, out, D) [] comp = "mm" -> MmJudge(in, out, D)
    [] comp = "gv" -> GvJudge(in, out, D) [] comp = "oe" -> OeJudge(in, out, D) [] comp = "bw" -> BwJudge(in, out, D)
    [] comp = "do" -> DoJudge(in, out, D) [] comp = "rt" -> RtJudge(in, out, D)
    [] comp = "ck" -> CkJudge(in, out, D)
    [] OTHER -> << <<"KBX", TRUE, <<"unknown component", comp>> >> >>
MustRepeat(comp, in, pre, D) == IF comp = "ls" THEN LsDet(in, pre, D) ELSE TRUE
Pre(comp, in) == IF comp = "ls" THEN LsPre(in) ELSE {}
Failing(cs) == SelectSeq(cs, LAMBDA c : c[2])

S0 == [comp |-> "", in |-> <<>>, pre |-> {}, nb |-> 0, first |-> <<>>, devs |-> {}]

\* all checks of one run under the deviation set D
RunChecks(s, e, D) ==
  Judge(s.comp, s.in, s.pre, e.out, D) \o
  << <<"DET", s.nb > 0 /\ MustRepeat(s.comp, s.in, s.pre, D) /\ e.out # s.first,
       <<"same input, different result", "component", s.comp, "run", s.nb + 1, "process", e.proc, "first", s.first, "now", e.out>> >> >>

MonRun(s, e) ==
  LET strict == Failing(RunChecks(s, e, {}))
      dev    == IF strict = <<>> THEN <<>> ELSE Failing(RunChecks(s, e, Devs))
      which  == IF strict = <<>> \/ dev # <<>> THEN {}
                ELSE LET one == {d \in Devs : Failing(RunChecks(s, e, {d})) = <<>>} IN IF one = {} THEN {"combination"} ELSE one
  IN [s  |-> [s EXCEPT !.nb = @ + 1, !.first = IF s.nb = 0 THEN e.out ELSE @, !.devs = @ \cup which],
      cs |-> dev]

\* s.devs: the deviations needed so far to explain the runs of the current case
Mon(s, e) == CASE e.k = "case"  -> [s |-> [S0 EXCEPT !.comp = e.comp, !.in = e.in, !.pre = Pre(e.comp, e.in)], cs |-> <<>>]
               [] e.k = "run"   -> MonRun(s, e)
               [] e.k = "reset" -> [s |-> S0, cs |-> <<>>]
               [] OTHER         -> [s |-> s, cs |-> << <<"KBX", TRUE, <<"unknown event", e.k>> >> >>]

FirstFail(line, cs) == IF cs = <<>> THEN <<>> ELSE <<line, cs[1][1], cs[1][3]>>
====
