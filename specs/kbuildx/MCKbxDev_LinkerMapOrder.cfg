CONSTANTS Scope = 1  NRuns = 2  Design = "asbuilt"  Bug = ""  Emit = FALSE
CONSTANT Comps <- Only_ls
CONSTANT DevSet <- Without_LinkerMapOrder
INIT Init
NEXT Next
INVARIANT NoMismatch
CHECK_DEADLOCK FALSE
