---- MODULE MCKbx ----
(* model-checking instance of KbxModel; scopes, design and mutants are set in the MCKbx*.cfg files:   *)
(*  MCKbxQuick / MCKbxFull        as-built design, open deviations allowed, emits the cases for leg G  *)
(*  MCKbxStrictQuick / ..Full     repaired design against the statements without any deviation         *)
(*  MCKbxBug_<name>               design mutants (TLC must reject each)                                 *)
(*  MCKbxDev_<name>               as-built design with that deviation NOT allowed (TLC must reject:    *)
(*                                the deviation is real and the scope exercises it)                     *)
EXTENDS KbxModel
AllComps == {"cr", "ls", "wo", "ve", "cd", "mm", "gv", "oe", "bw", "do", "rt", "ck"}
Only_cr == {"cr"}
Only_ls == {"ls"}
Only_wo == {"wo"}
Only_ve == {"ve"}
Only_cd == {"cd"}
Only_mm == {"mm"}
Only_gv == {"gv"}
Only_oe == {"oe"}
Only_bw == {"bw"}
Only_do == {"do"}
Only_rt == {"rt"}
Only_ck == {"ck"}
Without_LastSymbolWins == AllDevs \ {"LastSymbolWins"}
Without_NoSectionBound == AllDevs \ {"NoSectionBound"}
Without_LinkerMapOrder == AllDevs \ {"LinkerMapOrder"}
Without_VersionSuffix == AllDevs \ {"VersionSuffix"}
Without_GnuXorrisoBanner == AllDevs \ {"GnuXorrisoBanner"}
Without_GoPrerelease == AllDevs \ {"GoPrerelease"}
Without_EnvDuplicateShadow == AllDevs \ {"EnvDuplicateShadow"}
====
