CONSTANTS Scope = 2  NRuns = 2  Design = "asbuilt"  Bug = ""  Emit = TRUE
CONSTANT Comps <- AllComps
CONSTANT DevSet <- AllDevs
INIT Init
NEXT Next
INVARIANT NoMismatch
INVARIANT EmitCase
CHECK_DEADLOCK FALSE
