CONSTANTS Scope = 1  NRuns = 2  Design = "asbuilt"  Bug = "GvNoPrefixTrim"  Emit = FALSE
CONSTANT Comps <- Only_gv
CONSTANT DevSet <- AllDevs
INIT Init
NEXT Next
INVARIANT NoMismatch
CHECK_DEADLOCK FALSE
