CONSTANTS Scope = 1  NRuns = 2  Design = "asbuilt"  Bug = ""  Emit = FALSE
CONSTANT Comps <- Only_cr
CONSTANT DevSet <- Without_LastSymbolWins
INIT Init
NEXT Next
INVARIANT NoMismatch
CHECK_DEADLOCK FALSE
