CONSTANTS Scope = 1  NRuns = 2  Design = "asbuilt"  Bug = "CdNasmBeforeGrub"  Emit = FALSE
CONSTANT Comps <- Only_cd
CONSTANT DevSet <- AllDevs
INIT Init
NEXT Next
INVARIANT NoMismatch
CHECK_DEADLOCK FALSE
