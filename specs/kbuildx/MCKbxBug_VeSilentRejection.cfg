CONSTANTS Scope = 1  NRuns = 2  Design = "asbuilt"  Bug = "VeSilentRejection"  Emit = FALSE
CONSTANT Comps <- Only_ve
CONSTANT DevSet <- AllDevs
INIT Init
NEXT Next
INVARIANT NoMismatch
CHECK_DEADLOCK FALSE
