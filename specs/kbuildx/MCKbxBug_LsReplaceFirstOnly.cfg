CONSTANTS Scope = 1  NRuns = 2  Design = "asbuilt"  Bug = "LsReplaceFirstOnly"  Emit = FALSE
CONSTANT Comps <- Only_ls
CONSTANT DevSet <- AllDevs
INIT Init
NEXT Next
INVARIANT NoMismatch
CHECK_DEADLOCK FALSE
