---- MODULE KbxText ----
(***************************************************************************)
(* Text as sequences of one-character strings (TLC cannot look inside a     *)
(* string, but it can compare and concatenate strings): the operators the   *)
(* kbuild specifications need - trimming, searching, splitting, replacing,  *)
(* upper-casing, decimal/hex rendering of 64-bit words given as four 16-bit *)
(* limbs - and the grammar of version strings `MAJOR[.MINOR[.PATCH[-PRE]    *)
(* [+BUILD]]]` (semantic versioning 2.0.0 plus the two short forms) written *)
(* declaratively: split at the first '+', then at the first '-', then at    *)
(* the dots.  The design model (KbxModel) parses the same strings left to   *)
(* right like an implementation would; TLC compares the two.                *)
(***************************************************************************)
EXTENDS Integers, Sequences, FiniteSets

Digits == {"0", "1", "2", "3", "4", "5", "6", "7", "8", "9"}
LowerS == {"a", "b", "c", "d", "e", "f", "g", "h", "i", "j", "k", "l", "m",
           "n", "o", "p", "q", "r", "s", "t", "u", "v", "w", "x", "y", "z"}
UpperS == {"A", "B", "C", "D", "E", "F", "G", "H", "I", "J", "K", "L", "M",
           "N", "O", "P", "Q", "R", "S", "T", "U", "V", "W", "X", "Y", "Z"}
IdentChars == Digits \cup LowerS \cup UpperS \cup {"-"}
Spaces == {" ", "\t", "\n", "\r"}
DigitVal(c) == CASE c = "0" -> 0 [] c = "1" -> 1 [] c = "2" -> 2 [] c = "3" -> 3 [] c = "4" -> 4
                 [] c = "5" -> 5 [] c = "6" -> 6 [] c = "7" -> 7 [] c = "8" -> 8 [] c = "9" -> 9
UpperOf(c) == CASE c = "a" -> "A" [] c = "b" -> "B" [] c = "c" -> "C" [] c = "d" -> "D" [] c = "e" -> "E"
                [] c = "f" -> "F" [] c = "g" -> "G" [] c = "h" -> "H" [] c = "i" -> "I" [] c = "j" -> "J"
                [] c = "k" -> "K" [] c = "l" -> "L" [] c = "m" -> "M" [] c = "n" -> "N" [] c = "o" -> "O"
                [] c = "p" -> "P" [] c = "q" -> "Q" [] c = "r" -> "R" [] c = "s" -> "S" [] c = "t" -> "T"
                [] c = "u" -> "U" [] c = "v" -> "V" [] c = "w" -> "W" [] c = "x" -> "X" [] c = "y" -> "Y"
                [] c = "z" -> "Z" [] OTHER -> c
ToUpper(q) == [i \in 1..Len(q) |-> UpperOf(q[i])]

MinOf(S) == CHOOSE x \in S : \A y \in S : x <= y
MaxOf(S) == CHOOSE x \in S : \A y \in S : x >= y

\* the string spelled by a sequence of characters
RECURSIVE StrFrom(_, _)
StrFrom(q, i) == IF i > Len(q) THEN "" ELSE q[i] \o StrFrom(q, i + 1)
Str(q) == StrFrom(q, 1)

From(q, i) == SubSeq(q, i, Len(q))                    \* q[i..]
Upto(q, i) == SubSeq(q, 1, i)                         \* q[..i]
MatchAt(q, pat, i) == i + Len(pat) - 1 <= Len(q) /\ \A k \in 1..Len(pat) : q[i + k - 1] = pat[k]
HasPrefix(q, pat) == MatchAt(q, pat, 1)
HasSuffix(q, pat) == Len(pat) <= Len(q) /\ MatchAt(q, pat, Len(q) - Len(pat) + 1)
TrimPrefix(q, pat) == IF HasPrefix(q, pat) THEN From(q, Len(pat) + 1) ELSE q
\* index of the first / last occurrence of character c (0: none)
IndexOf(q, c) == LET S == {i \in 1..Len(q) : q[i] = c} IN IF S = {} THEN 0 ELSE MinOf(S)
LastIndexOf(q, c) == LET S == {i \in 1..Len(q) : q[i] = c} IN IF S = {} THEN 0 ELSE MaxOf(S)
IndexOfSub(q, pat) == LET S == {i \in 1..Len(q) : MatchAt(q, pat, i)} IN IF S = {} THEN 0 ELSE MinOf(S)
TrimSpace(q) == LET S == {i \in 1..Len(q) : q[i] \notin Spaces} IN
                IF S = {} THEN <<>> ELSE SubSeq(q, MinOf(S), MaxOf(S))
\* the pieces between the occurrences of character c (always at least one piece)
RECURSIVE SplitChar(_, _)
SplitChar(q, c) == LET i == IndexOf(q, c) IN
                   IF i = 0 THEN <<q>> ELSE <<Upto(q, i - 1)>> \o SplitChar(From(q, i + 1), c)
\* the pieces between the non-overlapping occurrences of pat, found left to right (pat not empty)
RECURSIVE SplitSub(_, _)
SplitSub(q, pat) == LET i == IndexOfSub(q, pat) IN
                    IF i = 0 THEN <<q>> ELSE <<Upto(q, i - 1)>> \o SplitSub(From(q, i + Len(pat)), pat)
RECURSIVE JoinWith(_, _, _)
JoinWith(ps, sep, i) == IF i > Len(ps) THEN <<>>
                        ELSE (IF i > 1 THEN sep ELSE <<>>) \o ps[i] \o JoinWith(ps, sep, i + 1)
\* every non-overlapping occurrence of from, left to right, replaced by to (from not empty)
ReplaceAll(q, from, to) == JoinWith(SplitSub(q, from), to, 1)
RemoveChar(q, c) == SelectSeq(q, LAMBDA x : x # c)

RECURSIVE ConcatAll(_, _)
ConcatAll(qs, i) == IF i > Len(qs) THEN <<>> ELSE qs[i] \o ConcatAll(qs, i + 1)

\* Go's %q for the printable ASCII subset used here
QuoteChar(c) == CASE c = "\n" -> "\\n" [] c = "\t" -> "\\t" [] c = "\r" -> "\\r"
                  [] c = "\"" -> "\\\"" [] c = "\\" -> "\\\\" [] OTHER -> c
RECURSIVE QuoteFrom(_, _)
QuoteFrom(q, i) == IF i > Len(q) THEN "" ELSE QuoteChar(q[i]) \o QuoteFrom(q, i + 1)
Quoted(q) == "\"" \o QuoteFrom(q, 1) \o "\""

--------------------------------------------------------------------------
(* decimal numbers written as digit sequences *)
IsNum(q) == q # <<>> /\ \A i \in 1..Len(q) : q[i] \in Digits
IsCanonNum(q) == IsNum(q) /\ (Len(q) > 1 => q[1] # "0")       \* no extra leading zeros
RECURSIVE CmpDigits(_, _, _)
CmpDigits(a, b, i) == IF i > Len(a) THEN 0
                      ELSE IF DigitVal(a[i]) < DigitVal(b[i]) THEN -1
                      ELSE IF DigitVal(a[i]) > DigitVal(b[i]) THEN 1 ELSE CmpDigits(a, b, i + 1)
\* numeric comparison of two canonical numbers of any length
CmpNum(a, b) == IF Len(a) < Len(b) THEN -1 ELSE IF Len(a) > Len(b) THEN 1 ELSE CmpDigits(a, b, 1)

--------------------------------------------------------------------------
(* version strings (without the leading v) *)
VerParts(v) ==
  LET plus == IndexOf(v, "+")
      main == IF plus = 0 THEN v ELSE Upto(v, plus - 1)
      dash == IndexOf(main, "-")
      core == IF dash = 0 THEN main ELSE Upto(main, dash - 1)
  IN [core |-> SplitChar(core, "."),
      hasPre |-> dash # 0, pre |-> IF dash = 0 THEN <<>> ELSE SplitChar(From(main, dash + 1), "."),
      hasBuild |-> plus # 0, build |-> IF plus = 0 THEN <<>> ELSE SplitChar(From(v, plus + 1), ".")]
IsIdent(q) == q # <<>> /\ \A i \in 1..Len(q) : q[i] \in IdentChars
VerValid(v) ==
  LET p == VerParts(v) IN
  /\ Len(p.core) \in 1..3 /\ \A i \in 1..Len(p.core) : IsCanonNum(p.core[i])
  /\ (p.hasPre \/ p.hasBuild) => Len(p.core) = 3
  /\ p.hasPre => \A i \in 1..Len(p.pre) : IsIdent(p.pre[i]) /\ (IsNum(p.pre[i]) => IsCanonNum(p.pre[i]))
  /\ p.hasBuild => \A i \in 1..Len(p.build) : IsIdent(p.build[i])
\* major, minor, patch of a valid version (absent fields are 0) and whether it is a pre-release
VerField(v, k) == LET c == VerParts(v).core IN IF k <= Len(c) THEN c[k] ELSE <<"0">>
VerIsPre(v) == VerParts(v).hasPre
\* precedence of valid version v against the release a.b.c (digit sequences): -1, 0, 1
VerCmpRelease(v, a, b, c) ==
  LET c1 == CmpNum(VerField(v, 1), a)  c2 == CmpNum(VerField(v, 2), b)  c3 == CmpNum(VerField(v, 3), c) IN
  IF c1 # 0 THEN c1 ELSE IF c2 # 0 THEN c2 ELSE IF c3 # 0 THEN c3 ELSE IF VerIsPre(v) THEN -1 ELSE 0
VerMajorMinor(v) == VerField(v, 1) \o <<".">> \o VerField(v, 2)

--------------------------------------------------------------------------
(* 64-bit words as <<l3, l2, l1, l0>> (16-bit limbs, most significant first) *)
HexDigit(n) == CASE n < 10 -> <<"0", "1", "2", "3", "4", "5", "6", "7", "8", "9">>[n + 1]
                 [] OTHER -> <<"a", "b", "c", "d", "e", "f">>[n - 9]
LimbHex(x) == <<HexDigit(x \div 4096), HexDigit((x \div 256) % 16), HexDigit((x \div 16) % 16), HexDigit(x % 16)>>
StripZeros(q) == LET S == {i \in 1..Len(q) : q[i] # "0"} IN IF S = {} THEN <<"0">> ELSE From(q, MinOf(S))
HexOf(w) == StripZeros(LimbHex(w[1]) \o LimbHex(w[2]) \o LimbHex(w[3]) \o LimbHex(w[4]))
\* long division of the limb tuple by 10
RECURSIVE Div10(_, _, _)
Div10(w, i, rem) == IF i > Len(w) THEN [q |-> <<>>, r |-> rem]
                    ELSE LET cur == rem * 65536 + w[i]
                             rest == Div10(w, i + 1, cur % 10)
                         IN [q |-> <<cur \div 10>> \o rest.q, r |-> rest.r]
IsZeroW(w) == \A i \in 1..Len(w) : w[i] = 0
RECURSIVE DecDigits(_)
DecDigits(w) == IF IsZeroW(w) THEN <<>> ELSE LET d == Div10(w, 1, 0) IN DecDigits(d.q) \o <<HexDigit(d.r)>>
DecOf(w) == IF IsZeroW(w) THEN <<"0">> ELSE DecDigits(w)
====
