---- MODULE KbxModel ----
(***************************************************************************)
(* Design model of the kernel build tool's steps that module KbxProps       *)
(* specifies.  Init chooses one input of one component from the small-scope *)
(* families below, so one TLC run quantifies over every such input; every   *)
(* Build step computes what the design does with it - written the way an    *)
(* implementation works (scan the symbol table, parse the version left to   *)
(* right, substitute constant after constant, walk the files in order) -    *)
(* and the resulting event is judged by the operators of KbxProps, the same *)
(* ones that judge the traces of the real packages.  NoMismatch is the      *)
(* family's property for the design.                                        *)
(*                                                                          *)
(* Constant Design selects the as-built design (what /repo/kbuild does,     *)
(* judged with the open deviations DevSet) or the repaired design "strict"  *)
(* (judged with DevSet = {}: the statements are satisfiable together).      *)
(* Constant Bug names a design mutant; TLC must reject each of them.        *)
(* Emit: write every input of the scope out as a case for the Go harness.   *)
(***************************************************************************)
EXTENDS Integers, Sequences, FiniteSets, TLC, Json, CSV, IOUtils, MCKbxDevs
CONSTANTS Scope,       \* 1: quick, 2: thorough
          Comps,       \* components explored by this run
          NRuns, Design, Bug, Emit, DevSet

P == INSTANCE KbxProps WITH Devs <- DevSet
T == INSTANCE KbxText

VARIABLES comp, inp, pc, s, mismatch
vars == <<comp, inp, pc, s, mismatch>>

SeqsUpTo(S, n) == UNION {[1..k -> S] : k \in 0..n}
Strict == Design = "strict"
W(n) == <<0, 0, n \div 65536, n % 65536>>          \* a small number as a 64-bit word
RECURSIVE Cat(_, _)
Cat(qs, i) == IF i > Len(qs) THEN <<>> ELSE qs[i] \o Cat(qs, i + 1)
Cat2(a, b) == a \o b
Cat3(a, b, c) == a \o b \o c

--------------------------------------------------------------------------
(* CR *)
CrNames == {"a", "ab", "b"}
CrVals == {<<0, 0, 0, 0>>, <<0, 0, 0, 16>>, <<65535, 32768, 0, 32>>}
CrSyms == CrNames \X CrVals
CrPairs == {<<"a", "b">>, <<"ab", "a">>, <<"b", "b">>, <<"a", "ab">>}
CrFam ==
  LET fills == {<<0, 0, 0, 0>>, <<61166, 61166, 61166, 61166>>}
      secs(r) == {-1, 16 * Len(r) - 16, 16 * Len(r), 16 * Len(r) + 8} \cap (-1..1000)
      \* symbol tables of up to 2 entries with every redirect list; in scope 2 also 3 entries with the short lists
      small == UNION { UNION { { [syms |-> sy, reds |-> r, symtab |-> TRUE, sec |-> sc, fill |-> f] :
                                   sc \in secs(r), f \in IF Len(sy) <= 1 THEN fills ELSE {<<61166, 61166, 61166, 61166>>} }
                               : r \in SeqsUpTo(IF Scope = 1 THEN {<<"a", "b">>, <<"b", "b">>} ELSE CrPairs, 2) } : sy \in SeqsUpTo(CrSyms, 2) }
      big == IF Scope = 1 THEN {}
             ELSE UNION { UNION { { [syms |-> sy, reds |-> r, symtab |-> TRUE, sec |-> sc, fill |-> <<0, 0, 0, 0>>] : sc \in secs(r) }
                                  : r \in SeqsUpTo(CrPairs, 1) } : sy \in [1..3 -> CrSyms] }
  IN small \cup big
     \cup { [syms |-> <<>>, reds |-> r, symtab |-> FALSE, sec |-> 16 * Len(r), fill |-> <<0, 0, 0, 0>>] : r \in SeqsUpTo(CrPairs, 2) }
\* the design: scan the whole symbol table for every redirect; abort after all redirects have been looked at
CrScan(in, name) ==
  LET hit(j) == in.syms[j][1] = name \/ (Bug = "CrPrefixMatch" /\ name = "a" /\ in.syms[j][1] = "ab")     \* "a" is a prefix of "ab"
      S == {j \in 1..Len(in.syms) : hit(j)}
      NZ == {j \in S : in.syms[j][2] # P!ZeroW}
  IN IF Strict THEN (IF NZ = {} THEN P!ZeroW ELSE in.syms[T!MinOf(NZ)][2])
     ELSE IF S = {} THEN P!ZeroW ELSE in.syms[IF Bug = "CrFirstSymbol" THEN T!MinOf(S) ELSE T!MaxOf(S)][2]
CrDesign(in) ==
  LET n == Len(in.reds)
      src(i) == CrScan(in, in.reds[i][1])
      dst(i) == CrScan(in, in.reds[i][2])
      bad(i) == src(i) = P!ZeroW \/ (Bug # "CrDstUnchecked" /\ dst(i) = P!ZeroW)
      B == {i \in 1..n : bad(i)}
      names(S) == [i \in 1..n |-> i \in S]                \* the redirects the diagnostics name
      nw == (T!MaxOf({in.sec, 16 * n, 0}) + 32) \div 8
      blank == [k \in 1..nw |-> in.fill]
      rec(i) == IF Bug = "CrSwap" THEN <<dst(i), src(i)>> ELSE <<src(i), dst(i)>>
      ord == IF Bug = "CrReverse" THEN [i \in 1..n |-> n + 1 - i] ELSE [i \in 1..n |-> i]
      upto == IF Bug = "CrPartial" /\ B # {} THEN T!MinOf(B) - 1 ELSE n
      kept == IF Bug = "CrSkipMissing" THEN SelectSeq(ord, LAMBDA i : ~bad(i)) ELSE SubSeq(ord, 1, upto)
      tbl == Cat([k \in 1..Len(kept) |-> rec(kept[k])], 1)
      written == [k \in 1..nw |-> IF k <= Len(tbl) THEN tbl[k] ELSE in.fill]
      fail(S) == [res |-> "exit", words |-> IF Bug = "CrPartial" THEN written ELSE blank, outside |-> 0, named |-> names(S)]
  IN IF ~in.symtab \/ in.sec < 0 THEN [res |-> "exit", words |-> blank, outside |-> 0, named |-> names({})]
     ELSE IF B # {} /\ Bug # "CrSkipMissing" THEN fail(IF Bug = "CrReportsFirstOnly" THEN {T!MinOf(B)} ELSE B)
     ELSE IF Strict /\ in.sec < 16 * n THEN fail({})
     ELSE [res |-> "ok", words |-> written, outside |-> 0, named |-> names({})]

--------------------------------------------------------------------------
(* LS *)
nA == <<"A">>  nAB == <<"A", "B">>  nB == <<"B">>
Sp == <<" ">>
LsLinesFam ==
  { Cat3(nA, P!Equ, <<"1">>), Cat3(nAB, P!Equ, <<"2">>), Cat3(nB, P!Equ, nA), Cat3(nA, P!Equ, <<"x", "B">>),
    Cat(<<Sp, nA, Sp, P!Equ, Sp, <<"3">>, <<" ", "\t">>>>, 1), <<";", " ", "A", " ", "e", "q", "u", " ", "9">>, <<>>, <<" ", " ">>,
    <<"A", " ", "=", " ", "1">>, Cat(<<nA, P!Equ, <<"1">>, P!Equ, <<"2">>>>, 1), <<"A", " ", "e", "q", "u">>,
    Cat3(nB, P!Equ, <<"7", " ", ";", "c">>) }
LsScripts == { <<>>, nA, nAB, Cat(<<nA, Sp, nAB, <<"\n">>, nB>>, 1), <<"x", "A", "y">>, Cat3(nB, nA, nAB), <<"A", "A">> }
LsLinesQuick == { Cat3(nA, P!Equ, <<"1">>), Cat3(nAB, P!Equ, <<"2">>), Cat3(nB, P!Equ, nA), Cat(<<Sp, nA, Sp, P!Equ, Sp, <<"3">>, <<" ", "\t">>>>, 1),
                  <<";", " ", "A", " ", "e", "q", "u", " ", "9">>, <<"A", " ", "=", " ", "1">>, Cat(<<nA, P!Equ, <<"1">>, P!Equ, <<"2">>>>, 1),
                  Cat3(nB, P!Equ, <<"7", " ", ";", "c">>) }
LsFam == { [have |-> "both", consts |-> c, script |-> sc] : c \in IF Scope = 1 THEN SeqsUpTo(LsLinesQuick, 2) ELSE SeqsUpTo(LsLinesFam, 3), sc \in LsScripts }
         \cup { [have |-> h, consts |-> <<Cat3(nA, P!Equ, <<"1">>)>>, script |-> nA] : h \in {"noconst", "noscript"} }
\* the design: read the lines into a map, then substitute name after name in the order the map yields them
LsParse(ln) == LET t == T!TrimSpace(ln) IN
               IF t = <<>> \/ t[1] = ";" THEN [k |-> "skip"]
               ELSE LET ps == T!SplitSub(t, P!Equ) IN
                    IF Len(ps) # 2 THEN [k |-> IF Bug = "LsBadLineSkipped" THEN "skip" ELSE "bad"]
                    ELSE [k |-> "def", name |-> T!TrimSpace(ps[1]), val |-> IF Bug = "LsNoTrim" THEN ps[2] ELSE T!TrimSpace(ps[2])]
RECURSIVE LsMap(_, _, _)
LsMap(lines, i, m) ==      \* m: sequence of <<name, value>> with distinct names, in order of first definition
  IF i > Len(lines) THEN m
  ELSE LET r == LsParse(lines[i]) IN
       IF r.k # "def" THEN LsMap(lines, i + 1, m)
       ELSE LET J == {j \in 1..Len(m) : m[j][1] = r.name} IN
            IF J = {} THEN LsMap(lines, i + 1, Append(m, <<r.name, r.val>>))
            ELSE IF Bug = "LsFirstDefWins" THEN LsMap(lines, i + 1, m)
            ELSE LsMap(lines, i + 1, [m EXCEPT ![T!MinOf(J)] = <<r.name, r.val>>])
LsReplace(txt, from, to) == IF Bug = "LsReplaceFirstOnly"
                            THEN LET i == T!IndexOfSub(txt, from) IN
                                 IF i = 0 THEN txt ELSE T!Upto(txt, i - 1) \o to \o T!From(txt, i + Len(from))
                            ELSE T!ReplaceAll(txt, from, to)
RECURSIVE LsSubst(_, _, _, _)
LsSubst(txt, m, ord, i) == IF i > Len(ord) THEN txt ELSE LsSubst(LsReplace(txt, m[ord[i]][1], m[ord[i]][2]), m, ord, i + 1)
\* the orders a Go map may yield (as-built): any; the repaired design substitutes in order of first definition
LsOrders(m) == IF Strict THEN {[i \in 1..Len(m) |-> i]} ELSE P!Orders(1..Len(m))
LsDesign(in, ord) ==
  IF in.have # "both" \/ \E i \in 1..Len(in.consts) : LsParse(in.consts[i]).k = "bad"
  THEN [res |-> "exit", written |-> FALSE, text |-> ""]
  ELSE LET m == LsMap(in.consts, 1, <<>>) IN [res |-> "ok", written |-> TRUE, text |-> T!Str(LsSubst(in.script, m, ord, 1))]

--------------------------------------------------------------------------
(* WO *)
WoVals == {W(0), W(9), W(10), W(15), W(16), W(255), W(4096), W(65535), W(65536), <<0, 1, 0, 0>>, <<0, 2, 54919, 33554>>,
           <<32768, 0, 0, 0>>, <<65535, 65535, 65535, 65535>>, <<4660, 22136, 39612, 57072>>}
WoT1 == << <<"GO_G_M", W(48)>> >>
WoT2 == << <<"GO_STACK_LO", W(0)>>, <<"GO_G__SIZE", W(376)>> >>
WoT3 == << <<"GO_M_G0", W(7)>> >>
WoRegs == { <<>>, << <<"go1.8", WoT1>> >>, << <<"go1.15", WoT2>>, <<"go1.8", WoT1>> >>, << <<"go1.8", WoT1>>, <<"go1.15", WoT2>>, <<"go1.1", WoT3>> >>,
            << <<"go1.15", <<>> >> >> }
WoVers == {"go1.8", "go1.15", "go1.1", "go1.150", "go1", "", "go1.15.3"}
WoFam == { [reg |-> r, ver |-> v] : r \in WoRegs, v \in WoVers }
         \cup { [reg |-> << <<"go1.15", << <<"GO_X", x>>, <<"GO_Y", y>> >> >> >>, ver |-> "go1.15"] : x \in WoVals, y \in IF Scope = 1 THEN {W(1)} ELSE WoVals }
WoHit(key, ver) == IF Bug = "WoPrefixLookup" THEN key = ver \/ (key = "go1.1" /\ ver \in {"go1.15", "go1.150", "go1.15.3"}) \/ (key = "go1.15" /\ ver \in {"go1.150", "go1.15.3"})
                   ELSE key = ver
WoDesign(in) ==
  LET H == {i \in 1..Len(in.reg) : WoHit(in.reg[i][1], in.ver)}
      t == IF H = {} THEN <<>> ELSE in.reg[T!MinOf(H)][2]
      defs == IF Bug = "WoDropsZeroOffsets" THEN SelectSeq(t, LAMBDA e : e[2] # P!ZeroW)
              ELSE IF Bug = "WoFirstEntryTwice" THEN <<t[1]>> \o t
              ELSE IF Bug = "WoLowHalfOnly" THEN [i \in 1..Len(t) |-> <<t[i][1], <<0, 0, t[i][2][3], t[i][2][4]>>>>]
              ELSE t
  IN IF t = <<>> THEN [res |-> "exit", offs |-> <<>>, written |-> FALSE, defs |-> <<>>]
     ELSE [res |-> "ok", offs |-> t, written |-> TRUE, defs |-> defs]

--------------------------------------------------------------------------
(* versions: the left-to-right parser of the design *)
DigitRun(q) == LET S == {i \in 1..Len(q) : q[i] \notin T!Digits} IN IF S = {} THEN Len(q) ELSE T!MinOf(S) - 1
ParseInt(q) == LET n == DigitRun(q) IN
               IF n = 0 \/ (q[1] = "0" /\ n # 1 /\ Bug # "VeLeadingZeros") THEN [ok |-> FALSE, t |-> <<>>, rest |-> q]
               ELSE [ok |-> TRUE, t |-> T!Upto(q, n), rest |-> T!From(q, n + 1)]
BadNum(q) == T!IsNum(q) /\ Len(q) > 1 /\ q[1] = "0"
\* dot separated identifiers after the sign character q[1], up to the character stop (or the end): [ok, t, rest]
ParseIdents(q, stop, numeric) ==
  LET S == {i \in 2..Len(q) : q[i] = stop}
      e == IF S = {} THEN Len(q) ELSE T!MinOf(S) - 1
      ids == T!SplitChar(SubSeq(q, 2, e), ".")
  IN [ok |-> \A i \in 1..Len(ids) : T!IsIdent(ids[i]) /\ (numeric => ~BadNum(ids[i])), t |-> SubSeq(q, 1, e), rest |-> T!From(q, e + 1)]
NoVer == [ok |-> FALSE, f |-> <<>>, pre |-> <<>>]
DParse(v) ==      \* [ok, f = <<major, minor, patch>>, pre]
  LET a == ParseInt(v) IN
  IF ~a.ok THEN NoVer
  ELSE IF a.rest = <<>> THEN [ok |-> TRUE, f |-> <<a.t, <<"0">>, <<"0">>>>, pre |-> <<>>]
  ELSE IF a.rest[1] # "." THEN NoVer
  ELSE LET b == ParseInt(Tail(a.rest)) IN
  IF ~b.ok THEN NoVer
  ELSE IF b.rest = <<>> THEN [ok |-> TRUE, f |-> <<a.t, b.t, <<"0">>>>, pre |-> <<>>]
  ELSE IF b.rest[1] # "." THEN NoVer
  ELSE LET c == ParseInt(Tail(b.rest)) IN
  IF ~c.ok THEN NoVer
  ELSE LET p == IF c.rest # <<>> /\ c.rest[1] = "-" THEN ParseIdents(c.rest, "+", TRUE) ELSE [ok |-> TRUE, t |-> <<>>, rest |-> c.rest]
           m == IF p.ok /\ p.rest # <<>> /\ p.rest[1] = "+" THEN ParseIdents(p.rest, "\n\n", FALSE) ELSE [ok |-> p.ok, t |-> <<>>, rest |-> p.rest]
       IN IF ~p.ok \/ ~m.ok \/ m.rest # <<>> THEN NoVer ELSE [ok |-> TRUE, f |-> <<a.t, b.t, c.t>>, pre |-> p.t]
RECURSIVE LexCmp(_, _, _)
LexCmp(x, y, i) == IF i > Len(x) /\ i > Len(y) THEN 0 ELSE IF i > Len(x) THEN -1 ELSE IF i > Len(y) THEN 1
                   ELSE IF T!DigitVal(x[i]) < T!DigitVal(y[i]) THEN -1 ELSE IF T!DigitVal(x[i]) > T!DigitVal(y[i]) THEN 1 ELSE LexCmp(x, y, i + 1)
CmpInt(x, y) == IF x = y THEN 0
                ELSE IF Bug = "VeLexCompare" THEN LexCmp(x, y, 1)
                ELSE IF Len(x) < Len(y) THEN -1 ELSE IF Len(x) > Len(y) THEN 1 ELSE T!CmpDigits(x, y, 1)
DOlder(p, w) ==   \* parsed version p precedes release w = <<major, minor, patch>>
  LET c1 == CmpInt(p.f[1], w[1])  c2 == CmpInt(p.f[2], w[2])  c3 == CmpInt(p.f[3], w[3]) IN
  IF c1 # 0 THEN c1 < 0 ELSE IF c2 # 0 THEN c2 < 0 ELSE IF c3 # 0 THEN c3 < 0 ELSE (p.pre # <<>> /\ Bug # "VeNoPre")

(* VE *)
VerCore == { <<"2">>, <<"2", ".", "2", "6">>, <<"2", ".", "2", "5">>, <<"2", ".", "2", "7">>, <<"2", ".", "9">>, <<"2", ".", "0", "2", "6">>,
             <<"2", ".", "2", "6", ".", "0">>, <<"2", ".", "2", "6", ".", "1">>, <<"2", ".", "2", "5", ".", "9", "9">>, <<"3">>, <<"1", ".", "9", "9">>,
             <<"0", "2", ".", "3", "0">>, <<"2", ".">>, <<"1", ".", "5", ".", "0">>, <<"1", ".", "4", ".", "9", "9">>, <<"1", ".", "5">>, <<"1", ".", "1", "0">>,
             <<"1", ".", "5", ".", "6">>, <<"1", ".", "4", ".", "8">>, <<"1", "0">>, <<"U", ")">>, <<>> }
VerSuffix == { <<>>, <<"-", "r", "c", "1">>, <<"+", "b">>, <<"-", "9", "3", ".", "e", "l", "8">>, <<".", "2", "0", "2", "0", "-", "1">>, <<".", "p", "l", "0", "2">>,
               <<"-">>, <<"-", "0", "1">>, <<"-", "a", "+">>, <<"+", "a", ".", "-">>, <<".", "1", ".", "2">> }
VerCoreQuick == { <<"2">>, <<"2", ".", "2", "6">>, <<"2", ".", "2", "5">>, <<"2", ".", "2", "7">>, <<"3">>, <<"2", ".", "9">>, <<"2", ".", "0", "2", "6">>, <<"2", ".", "2", "6", ".", "0">>,
                  <<"2", ".", "2", "5", ".", "9", "9">>, <<"1", ".", "5", ".", "0">>, <<"1", ".", "4", ".", "9", "9">>, <<"1", ".", "1", "0">>, <<"U", ")">>, <<>> }
VerStrings == { Cat2(c, x) : c \in IF Scope = 1 THEN VerCoreQuick ELSE VerCore, x \in VerSuffix }
ObjHeads == { <<"o", " ", "(", "U", " ", "B", ")", " ">>, <<"o", " ">>, <<>> }
ObjTails == { <<>>, <<"\n">>, <<"\n", "C", " ", "2", "0", "\n">>, <<" ", "\n">>, <<"\r", "\n">>, <<"\t">> }
XorHeads == { <<"x", "o", "r", "r", "i", "s", "o", " ">>, <<"G", "N", "U", " ", "x", "o", "r", "r", "i", "s", "o", " ">>, <<"x", "o", "r", "r", "i", "s", "o", ":", " ">>, <<>> }
XorTails == { <<" ", ":", " ", "R", "\n">>, <<"\n">>, <<>>, <<"\n", "I", "S", "O", " ", "9">> }
VeFam == { [tool |-> "objcopy", banner |-> Cat3(h, v, t)] : h \in IF Scope = 1 THEN {<<"o", " ", "(", "U", " ", "B", ")", " ">>, <<>>} ELSE ObjHeads, v \in VerStrings, t \in IF Scope = 1 THEN {<<>>, <<"\n", "C", " ", "2", "0", "\n">>, <<"\r", "\n">>} ELSE ObjTails }
         \cup { [tool |-> "xorriso", banner |-> Cat3(h, v, t)] : h \in IF Scope = 1 THEN {<<"x", "o", "r", "r", "i", "s", "o", " ">>, <<"G", "N", "U", " ", "x", "o", "r", "r", "i", "s", "o", " ">>} ELSE XorHeads, v \in VerStrings, t \in IF Scope = 1 THEN {<<" ", ":", " ", "R", "\n">>, <<"\n", "I", "S", "O", " ", "9">>} ELSE XorTails }
VeDToken(tool, b) ==
  IF tool = "objcopy"
  THEN LET nl == T!IndexOf(b, "\n")
           l == IF nl = 0 THEN b ELSE T!Upto(b, nl - 1)
           i == IF Bug = "VeFirstSpace" THEN T!IndexOf(l, " ") ELSE T!LastIndexOf(l, " ")
       IN T!TrimSpace(IF i = 0 THEN l ELSE T!From(l, i))
  ELSE LET r0 == T!TrimPrefix(b, <<"x", "o", "r", "r", "i", "s", "o", " ">>)
           r == IF Strict THEN T!TrimPrefix(T!TrimPrefix(b, <<"G", "N", "U", " ">>), <<"x", "o", "r", "r", "i", "s", "o", " ">>) ELSE r0
           i == T!IndexOf(r, " ")
       IN T!TrimSpace(IF i = 0 THEN r ELSE T!Upto(r, i - 1))
\* the verdict of the design: "" accepted, otherwise what the rejection shows
VeDesignVerdict(tool, b) ==
  LET tok == VeDToken(tool, b)
      p == DParse(tok)
      w == P!VeWant(tool)
      core == P!VeDistro(tok)                       \* repaired design: a distribution release suffix is cut off
      q == IF Strict /\ ~p.ok /\ core # <<>> THEN DParse(core) ELSE p
  IN IF ~q.ok THEN [ok |-> FALSE, msg |-> <<"b", "a", "d", " ">> \o tok]
     ELSE IF DOlder(q, w) THEN [ok |-> FALSE, msg |-> <<"o", "l", "d", " ">> \o tok]
     ELSE [ok |-> TRUE, msg |-> <<>>]
VeDesign(in) == LET v == VeDesignVerdict(in.tool, in.banner) IN
                [res |-> "ok", ok |-> v.ok, msg |-> IF Bug = "VeSilentRejection" /\ ~v.ok THEN <<"n", "o">> ELSE v.msg]

(* CD *)
BObjGood == <<"o", " ", "2", ".", "3", "4", "\n">>
BObjOld == <<"o", " ", "2", ".", "2", "5", ".", "1", "\n">>
BObjBad == <<"o", " ", "(", "U", ")", "\n">>
BXorGood == <<"x", "o", "r", "r", "i", "s", "o", " ", "1", ".", "5", ".", "2", " ", ":", "\n">>
BXorOld == <<"x", "o", "r", "r", "i", "s", "o", " ", "1", ".", "4", ".", "8", " ", ":", "\n">>
BXorBad == <<"x", "o", "r", "r", "i", "s", "o", ":", " ", "R", "\n">>
CdFam == { <<a, b, c, d>> : a \in { <<"objcopy", "absent", 0, <<>>>>, <<"objcopy", "present", 3, BObjGood>> } \cup { <<"objcopy", "present", 0, x>> : x \in {BObjGood, BObjOld, BObjBad} },
                            b \in { <<"xorriso", "absent", 0, <<>>>>, <<"xorriso", "present", 2, BXorGood>> } \cup { <<"xorriso", "present", 0, x>> : x \in {BXorGood, BXorOld, BXorBad} },
                            c \in { <<"grub-mkrescue", "absent", 0, <<>>>>, <<"grub-mkrescue", "present", 1, <<>>>>, <<"grub-mkrescue", "present", 0, <<>>>> },
                            d \in { <<"nasm", "absent", 0, <<>>>>, <<"nasm", "present", 127, <<>>>>, <<"nasm", "present", 0, <<>>>> } }
CdDesign(in) ==
  LET fails(t) == t[2] = "absent" \/ t[3] # 0 \/ (t[1] \in {"objcopy", "xorriso"} /\ ~VeDesignVerdict(t[1], t[4]).ok)
      probed == IF Bug = "CdSkipNasm" THEN 1..3 ELSE 1..Len(in.tools)
      all == {i \in probed : fails(in.tools[i])}
      f == IF Bug = "CdStopAtFirst" /\ all # {} THEN {T!MinOf(all)} ELSE all
      \* one line of 100 characters per failed tool, in probing order (the mutant lists nasm before grub-mkrescue)
      rank(i) == IF Bug = "CdNasmBeforeGrub" THEN <<1, 2, 4, 3>>[i] ELSE i
  IN IF f = {} THEN [res |-> "ok", paths |-> [i \in 1..Len(in.tools) |-> in.tools[i][1]], mention |-> [i \in 1..Len(in.tools) |-> -1]]
     ELSE [res |-> "exit", paths |-> <<>>, mention |-> [i \in 1..Len(in.tools) |-> IF i \in f THEN 100 * rank(i) ELSE -1]]

--------------------------------------------------------------------------
(* MM / GV *)
MmAlpha == {"1", "0", "5", ".", "-", "+", "a"}
MmSpecial == { <<>>, <<"g">>, <<"g", "o">>, <<"v", "1", ".", "2">>, <<"1", ".", "1", "5">>, <<"G", "o", "1", ".", "5">>, <<"g", "o", "v", "1">>,
               <<"g", "o", "1", ".", "1", "6", "b", "e", "t", "a", "1">>, <<"g", "o", "1", ".", "1", "6", "r", "c", "2">>, <<"g", "o", "1", ".", "1", "6", "r", "c">>,
               <<"g", "o", "1", ".", "1", "6", "r", "c", "0", "1">>, <<"g", "o", "1", ".", "2", ".", "3", "r", "c", "1">>, <<"g", "o", "1", "b", "e", "t", "a", "1">>,
               <<"g", "o", "1", ".", "1", "6", "b", "e", "t", "a", "1", "x">>, <<"g", "o", "1", ".", "1", "5", ".", "3">>, <<"g", "o", "1", "1", ".", "2", "2", ".", "3", "3">>,
               <<"g", "o", "1", ".", "1", "5", ".", "0", "-", "p", "r", "e", ".", "1", "+", "m", ".", "2">>, <<"g", "o", "1", ".", "1", "5", " ">>, <<"d", "e", "v", "e", "l">> }
MmFam == { [v |-> Cat2(<<"g", "o">>, w)] : w \in SeqsUpTo(MmAlpha, IF Scope = 1 THEN 3 ELSE 5) } \cup { [v |-> w] : w \in MmSpecial }
MmD(v) ==
  IF ~T!HasPrefix(v, <<"g", "o">>) THEN <<FALSE, "">>
  ELSE LET r == T!From(v, 3)
           p == DParse(r)
           \* the repaired design also takes goX.Y(betaN|rcN)
           A == {i \in 1..Len(r) : r[i] \notin T!Digits \cup {"."}}
           k == IF A = {} THEN Len(r) + 1 ELSE T!MinOf(A)
           q == IF Strict /\ ~p.ok /\ P!MmGoRelease(v) THEN DParse(T!Upto(r, k - 1)) ELSE p
       IN IF ~q.ok THEN <<FALSE, "">>
          ELSE IF Bug = "MmPatchKept" THEN <<TRUE, "go" \o T!Str(r)>>
          ELSE IF Bug = "MmNoMinorDefault" /\ T!IndexOf(r, ".") = 0 THEN <<TRUE, "go" \o T!Str(q.f[1])>>
          ELSE <<TRUE, "go" \o T!Str(q.f[1]) \o "." \o T!Str(q.f[2])>>
MmDesign(in) == LET r == MmD(in.v) IN [res |-> "ok", ok |-> r[1], majmin |-> r[2]]
GvPre == { <<"g", "o", " ", "v", "e", "r", "s", "i", "o", "n", " ">>, <<>>, <<"g", "o", " ", "v", "e", "r", "s", "i", "o", "n", " ", " ">> }
GvPost == { <<" ", "l", "/", "a", "\n">>, <<"\n">>, <<>> }
GvVers == { <<"g", "o", "1", ".", "1", "5", ".", "3">>, <<"g", "o", "1", ".", "8">>, <<"g", "o", "1">>, <<"d", "e", "v", "e", "l">>, <<"g", "o", "1", ".", "1", "6", "r", "c", "1">>,
            <<"g", "o", "1", ".", "0", "5">>, <<>> }
GvFam == { [banner |-> Cat3(a, v, b), rc |-> rc] : a \in GvPre, v \in GvVers, b \in GvPost, rc \in {0, 1} }
GvDesign(in) ==
  LET r == IF Bug = "GvNoPrefixTrim" THEN in.banner ELSE T!TrimPrefix(in.banner, <<"g", "o", " ", "v", "e", "r", "s", "i", "o", "n", " ">>)
      i == T!IndexOf(r, " ")
      tok == IF i > 1 THEN T!Upto(r, i - 1) ELSE r
      m == MmD(tok)
  IN IF in.rc # 0 /\ Bug # "GvIgnoreExit" THEN [res |-> "err", ver |-> ""]
     ELSE IF m[1] THEN [res |-> "ok", ver |-> m[2]] ELSE [res |-> "err", ver |-> ""]

--------------------------------------------------------------------------
(* OE *)
OeNames == {"A", "AB", ""}
OeEntries == (OeNames \X {"1", "x=y"} \X {TRUE}) \cup {<<"A", "", FALSE>>}
OeFam == { [env |-> e, ovr |-> o] : e \in SeqsUpTo(OeEntries, IF Scope = 1 THEN 2 ELSE 3), o \in SeqsUpTo(OeEntries, IF Scope = 1 THEN 1 ELSE 2) }
         \cup { [env |-> e, ovr |-> o] : e \in {<<>>, << <<"A", "1", TRUE>> >>}, o \in SeqsUpTo(OeEntries, 2) }
OeSame(a, b) == IF Bug = "OePrefixMatch" THEN a = b \/ (b = "A" /\ a = "AB") \/ b = "" ELSE a = b     \* does entry name a match override name b
RECURSIVE OeDScan(_, _, _)
OeDScan(lst, o, i) ==
  IF i > Len(lst) THEN [res |-> "ok", out |-> Append(lst, o)]
  ELSE IF ~lst[i][3] THEN [res |-> "panic", out |-> <<>>]
  ELSE IF OeSame(lst[i][1], o[1])
       THEN [res |-> "ok", out |-> IF Strict \/ Bug = "OeReplaceAll" THEN [j \in 1..Len(lst) |-> IF j >= i /\ lst[j][3] /\ lst[j][1] = o[1] THEN o ELSE lst[j]]
                                   ELSE [lst EXCEPT ![i] = o]]
  ELSE OeDScan(lst, o, i + 1)
RECURSIVE OeDFold(_, _, _)
OeDFold(lst, ovr, k) ==
  IF k > Len(ovr) THEN [res |-> "ok", out |-> lst]
  ELSE IF ~ovr[k][3] THEN [res |-> "panic", out |-> <<>>]
  ELSE LET r == IF Bug = "OeAppendAlways" THEN [res |-> "ok", out |-> Append(lst, ovr[k])] ELSE OeDScan(lst, ovr[k], 1) IN
       IF r.res # "ok" THEN r ELSE OeDFold(r.out, ovr, k + 1)
OeDesign(in) == LET r == OeDFold(in.env, in.ovr, 1) IN
                [res |-> r.res, out |-> r.out, envafter |-> IF Bug = "OeInPlace" /\ r.res = "ok" THEN SubSeq(r.out, 1, Len(in.env)) ELSE in.env]

--------------------------------------------------------------------------
(* BW *)
BwVers == { <<"g", "o", "1", ".", "1", "5">>, <<"g", "o", "1", ".", "8">>, <<"g", "o", "1", "1", ".", "5">>, <<"1", ".", "1", "5">>, <<"g", "o", "1">>, <<"g", "o", "1", ".", "1", "5", ".", "3">>,
            <<"g", "o", "g", "o", "1", ".", "2">> }
BwEnts == { <<"GO_G_M", W(48)>>, <<"GO_G_M", W(0)>>, <<"GO_STACK_LO", <<65535, 65535, 65535, 65535>>>> }
BwFam == { [pkg |-> p, ver |-> v, entries |-> e] : p \in {"main", "offsets"}, v \in BwVers, e \in SeqsUpTo(BwEnts, 2) }
BwDesign(in) ==
  LET v == T!Str(in.ver)
      suf == IF Bug = "BwSuffixKeepsGo" THEN T!RemoveChar(in.ver, ".") ELSE T!RemoveChar(T!TrimPrefix(in.ver, <<"g", "o">>), ".")
      name == "SymbolOffsetsForGo" \o T!Str(suf)
  IN [res |-> "ok", parsed |-> TRUE, pkg |-> IF Bug = "BwPkgMain" THEN "main" ELSE in.pkg,
      header |-> "// Code generated by gen-version-data.go for " \o v \o " -- DO NOT EDIT.", marker |-> Bug # "BwNoMarker",
      key |-> IF Bug = "BwKeyIsSuffix" THEN T!Str(suf) ELSE v, initvar |-> name, varname |-> name,
      entries |-> IF Bug = "BwDropLast" /\ in.entries # <<>> THEN SubSeq(in.entries, 1, Len(in.entries) - 1) ELSE in.entries]

--------------------------------------------------------------------------
(* DO *)
DoNames == { <<"g", "_", "m">>, <<"m", "_", "g", "0">>, <<"s", "t", "a", "c", "k", "_", "l", "o">>, <<"g", "o", "b", "u", "f", "_", "s", "p">>, <<"G", "_", "m">>, <<"g">> }
DoLine(f, n, v) == [form |-> f, name |-> n, val |-> v, hex |-> v[4] % 2 = 0 /\ v[4] > 9]      \* hex: how the encoder writes the number (not read by the monitor)
DoLineSets == { <<>>, <<DoLine("def", <<"g", "_", "m">>, W(48))>>,
                <<DoLine("def", <<"m", "_", "g", "0">>, W(0)), DoLine("bare", <<"s", "t", "a", "c", "k", "_", "l", "o">>, <<65535, 65535, 65535, 65535>>)>>,
                <<DoLine("def", <<"g", "o", "b", "u", "f", "_", "s", "p">>, W(1)), DoLine("def", <<"G", "_", "m">>, W(2)), DoLine("def", <<"g">>, W(3))>>,
                <<DoLine("def", <<"g", "_", "m">>, W(5)), DoLine("badnum", <<"g", "_", "m">>, W(6))>>,
                <<DoLine("badnum", <<"g", "o", "b", "u", "f", "_", "s", "p">>, W(6)), DoLine("neg", <<"c", "_", "x">>, W(6))>>,
                <<DoLine("three", <<"g", "_", "m">>, W(7)), DoLine("one", <<"m", "_", "g", "0">>, W(8)), DoLine("indent", <<"g", "_", "m">>, W(9)),
                  DoLine("tabdef", <<"g", "_", "m">>, W(10)), DoLine("comment", <<"g", "_", "m">>, W(11))>>,
                <<DoLine("neg", <<"m", "_", "g", "0">>, W(1))>> }
DoKeys == { <<50>>, <<1, 50>>, <<1, 2, 50>>, <<51, 50>>, <<2, 50>>, <<1, 51, 50>> }
DoFiles == { [key |-> k, asm |-> a, lines |-> l] : k \in DoKeys, a \in BOOLEAN, l \in DoLineSets }
DoDists == { <<>>, << <<"linux", "amd64">> >>, << <<"darwin", "amd64">>, <<"linux", "arm">>, <<"linux", "amd64">> >>, << <<"linux", "amd64p32">>, <<"linuxx", "amd64">>, <<"darwin", "amd64">> >> }
DoLineSets1 == <<DoLine("def", <<"g", "_", "m">>, W(48))>>
DoFileSeqs == { <<>> } \cup { <<f>> : f \in DoFiles }
              \cup UNION { { <<f, g>> : g \in {x \in DoFiles : x.key # f.key /\ Len(x.lines) \in 1..2} } : f \in {x \in DoFiles : x.asm /\ x.lines = DoLineSets1} }
DoFam == { [goarch |-> "amd64", dist |-> d, distrc |-> 0, buildrc |-> 0, work |-> TRUE, files |-> fs] : d \in DoDists, fs \in IF Scope = 1 THEN {<<>>} ELSE DoFileSeqs }
         \cup { [goarch |-> "amd64", dist |-> << <<"darwin", "amd64">>, <<"linux", "arm">>, <<"linux", "amd64">> >>, distrc |-> 0, buildrc |-> 0, work |-> TRUE, files |-> fs] : fs \in DoFileSeqs }
         \cup { [goarch |-> "amd64", dist |-> << <<"linux", "amd64">> >>, distrc |-> x[1], buildrc |-> x[2], work |-> x[3],
                 files |-> << [key |-> <<50>>, asm |-> TRUE, lines |-> DoLineSets1] >>] : x \in {<<1, 0, TRUE>>, <<0, 1, TRUE>>, <<0, 0, FALSE>>, <<2, 2, FALSE>>} }
DoWanted(name) == IF Bug = "DoAnyPrefix" THEN name # <<>> /\ name[1] \in {"g", "m", "s"} ELSE P!DoRelevant(name)
DoDesign(in) ==
  LET asm == SelectSeq(in.files, LAMBDA f : f.asm)
      walk == IF Bug = "DoUnsortedWalk" THEN asm ELSE SortSeq(asm, LAMBDA a, b : P!LexLess(a.key, b.key, 1))
      counts(l) == l.form \in {"def", "bare", "badnum", "neg"} /\ DoWanted(l.name)
      bad == \E i \in 1..Len(walk) : \E j \in 1..Len(walk[i].lines) : counts(walk[i].lines[j]) /\ walk[i].lines[j].form \in {"badnum", "neg"}
      ents(f) == LET ls == SelectSeq(f.lines, LAMBDA l : counts(l) /\ l.form \in {"def", "bare"}) IN
                 [i \in 1..Len(ls) |-> <<"GO_" \o T!Str(IF Bug = "DoNoUpper" THEN ls[i].name ELSE T!ToUpper(ls[i].name)), ls[i].val>>]
      sup == \E i \in 1..Len(in.dist) : in.dist[i] = <<"linux", in.goarch>> \/ (Bug = "DoOsIgnored" /\ in.dist[i][2] = in.goarch)
  IN IF in.distrc # 0 \/ ~sup \/ in.buildrc # 0 THEN [res |-> "err", entries |-> <<>>, workleft |-> TRUE]
     ELSE IF ~in.work THEN [res |-> "err", entries |-> <<>>, workleft |-> TRUE]
     ELSE IF bad /\ Bug # "DoSkipBadNumber" THEN [res |-> "err", entries |-> <<>>, workleft |-> FALSE]
     ELSE [res |-> "ok", entries |-> Cat([i \in 1..Len(walk) |-> ents(walk[i])], 1), workleft |-> Bug = "DoLeavesWork"]

--------------------------------------------------------------------------
(* RT *)
RtFileSets == { <<>>, << <<1, "s">> >>, << <<2, "s">>, <<1, "s">> >>, << <<3, "s">>, <<1, "inc">>, <<2, "s">> >>, << <<1, "dir.s">>, <<2, "S">>, <<3, "s">> >>,
                << <<5, "s">>, <<4, "dir.s">>, <<3, "s">>, <<2, "inc">>, <<1, "s">> >>, << <<1, "inc">> >> }
RtFam == { [files |-> f, nred |-> n, failat |-> x] : f \in RtFileSets, n \in {0, 1, 8}, x \in 0..5 }
RtDesign(in) ==
  LET isSrc(f) == f[2] = "s" \/ (Bug = "RtDirsAssembled" /\ f[2] = "dir.s") \/ (Bug = "RtAnyCase" /\ f[2] = "S")
      srcs == LET x == SelectSeq(in.files, isSrc) IN IF Bug = "RtUnsorted" THEN x ELSE SortSeq(x, LAMBDA a, b : a[1] < b[1])
      F == {i \in 1..Len(srcs) : srcs[i][1] = in.failat}
      run == IF F = {} \/ Bug = "RtIgnoreFailure" THEN srcs ELSE SubSeq(srcs, 1, T!MinOf(F))
      calls == [i \in 1..Len(run) |-> [src |-> run[i][1], obj |-> run[i][1], nred |-> IF Bug = "RtNredPlusOne" THEN in.nred + 1 ELSE in.nred, fmt |-> "elf64"]]
      objs == [i \in 1..Len(srcs) |-> srcs[i][1]]
  IN IF F # {} /\ Bug # "RtIgnoreFailure" THEN [res |-> "exit", calls |-> calls, link |-> <<>>]
     ELSE [res |-> "ok", calls |-> calls, link |-> IF Bug = "RtGoFirst" THEN <<-1>> \o objs ELSE objs \o <<-1>>]

--------------------------------------------------------------------------
(* CK *)
CkL1 == <<":", " ", "c", " ", "$", "W", "O", "R", "K", "/", "a">>
CkL2 == <<"m", "v", " ", "a", " ", "b">>
CkL3 == <<"$", "W", "O", "R", "K", "/", ".", ".", "/", "t", "o", "o", "l", "s", "/", "b", "u", "i", "l", "d", "i", "d", " ", "-", "w", " ", "x">>
CkL4 == <<"$", "W", "O", "R", "K", "/", ".", ".", "/", "t", "o", "o", "l", "s", "/", "b", "u", "i", "l", "d", "i", "d", " ", "-", "x">>
CkL5 == <<"$", "W", "O", "R", "K", "/", ".", ".", "/", "t", "o", "o", "l", "s", "/", "x", "b", "u", "i", "l", "d", "i", "d", " ", "-", "w", " ", "x">>
CkL6 == <<":">>
CkL7 == <<":", " ", "m", "v", " ", "a", " ", "b">>
CkL8 == <<"b", "u", "i", "l", "d", "i", "d", " ", "-", "w", " ", "x">>
CkN1 == <<"4", "a", "0", " ", "T", " ", "m", ".", "m">>
CkN2 == <<"5", "b", "0", " ", "T", " ", "p", "/", "k", "m", "a", "i", "n", ".", "K", "m", "a", "i", "n">>
CkN3 == <<" ", " ", "6", "c", "0", " ", "T", " ", "p", "/", "k", "m", "a", "i", "n", ".", "K", "m", "a", "i", "n", " ">>
CkN4 == <<"7", "d", "0", " ", "T", " ", "p", "/", "k", "m", "a", "i", "n", ".", "K", "m", "a", "i", "n", ".", "f">>
CkN5 == <<"k", "m", "a", "i", "n", ".", "K", "m", "a", "i", "n">>
CkLinePool == {CkL1, CkL2, CkL3, CkL4, CkL5, CkL6, CkL7, CkL8}
CkNmPool == {CkN1, CkN2, CkN3, CkN4, CkN5}
CkFam == { [lines |-> l, nm |-> <<CkN1, CkN2>>, buildrc |-> 0, nmrc |-> 0, objrc |-> 0] : l \in SeqsUpTo(CkLinePool, IF Scope = 1 THEN 2 ELSE 3) }
         \cup { [lines |-> <<CkL1>>, nm |-> n, buildrc |-> 0, nmrc |-> 0, objrc |-> 0] : n \in SeqsUpTo(CkNmPool, IF Scope = 1 THEN 2 ELSE 3) }
         \cup { [lines |-> <<CkL1, CkL2>>, nm |-> <<CkN2>>, buildrc |-> x[1], nmrc |-> x[2], objrc |-> x[3]] : x \in {<<1, 0, 0>>, <<0, 2, 0>>, <<0, 0, 3>>, <<1, 1, 1>>} }
CkDesign(in) ==
  LET sub(l) == IF Bug = "CkNoWorkSubst" THEN l ELSE T!ReplaceAll(l, P!CkWorkVar, P!CkWorkDir)
      first(l) == LET i == T!IndexOf(l, " ") IN IF i = 0 THEN <<>> ELSE T!Upto(l, i - 1)
      isMv(l) == Bug # "CkKeepsMv" /\ T!HasPrefix(l, P!CkMv)
      isBuildid(l) == LET i == T!IndexOf(l, " ") IN
                      i > 0 /\ P!CkBase(first(l)) = P!CkBuildid /\ (Bug = "CkDropsEveryBuildid" \/ T!HasPrefix(T!From(l, i), P!CkDashW))
      kept == SelectSeq([i \in 1..Len(in.lines) |-> sub(in.lines[i])], LAMBDA l : ~isMv(l) /\ ~isBuildid(l))
      prolog == <<"set -e", "export GOOS=linux", "export GOARCH=amd64", "export CGO_ENABLED=0", "alias pack='go tool pack'", "">>
      text == prolog \o [i \in 1..Len(kept) |-> T!Str(kept[i])]
      match(l) == IF Bug = "CkContainsKmain" THEN T!IndexOfSub(l, P!CkKmain) > 0 ELSE T!HasSuffix(l, P!CkKmain)
      H == {i \in 1..Len(in.nm) : match(T!TrimSpace(in.nm[i]))}
      ln == T!TrimSpace(in.nm[IF Bug = "CkLastKmain" THEN T!MaxOf(H) ELSE T!MinOf(H)])
      sp == T!IndexOf(ln, " ")
      call == <<"--add-symbol", "kernel.Kmain=.text:0x" \o T!Str(T!Upto(ln, sp - 1)), "--globalize-symbol", "runtime.g0", "--globalize-symbol", "runtime.m0",
                "--globalize-symbol", "runtime.physPageSize", "$DIR/work/go.o", "$DIR/work/go.o">>
      base == [res |-> "exit", written |-> TRUE, lines |-> text, goenv |-> "GOARCH=amd64 CGO_ENABLED=0 GOPATH=/kernel", goargs |-> P!CkGo, objcopy |-> <<>>]
  IN IF in.buildrc # 0 THEN [base EXCEPT !.written = FALSE, !.lines = <<>>]
     ELSE IF in.nmrc # 0 \/ H = {} THEN base
     ELSE IF sp = 0 THEN base
     ELSE IF in.objrc # 0 /\ Bug # "CkIgnoresObjcopyFailure" THEN [base EXCEPT !.objcopy = <<call>>]
     ELSE [base EXCEPT !.res = "ok", !.objcopy = <<call>>]

--------------------------------------------------------------------------
Fam(c) == CASE c = "cr" -> CrFam [] c = "ls" -> LsFam [] c = "wo" -> WoFam [] c = "ve" -> VeFam
            [] c = "cd" -> {[tools |-> t] : t \in CdFam} [] c = "mm" -> MmFam [] c = "gv" -> GvFam
            [] c = "oe" -> OeFam [] c = "bw" -> BwFam [] c = "do" -> DoFam [] c = "rt" -> RtFam [] c = "ck" -> CkFam

\* the results the design may produce for the input (more than one only where the design leaves an order open)
Outs(c, in) ==
  CASE c = "cr" -> {CrDesign(in)}
    [] c = "ls" -> {LsDesign(in, ord) : ord \in LsOrders(LsMap(in.consts, 1, <<>>))}
    [] c = "wo" -> {WoDesign(in)} [] c = "ve" -> {VeDesign(in)} [] c = "cd" -> {CdDesign(in)}
    [] c = "mm" -> {MmDesign(in)} [] c = "gv" -> {GvDesign(in)} [] c = "oe" -> {OeDesign(in)}
    [] c = "bw" -> {BwDesign(in)} [] c = "do" -> {DoDesign(in)} [] c = "rt" -> {RtDesign(in)} [] c = "ck" -> {CkDesign(in)}

Init == /\ comp \in Comps
        /\ inp \in Fam(comp)
        /\ pc = 0 /\ mismatch = <<>>
        /\ s = P!Mon(P!S0, [k |-> "case", comp |-> comp, in |-> inp]).s

Build == /\ pc < NRuns /\ mismatch = <<>>
         /\ \E out \in Outs(comp, inp) :
              LET m == P!Mon(s, [k |-> "run", proc |-> "model", out |-> out]) IN
              s' = m.s /\ mismatch' = P!FirstFail(pc + 1, m.cs)
         /\ pc' = pc + 1 /\ UNCHANGED <<comp, inp>>
Next == Build

NoMismatch == mismatch = <<>>
\* leg G: every input of the scope is written out as a case for the Go harness
EmitCase == (Emit /\ pc = 0) => CSVWrite("%1$s", <<ToJson([comp |-> comp, in |-> inp])>>, IOEnv.CASES)
\* the deviations that were needed by the as-built design (printed by the cfg that checks they are all exercised)
DevsSeen == s.devs
====
