CONSTANTS Scope = 1  NRuns = 2  Design = "asbuilt"  Bug = "BwNoMarker"  Emit = FALSE
CONSTANT Comps <- Only_bw
CONSTANT DevSet <- AllDevs
INIT Init
NEXT Next
INVARIANT NoMismatch
CHECK_DEADLOCK FALSE
