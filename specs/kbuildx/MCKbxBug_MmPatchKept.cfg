CONSTANTS Scope = 1  NRuns = 2  Design = "asbuilt"  Bug = "MmPatchKept"  Emit = FALSE
CONSTANT Comps <- Only_mm
CONSTANT DevSet <- AllDevs
INIT Init
NEXT Next
INVARIANT NoMismatch
CHECK_DEADLOCK FALSE
