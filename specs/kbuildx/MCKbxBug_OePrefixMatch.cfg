CONSTANTS Scope = 1  NRuns = 2  Design = "asbuilt"  Bug = "OePrefixMatch"  Emit = FALSE
CONSTANT Comps <- Only_oe
CONSTANT DevSet <- AllDevs
INIT Init
NEXT Next
INVARIANT NoMismatch
CHECK_DEADLOCK FALSE
