---- MODULE MCKbxDevs ----
(* The deviations of the pinned tree from the property statements of KbxProps that are open.  Each is  *)
(* a named switch: while its name is in the set the monitor is instantiated with (constant Devs of     *)
(* KbxProps), a run that only the deviating rule explains is accepted and recorded; removing the name  *)
(* makes such a run a VIOLATION.  See the header of KbxProps for what each one means; the check        *)
(* tools/checks/extra_kbuild.py re-runs a pinned reproducer of each on every run and reports whether   *)
(* it still needs the switch.                                                                           *)
Dev_LastSymbolWins     == "LastSymbolWins"      \* CompleteRedirects: last symbol of a name wins, also when it is 0
Dev_NoSectionBound     == "NoSectionBound"      \* CompleteRedirects: section size never compared with 16*n
Dev_LinkerMapOrder     == "LinkerMapOrder"      \* CompileLinkerScript: substitution in Go map iteration order
Dev_VersionSuffix      == "VersionSuffix"       \* objcopy/xorriso: distribution release suffixes rejected
Dev_GnuXorrisoBanner   == "GnuXorrisoBanner"    \* xorriso: `GNU xorriso ...` banner rejected
Dev_GoPrerelease       == "GoPrerelease"        \* GoVersion: goX.YbetaN / goX.YrcN invalid
Dev_EnvDuplicateShadow == "EnvDuplicateShadow"  \* OverrideEnv: only the first of duplicate environ entries replaced
AllDevs == {Dev_LastSymbolWins, Dev_NoSectionBound, Dev_LinkerMapOrder, Dev_VersionSuffix, Dev_GnuXorrisoBanner,
            Dev_GoPrerelease, Dev_EnvDuplicateShadow}
NoDevs == {}
====
