---- MODULE MCKbxDevs ----
(* the deviations of the pinned tree from the property statements of KbxProps that are open *)
AllDevs == {"LastSymbolWins", "NoSectionBound", "LinkerMapOrder", "VersionSuffix", "GnuXorrisoBanner", "GoPrerelease", "EnvDuplicateShadow"}
NoDevs == {}
====
