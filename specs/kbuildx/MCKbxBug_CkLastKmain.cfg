CONSTANTS Scope = 1  NRuns = 2  Design = "asbuilt"  Bug = "CkLastKmain"  Emit = FALSE
CONSTANT Comps <- Only_ck
CONSTANT DevSet <- AllDevs
INIT Init
NEXT Next
INVARIANT NoMismatch
CHECK_DEADLOCK FALSE
