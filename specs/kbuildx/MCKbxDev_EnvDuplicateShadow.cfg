CONSTANTS Scope = 1  NRuns = 2  Design = "asbuilt"  Bug = ""  Emit = FALSE
CONSTANT Comps <- Only_oe
CONSTANT DevSet <- Without_EnvDuplicateShadow
INIT Init
NEXT Next
INVARIANT NoMismatch
CHECK_DEADLOCK FALSE
