CONSTANTS Scope = 1  NRuns = 2  Design = "asbuilt"  Bug = "WoFirstEntryTwice"  Emit = FALSE
CONSTANT Comps <- Only_wo
CONSTANT DevSet <- AllDevs
INIT Init
NEXT Next
INVARIANT NoMismatch
CHECK_DEADLOCK FALSE
