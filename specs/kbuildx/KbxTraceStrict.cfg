CONSTANT DevSet <- NoDevs
CONSTANT Collect = TRUE
INIT Init
NEXT Next
POSTCONDITION Accepted
CHECK_DEADLOCK FALSE
