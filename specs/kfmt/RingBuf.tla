---- MODULE RingBuf ----
(***************************************************************************)
(* C16 (early log) - what the early print buffer must do, property level.   *)
(*                                                                          *)
(* The buffer is a FIFO of at most Cap bytes (Cap = size - 1 = 2047 for the  *)
(* kernel's 2 KiB ring): Write appends and the oldest bytes are dropped      *)
(* first when the capacity is exceeded; Read hands out a non-empty prefix of *)
(* the contents (at most len(p) bytes) and removes it; it reports EOF        *)
(* exactly when nothing is left, so that io.Copy drains everything and       *)
(* terminates.                                                              *)
(*     Contents = the last min(len, Cap) bytes written and not yet read,     *)
(*                in order.                                                  *)
(*                                                                          *)
(* Byte strings are handled as canonical *segment lists* <<start, len>>:     *)
(* segment byte i is (start + i) % 251 (a lone byte >= 251 is its own        *)
(* segment).  The harness writes the serial pattern j % 251, so every        *)
(* payload, the contents and every read result are one or two segments - a   *)
(* lossless re-encoding that keeps 2 KiB arrays out of the trace.            *)
(***************************************************************************)
EXTENDS Integers, Sequences, TLC
M == 251

SegLen(q, i) == q[i][2]
RECURSIVE TotalR(_, _)
TotalR(q, i) == IF i > Len(q) THEN 0 ELSE q[i][2] + TotalR(q, i + 1)
Total(q) == TotalR(q, 1)

CanMerge(a, b) == a[1] < M /\ b[1] < M /\ (a[1] + a[2]) % M = b[1]
RECURSIVE CanonR(_, _, _)
CanonR(q, i, acc) ==
  IF i > Len(q) THEN acc
  ELSE LET s == q[i]  n == Len(acc) IN
       IF s[2] <= 0 THEN CanonR(q, i + 1, acc)
       ELSE IF n > 0 /\ CanMerge(acc[n], s) THEN CanonR(q, i + 1, [acc EXCEPT ![n] = <<acc[n][1], acc[n][2] + s[2]>>])
       ELSE CanonR(q, i + 1, Append(acc, s))
Canon(q) == CanonR(q, 1, <<>>)
IsCanon(q) == Canon(q) = q /\ \A i \in 1..Len(q) : q[i][1] \in 0..255 /\ (q[i][1] >= M => q[i][2] = 1)

Advance(s, n) == <<IF s[1] < M THEN (s[1] + n) % M ELSE s[1], s[2] - n>>      \* the segment without its first n bytes
RECURSIVE DropFront(_, _)
DropFront(q, n) == IF n <= 0 \/ q = <<>> THEN q
                   ELSE IF q[1][2] <= n THEN DropFront(Tail(q), n - q[1][2])
                   ELSE <<Advance(q[1], n)>> \o Tail(q)
RECURSIVE TakeFront(_, _)
TakeFront(q, n) == IF n <= 0 \/ q = <<>> THEN <<>>
                   ELSE IF q[1][2] <= n THEN <<q[1]>> \o TakeFront(Tail(q), n - q[1][2])
                   ELSE << <<q[1][1], n>> >>

\* the abstract buffer
AbsWrite(q, p, cap) == LET c == Canon(q \o p) IN DropFront(c, Total(c) - cap)
AbsRead(q, got) == DropFront(q, Total(got))

--------------------------------------------------------------------------
(* judging events against the abstract contents q (canonical):  <<property, failed, why>> lists *)
\* e = [k |-> "w", p |-> segs, n |-> returned count, err |-> BOOLEAN]
JudgeWrite(q, e) ==
  << <<"C16", e.n # Total(e.p) \/ e.err, <<"Write must accept every byte: returned", e.n, e.err, "for", Total(e.p)>> >> >>
\* e = [k |-> "r", n |-> len(p), got |-> segs, eof |-> BOOLEAN]
JudgeRead(q, e) ==
  LET g == Total(e.got) IN
  << <<"C16", g > e.n, <<"Read returned more than len(p)", g, e.n>> >>,
     <<"C16", e.got # TakeFront(q, g) \/ g > Total(q),
        <<"Read must return the oldest buffered bytes in order: contents", q, "got", e.got>> >>,
     <<"C16", q = <<>> /\ ~e.eof, <<"empty buffer must report EOF">> >>,
     <<"C16", e.eof /\ g < Total(q), <<"EOF reported while bytes remain buffered", Total(q) - g>> >>,
     <<"C16", q # <<>> /\ e.n > 0 /\ g = 0, <<"no progress: non-empty buffer returned no bytes">> >> >>
\* e = [k |-> "drain", got |-> segs]  (io.Copy from the buffer into a recorder, or kfmt.SetOutputSink(recorder))
JudgeDrain(q, e) ==
  << <<"C16", e.got # q, <<"draining must deliver exactly the buffered bytes, oldest first: contents", q, "got", e.got>> >> >>

\* one monitor step: new contents and checks
Mon(q, e, cap) ==
  IF e.k = "w" THEN [q |-> AbsWrite(q, e.p, cap), cs |-> JudgeWrite(q, e)]
  ELSE IF e.k = "pw" THEN [q |-> AbsWrite(q, e.p, cap), cs |-> <<>>]      \* kfmt.Printf into the early buffer (nothing returned)
  ELSE IF e.k = "r" THEN [q |-> AbsRead(q, e.got), cs |-> JudgeRead(q, e)]
  ELSE IF e.k = "drain" THEN [q |-> <<>>, cs |-> JudgeDrain(q, e)]
  ELSE IF e.k = "panic" THEN [q |-> q, cs |-> << <<"C16", TRUE, <<"ring buffer operation panicked or broke the io contract">> >> >>]
  ELSE [q |-> <<>>, cs |-> <<>>]                                   \* case / reset: a fresh buffer
====
