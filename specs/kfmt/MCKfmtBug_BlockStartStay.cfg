CONSTANTS MaxLen = 3  MaxArgs = 2  MaxLen2 = 0  Bug = "BlockStartStay"  AdjLen = 3  Emit = FALSE
CONSTANT Families = {"scan"}
CONSTANT Alphabet <- MCAlphabet  Alphabet2 <- MCAlphabet2  ScanVals <- MCScanVals  Vals <- MCVals  AdjTokens <- MCAdjTokens  WidthStrs <- MCWidthStrsQuick
INIT Init
NEXT Next
INVARIANT NoMismatch
INVARIANT EmitCase
CHECK_DEADLOCK FALSE
