CONSTANTS Size = 8  WLens = {1, 3, 7, 8, 9}  RLens = {0, 1, 5, 8}  MaxOps = 4  Bug = ""  Emit = FALSE
INIT Init
NEXT Next
INVARIANT NoMismatch
INVARIANT ContentsOk
INVARIANT EmitScript
CHECK_DEADLOCK FALSE
