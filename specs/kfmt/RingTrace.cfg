CONSTANT Cap = 2047
INIT Init
NEXT Next
POSTCONDITION Accepted
CHECK_DEADLOCK FALSE
