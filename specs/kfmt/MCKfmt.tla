---- MODULE MCKfmt ----
(* Constants of the small scope for KfmtModel (cfg files cannot hold tuples). *)
EXTENDS KfmtModel

I(ty, neg, mag) == [ty |-> ty, neg |-> neg, mag |-> mag, s |-> <<>>, bv |-> FALSE]
S(ty, bytes) == [ty |-> ty, neg |-> FALSE, mag |-> <<0, 0, 0, 0>>, s |-> [i \in 1..Len(bytes) |-> <<bytes[i], 1>>], bv |-> FALSE]
Bv(v) == [ty |-> "bool", neg |-> FALSE, mag |-> <<0, 0, 0, 0>>, s |-> <<>>, bv |-> v]
Oth(ty) == [ty |-> ty, neg |-> FALSE, mag |-> <<0, 0, 0, 0>>, s |-> <<>>, bv |-> FALSE]
N(n) == <<0, 0, n \div 65536, n % 65536>>                      \* n < 2^31

\* 'a' '%' 'd' 'x' 'o' 's' 't' '1' '4' '0'
MCAlphabet == {97, 37, 100, 120, 111, 115, 116, 49, 52, 48}
\* 'a' '%' 'd' 's' '1' '0'
MCAlphabet2 == {97, 37, 100, 115, 49, 48}
\* 'a' '%' 'd' '1'  (quick tier)
MCAlphabet2Quick == {97, 37, 100, 49}
MCScanVals == {I("int", TRUE, N(5)), S("string", <<120, 121>>), Bv(TRUE)}

\* directive tokens for the "adj" family: %d %4d %2x %12o %s %3s %t %5t %%
Tk(fb, ar) == [f |-> fb, a |-> ar]
MCAdjTokens == {Tk(<<37, 100>>, <<I("int", TRUE, N(5))>>), Tk(<<37, 52, 100>>, <<I("int8", FALSE, N(7))>>),
                Tk(<<37, 50, 120>>, <<I("uint16", FALSE, N(300))>>), Tk(<<37, 49, 50, 111>>, <<I("uint", FALSE, N(9))>>),
                Tk(<<37, 115>>, <<S("string", <<120, 121>>)>>), Tk(<<37, 51, 115>>, <<S("bytes", <<122>>)>>),
                Tk(<<37, 116>>, <<Bv(TRUE)>>), Tk(<<37, 53, 116>>, <<Bv(FALSE)>>), Tk(<<37, 37>>, <<>>)}
M63 == <<32768, 0, 0, 0>>
Max63 == <<32767, 65535, 65535, 65535>>
Max64 == <<65535, 65535, 65535, 65535>>
Signed(ty, bits, maxw, minw) == {I(ty, FALSE, N(0)), I(ty, FALSE, N(1)), I(ty, TRUE, N(1)), I(ty, FALSE, N(7)), I(ty, TRUE, N(8)),
                                 I(ty, FALSE, N(10)), I(ty, TRUE, N(100)), I(ty, FALSE, maxw), I(ty, TRUE, minw), I(ty, TRUE, maxw)}
Unsigned(ty, maxw) == {I(ty, FALSE, N(0)), I(ty, FALSE, N(1)), I(ty, FALSE, N(8)), I(ty, FALSE, N(9)), I(ty, FALSE, N(15)),
                       I(ty, FALSE, N(16)), I(ty, FALSE, N(100)), I(ty, FALSE, maxw)}
MCVals ==
  Signed("int8", 8, N(127), N(128)) \cup Signed("int16", 16, N(32767), N(32768))
  \cup Signed("int32", 32, N(2147483647), <<0, 0, 32768, 0>>) \cup Signed("int64", 64, Max63, M63) \cup Signed("int", 64, Max63, M63)
  \cup Unsigned("uint8", N(255)) \cup Unsigned("uint16", N(65535)) \cup Unsigned("uint32", <<0, 0, 65535, 65535>>)
  \cup Unsigned("uint64", Max64) \cup Unsigned("uint", Max64) \cup Unsigned("uintptr", Max64)
  \cup {I("uint64", FALSE, <<0, 0, 57005, 48879>>), I("int64", TRUE, <<0, 1, 0, 0>>), I("uintptr", FALSE, <<65535, 65535, 32768, 4096>>)}
  \cup {S("string", <<>>), S("string", <<97>>), S("string", <<97, 98>>), S("string", <<97, 97, 98>>),
        S("bytes", <<>>), S("bytes", <<122>>), S("bytes", <<120, 121, 122>>)}
  \cup {Bv(TRUE), Bv(FALSE), Oth("float64"), Oth("nil"), Oth("struct")}

\* "", "0", "1", "2", "3", "4", "10", "16", "17", "19", "20", "21", "22", "23", "30", "31", "32", "40", "1000000"
\* (2/3: sign + one digit exactly fills / overflows; 16/17: 64-bit hex; 19/20: 64-bit decimal + sign; 21-23: 64-bit octal + sign)
MCWidthStrs == {<<>>, <<48>>, <<49>>, <<50>>, <<51>>, <<52>>, <<49, 48>>, <<49, 54>>, <<49, 55>>, <<49, 57>>, <<50, 48>>,
                <<50, 49>>, <<50, 50>>, <<50, 51>>, <<51, 48>>, <<51, 49>>, <<51, 50>>,
                <<52, 48>>, <<49, 48, 48, 48, 48, 48, 48>>}
MCWidthStrsQuick == {<<>>, <<50>>, <<52>>, <<49, 55>>, <<50, 48>>, <<50, 50>>, <<51, 49>>, <<51, 50>>, <<49, 48, 48, 48, 48, 48, 48>>}
====
