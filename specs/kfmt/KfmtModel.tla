---- MODULE KfmtModel ----
(***************************************************************************)
(* Design model of kfmt.Fprintf / fmtInt / fmtString / fmtBool (fmt.go) as   *)
(* the state machine it is: the verb scanner with blockStart / blockEnd /    *)
(* padLen / nextArgIndex, and fmtInt on the 33-byte scratch buffer (digits   *)
(* generated least significant first, padding, clamp, sign placement by      *)
(* scanning back over blanks, in-place reverse).  The case (format string,   *)
(* argument list) is chosen in Init, so one TLC run quantifies over every    *)
(* case of the scope.  When the machine stops, the event the real code would *)
(* log is judged by Kfmt!Judge - the very operator that judges traces of the *)
(* real package: NoMismatch is C15 for the design.                           *)
(*                                                                          *)
(* Bug re-creates realistic wrong designs; TLC must reject each of them.     *)
(*   NoUint          the integer type switch lacks `uint` (the pinned tree)  *)
(*   Clamp32         width clamp off by one (> instead of >=, 32 kept)       *)
(*   SignOutsidePad  decimal sign appended after the padding                 *)
(*   OctalPadSpace   octal padded with blanks                                *)
(*   PctEndIndex     the byte after '%' is read without a bounds test        *)
(*   BlockStartStay  blockStart not moved past the verb                      *)
(*   PadLeak         padLen only reset when literal text precedes the        *)
(*                   directive (a width leaks into an adjacent directive)    *)
(***************************************************************************)
EXTENDS Integers, Sequences, FiniteSets, TLC, Json, CSV, IOUtils, TraceLib
CONSTANTS Alphabet,     \* bytes of the scanner family
          MaxLen,       \* format strings of length 0..MaxLen over Alphabet
          ScanVals,     \* small value set for the scanner family
          MaxArgs,      \* argument lists of length 0..MaxArgs over ScanVals
          Alphabet2, MaxLen2,   \* a second, smaller alphabet explored one byte longer
          WidthStrs,    \* digit strings for the value family  "%" width verb
          Vals,         \* boundary values of every type
          AdjTokens, AdjLen,    \* directive tokens [f, a] and how many are placed side by side (family "adj")
          Families,     \* subset of {"scan", "val", "adj"}
          Bug, Emit

K == INSTANCE Kfmt
Wd == INSTANCE Word WITH LimbBits <- 16, NLimbs <- 4

VARIABLES f, a,                 \* the case
          mode,                 \* "text" | "verb" | "done"
          pos, bs,              \* blockEnd, blockStart (0-based, as in the code)
          width, ai,            \* padLen, nextArgIndex (0-based)
          out,                  \* bytes written so far, as runs
          panicked, mismatch
vars == <<f, a, mode, pos, bs, width, ai, out, panicked, mismatch>>

Seqs(S, n) == UNION {[1..k -> S] : k \in 0..n}
ScanCases(d) == {[f |-> x, a |-> y] : x \in (Seqs(Alphabet, MaxLen) \cup Seqs(Alphabet2, MaxLen2)), y \in Seqs(ScanVals, MaxArgs)}
ValCases(d) == {[f |-> <<K!PCT>> \o w \o <<v>>, a |-> <<x>>] : w \in WidthStrs, v \in {K!VD, K!VX, K!VO, K!VS, K!VT}, x \in Vals}
\* adjacent directives (no literal byte between them), with exactly the arguments they need, one fewer, one more
RECURSIVE FlatF(_, _)
FlatF(q, i) == IF i > Len(q) THEN <<>> ELSE q[i].f \o FlatF(q, i + 1)
RECURSIVE FlatA(_, _)
FlatA(q, i) == IF i > Len(q) THEN <<>> ELSE q[i].a \o FlatA(q, i + 1)
AdjCases(d) == UNION { UNION { LET full == FlatA(q, 1) IN
                               {[f |-> FlatF(q, 1), a |-> full],
                                [f |-> FlatF(q, 1), a |-> IF full = <<>> THEN <<>> ELSE SubSeq(full, 1, Len(full) - 1)],
                                [f |-> FlatF(q, 1), a |-> full \o <<CHOOSE x \in ScanVals : TRUE>>]} : q \in [1..n -> AdjTokens] } : n \in 2..AdjLen }
Cases(d) == (IF "scan" \in Families THEN ScanCases(d) ELSE {}) \cup (IF "val" \in Families THEN ValCases(d) ELSE {})
            \cup (IF "adj" \in Families THEN AdjCases(d) ELSE {})

Init == /\ \E c \in Cases(0) : f = c.f /\ a = c.a
        /\ mode = "text" /\ pos = 0 /\ bs = 0 /\ width = 0 /\ ai = 0 /\ out = <<>>
        /\ panicked = FALSE /\ mismatch = <<>>

At(i) == f[i + 1]                                      \* format[i], 0-based
Slice(i, j) == [n \in 1..(j - i) |-> <<f[i + n], 1>>]  \* format[i:j] as runs

--------------------------------------------------------------------------
(* fmtInt on the scratch buffer.  buf is a function 0..32 -> byte; an index outside it panics. *)
BufLen == 33
MaxBufSize == 32

RECURSIVE Gen(_, _, _, _)          \* digit loop: `for right < maxBufSize`
Gen(buf, right, u, base) ==
  IF right >= MaxBufSize THEN [buf |-> buf, right |-> right]
  ELSE LET qr == Wd!DivSmall(u, base)
           b2 == [buf EXCEPT ![right] = K!DigitCh(qr.r)]
       IN IF Wd!IsZero(qr.q) THEN [buf |-> b2, right |-> right + 1] ELSE Gen(b2, right + 1, qr.q, base)

RECURSIVE Pad(_, _, _, _)          \* `for ; right-left < padLen; right++ { buf[right] = padCh }`
Pad(buf, right, pad, ch) ==
  IF ~(right < pad) THEN [buf |-> buf, right |-> right, panic |-> FALSE]
  ELSE IF right >= BufLen THEN [buf |-> buf, right |-> right, panic |-> TRUE]
  ELSE Pad([buf EXCEPT ![right] = ch], right + 1, pad, ch)

RECURSIVE Back(_, _)               \* `for end = right-1; buf[end] == ' '; end-- {}`
Back(buf, end) == IF end >= 0 /\ buf[end] = K!SP THEN Back(buf, end - 1) ELSE end

FmtIntImpl(x, base, padLen) ==
  LET pad == IF Bug = "Clamp32" THEN (IF padLen > MaxBufSize THEN MaxBufSize ELSE padLen)
             ELSE (IF padLen >= MaxBufSize THEN MaxBufSize - 1 ELSE padLen)
      padCh == IF base = 10 \/ (base = 8 /\ Bug = "OctalPadSpace") THEN K!SP ELSE K!ZERO
      known == x.ty \in K!IntTypes /\ ~(Bug = "NoUint" /\ x.ty = "uint")
  IN IF ~known THEN [out |-> K!Lits(K!MkWrongType), panic |-> FALSE]
     ELSE LET g == Gen([i \in 0..(BufLen - 1) |-> 0], 0, x.mag, base)
              p == Pad(g.buf, g.right, pad, padCh)
          IN IF p.panic THEN [out |-> <<>>, panic |-> TRUE]
             ELSE IF ~x.neg
             THEN [out |-> [n \in 1..p.right |-> <<p.buf[p.right - n], 1>>], panic |-> FALSE]      \* reversed
             ELSE LET end0 == IF Bug = "SignOutsidePad" THEN p.right - 1 ELSE Back(p.buf, p.right - 1)
                      right2 == IF end0 = p.right - 1 THEN p.right + 1 ELSE p.right
                  IN IF end0 < 0 \/ end0 + 1 >= BufLen THEN [out |-> <<>>, panic |-> TRUE]
                     ELSE LET b3 == [p.buf EXCEPT ![end0 + 1] = K!MINUS]
                          IN [out |-> [n \in 1..right2 |-> <<b3[right2 - n], 1>>], panic |-> FALSE]

FmtStringImpl(x, padLen) ==
  IF x.ty \in {"string", "bytes"} THEN K!Rep(K!SP, padLen - K!RLen(x.s)) \o x.s ELSE K!Lits(K!MkWrongType)
FmtBoolImpl(x) ==
  IF x.ty = "bool" THEN K!Lits(IF x.bv THEN K!StrTrue ELSE K!StrFalse) ELSE K!Lits(K!MkWrongType)

--------------------------------------------------------------------------
(* the scanner *)
Done(o, p) ==       \* the event the harness would log, judged by the property
  LET e == [k |-> "fmt", f |-> f, a |-> a, out |-> K!Norm(o), panic |-> p, hang |-> FALSE, allocs |-> 0] IN
  /\ mode' = "done" /\ out' = o /\ panicked' = p
  /\ mismatch' = FirstFailIn({"C15"}, 1, K!Judge(e))

Lit == /\ mode = "text" /\ pos < Len(f) /\ At(pos) # K!PCT
       /\ pos' = pos + 1
       /\ UNCHANGED <<f, a, mode, bs, width, ai, out, panicked, mismatch>>

Percent == /\ mode = "text" /\ pos < Len(f) /\ At(pos) = K!PCT
           /\ out' = out \o Slice(bs, pos)
           /\ width' = (IF Bug = "PadLeak" /\ ~(bs < pos) THEN width ELSE 0)     \* padLen = 0 for every directive
           /\ pos' = pos + 1 /\ mode' = "verb"
           /\ UNCHANGED <<f, a, bs, ai, panicked, mismatch>>

\* inner loop ran off the end of the format string: "%", "%12"
EndVerb == /\ mode = "verb" /\ pos >= Len(f)
           /\ IF Bug = "PctEndIndex"
              THEN Done(out, TRUE) /\ UNCHANGED <<f, a, pos, bs, width, ai>>         \* format[blockEnd] out of range
              ELSE /\ pos' = pos + 1 /\ bs' = pos + 1 /\ mode' = "text"
                   /\ UNCHANGED <<f, a, width, ai, out, panicked, mismatch>>

NextBlock == /\ pos' = pos + 1 /\ bs' = (IF Bug = "BlockStartStay" THEN pos ELSE pos + 1) /\ mode' = "text"

PctPct == /\ mode = "verb" /\ pos < Len(f) /\ At(pos) = K!PCT
          /\ out' = Append(out, <<K!PCT, 1>>)
          /\ NextBlock
          /\ UNCHANGED <<f, a, width, ai, panicked, mismatch>>

Digit == /\ mode = "verb" /\ pos < Len(f) /\ K!IsDigit(At(pos))
         /\ width' = width * 10 + (At(pos) - 48) /\ pos' = pos + 1
         /\ UNCHANGED <<f, a, mode, bs, ai, out, panicked, mismatch>>

Verb == /\ mode = "verb" /\ pos < Len(f) /\ K!IsVerb(At(pos))
        /\ IF ai >= Len(a)
           THEN /\ out' = out \o K!Lits(K!MkMissing) /\ NextBlock
                /\ UNCHANGED <<f, a, width, ai, panicked, mismatch>>
           ELSE LET x == a[ai + 1]  v == At(pos) IN
                IF v \in {K!VD, K!VX, K!VO}
                THEN LET r == FmtIntImpl(x, K!Base(v), width) IN
                     IF r.panic THEN Done(out, TRUE) /\ UNCHANGED <<f, a, pos, bs, width, ai>>
                     ELSE /\ out' = out \o r.out /\ ai' = ai + 1 /\ NextBlock
                          /\ UNCHANGED <<f, a, width, panicked, mismatch>>
                ELSE /\ out' = out \o (IF v = K!VS THEN FmtStringImpl(x, width) ELSE FmtBoolImpl(x))
                     /\ ai' = ai + 1 /\ NextBlock
                     /\ UNCHANGED <<f, a, width, panicked, mismatch>>

NoVerb == /\ mode = "verb" /\ pos < Len(f) /\ At(pos) # K!PCT /\ ~K!IsDigit(At(pos)) /\ ~K!IsVerb(At(pos))
          /\ out' = out \o K!Lits(K!MkNoVerb) /\ pos' = pos + 1
          /\ UNCHANGED <<f, a, mode, bs, width, ai, panicked, mismatch>>

\* loop exit: trailing literal block, then one marker per unused argument
Finish == /\ mode = "text" /\ pos >= Len(f)
          /\ LET tail == IF bs # pos /\ bs < Len(f) THEN Slice(bs, Len(f)) ELSE <<>>
                 extra == K!Lits(K!RepSeq(K!MkExtra, Len(a) - ai))
             IN Done(out \o tail \o extra, FALSE)
          /\ UNCHANGED <<f, a, pos, bs, width, ai>>

Next == Lit \/ Percent \/ EndVerb \/ PctPct \/ Digit \/ Verb \/ NoVerb \/ Finish
NoNext == FALSE /\ UNCHANGED vars

NoMismatch == mismatch = <<>>

\* leg G: every case of the scope is written out for the Go harness
EmitCase == (Emit /\ mode = "text" /\ pos = 0 /\ out = <<>>) =>
              CSVWrite("%1$s", <<ToJson([f |-> f, a |-> a])>>, IOEnv.CASES)
====
