CONSTANTS Size = 4  WLens = {1, 2, 3, 5}  RLens = {0, 1, 2, 4}  MaxOps = 4  Bug = "NoPushR"  Emit = FALSE
INIT Init
NEXT Next
INVARIANT NoMismatch
INVARIANT ContentsOk
INVARIANT EmitScript
CHECK_DEADLOCK FALSE
