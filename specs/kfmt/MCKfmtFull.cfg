CONSTANTS MaxLen = 4  MaxArgs = 2  MaxLen2 = 5  Bug = ""  Emit = TRUE
CONSTANT Families = {"scan", "val"}
CONSTANT Alphabet <- MCAlphabet  Alphabet2 <- MCAlphabet2  ScanVals <- MCScanVals  Vals <- MCVals  WidthStrs <- MCWidthStrs
INIT Init
NEXT Next
INVARIANT NoMismatch
INVARIANT EmitCase
CHECK_DEADLOCK FALSE
