CONSTANTS MaxLen = 4  MaxArgs = 2  MaxLen2 = 5  Bug = ""  AdjLen = 3  Emit = TRUE
CONSTANT Families = {"scan", "val", "adj"}
CONSTANT Alphabet <- MCAlphabet  Alphabet2 <- MCAlphabet2  ScanVals <- MCScanVals  Vals <- MCVals  AdjTokens <- MCAdjTokens  WidthStrs <- MCWidthStrs
INIT Init
NEXT Next
INVARIANT NoMismatch
INVARIANT EmitCase
CHECK_DEADLOCK FALSE
