---- MODULE Kfmt ----
(***************************************************************************)
(* C15 - what the kernel formatter must write (property level).             *)
(*                                                                          *)
(* A format string is a sequence of bytes (0..255).  An argument is a tagged *)
(* value  [ty, neg, mag, s, bv]:                                            *)
(*    ty   "int8" .. "uintptr" (the eleven built-in integer types), "string",*)
(*         "bytes", "bool", or anything else (a wrongly-typed argument)      *)
(*    neg  sign, mag  magnitude as a 64-bit word of four 16-bit limbs        *)
(*    s    string / byte-slice contents as runs <<byte, count>>              *)
(*    bv   boolean value                                                     *)
(* Output is compared in run-length form (a sequence of <<byte, count>> with *)
(* adjacent runs of different bytes and positive counts): a lossless         *)
(* re-encoding that keeps a 10^6-byte padding out of the trace.              *)
(*                                                                          *)
(* Format(f, a) is defined only from the property statement: literal text    *)
(* unchanged, %% -> %, integers in base 8/10/16 (magnitude by long division  *)
(* on limbs), width clamp 31 for integers, spaces for decimal (sign inside   *)
(* the padding), zeros for octal/hex (sign in front), strings and byte       *)
(* slices left-padded with spaces, booleans true/false, fixed markers for    *)
(* missing / surplus / wrongly-typed arguments.                              *)
(***************************************************************************)
EXTENDS Integers, Sequences, FiniteSets, TLC
W == INSTANCE Word WITH LimbBits <- 16, NLimbs <- 4

MaxWidth == 1000000           \* the property quantifies over widths 0..10^6

PCT == 37   SP == 32   ZERO == 48   MINUS == 45
VD == 100   VX == 120  VO == 111    VS == 115   VT == 116
IsDigit(c) == c >= 48 /\ c <= 57
IsVerb(c) == c \in {VD, VX, VO, VS, VT}

\* the fixed markers of the package's interface
MkMissing   == <<40, 77, 73, 83, 83, 73, 78, 71, 41>>                      \* (MISSING)
MkWrongType == <<37, 33, 40, 87, 82, 79, 78, 71, 84, 89, 80, 69, 41>>      \* %!(WRONGTYPE)
MkNoVerb    == <<37, 33, 40, 78, 79, 86, 69, 82, 66, 41>>                  \* %!(NOVERB)
MkExtra     == <<37, 33, 40, 69, 88, 84, 82, 65, 41>>                      \* %!(EXTRA)
StrTrue     == <<116, 114, 117, 101>>
StrFalse    == <<102, 97, 108, 115, 101>>

IntTypes == {"int8", "int16", "int32", "int64", "int", "uint8", "uint16", "uint32", "uint64", "uint", "uintptr"}

--------------------------------------------------------------------------
(* run-length sequences *)
Lits(bs) == [i \in 1..Len(bs) |-> <<bs[i], 1>>]
Rep(b, n) == IF n > 0 THEN << <<b, n>> >> ELSE <<>>
RECURSIVE RLenR(_, _)
RLenR(rs, i) == IF i > Len(rs) THEN 0 ELSE rs[i][2] + RLenR(rs, i + 1)
RLen(rs) == RLenR(rs, 1)
RECURSIVE NormR(_, _, _)
NormR(rs, i, acc) ==
  IF i > Len(rs) THEN acc
  ELSE LET r == rs[i]  n == Len(acc) IN
       IF r[2] <= 0 THEN NormR(rs, i + 1, acc)
       ELSE IF n > 0 /\ acc[n][1] = r[1] THEN NormR(rs, i + 1, [acc EXCEPT ![n] = <<r[1], acc[n][2] + r[2]>>])
       ELSE NormR(rs, i + 1, Append(acc, r))
Norm(rs) == NormR(rs, 1, <<>>)

--------------------------------------------------------------------------
(* integers *)
DigitCh(d) == IF d < 10 THEN 48 + d ELSE 87 + d              \* 0-9, a-f
RECURSIVE DigitsR(_, _, _)
DigitsR(m, base, acc) == LET qr == W!DivSmall(m, base) IN
                         IF W!IsZero(qr.q) THEN <<DigitCh(qr.r)>> \o acc
                         ELSE DigitsR(qr.q, base, <<DigitCh(qr.r)>> \o acc)
Digits(m, base) == DigitsR(m, base, <<>>)                    \* most significant first, "0" for zero

Base(v) == IF v = VD THEN 10 ELSE IF v = VX THEN 16 ELSE 8

FmtInt(a, base, width) ==
  LET w == IF width > 31 THEN 31 ELSE width
      ds == Digits(a.mag, base)
      sign == IF a.neg THEN <<MINUS>> ELSE <<>>
  IN IF base = 10
     THEN Rep(SP, w - Len(sign) - Len(ds)) \o Lits(sign \o ds)
     ELSE Lits(sign) \o Rep(ZERO, w - Len(ds)) \o Lits(ds)

FmtArg(v, width, a) ==
  IF v \in {VD, VX, VO}
  THEN IF a.ty \in IntTypes THEN FmtInt(a, Base(v), width) ELSE Lits(MkWrongType)
  ELSE IF v = VS
  THEN IF a.ty \in {"string", "bytes"} THEN Rep(SP, width - RLen(a.s)) \o a.s ELSE Lits(MkWrongType)
  ELSE IF a.ty = "bool" THEN Lits(IF a.bv THEN StrTrue ELSE StrFalse) ELSE Lits(MkWrongType)

--------------------------------------------------------------------------
(* the supported grammar:  ( literal | "%%" | "%" digit* verb )*  with width <= MaxWidth *)
RECURSIVE DigitsEnd(_, _)
DigitsEnd(f, j) == IF j <= Len(f) /\ IsDigit(f[j]) THEN DigitsEnd(f, j + 1) ELSE j   \* first non-digit at or after j
RECURSIVE DecVal(_, _, _, _)
DecVal(f, i, j, acc) == IF i > j THEN acc                                            \* saturates above MaxWidth
                        ELSE IF acc > MaxWidth THEN acc
                        ELSE DecVal(f, i + 1, j, acc * 10 + (f[i] - 48))

\* items: [k |-> "lit", c |-> byte, w |-> 0]  or  [k |-> "verb", c |-> verb byte, w |-> width]
RECURSIVE ParseR(_, _, _)
ParseR(f, i, acc) ==
  IF i > Len(f) THEN [ok |-> TRUE, items |-> acc]
  ELSE IF f[i] # PCT THEN ParseR(f, i + 1, Append(acc, [k |-> "lit", c |-> f[i], w |-> 0]))
  ELSE IF i + 1 <= Len(f) /\ f[i + 1] = PCT THEN ParseR(f, i + 2, Append(acc, [k |-> "lit", c |-> PCT, w |-> 0]))
  ELSE LET j == DigitsEnd(f, i + 1) IN
       IF j > Len(f) \/ ~IsVerb(f[j]) THEN [ok |-> FALSE, items |-> acc]
       ELSE LET w == DecVal(f, i + 1, j - 1, 0) IN
            IF w > MaxWidth THEN [ok |-> FALSE, items |-> acc]
            ELSE ParseR(f, j + 1, Append(acc, [k |-> "verb", c |-> f[j], w |-> w]))
Parse(f) == ParseR(f, 1, <<>>)
InGrammar(f) == Parse(f).ok

RECURSIVE RepSeq(_, _)
RepSeq(s, n) == IF n <= 0 THEN <<>> ELSE s \o RepSeq(s, n - 1)
RECURSIVE RenderR(_, _, _, _, _)
RenderR(items, i, args, ai, acc) ==
  IF i > Len(items)
  THEN acc \o Lits(RepSeq(MkExtra, Len(args) - ai + 1))           \* one marker per surplus argument
  ELSE LET it == items[i] IN
       IF it.k = "lit" THEN RenderR(items, i + 1, args, ai, Append(acc, <<it.c, 1>>))
       ELSE IF ai > Len(args) THEN RenderR(items, i + 1, args, ai, acc \o Lits(MkMissing))
       ELSE RenderR(items, i + 1, args, ai + 1, acc \o FmtArg(it.c, it.w, args[ai]))

\* the exact output, in normalised run-length form
Format(f, args) == Norm(RenderR(Parse(f).items, 1, args, 1, <<>>))

--------------------------------------------------------------------------
(* judging one formatting event                                                            *)
(*   e = [k, f, a, out (runs), panic, hang (BOOLEAN), allocs (average heap allocations per call)] *)
(* returns the list of checks <<property, failed, explanation>>                             *)
Judge(e) ==
  LET g == InGrammar(e.f)
      ran == ~e.panic /\ ~e.hang
      want == IF g /\ ran THEN Format(e.f, e.a) ELSE <<>>
  IN << <<"C15", e.hang, <<"formatter did not return (CPU-time watchdog): Format always terminates">> >>,
        <<"C15", e.panic, <<"formatter panicked">> >>,
        <<"C15", g /\ ran /\ e.out # want, <<"output differs from Format(f, a): want", want, "got", e.out>> >>,
        <<"C15", ran /\ e.allocs # 0, <<"heap allocations per call", e.allocs>> >> >>
====
