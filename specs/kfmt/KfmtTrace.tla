---- MODULE KfmtTrace ----
(* Trace monitor for C15: every formatting event recorded from the real kernel/kfmt package is *)
(* judged by Kfmt!Judge (exact output in run-length form, no panic, no heap allocation).        *)
EXTENDS Integers, Sequences, FiniteSets, TLC, Json, IOUtils, TraceLib
K == INSTANCE Kfmt
Trace == ndJsonDeserialize(IOEnv.TRACE)

VARIABLES l, mismatch
vars == <<l, mismatch>>

Init == l = 1 /\ mismatch = <<>>
Next == /\ l <= Len(Trace) /\ mismatch = <<>>
        /\ l' = l + 1
        /\ mismatch' = FirstFailIn({"C15"}, l, K!Judge(Trace[l]))
        /\ Report(mismatch')
NoMismatch == mismatch = <<>>
Accepted == TLCGet("stats").diameter - 1 = Len(Trace)
====
