CONSTANTS MaxLen = 0  MaxArgs = 2  MaxLen2 = 0  Bug = "NoUint"  AdjLen = 3  Emit = FALSE
CONSTANT Families = {"val"}
CONSTANT Alphabet <- MCAlphabet  Alphabet2 <- MCAlphabet2  ScanVals <- MCScanVals  Vals <- MCVals  AdjTokens <- MCAdjTokens  WidthStrs <- MCWidthStrsQuick
INIT Init
NEXT Next
INVARIANT NoMismatch
INVARIANT EmitCase
CHECK_DEADLOCK FALSE
