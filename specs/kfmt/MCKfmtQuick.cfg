CONSTANTS MaxLen = 3  MaxArgs = 2  MaxLen2 = 4  Bug = ""  AdjLen = 3  Emit = TRUE
CONSTANT Families = {"scan", "val", "adj"}
CONSTANT Alphabet <- MCAlphabet  Alphabet2 <- MCAlphabet2Quick  ScanVals <- MCScanVals  Vals <- MCVals  AdjTokens <- MCAdjTokens  WidthStrs <- MCWidthStrsQuick
INIT Init
NEXT Next
INVARIANT NoMismatch
INVARIANT EmitCase
CHECK_DEADLOCK FALSE
