---- MODULE RingTrace ----
(* Trace monitor for the early-log ring (C16): events recorded from the real kfmt.ringBuffer *)
(* (2048 cells, capacity 2047) are judged by RingBuf!Mon against the abstract FIFO.            *)
EXTENDS Integers, Sequences, FiniteSets, TLC, Json, IOUtils, TraceLib
CONSTANT Cap
R == INSTANCE RingBuf
Trace == ndJsonDeserialize(IOEnv.TRACE)

VARIABLES l, q, mismatch
vars == <<l, q, mismatch>>

Init == l = 1 /\ q = <<>> /\ mismatch = <<>>
Next == /\ l <= Len(Trace) /\ mismatch = <<>>
        /\ l' = l + 1
        /\ LET m == R!Mon(q, Trace[l], Cap) IN q' = m.q /\ mismatch' = FirstFailIn({"C16"}, l, m.cs)
        /\ Report(mismatch')
NoMismatch == mismatch = <<>>
Accepted == TLCGet("stats").diameter - 1 = Len(Trace)
====
