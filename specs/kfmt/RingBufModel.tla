---- MODULE RingBufModel ----
(***************************************************************************)
(* Design model of kfmt.ringBuffer (ringbuf.go) as coded: a byte array of    *)
(* Size cells, rIndex, wIndex; Write stores byte by byte, advances wIndex    *)
(* modulo Size and pushes rIndex when the two meet (overwrite oldest); Read  *)
(* copies one contiguous segment (up to wIndex, or up to the end of the      *)
(* array and then wraps rIndex to 0).  Drain is io.Copy: Read until EOF.     *)
(* Every action produces the event the harness would log and RingBuf!Mon -   *)
(* the operator that judges traces of the real buffer - judges it against    *)
(* the abstract FIFO:  NoMismatch is the ring part of C16 for the design;    *)
(* ContentsOk states it as a state invariant.                                *)
(* Bytes are serial numbers, so order, loss and duplication are all visible. *)
(*                                                                          *)
(* Design mutants: NoPushR (rIndex not advanced on overwrite), SecondFirst   *)
(* (wrapped Read returns the low segment first), NoWrapReset (rIndex not     *)
(* reset at the end of the array), OffByOneFull (pushes rIndex one early).   *)
(***************************************************************************)
EXTENDS Integers, Sequences, FiniteSets, TLC, Json, CSV, IOUtils, TraceLib
CONSTANTS Size,        \* cells (a power of two in the code; the mask is a modulo)
          WLens, RLens,\* lengths of Write payloads / Read buffers explored
          MaxOps, Bug, Emit

R == INSTANCE RingBuf
Cap == Size - 1

VARIABLES buf, r, w,        \* the implementation state
          q,                \* abstract contents (canonical segments) maintained by the monitor
          serial, nops, script, mismatch
vars == <<buf, r, w, q, serial, nops, script, mismatch>>

Init == /\ buf = [i \in 0..(Size - 1) |-> 0] /\ r = 0 /\ w = 0 /\ q = <<>>
        /\ serial = 0 /\ nops = 0 /\ script = <<>> /\ mismatch = <<>>

\* bytes of the implementation between rIndex and wIndex, oldest first
RECURSIVE ImplBytes(_, _, _, _)
ImplBytes(b, i, j, n) == IF i = j \/ n = 0 THEN <<>> ELSE <<b[i]>> \o ImplBytes(b, (i + 1) % Size, j, n - 1)
Segs(bytes) == R!Canon([i \in 1..Len(bytes) |-> <<bytes[i], 1>>])

\* ringBuffer.Write, byte by byte
RECURSIVE WriteLoop(_, _, _, _, _)
WriteLoop(b, ri, wi, first, k) ==
  IF k = 0 THEN [buf |-> b, r |-> ri, w |-> wi]
  ELSE LET b2 == [b EXCEPT ![wi] = first % 251]
           w2 == (wi + 1) % Size
           full == IF Bug = "OffByOneFull" THEN ri = (w2 + 1) % Size \/ ri = w2 ELSE ri = w2
           r2 == IF full /\ Bug # "NoPushR" THEN (ri + 1) % Size ELSE ri
       IN WriteLoop(b2, r2, w2, first + 1, k - 1)

Judge(m) == /\ q' = m.q /\ mismatch' = FirstFailIn({"C16"}, nops + 1, m.cs)

Write(k) ==
  /\ nops < MaxOps
  /\ LET st == WriteLoop(buf, r, w, serial, k)
         e == [k |-> "w", p |-> << <<serial % 251, k>> >>, n |-> k, err |-> FALSE]
     IN /\ buf' = st.buf /\ r' = st.r /\ w' = st.w
        /\ Judge(R!Mon(q, e, Cap))
  /\ serial' = serial + k /\ nops' = nops + 1 /\ script' = Append(script, <<"w", k>>)

\* ringBuffer.Read into a buffer of n bytes: [got, r, eof]
ReadImpl(b, ri, wi, n) ==
  IF ri < wi
  THEN LET c == IF n < wi - ri THEN n ELSE wi - ri IN
       [got |-> [i \in 1..c |-> b[ri + i - 1]], r |-> ri + c, eof |-> FALSE]
  ELSE IF ri > wi
  THEN IF Bug = "SecondFirst" /\ wi > 0
       THEN LET c == IF n < wi THEN n ELSE wi IN                      \* low segment handed out first
            [got |-> [i \in 1..c |-> b[i - 1]], r |-> ri, eof |-> FALSE]
       ELSE LET c == IF n < Size - ri THEN n ELSE Size - ri
                r2 == ri + c
            IN [got |-> [i \in 1..c |-> b[ri + i - 1]],
                r |-> IF r2 = Size /\ Bug # "NoWrapReset" THEN 0 ELSE r2, eof |-> FALSE]
  ELSE [got |-> <<>>, r |-> ri, eof |-> TRUE]

Read(n) ==
  /\ nops < MaxOps
  /\ LET x == ReadImpl(buf, r, w, n)
         e == [k |-> "r", n |-> n, got |-> Segs(x.got), eof |-> x.eof]
     IN /\ r' = x.r /\ Judge(R!Mon(q, e, Cap))
  /\ UNCHANGED <<buf, w, serial>>
  /\ nops' = nops + 1 /\ script' = Append(script, <<"r", n>>)

\* io.Copy(dst, ring): Read with a large buffer until EOF (bounded: a Read that makes no progress would spin for ever)
RECURSIVE DrainLoop(_, _, _, _)
DrainLoop(ri, acc, fuel, stuck) ==
  IF fuel = 0 \/ ri >= Size THEN [got |-> acc, r |-> ri, stuck |-> TRUE]
  ELSE LET x == ReadImpl(buf, ri, w, 4 * Size) IN
       IF x.eof THEN [got |-> acc, r |-> x.r, stuck |-> FALSE]
       ELSE DrainLoop(x.r, acc \o x.got, fuel - 1, stuck)
Drain ==
  /\ nops < MaxOps
  /\ LET x == DrainLoop(r, <<>>, 4, FALSE)
         e == [k |-> "drain", got |-> Segs(x.got)]
     IN /\ r' = x.r
        /\ IF x.stuck THEN q' = q /\ mismatch' = <<nops + 1, "C16", <<"io.Copy never reaches EOF">> >>
           ELSE Judge(R!Mon(q, e, Cap))
  /\ UNCHANGED <<buf, w, serial>>
  /\ nops' = nops + 1 /\ script' = Append(script, <<"d", 0>>)

Next == /\ mismatch = <<>>
        /\ \/ \E k \in WLens : Write(k)
           \/ \E n \in RLens : Read(n)
           \/ Drain

NoMismatch == mismatch = <<>>
\* the refinement as a state invariant: what the implementation holds is exactly the abstract contents
ContentsOk == (mismatch = <<>> /\ r < Size) => Segs(ImplBytes(buf, r, w, Size)) = q
\* leg G: every maximal behaviour is written out as a script for the Go harness
EmitScript == (Emit /\ nops = MaxOps /\ mismatch = <<>>) => CSVWrite("%1$s", <<ToJson([ops |-> script])>>, IOEnv.CASES)
====
