---- MODULE MCRingBuf ----
EXTENDS RingBufModel
====
