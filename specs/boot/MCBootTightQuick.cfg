CONSTANTS MaxOps = 4  Bug = ""  Emit = TRUE
  Ops = {"alloc", "free", "lazy", "fault"}
  UPages = {1}
CONSTANT Configs <- MCConfigsTight
INIT Init
NEXT Next
INVARIANT NoMismatch
INVARIANT EmitCase
VIEW View
CHECK_DEADLOCK FALSE
