CONSTANTS MaxOps = 1  Bug = ""  Emit = TRUE
  Ops = {"alloc", "lazy", "fault", "own"}
  UPages = {1, 4}
CONSTANT Configs <- MCConfigsAll
INIT Init
NEXT Next
INVARIANT NoMismatch
INVARIANT EmitCase
VIEW View
CHECK_DEADLOCK FALSE
