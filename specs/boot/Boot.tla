---- MODULE Boot ----
(***************************************************************************)
(* Design model of the boot path as a COMPOSITION:                          *)
(*    multiboot info -> pmm.Init -> vmm.Init -> the kernel at work          *)
(* over small integers.  What is modelled is what the per-package specs     *)
(* leave to each other: who owns which frame and which pages carry the      *)
(* allocator's own tables.                                                  *)
(*  - the physical allocator is abstract (C01-C03 check its algorithms):    *)
(*    a boot phase that hands out ascending frames outside the kernel image *)
(*    and a bitmap phase that hands out the lowest unmarked frame;          *)
(*  - mm.AllocFrame dispatches to whatever allocator pmm.Init registered;   *)
(*  - an address space is a set of page tables (one per index prefix, four  *)
(*    levels of 2 index bits) plus a set of last-level entries; Map takes   *)
(*    the frames for missing tables from mm.AllocFrame (C04 checks the      *)
(*    walk mechanics);                                                      *)
(*  - pmm.Init reserves nb pages below the temporary page, maps them in the *)
(*    boot address space (frames and page tables from the boot allocator),  *)
(*    marks kernel image and early frames, switches the allocator;          *)
(*  - vmm.Init builds the kernel address space (root, sections, carried-    *)
(*    over reservations), activates it, reserves the zero frame;            *)
(*  - afterwards: allocate / free, lazily allocated pages, write faults.    *)
(* The machine (memory map, kernel placement, section table) is chosen in   *)
(* Init.  Every action produces the event(s) the mini boot of the real code *)
(* logs, and they are judged by the same monitor operators (BootProps) that *)
(* judge recorded traces: NoMismatch is XB1-XB5 for the design.             *)
(*                                                                          *)
(* Scale: 10-bit addresses, 4 address units per page, 256 pages; page 191   *)
(* (indices <<2,3,3,3>>) is the temporary page, 192..255 the recursive      *)
(* window, the kernel's virtual range starts at page 128 (address 512).     *)
(* Frame 0 holds the root of the boot address space.                        *)
(* Design-mutant switches (Bug) re-create realistic wrong designs.          *)
(***************************************************************************)
EXTENDS Integers, Sequences, FiniteSets, TLC, Json, CSV, IOUtils
CONSTANTS Configs,     \* set of machines Init ranges over: [regs, ks, ke, secs, nb (pages of allocator tables),
                       \*   mo (operations explored after the boot), ops (subset of {"alloc","free","dfree","drain",
                       \*   "freeall","lazy","fault","own","unmap"}), ups (observed low pages the operations may use)]
          Bug, Emit


LB == 2
NL == 5
PBits == 2
PS == 4
B == INSTANCE BootProps WITH LimbBits <- LB, NLimbs <- NL, PB <- PBits
Wd == INSTANCE Word WITH LimbBits <- LB, NLimbs <- NL
Wn(n) == Wd!FromNat(n)

TempPage == 191
KOff == 512
BootRoot == 0
UP == <<16, 17, 20, 64>>           \* 16,17 share a last-level table; 20 shares the level-2 table; 64 only the root

VARIABLES cfg, ph, al, as, active, cursor, kroot, zero, prot, dh, df, priv, nops, script, s, mismatch
vars == <<cfg, ph, al, as, active, cursor, kroot, zero, prot, dh, df, priv, nops, script, s, mismatch>>
MaxOps == cfg.mo
Ops == cfg.ops
UPages == cfg.ups

RECURSIVE SeqOf(_)
SeqOf(S) == IF S = {} THEN <<>> ELSE LET m == CHOOSE x \in S : \A y \in S : x <= y IN <<m>> \o SeqOf(S \ {m})
Range(q) == {q[i] : i \in 1..Len(q)}
Min(S) == CHOOSE x \in S : \A y \in S : x <= y
Max(S) == CHOOSE x \in S : \A y \in S : x >= y

--------------------------------------------------------------------------
(* the machine *)
RoundUp(a) == ((a + PS - 1) \div PS) * PS
RoundDown(a) == (a \div PS) * PS
FramesOf(r) == (RoundUp(r.a) \div PS)..((RoundDown(r.a + r.l) \div PS) - 1)
Usable == UNION {FramesOf(cfg.regs[i]) : i \in {j \in 1..Len(cfg.regs) : cfg.regs[j].t = 1}}
Kernel == (cfg.ks \div PS)..((RoundUp(cfg.ke) \div PS) - 1)

EvBoot == [k |-> "boot",
           regs |-> [i \in 1..Len(cfg.regs) |-> [a |-> Wn(cfg.regs[i].a), l |-> Wn(cfg.regs[i].l), t |-> <<0, cfg.regs[i].t>>]],
           ks |-> Wn(cfg.ks), ke |-> Wn(cfg.ke), off |-> Wn(KOff),
           secs |-> [i \in 1..Len(cfg.secs) |-> [a |-> Wn(cfg.secs[i].a), sz |-> Wn(cfg.secs[i].sz), fl |-> cfg.secs[i].fl]],
           tmp |-> Wn(TempPage), broot |-> BootRoot, upg |-> [i \in 1..Len(UP) |-> Wn(UP[i])]]

--------------------------------------------------------------------------
(* mm.AllocFrame: dispatches on the registered allocator.  a = [mode, early, resv, pv] *)
Take(a) ==
  IF a.mode = "early"
  THEN LET C == {f \in Usable \ Kernel : \A i \in 1..Len(a.early) : f > a.early[i]} IN
       IF C = {} THEN [ok |-> FALSE, f |-> 0, a |-> a]
       ELSE [ok |-> TRUE, f |-> Min(C), a |-> [a EXCEPT !.early = Append(@, Min(C))]]
  ELSE LET C == Usable \ a.resv IN
       IF C = {} THEN [ok |-> FALSE, f |-> 0, a |-> a]
       ELSE [ok |-> TRUE, f |-> Min(C), a |-> [a EXCEPT !.resv = @ \cup {Min(C)}]]

\* design mutant: vmm keeps a private frame counter (top of RAM downwards) instead of asking the allocator
TakePrivate(a) ==
  LET C == {f \in Usable \ Kernel : f \notin a.pv} IN
  IF C = {} THEN [ok |-> FALSE, f |-> 0, a |-> a]
  ELSE [ok |-> TRUE, f |-> Max(C), a |-> [a EXCEPT !.pv = @ \cup {Max(C)}]]

VmmTake(a) == IF Bug = "VmmPrivateFrames" THEN TakePrivate(a) ELSE Take(a)

(* address spaces: m = [a (allocator), sp ([boot, new]: [tb, pt]), ok] threaded through a construction *)
EmptyAS == [tb |-> {}, pt |-> {}]
Ent(p, f, rw, us, nx, cow) == [p |-> p, f |-> f, rw |-> rw, us |-> us, nx |-> nx, cow |-> cow]
Ids(p) == << <<p \div 64>>, <<p \div 64, (p \div 16) % 4>>, <<p \div 64, (p \div 16) % 4, (p \div 4) % 4>> >>
HasTable(sp, id) == \E t \in sp.tb : t.id = id

RECURSIVE Tables(_, _, _, _, _)
Tables(m, w, ids, i, byVmm) ==
  IF ~m.ok \/ i > Len(ids) THEN m
  ELSE IF HasTable(m.sp[w], ids[i]) THEN Tables(m, w, ids, i + 1, byVmm)
  ELSE LET t == IF byVmm THEN VmmTake(m.a) ELSE Take(m.a) IN
       IF ~t.ok THEN [m EXCEPT !.ok = FALSE]
       ELSE Tables([m EXCEPT !.a = t.a, !.sp[w].tb = @ \cup {[id |-> ids[i], f |-> t.f]}], w, ids, i + 1, byVmm)

\* Map(page, frame, flags) in address space w
MapIn(m, w, e, byVmm) ==
  LET m1 == Tables(m, w, Ids(e.p), 1, byVmm) IN
  IF ~m1.ok THEN m1 ELSE [m1 EXCEPT !.sp[w].pt = {x \in @ : x.p # e.p} \cup {e}]
UnmapIn(m, w, p) == [m EXCEPT !.sp[w].pt = {x \in @ : x.p # p}]
Lookup(sp, p) == {x \in sp.pt : x.p = p}

--------------------------------------------------------------------------
(* projection: what the mini boot logs *)
AllocPages == cursor..(TempPage - 1)
ActiveAS(sp, act) == IF act = "boot" THEN sp.boot ELSE sp.new
\* the allocator reaches its tables through the active address space
TablesReachable(sp, act, cur) == \A p \in cur..(TempPage - 1) : \E x \in ActiveAS(sp, act).pt : x.p = p
TablesWritable(sp, act, cur) == \A p \in cur..(TempPage - 1) : \E x \in ActiveAS(sp, act).pt : x.p = p /\ x.rw = 1

RECURSIVE WalkSeq(_)
WalkSeq(S) == IF S = {} THEN <<>>
              ELSE LET x == CHOOSE y \in S : \A z \in S : y.p <= z.p IN
                   <<[p |-> Wn(x.p), f |-> Wn(x.f), fl |-> <<x.rw, x.us, x.nx>>, lus |-> x.us, cow |-> x.cow]>> \o WalkSeq(S \ {x})
TableFrames(sp) == SeqOf({t.f : t \in sp.tb})

Snapshot(a, sp, act, cur, kr, z, pr) ==
  [total |-> Cardinality(Usable), reserved |-> Cardinality(a.resv), lock |-> 0,
   resv |-> SeqOf(a.resv), rfault |-> IF TablesReachable(sp, act, cur) THEN 0 ELSE 1,
   apg |-> [i \in 1..(TempPage - cur) |-> Wn(cur + i - 1)], cursor |-> Wn(cur),
   root |-> IF act = "boot" THEN BootRoot ELSE kr,
   walk |-> WalkSeq(ActiveAS(sp, act).pt), tables |-> TableFrames(ActiveAS(sp, act)), bad |-> 0,
   btables |-> TableFrames(sp.boot), zero |-> z, zfill |-> IF z = 0 THEN 0 ELSE 1, prot |-> pr, kroot |-> kr]

Ev(k, res, snap) == [x \in {"k", "res"} \cup DOMAIN snap |-> IF x = "k" THEN k ELSE IF x = "res" THEN res ELSE snap[x]]

PgRec(sp, p) ==
  LET X == Lookup(sp, p)
      up == [i \in 1..3 |-> IF HasTable(sp, Ids(p)[i]) /\ (i = 1 \/ HasTable(sp, Ids(p)[i - 1])) THEN 1 ELSE 0]
  IN IF X = {} \/ up # <<1, 1, 1>> THEN [m |-> 0, f |-> 0, rw |-> 0, cow |-> 0, nx |-> 0, us |-> 0, up |-> up]
     ELSE LET x == CHOOSE y \in X : TRUE IN [m |-> 1, f |-> x.f, rw |-> x.rw, cow |-> x.cow, nx |-> x.nx, us |-> x.us, up |-> up]

Counters(a) == [total |-> Cardinality(Usable), reserved |-> Cardinality(a.resv), lock |-> 0]

\* judge a sequence of events with the shared monitor; the first failing check wins
RECURSIVE Judge(_, _, _)
Judge(st, evs, i) ==
  IF i > Len(evs) THEN [s |-> st, mm |-> <<>>]
  ELSE LET m == B!Mon(st, evs[i])
           F == {j \in 1..Len(m.cs) : m.cs[j][2]}
       IN IF F = {} THEN Judge(m.s, evs, i + 1)
          ELSE LET j == CHOOSE j \in F : \A k \in F : j <= k IN [s |-> m.s, mm |-> <<evs[i].k, m.cs[j][1], m.cs[j][3]>>]

--------------------------------------------------------------------------
Init ==
  /\ cfg \in Configs
  /\ ph = "cfg"
  /\ al = [mode |-> "none", early |-> <<>>, resv |-> {}, pv |-> {}]
  /\ as = [boot |-> EmptyAS, new |-> EmptyAS]
  /\ active = "boot" /\ cursor = TempPage /\ kroot = 0 /\ zero = 0 /\ prot = 0
  /\ dh = <<>> /\ df = {} /\ priv = [u \in 1..Len(UP) |-> 0]
  /\ nops = 0 /\ script = <<>>
  /\ s = B!Mon(B!S0, EvBoot).s
  /\ mismatch = <<>>

(* pmm.Init: boot allocator, tables reserved + mapped through vmm, hand-over *)
RECURSIVE MapAllocPages(_, _, _)
MapAllocPages(m, p, n) ==
  IF ~m.ok \/ n = 0 THEN m
  ELSE LET t == Take(m.a) IN
       IF ~t.ok THEN [m EXCEPT !.ok = FALSE]
       ELSE MapAllocPages(MapIn([m EXCEPT !.a = t.a], "boot", Ent(p, t.f, 1, 0, 1, 0), FALSE), p + 1, n - 1)

PmmInit ==
  /\ ph = "cfg"
  /\ LET cur == TempPage - cfg.nb
         m0  == [a |-> [al EXCEPT !.mode = "early"], sp |-> as, ok |-> TRUE]
         m1  == MapAllocPages(m0, cur, cfg.nb)
         leafs == {x.f : x \in m1.sp.boot.pt}
         marked == IF Bug = "EarlyTablesNotReserved" THEN Kernel \cup leafs ELSE Kernel \cup Range(m1.a.early)
         a2  == IF m1.ok THEN [m1.a EXCEPT !.resv = marked, !.mode = IF Bug = "NoSwitchAllocator" THEN "early" ELSE "bitmap"]
                ELSE m1.a
         e   == Ev("pmm", IF m1.ok THEN "ok" ELSE "oom", Snapshot(a2, m1.sp, "boot", cur, 0, 0, 0))
         j   == Judge(s, <<e>>, 1)
     IN /\ al' = a2 /\ as' = m1.sp /\ cursor' = cur
        /\ ph' = IF m1.ok THEN "pmm" ELSE "dead"
        /\ s' = j.s /\ mismatch' = j.mm
  /\ UNCHANGED <<cfg, active, kroot, zero, prot, dh, df, priv, nops, script>>

(* vmm.Init *)
RECURSIVE MapSecPages(_, _, _, _, _)
MapSecPages(m, page, last, frame, e) ==
  IF ~m.ok \/ page > last THEN m
  ELSE MapSecPages(MapIn(m, "new", [e EXCEPT !.p = page, !.f = frame], TRUE), page + 1, last, frame + 1, e)

RECURSIVE MapSections(_, _)
MapSections(m, i) ==
  IF ~m.ok \/ i > Len(cfg.secs) THEN m
  ELSE LET g == cfg.secs[i] IN
       IF g.a < KOff THEN MapSections(m, i + 1)
       ELSE MapSections(MapSecPages(m, g.a \div PS, (g.a + g.sz - 1) \div PS, (g.a - KOff) \div PS,
                                    Ent(0, 0, g.fl % 2, 0, 1 - ((g.fl \div 4) % 2), 0)), i + 1)

RECURSIVE CopyRsv(_, _)
CopyRsv(m, p) ==
  IF ~m.ok \/ p >= TempPage THEN m
  ELSE LET X == Lookup(m.sp.boot, p) IN
       IF X = {} THEN [m EXCEPT !.ok = FALSE]      \* translate fails: Init returns the error
       ELSE CopyRsv(MapIn(m, "new", Ent(p, (CHOOSE x \in X : TRUE).f, IF Bug = "RsvReadOnly" THEN 0 ELSE 1, 0, 0, 0), TRUE), p + 1)

VmmInit ==
  /\ ph = "pmm"
  /\ LET m0 == [a |-> al, sp |-> as, ok |-> TRUE]
         r  == VmmTake(m0.a)
         \* PageDirectoryTable.Init: the new root is cleared through the temporary page of the BOOT space
         m1 == IF ~r.ok THEN [m0 EXCEPT !.ok = FALSE]
               ELSE UnmapIn(MapIn([m0 EXCEPT !.a = r.a], "boot", Ent(TempPage, r.f, 1, 0, 0, 0), TRUE), "boot", TempPage)
         m2 == MapSections(m1, 1)
         m3 == IF Bug = "RsvNotCopied" THEN m2
               ELSE CopyRsv(m2, IF Bug = "RsvSkipLowest" THEN cursor + 1 ELSE cursor)
         act == IF m3.ok /\ Bug # "NoActivate" THEN "new" ELSE active
         \* reserveZeroedFrame: allocate, clear through the temporary page of the ACTIVE space, unmap
         z  == IF m3.ok THEN VmmTake(m3.a) ELSE [ok |-> FALSE, f |-> 0, a |-> m3.a]
         m4 == IF ~z.ok THEN [m3 EXCEPT !.ok = FALSE]
               ELSE UnmapIn(MapIn([m3 EXCEPT !.a = z.a], act, Ent(TempPage, z.f, 1, 0, 0, 0), TRUE), act, TempPage)
         m5 == IF m4.ok /\ Bug = "ZeroReturnedToPmm" THEN [m4 EXCEPT !.a.resv = @ \ {z.f}] ELSE m4
         kr == IF r.ok THEN r.f ELSE 0
         zf == IF m5.ok THEN z.f ELSE 0
         e  == Ev("vmm", IF m5.ok THEN "ok" ELSE "oom", Snapshot(m5.a, m5.sp, act, cursor, kr, zf, IF m5.ok THEN 1 ELSE 0))
         j  == Judge(s, <<e>>, 1)
     IN /\ al' = m5.a /\ as' = m5.sp /\ active' = act /\ kroot' = kr /\ zero' = zf /\ prot' = IF m5.ok THEN 1 ELSE 0
        /\ ph' = IF m5.ok THEN "up" ELSE "dead"
        /\ s' = j.s /\ mismatch' = j.mm
  /\ UNCHANGED <<cfg, cursor, dh, df, priv, nops, script>>

--------------------------------------------------------------------------
(* the kernel at work *)
CanOp == ph = "up" /\ nops < MaxOps
AllocWorks == TablesWritable(as, active, cursor)
CrashEv(k) == [k |-> k, res |-> "crash: fault", f |-> 0, total |-> 0, reserved |-> 0, lock |-> 1]

Step(evs, op) ==
  /\ LET j == Judge(s, evs, 1) IN s' = j.s /\ mismatch' = j.mm
  /\ nops' = nops + 1 /\ script' = Append(script, op)

Alloc ==
  /\ CanOp /\ "alloc" \in Ops
  /\ IF ~AllocWorks
     THEN /\ Step(<<CrashEv("alloc")>>, <<0>>) /\ ph' = "dead" /\ UNCHANGED <<al, dh, df>>
     ELSE LET t == Take(al) IN
          /\ al' = t.a /\ ph' = ph
          /\ dh' = IF t.ok THEN Append(dh, t.f) ELSE dh
          /\ df' = df \ {t.f}
          /\ Step(<<[k |-> "alloc", res |-> IF t.ok THEN "ok" ELSE "oom", f |-> t.f] @@ Counters(t.a)>>, <<0>>)
  /\ UNCHANGED <<cfg, as, active, cursor, kroot, zero, prot, priv>>

Free(i) ==
  /\ CanOp /\ "free" \in Ops /\ i \in 1..Len(dh) /\ AllocWorks
  /\ LET f == dh[i]  a2 == [al EXCEPT !.resv = @ \ {f}] IN
     /\ al' = a2 /\ dh' = [k \in 1..(Len(dh) - 1) |-> IF k < i THEN dh[k] ELSE dh[k + 1]] /\ df' = df \cup {f}
     /\ Step(<<[k |-> "free", f |-> f, res |-> IF f \in al.resv THEN "ok" ELSE "doublefree"] @@ Counters(a2)>>, <<1, i - 1>>)
  /\ UNCHANGED <<cfg, ph, as, active, cursor, kroot, zero, prot, priv>>

\* allocate until out of memory, then once more
RECURSIVE TakeAll(_, _)
TakeAll(a, acc) == LET t == Take(a) IN IF t.ok THEN TakeAll(t.a, Append(acc, t.f)) ELSE [a |-> a, fs |-> acc]
Drain ==
  /\ CanOp /\ "drain" \in Ops /\ AllocWorks
  /\ LET r == TakeAll(al, <<>>) IN
     /\ al' = r.a /\ dh' = dh \o r.fs /\ df' = {}
     /\ Step(<<[k |-> "drain", res |-> "oom", fs |-> r.fs] @@ Counters(r.a),
               [k |-> "alloc", res |-> "oom", f |-> 0] @@ Counters(r.a)>>, <<3>>)
  /\ UNCHANGED <<cfg, ph, as, active, cursor, kroot, zero, prot, priv>>

FreeAll ==
  /\ CanOp /\ "freeall" \in Ops /\ AllocWorks /\ dh # <<>>
  /\ LET a2 == [al EXCEPT !.resv = @ \ Range(dh)] IN
     /\ al' = a2 /\ dh' = <<>> /\ df' = df \cup Range(dh)
     /\ Step(<<[k |-> "freeall", res |-> "ok", fs |-> dh] @@ Counters(a2)>>, <<4>>)
  /\ UNCHANGED <<cfg, ph, as, active, cursor, kroot, zero, prot, priv>>

\* free again a frame the driver gave back earlier
DFree ==
  /\ CanOp /\ "dfree" \in Ops /\ df # {} /\ AllocWorks
  /\ LET f == Min(df)  a2 == [al EXCEPT !.resv = @ \ {f}] IN
     /\ al' = a2
     /\ Step(<<[k |-> "free", f |-> f, res |-> IF f \in al.resv THEN "ok" ELSE "doublefree"] @@ Counters(a2)>>, <<2, 0>>)
  /\ UNCHANGED <<cfg, ph, as, active, cursor, kroot, zero, prot, dh, df, priv>>

MapEv(what, u, fr, res, sp, a) ==
  [k |-> "map", what |-> what, u |-> u, p |-> Wn(UP[u]), fr |-> fr, res |-> res, pg |-> PgRec(ActiveAS(sp, active), UP[u]),
   tables |-> TableFrames(ActiveAS(sp, active)), bad |-> 0] @@ Counters(a)

\* sysMap-like: reserve a page without memory: zero frame, present + copy-on-write + no-execute
Lazy(u) ==
  /\ CanOp /\ "lazy" \in Ops /\ priv[u] = 0
  /\ LET m == MapIn([a |-> al, sp |-> as, ok |-> TRUE], active, Ent(UP[u], zero, 0, 0, 1, 1), TRUE) IN
     /\ al' = m.a /\ as' = m.sp /\ df' = {}
     /\ Step(<<MapEv("lazy", u, zero, IF m.ok THEN "ok" ELSE "oom", m.sp, m.a)>>, <<6, u - 1>>)
  /\ UNCHANGED <<cfg, ph, active, cursor, kroot, zero, prot, dh, priv>>

\* the page-fault handler
Fault(u) ==
  /\ CanOp /\ "fault" \in Ops
  /\ LET sp  == ActiveAS(as, active)
         pre == PgRec(sp, UP[u])
         rec == pre.m = 1 /\ pre.rw = 0 /\ pre.cow = 1
         t   == IF Bug = "CowCopyPrivate" THEN TakePrivate(al) ELSE Take(al)
         okk == rec /\ t.ok /\ AllocWorks
         newf == IF Bug = "CowKeepsZeroFrame" THEN pre.f ELSE t.f
         sp2 == IF okk THEN [sp EXCEPT !.pt = {x \in @ : x.p # UP[u]} \cup {Ent(UP[u], newf, 1, pre.us, pre.nx, 0)}] ELSE sp
         as2 == IF active = "boot" THEN [as EXCEPT !.boot = sp2] ELSE [as EXCEPT !.new = sp2]
         a2  == IF okk THEN t.a ELSE al
         e   == [k |-> "fault", u |-> u, p |-> Wn(UP[u]), code |-> 3, pre |-> pre, prez |-> IF pre.m = 1 /\ pre.f = zero THEN 1 ELSE 0,
                 pg |-> PgRec(sp2, UP[u]), postz |-> IF okk /\ pre.f = zero THEN 1 ELSE 0, res |-> IF okk THEN "resume" ELSE "panic",
                 tables |-> TableFrames(sp2), bad |-> 0, zfill |-> 1] @@ Counters(a2)
     IN /\ al' = a2 /\ as' = as2 /\ df' = {}
        /\ priv' = IF okk THEN [priv EXCEPT ![u] = newf] ELSE priv
        /\ ph' = IF okk THEN ph ELSE "dead"
        /\ Step(<<e>>, <<7, u - 1, 2>>)
  /\ UNCHANGED <<cfg, active, cursor, kroot, zero, prot, dh>>

\* allocate a frame and map it writable
Own(u) ==
  /\ CanOp /\ "own" \in Ops /\ priv[u] = 0 /\ AllocWorks
  /\ LET t == Take(al)
         e1 == [k |-> "alloc", res |-> IF t.ok THEN "ok" ELSE "oom", f |-> t.f] @@ Counters(t.a)
         m  == IF t.ok THEN MapIn([a |-> t.a, sp |-> as, ok |-> TRUE], active, Ent(UP[u], t.f, 1, 0, 1, 0), TRUE)
               ELSE [a |-> t.a, sp |-> as, ok |-> FALSE]
     IN /\ al' = m.a /\ as' = m.sp /\ df' = {}
        /\ priv' = IF t.ok /\ m.ok THEN [priv EXCEPT ![u] = t.f] ELSE priv
        /\ dh' = IF t.ok /\ ~m.ok THEN Append(dh, t.f) ELSE dh        \* the mapping failed: the frame stays with the caller
        /\ Step(IF t.ok THEN <<e1, MapEv("own", u, t.f, IF m.ok THEN "ok" ELSE "oom", m.sp, m.a)>> ELSE <<e1>>, <<8, u - 1>>)
  /\ UNCHANGED <<cfg, ph, active, cursor, kroot, zero, prot>>

\* unmap a privately owned page and give the frame back
Unmap(u) ==
  /\ CanOp /\ "unmap" \in Ops /\ priv[u] # 0 /\ AllocWorks
  /\ LET m  == UnmapIn([a |-> al, sp |-> as, ok |-> TRUE], active, UP[u])
         a2 == [al EXCEPT !.resv = @ \ {priv[u]}]
         e1 == [k |-> "unmap", u |-> u, p |-> Wn(UP[u]), res |-> "ok", pg |-> PgRec(ActiveAS(m.sp, active), UP[u])]
         e2 == [k |-> "free", f |-> priv[u], res |-> IF priv[u] \in al.resv THEN "ok" ELSE "doublefree"] @@ Counters(a2)
     IN /\ al' = a2 /\ as' = m.sp /\ df' = {priv[u]}
        /\ priv' = [priv EXCEPT ![u] = 0]
        /\ Step(<<e1, e2>>, <<12, u - 1>>)
  /\ UNCHANGED <<cfg, ph, active, cursor, kroot, zero, prot, dh>>

\* the final snapshot of every behaviour
Snap ==
  /\ ph \in {"up", "dead"} /\ zero # 0 /\ (nops = MaxOps \/ ph = "dead")
  /\ LET j == Judge(s, <<Ev("snap", "", Snapshot(al, as, active, cursor, kroot, zero, prot))>>, 1) IN s' = j.s /\ mismatch' = j.mm
  /\ ph' = "done"
  /\ UNCHANGED <<cfg, al, as, active, cursor, kroot, zero, prot, dh, df, priv, nops, script>>

Next == /\ mismatch = <<>>
        /\ \/ PmmInit \/ VmmInit \/ Alloc \/ DFree \/ Drain \/ FreeAll \/ Snap
           \/ \E i \in 1..3 : Free(i)
           \/ \E u \in 1..Len(UP) : u \in UPages /\ (Lazy(u) \/ Fault(u) \/ Own(u) \/ Unmap(u))

NoMismatch == mismatch = <<>>

\* leg G: every explored behaviour (machine + operations) is written out as a case for the Go harness
EmitCase == (Emit /\ (ph = "done" \/ (ph = "dead" /\ zero = 0))) =>
              CSVWrite("%1$s", <<ToJson([regs |-> cfg.regs, ks |-> cfg.ks, ke |-> cfg.ke, off |-> KOff, secs |-> cfg.secs,
                                         script |-> script])>>, IOEnv.CASES)

View == <<cfg, ph, al, as, active, cursor, kroot, zero, prot, dh, df, priv, nops, s, mismatch>>
====
