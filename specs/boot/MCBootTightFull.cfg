CONSTANTS MaxOps = 5  Bug = ""  Emit = TRUE
  Ops = {"alloc", "free", "lazy", "fault", "own", "unmap"}
  UPages = {1, 4}
CONSTANT Configs <- MCConfigsTight
INIT Init
NEXT Next
INVARIANT NoMismatch
INVARIANT EmitCase
VIEW View
CHECK_DEADLOCK FALSE
