CONSTANTS MaxOps = 1  Bug = ""  Emit = TRUE
  Ops = {"alloc", "lazy", "fault"}
  UPages = {1}
CONSTANT Configs <- MCConfigsAllQuick
INIT Init
NEXT Next
INVARIANT NoMismatch
INVARIANT EmitCase
VIEW View
CHECK_DEADLOCK FALSE
