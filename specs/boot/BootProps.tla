---- MODULE BootProps ----
(***************************************************************************)
(* extra-boot: the boot path  multiboot info -> pmm.Init -> vmm.Init  as    *)
(* ONE specification (DESIGN.md section 5 item 1).                          *)
(*                                                                          *)
(* Property statements (what the per-package specs C01-C07 assume about     *)
(* each other, stated on the composed system):                              *)
(*  XB1 Every frame the virtual memory manager owns (the root and the page  *)
(*      tables of the kernel address space, the zero frame, page tables and *)
(*      copy-on-write copies created later) was handed out by the physical  *)
(*      allocator, lies in available RAM outside the kernel image, has one  *)
(*      owner only, and the allocator's bitmap marks exactly the frames     *)
(*      that have an owner (kernel image, early-boot frames, vmm's frames,  *)
(*      frames held by callers).                                            *)
(*  XB2 The pages the allocator maps for its own tables through the early   *)
(*      reservation are exactly the reserved pages below the temporary      *)
(*      mapping page; vmm.Init carries exactly these over, and afterwards   *)
(*      they still translate, writable, to the same frames.                 *)
(*  XB3 After vmm.Init the active address space is the kernel's one and     *)
(*      maps the loaded sections per C05's rule onto frames of the kernel   *)
(*      image, and the allocator keeps working through it (C01/C03          *)
(*      accounting holds for every later allocation and release).           *)
(*  XB4 The zero frame reserved by vmm.Init came from the allocator, stays  *)
(*      zero-filled and is never handed out again.                          *)
(*  XB5 A write fault on a lazily allocated page (zero frame, copy-on-write)*)
(*      gives the page a private writable frame that the allocator handed   *)
(*      out during the fault; any other fault never resumes.                *)
(*                                                                          *)
(* Written once as a *monitor* (operators from monitor state s and observed *)
(* event e to the next state plus a list of checks <<property, failed?,     *)
(* explanation>>), shared by the design model Boot.tla and the trace        *)
(* monitor BootTrace.tla.  The per-package monitors are reused by INSTANCE:  *)
(* PmmProps (C01-C03: MonInit / MonAlloc / MonFree and its predicates) and  *)
(* KernelPDTProps (C05: MonCfg / MonDone).                                  *)
(*                                                                          *)
(* Events (frames are plain integers, pages and addresses are words):       *)
(*  boot   regs ks ke off secs tmp broot upg     the machine: memory map     *)
(*         (as PmmProps), kernel image [ks,ke), kernel offset and section   *)
(*         table (as KernelPDTProps), page number of the temporary mapping  *)
(*         page, root frame of the boot address space, observed low pages   *)
(*  pmm    res + SNAPSHOT              pmm.Init returned                    *)
(*  vmm    res + SNAPSHOT              vmm.Init returned                    *)
(*  alloc  res f total reserved lock   mm.AllocFrame returned               *)
(*  free   f res total reserved lock   FreeFrame(f) returned                *)
(*  drain  fs res total reserved lock  AllocFrame called until it failed;   *)
(*         fs = the frames handed out, res = the final result               *)
(*  freeall fs res total reserved lock every frame the caller holds (fs)    *)
(*         given back; res = "ok" or the first error                       *)
(*  map    what u fr res pg tables bad total reserved lock                  *)
(*         vmm.Map of observed page u ("lazy": zero frame, present + copy-  *)
(*         on-write + no-execute; "own": frame fr the caller just allocated,*)
(*         writable); pg = hardware walk of the page afterwards             *)
(*  fault  u code pre prez pg postz res tables zfill total reserved lock    *)
(*         the page-fault handler vmm.Init installed returned ("resume") or *)
(*         panicked; pre/pg = walk of the page before/after, prez/postz =   *)
(*         1 iff the frame shown before/after is zero-filled                *)
(*  unmap  u res pg                    vmm.Unmap of observed page u         *)
(*  store  u res zfill                 resumed code wrote through page u    *)
(*  snap   SNAPSHOT                                                         *)
(*  reset                              end of one case                      *)
(* SNAPSHOT = total reserved lock      the allocator's counters             *)
(*            resv rfault              frames whose bitmap bit is set (read *)
(*                                     through the active address space;    *)
(*                                     rfault = 1: the read faulted)        *)
(*            apg cursor               kernel pages holding the allocator's *)
(*                                     tables (by its own pointers); early  *)
(*                                     reservation cursor (page number)     *)
(*            root walk tables bad     active root frame; every page it     *)
(*                                     translates [p, f, fl, lus, cow];     *)
(*                                     frames of its page tables; entries   *)
(*                                     pointing outside physical memory     *)
(*            btables                  page tables of the boot address space*)
(*            zero zfill prot kroot    vmm's zero frame (0 = none), is it   *)
(*                                     zero-filled, guard armed, root frame *)
(*                                     vmm recorded for the kernel space    *)
(*                                                                          *)
(* Domain (quantifier): memory maps sorted and non-overlapping; the kernel  *)
(* image lies inside one available region; sections in the kernel's virtual *)
(* range lie inside the image and do not share pages; the boot address      *)
(* space (rt0) consists of a root outside available RAM.  FreeFrame is only *)
(* called on frames the caller obtained itself (DESIGN 4.1 note i).         *)
(* Not constrained: permission bits other than writable of carried-over     *)
(* reservations; which free frame is handed out; how many page tables a     *)
(* mapping needs.                                                           *)
(***************************************************************************)
EXTENDS Integers, Sequences, FiniteSets
CONSTANTS LimbBits, NLimbs, PB
W == INSTANCE Word
P == INSTANCE PmmProps WITH Props <- {"C01", "C02", "C03", "C09"}
K == INSTANCE KernelPDTProps

Wn(n) == W!FromNat(n)
Range(q) == {q[i] : i \in 1..Len(q)}
WSet(q) == {Wn(q[i]) : i \in 1..Len(q)}          \* sequence of frame numbers -> set of words

RECURSIVE SortW(_)
SortW(S) == IF S = {} THEN <<>> ELSE LET m == CHOOSE x \in S : \A y \in S : W!Le(x, y) IN <<m>> \o SortW(S \ {m})

NoPg == [m |-> 0, f |-> 0, rw |-> 0, cow |-> 0, nx |-> 0, us |-> 0, up |-> <<0, 0, 0>>]

S0 == [ph |-> "off",         \* off | cfg | pmm | up | dead
       cfg |-> <<>>,         \* the boot event
       ps |-> P!S0,          \* PmmProps monitor state: rb kf ke early held n
       kfr |-> {},           \* frames of the kernel image
       resv |-> {},          \* bitmap as of the last snapshot
       rsv |-> <<>>,         \* [p, f]: the allocator's pages and their frames
       bt |-> {},            \* page tables of the boot address space
       tb |-> {},            \* page tables of the active address space
       root |-> 0, zero |-> 0,
       um |-> <<>>]          \* hardware walk of each observed page

Strip(walk) == [i \in 1..Len(walk) |-> [p |-> walk[i].p, f |-> walk[i].f, fl |-> walk[i].fl, lus |-> walk[i].lus]]
IsUpg(s, p) == \E i \in 1..Len(s.cfg.upg) : s.cfg.upg[i] = p
KernelOnly(s, walk) == SelectSeq(Strip(walk), LAMBDA w : ~IsUpg(s, w.p))

\* n pages starting at page number p (n small)
Small(d) == \A i \in 1..NLimbs : (W!Off(i) >= 16 => d[i] = 0)
PagesFrom(p, q) == IF W!Le(p, q) /\ Small(W!Sub(q, p)) /\ W!ToNat(W!Sub(q, p)) <= 4096
                   THEN {W!Add(p, Wn(i)) : i \in 0..(W!ToNat(W!Sub(q, p)) - 1)} ELSE {}

FreeNow(e) == e.total - e.reserved
\* Dev_EarlyOom: the boot allocator may report out-of-memory a little early (DESIGN 4.1 note ii: a frame is skipped
\* next to the kernel image in two layouts; C02 read literally allows it) and the frame it handed out for an
\* allocator page whose mapping then failed is used by nothing.  pmm.Init may therefore fail with up to OomSlack
\* usable frames left; with more it must succeed.
OomSlack == 3
Pick(S) == IF S = {} THEN "-" ELSE CHOOSE x \in S : TRUE

\* frames F pass from the allocator to a new owner: C01 for each of them, C03 for the counters
Acquire(ps, F, e, who) ==
  LET bad1 == {f \in F : ~P!Usable(ps.rb, f)}
      bad2 == {f \in F : P!InKernel(ps, f)}
      bad3 == F \cap ps.early
      bad4 == F \cap ps.held
  IN <<
    <<"XB1", bad1 # {}, <<who, "owns a frame outside available RAM", Pick(bad1)>> >>,
    <<"XB1", bad2 # {}, <<who, "owns a frame of the kernel image", Pick(bad2)>> >>,
    <<"XB1", bad3 # {}, <<who, "owns an early-boot frame (allocator tables / boot page tables)", Pick(bad3)>> >>,
    <<"XB1", bad4 # {}, <<who, "owns a frame that already has an owner", Pick(bad4)>> >>,
    <<"XB1", FreeNow(e) # ps.n - Cardinality(ps.held \cup F),
             <<"allocator counters after", who, ": free reported", FreeNow(e), "expected", ps.n - Cardinality(ps.held \cup F)>> >>,
    <<"XB3", e.lock # 0, <<"allocator lock held after", who>> >> >>

--------------------------------------------------------------------------
MonBoot(s, e) == [s |-> [S0 EXCEPT !.ph = "cfg", !.cfg = e, !.um = [i \in 1..Len(e.upg) |-> NoPg]], cs |-> <<>>]

(* pmm.Init returned *)
MonPmm(s, e) ==
  LET c     == s.cfg
      ok    == e.res = "ok"
      kf    == P!KFirst(c.ks)
      ke    == P!KEndP1(c.ke)
      kfr   == PagesFrom(kf, ke)                       \* (frame numbers as words)
      resv  == WSet(e.resv)
      tbl   == WSet(e.tables)
      leafs == {e.walk[i].f : i \in 1..Len(e.walk)}
      eused == tbl \cup leafs                          \* what the boot address space uses now
      wpg   == {e.walk[i].p : i \in 1..Len(e.walk)}
      rpg   == PagesFrom(e.cursor, c.tmp)
      mi    == P!MonInit(P!S0, [k |-> "init", regs |-> c.regs, ks |-> c.ks, ke |-> c.ke, res |-> e.res,
                                early |-> SortW(eused), total |-> e.total, reserved |-> e.reserved])
      notrw == {i \in 1..Len(e.walk) : e.walk[i].fl[1] # 1}
  IN [s |-> [s EXCEPT !.ph = IF ok THEN "pmm" ELSE "dead", !.ps = mi.s, !.kfr = kfr, !.resv = resv,
                      !.rsv = [i \in 1..Len(e.walk) |-> [p |-> e.walk[i].p, f |-> e.walk[i].f]],
                      !.bt = tbl, !.tb = tbl, !.root = e.root],
      cs |-> mi.cs \o <<
        <<"XB3", e.res = "oom" /\ mi.s.n > OomSlack,
                 <<"pmm.Init reports out of memory although usable frames are left outside the kernel image and the boot address space", mi.s.n>> >>,
        <<"XB2", ok /\ e.rfault # 0, "the allocator cannot read its own tables after pmm.Init">>,
        <<"XB1", ok /\ e.bad # 0, "boot address space has entries pointing outside physical memory">>,
        <<"XB1", ok /\ e.root # c.broot, "pmm.Init switched the address space">>,
        <<"XB1", ok /\ Cardinality(tbl) # Len(e.tables), "a page-table frame of the boot address space is linked twice">>,
        <<"XB1", ok /\ tbl \cap leafs # {}, <<"frame used both as page table and as allocator table", Pick(tbl \cap leafs)>> >>,
        <<"XB1", ok /\ Cardinality(leafs) # Len(e.walk), "two allocator pages share a frame">>,
        <<"XB1", ok /\ resv # kfr \cup eused,
                 <<"bitmap after pmm.Init differs from kernel image + early-boot frames in use: only in bitmap", Pick(resv \ (kfr \cup eused)),
                   "missing in bitmap", Pick((kfr \cup eused) \ resv)>> >>,
        <<"XB1", ok /\ e.reserved # Cardinality(resv), <<"reserved counter", e.reserved, "bits set", Cardinality(resv)>> >>,
        <<"XB2", ok /\ Range(e.apg) # rpg,
                 <<"pages holding the allocator's tables differ from the early reservation: allocator", e.apg, "cursor", e.cursor>> >>,
        <<"XB2", ok /\ wpg # rpg, <<"pages mapped in the boot address space differ from the early reservation", wpg, "cursor", e.cursor>> >>,
        <<"XB2", ok /\ notrw # {}, "allocator page not mapped writable">>,
        <<"XB3", ok /\ e.lock # 0, "allocator lock held after pmm.Init">> >>]

(* vmm.Init returned *)
MonVmm(s, e) ==
  LET c     == s.cfg
      ok    == e.res = "ok"
      ps    == s.ps
      resv  == WSet(e.resv)
      tbl   == WSet(e.tables)
      btb   == WSet(e.btables)
      fresh == resv \ s.resv
      lost  == s.resv \ resv
      used  == {Wn(e.root), Wn(e.zero)} \cup tbl
      kw    == KernelOnly(s, e.walk)
      leafs == {kw[i].f : i \in 1..Len(kw)}
      k1    == K!MonCfg(K!S0, [off |-> c.off, secs |-> c.secs, rsv |-> s.rsv, tmp |-> c.tmp]).s
      oom   == e.res = "oom" /\ FreeNow(e) = 0          \* the only legitimate failure: RAM exhausted
      kd    == K!MonDone(k1, [res |-> e.res, walk |-> kw, bad |-> e.bad, nfail |-> IF oom THEN 1 ELSE 0])
      rpgs  == {s.rsv[i].p : i \in 1..Len(s.rsv)}
      notrw == {i \in 1..Len(kw) : kw[i].p \in rpgs /\ kw[i].fl[1] # 1}
      outk  == {i \in 1..Len(kw) : kw[i].p \notin rpgs /\ kw[i].f \notin s.kfr}
      stray == (fresh \ used) \ (btb \ s.bt)
  IN [s |-> [s EXCEPT !.ph = IF ok THEN "up" ELSE "dead", !.ps.held = IF ok THEN ps.held \cup fresh ELSE ps.held,
                      !.resv = resv, !.bt = btb, !.tb = tbl, !.root = e.root, !.zero = e.zero],
      cs |-> kd.cs \o <<
        <<"XB3", ~ok /\ ~oom /\ e.res # "panic", <<"vmm.Init failed", e.res, "with free frames", FreeNow(e)>> >>,
        <<"XB2", ok /\ e.rfault # 0, "the allocator cannot read its own tables through the kernel address space">>,
        <<"XB3", ok /\ (e.root # e.kroot \/ e.root = c.broot), <<"the kernel address space is not the active one: active", e.root, "kernel", e.kroot>> >>,
        <<"XB1", ok /\ lost # {}, <<"frame released during vmm.Init", Pick(lost)>> >>,
        <<"XB4", ok /\ e.zero = 0, "no zero frame reserved">>,
        <<"XB1", ok /\ ~(({Wn(e.root)} \cup tbl) \subseteq fresh),
                 <<"the kernel address space uses a frame the allocator did not hand out during vmm.Init", Pick(({Wn(e.root)} \cup tbl) \ fresh)>> >>,
        <<"XB4", ok /\ Wn(e.zero) \notin fresh, <<"the zero frame was not handed out by the allocator (or was given back)", e.zero>> >>,
        <<"XB1", ok /\ Cardinality(used) # Len(e.tables) + 2, "root, zero frame and page tables are not pairwise distinct">>,
        <<"XB1", ok /\ stray # {}, <<"frame taken from the allocator during vmm.Init that nothing uses", Pick(stray)>> >>,
        <<"XB1", ok /\ used \cap leafs # {}, <<"frame owned by vmm is also mapped as data", Pick(used \cap leafs)>> >> >>
        \o (IF ok THEN Acquire(ps, fresh, e, "vmm.Init") ELSE <<>>) \o <<
        <<"XB4", ok /\ (e.zfill # 1 \/ e.prot # 1), <<"zero frame not zero-filled / not protected", e.zfill, e.prot>> >>,
        <<"XB2", ok /\ (Range(e.apg) # rpgs \/ PagesFrom(e.cursor, c.tmp) # rpgs), "the allocator's tables moved during vmm.Init">>,
        <<"XB2", ok /\ notrw # {}, "allocator page not writable in the kernel address space">>,
        <<"XB3", ok /\ outk # {},
                 IF outk = {} THEN "" ELSE <<"kernel address space maps a frame outside the kernel image", kw[CHOOSE i \in outk : TRUE]>> >> >>]

--------------------------------------------------------------------------
(* the composed system at work *)
MonAlloc(s, e) ==
  LET m == P!MonAlloc(s.ps, [e EXCEPT !.f = Wn(e.f)]) IN
  [s |-> [s EXCEPT !.ps = m.s, !.ph = IF e.res \in {"ok", "oom"} THEN s.ph ELSE "dead"],
   cs |-> <<
     <<"XB4", e.res = "ok" /\ e.f = s.zero, "the reserved zero frame was handed out again">>,
     <<"XB1", e.res = "ok" /\ Wn(e.f) \in s.tb \cup {Wn(s.root)}, <<"a page-table frame of the kernel address space was handed out", e.f>> >>,
     <<"XB3", e.res \notin {"ok", "oom"}, <<"AllocFrame does not work after the boot", e.res>> >> >> \o m.cs]

MonFree(s, e) ==
  LET m == P!MonFree(s.ps, [e EXCEPT !.f = Wn(e.f)]) IN
  [s |-> [s EXCEPT !.ps = m.s, !.ph = IF e.res = "panic" \/ e.res = "crash" THEN "dead" ELSE s.ph],
   cs |-> m.cs]

(* bulk operations of the driver: allocate until out of memory / give everything back *)
MonDrain(s, e) ==
  LET F == WSet(e.fs) IN
  [s |-> [s EXCEPT !.ps.held = s.ps.held \cup F, !.ph = IF e.res = "oom" THEN s.ph ELSE "dead"],
   cs |-> <<
     <<"XB3", e.res # "oom", <<"allocating until out of memory ended with", e.res>> >>,
     <<"XB4", s.zero \in Range(e.fs), "the reserved zero frame was handed out again">>,
     <<"XB1", F \cap (s.tb \cup {Wn(s.root)}) # {}, <<"a page-table frame of the kernel address space was handed out", Pick(F \cap (s.tb \cup {Wn(s.root)}))>> >>,
     <<"XB1", Cardinality(F) # Len(e.fs), "a frame was handed out twice">> >>
     \o Acquire(s.ps, F, e, "AllocFrame") \o <<
     <<"C03", e.res = "oom" /\ Cardinality(s.ps.held \cup F) # s.ps.n,
              <<"out of memory reported with usable frames left", s.ps.n - Cardinality(s.ps.held \cup F)>> >> >>]

MonFreeAll(s, e) ==
  LET F == WSet(e.fs) IN
  [s |-> [s EXCEPT !.ps.held = s.ps.held \ F, !.ph = IF e.res = "ok" THEN s.ph ELSE "dead"],
   cs |-> <<
     <<"C03", e.res # "ok", <<"free of an allocated frame rejected", e.res>> >>,
     <<"XB1", ~(F \subseteq s.ps.held) \/ Cardinality(F) # Len(e.fs), "harness: freed a frame it did not hold">>,
     <<"C03", FreeNow(e) # s.ps.n - Cardinality(s.ps.held \ F),
              <<"totals after free: free reported", FreeNow(e), "expected", s.ps.n - Cardinality(s.ps.held \ F)>> >>,
     <<"XB3", e.lock # 0, "allocator lock held after FreeFrame">> >>]

Tables(s, e, who) ==
  LET tbl == WSet(e.tables) IN <<
    <<"XB1", e.bad # 0, "address space has entries pointing outside physical memory">>,
    <<"XB1", Cardinality(tbl) # Len(e.tables), "a page-table frame is linked twice">>,
    <<"XB1", s.tb \ tbl # {}, <<"page table vanished during", who, Pick(s.tb \ tbl)>> >> >>

MonMap(s, e) ==
  LET tbl   == WSet(e.tables)
      fresh == tbl \ s.tb
      oom   == e.res = "oom" /\ FreeNow(e) = 0
      ok    == e.res = "ok"
      g     == e.pg
  IN [s |-> [s EXCEPT !.tb = tbl, !.ps.held = s.ps.held \cup fresh, !.um[e.u] = g,
                      !.ph = IF ok \/ oom THEN s.ph ELSE "dead"],
      cs |-> Tables(s, e, "Map") \o Acquire(s.ps, fresh, e, "Map (page tables)") \o <<
        <<"XB3", ~ok /\ ~oom, <<"Map failed", e.res, "with free frames", FreeNow(e)>> >>,
        <<"XB3", ok /\ (g.m # 1 \/ g.up # <<1, 1, 1>> \/ g.f # e.fr), <<"page not mapped to the requested frame", g>> >>,
        <<"XB5", ok /\ e.what = "lazy" /\ (e.fr # s.zero \/ g.rw # 0 \/ g.cow # 1), <<"lazy page not read-only copy-on-write on the zero frame", g>> >>,
        <<"XB1", ok /\ e.what = "own" /\ Wn(e.fr) \notin s.ps.held, "harness: frame mapped was not allocated">>,
        <<"XB3", ok /\ e.what = "own" /\ g.rw # 1, <<"own page not writable", g>> >> >>]

MonFault(s, e) ==
  LET o      == e.pre
      q      == e.pg
      freeb  == s.ps.n - Cardinality(s.ps.held)
      must   == o.up = <<1, 1, 1>> /\ o.m = 1 /\ o.rw = 0 /\ o.cow = 1 /\ freeb > 0
      mayoom == o.up = <<1, 1, 1>> /\ o.m = 1 /\ o.rw = 0 /\ o.cow = 1 /\ freeb = 0
      res    == e.res = "resume"
      f      == Wn(q.f)
  IN [s |-> [s EXCEPT !.ph = IF res THEN s.ph ELSE "dead", !.um[e.u] = q,
                      !.ps.held = IF res /\ q.m = 1 THEN s.ps.held \cup {f} ELSE s.ps.held],
      cs |-> <<
        <<"XB5", s.um[e.u].m # o.m \/ (o.m = 1 /\ s.um[e.u].f # o.f),
                 <<"harness: walk before the fault differs from the tracked state", s.um[e.u], o>> >>,
        <<"XB5", must /\ ~res, <<"write fault on a lazily allocated page did not resume", e.res, o>> >>,
        <<"XB5", ~must /\ res, <<"fault that must end in a panic resumed", o, "free frames", freeb>> >>,
        <<"XB5", ~res /\ e.res # "panic", <<"fault handler neither resumed nor panicked", e.res>> >>,
        <<"XB5", res /\ (q.m # 1 \/ q.up # <<1, 1, 1>> \/ q.rw # 1 \/ q.cow # 0 \/ q.nx # o.nx \/ q.us # o.us),
                 <<"page after the fault", q, "before", o>> >>,
        <<"XB5", res /\ o.m = 1 /\ q.f = o.f, "page still shows the shared frame">>,
        <<"XB5", res /\ e.prez = 1 /\ e.postz # 1, "private copy of a zero page is not zero-filled">>,
        <<"XB4", e.zfill # 1, "zero frame no longer zero-filled after a fault">>,
        <<"XB1", WSet(e.tables) # s.tb, "page tables changed during a fault">>,
        <<"XB1", ~res /\ ~mayoom /\ FreeNow(e) # freeb, "a fault that did not resume changed the allocator's counters">> >>
        \o (IF res /\ q.m = 1 THEN Acquire(s.ps, {f}, e, "copy-on-write copy") ELSE <<>>)]

MonUnmap(s, e) ==
  [s |-> [s EXCEPT !.um[e.u] = e.pg],
   cs |-> << <<"XB3", e.res # "ok" \/ e.pg.m # 0, <<"Unmap of a mapped page", e.res, e.pg>> >> >>]

MonStore(s, e) ==
  [s |-> s, cs |-> << <<"XB4", e.res # "ok" \/ e.zfill # 1, <<"store through a writable page failed or reached the zero frame", e.res, e.zfill>> >> >>]

(* full snapshot of the running system *)
MonSnap(s, e) ==
  LET c     == s.cfg
      ps    == s.ps
      resv  == WSet(e.resv)
      own   == s.kfr \cup ps.early \cup ps.held
      kw    == KernelOnly(s, e.walk)
      k1    == K!MonCfg(K!S0, [off |-> c.off, secs |-> c.secs, rsv |-> s.rsv, tmp |-> c.tmp]).s
      kd    == K!MonDone(k1, [res |-> "ok", walk |-> kw, bad |-> e.bad, nfail |-> 0])
      rpgs  == {s.rsv[i].p : i \in 1..Len(s.rsv)}
      notrw == {i \in 1..Len(kw) : kw[i].p \in rpgs /\ kw[i].fl[1] # 1}
      \* observed pages: the enumeration of the root and the tracked walks must agree
      UEnt(i) == {j \in 1..Len(e.walk) : e.walk[j].p = c.upg[i]}
      ubad  == {i \in 1..Len(c.upg) :
                  \/ (s.um[i].m = 1 /\ s.um[i].up = <<1, 1, 1>>) # (UEnt(i) # {})
                  \/ \E j \in UEnt(i) : e.walk[j].f # Wn(s.um[i].f)}
  IN [s |-> [s EXCEPT !.resv = resv],
      cs |-> kd.cs \o <<
        <<"XB2", e.rfault # 0, "the allocator cannot read its own tables">>,
        <<"XB1", resv # own,
                 <<"bitmap differs from the frames that have an owner: marked without owner", Pick(resv \ own), "owned but not marked", Pick(own \ resv)>> >>,
        <<"XB1", e.reserved # Cardinality(resv), <<"reserved counter", e.reserved, "bits set", Cardinality(resv)>> >>,
        <<"XB1", FreeNow(e) # ps.n - Cardinality(ps.held), <<"free frames reported", FreeNow(e), "expected", ps.n - Cardinality(ps.held)>> >>,
        <<"XB3", e.root # s.root \/ e.root # e.kroot, "active address space changed">>,
        <<"XB1", WSet(e.tables) # s.tb \/ Cardinality(WSet(e.tables)) # Len(e.tables), "page tables of the kernel address space changed">>,
        <<"XB4", e.zero # s.zero \/ e.zfill # 1 \/ e.prot # 1, <<"zero frame changed / not zero-filled / unprotected", e.zero, e.zfill, e.prot>> >>,
        <<"XB2", Range(e.apg) # rpgs \/ PagesFrom(e.cursor, c.tmp) # rpgs, "the allocator's tables moved">>,
        <<"XB2", notrw # {}, "allocator page not writable">>,
        <<"XB5", ubad # {}, <<"observed page differs from its tracked translation", Pick(ubad)>> >> >>]

Mon(s, e) ==
  CASE e.k = "boot"  -> MonBoot(s, e)
    [] e.k = "reset" -> [s |-> S0, cs |-> <<>>]
    [] e.k = "pmm" /\ s.ph = "cfg" -> MonPmm(s, e)
    [] e.k = "vmm" /\ s.ph = "pmm" -> MonVmm(s, e)
    [] e.k = "alloc" /\ s.ph = "up" -> MonAlloc(s, e)
    [] e.k = "free" /\ s.ph = "up"  -> MonFree(s, e)
    [] e.k = "drain" /\ s.ph = "up" -> MonDrain(s, e)
    [] e.k = "freeall" /\ s.ph = "up" -> MonFreeAll(s, e)
    [] e.k = "map" /\ s.ph = "up"   -> MonMap(s, e)
    [] e.k = "fault" /\ s.ph = "up" -> MonFault(s, e)
    [] e.k = "unmap" /\ s.ph = "up" -> MonUnmap(s, e)
    [] e.k = "store" /\ s.ph = "up" -> MonStore(s, e)
    [] e.k = "snap" /\ s.ph \in {"up", "dead"} /\ s.zero # 0 -> MonSnap(s, e)
    [] OTHER -> [s |-> s, cs |-> <<>>]
====
