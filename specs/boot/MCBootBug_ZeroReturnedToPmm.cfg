CONSTANTS Bug = "ZeroReturnedToPmm"  Emit = FALSE
CONSTANT Configs <- MCBugs
INIT Init
NEXT Next
INVARIANT NoMismatch
INVARIANT EmitCase
VIEW View
CHECK_DEADLOCK FALSE
