---- MODULE BootTrace ----
(* Trace monitor for extra-boot: events recorded from the mini boot (the real multiboot / pmm / vmm   *)
(* packages in kernel order on a software MMU; 64-bit words as 4x16-bit limbs, 4 KiB pages) are       *)
(* judged by the operators of BootProps, one event per step.                                         *)
EXTENDS Integers, Sequences, FiniteSets, TLC, Json, IOUtils, TraceLib
B == INSTANCE BootProps WITH LimbBits <- 16, NLimbs <- 4, PB <- 12
Trace == ndJsonDeserialize(IOEnv.TRACE)
AllProps == {"XB1", "XB2", "XB3", "XB4", "XB5", "C01", "C02", "C03", "C05", "C09"}

VARIABLES l, s, mismatch
vars == <<l, s, mismatch>>

Init == l = 1 /\ s = B!S0 /\ mismatch = <<>>
Next == /\ l <= Len(Trace) /\ mismatch = <<>>
        /\ l' = l + 1
        /\ LET m == B!Mon(s, Trace[l]) IN s' = m.s /\ mismatch' = FirstFailIn(AllProps, l, m.cs)
        /\ Report(mismatch')
NoMismatch == mismatch = <<>>
Accepted == TLCGet("stats").diameter - 1 = Len(Trace)
====
