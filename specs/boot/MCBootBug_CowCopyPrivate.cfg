CONSTANTS MaxOps = 3  Bug = "CowCopyPrivate"  Emit = FALSE
  Ops = {"alloc", "free", "dfree", "lazy", "fault", "own", "unmap"}
  UPages = {1, 4}
CONSTANT Configs <- MCConfigsHist
INIT Init
NEXT Next
INVARIANT NoMismatch
INVARIANT EmitCase
VIEW View
CHECK_DEADLOCK FALSE
