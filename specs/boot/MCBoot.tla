---- MODULE MCBoot ----
EXTENDS Boot
\* machines of the small scope (cfg files cannot hold tuples or records)
R(a, l, t) == [a |-> a, l |-> l, t |-> t]
S(a, sz, fl) == [a |-> a, sz |-> sz, fl |-> fl]

\* memory maps in address units (4 per frame); frame 0 (boot page tables) is never available
MA == <<R(4, 88, 1)>>                                   \* frames 1..22
MB == <<R(4, 12, 1), R(16, 8, 2), R(24, 72, 1)>>        \* 1..3 available, 4..5 reserved, 6..23 available
MC == <<R(6, 20, 1), R(32, 64, 1)>>                     \* unaligned start: frames 2..5, a hole, 8..23
MD == <<R(4, 44, 1)>>                                   \* 1..11: too small for vmm.Init
ME == <<R(4, 16, 1)>>                                   \* 1..4: too small for pmm.Init
MF == <<R(4, 36, 1), R(40, 4, 1), R(44, 52, 1)>>        \* 1..9, 10, 11..23: adjacent pools

FrOf(r) == (((r.a + PS - 1) \div PS))..((((r.a + r.l) \div PS)) - 1)
\* kernel images of 1 or 2 frames at every frame of every available region, aligned and unaligned end
KP(r) == UNION {IF f + n - 1 \in FrOf(r) THEN {<<f * PS, (f + n) * PS>>, <<f * PS, (f + n) * PS - 3>>} ELSE {} :
                  f \in FrOf(r), n \in {1, 2}}
Placements(regs) == UNION {KP(regs[i]) : i \in {j \in 1..Len(regs) : regs[j].t = 1}}
\* section tables: one executable section covering the image; text + data (+ a section outside the kernel's range);
\* a small unaligned read-only section
SecTables(ks, ke) ==
  {<<S(KOff + ks, ke - ks, 6)>>, <<S(KOff + ks + 1, 2, 2)>>}
  \cup (IF ke - ks > PS THEN {<<S(KOff + ks, PS, 6), S(KOff + ks + PS, ke - ks - PS, 3), S(20, 6, 2)>>} ELSE {})

AllOps == {"alloc", "free", "dfree", "drain", "freeall", "lazy", "fault", "own", "unmap"}
ConfigsOf(maps, nbs, mo, ops, ups) ==
  UNION {UNION {{[regs |-> m, ks |-> pl[1], ke |-> pl[2], secs |-> st, nb |-> nb, mo |-> mo, ops |-> ops, ups |-> ups] :
                   st \in SecTables(pl[1], pl[2]), nb \in nbs} : pl \in Placements(m)} : m \in maps}
With(c, mo, ops, ups) == [regs |-> c.regs, ks |-> c.ks, ke |-> c.ke, secs |-> c.secs, nb |-> c.nb, mo |-> mo, ops |-> ops, ups |-> ups]

\* fixed machines for the operation histories
H1 == [regs |-> MA, ks |-> 8, ke |-> 13, secs |-> <<S(KOff + 8, 4, 6), S(KOff + 12, 1, 3), S(20, 6, 2)>>, nb |-> 1]
H2 == [regs |-> MB, ks |-> 24, ke |-> 28, secs |-> <<S(KOff + 24, 4, 6)>>, nb |-> 2]
\* 15 usable frames, 12 taken by the boot: histories that run out of memory
HT == [regs |-> <<R(4, 60, 1)>>, ks |-> 4, ke |-> 8, secs |-> <<S(KOff + 4, 4, 6)>>, nb |-> 1]

\* every machine (6 map shapes x kernel placements x section tables x 1-2 allocator pages) with one operation;
\* operation histories on the fixed machines
MCQuick == ConfigsOf({MB, MD, ME}, {1}, 1, {"alloc", "lazy", "fault"}, {1})
           \cup {With(H1, 3, AllOps, {1, 2, 4}), With(H2, 3, AllOps, {1, 2, 4})}
           \cup {With(HT, 4, {"alloc", "free", "drain", "freeall", "lazy", "fault"}, {1})}
MCFull  == ConfigsOf({MA, MB, MC, MD, ME, MF}, {1, 2}, 1, {"alloc", "lazy", "fault", "own"}, {1, 4})
           \cup {With(H1, 4, AllOps, {1, 2, 3, 4}), With(H2, 4, AllOps, {1, 2, 3, 4})}
           \cup {With(HT, 5, {"alloc", "free", "drain", "freeall", "lazy", "fault", "own", "unmap"}, {1, 4})}
MCBugs  == {With(H1, 3, AllOps, {1, 4}), With(H2, 3, AllOps, {1, 4})}
====
