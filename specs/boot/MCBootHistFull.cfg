CONSTANTS MaxOps = 4  Bug = ""  Emit = TRUE
  Ops = {"alloc", "free", "dfree", "lazy", "fault", "own", "unmap"}
  UPages = {1, 2, 3, 4}
CONSTANT Configs <- MCConfigsHist
INIT Init
NEXT Next
INVARIANT NoMismatch
INVARIANT EmitCase
VIEW View
CHECK_DEADLOCK FALSE
