---- MODULE MCPmmConc ----
(* Leg M for C09: PmmConc over the lock skeleton in PmmSkel.tla.  The copy of PmmSkel.tla kept in     *)
(* specs/conc is the extraction from the pinned tree; every run of the check regenerates it from the  *)
(* current bitmap_allocator.go (tools/lockskel) before TLC is started.                                *)
EXTENDS PmmConc, PmmSkel
MCPools == <<2, 1>>
MCPoolsOne == <<2>>
\* a first pool without a single managed frame left (used up by the kernel image), then the real one
MCPoolsEmpty == <<0, 2>>
====
