CONSTANTS Tasks = {0,1,2,3,4,5,6,7,8,9,10,11,12,13,14,15}  Props = {"C01", "C03", "C09"}
INIT Init
NEXT Next
CONSTRAINT HWM
POSTCONDITION Accepted
CHECK_DEADLOCK FALSE
