---- MODULE ConcTrace ----
(***************************************************************************)
(* Leg V for C09: everything the concurrency harness (harness/conc) records *)
(* from the REAL bitmap allocator is judged here.                           *)
(*                                                                          *)
(* The sequential meaning of AllocFrame / FreeFrame is PmmProps (the same   *)
(* monitor that judges the sequential pmm traces, C01/C03): a call takes    *)
(* effect atomically at one *linearization point* between its call and its  *)
(* return.  The lock discipline demanded of every return path is            *)
(* PmmConc!RefSkel; the gate probes observe its consequences.               *)
(*                                                                          *)
(* One case = init ... reset.  Event kinds (wide values as 16-bit limbs):   *)
(*  init    as in PmmProps (map, kernel placement, early frames, counters)  *)
(*  -- linearizability windows (global atomic sequence number order) --     *)
(*  call    t op f res    task t calls op = "alloc" | "free"; f = argument  *)
(*                        of free / frame returned by alloc; res = result   *)
(*                        the call later returned (joined by the recorder)  *)
(*  ret     t             the call of task t has returned                   *)
(*  quiesce total reserved lock     all callers stopped; allocator counters *)
(*  -- gate probes (the harness itself holds alloc.mutex while it starts a  *)
(*     call on another goroutine) --                                        *)
(*  gate    op f res retheld chgheld lockfree total reserved lock           *)
(*          retheld: the call returned while the harness held the lock      *)
(*          (definitely wrong only for a call that succeeded);              *)
(*          chgheld: bitmap or counters changed while the harness held it;  *)
(*          lockfree: after the call returned the lock could be taken       *)
(*  -- stress (per-thread logs, no global order) --                         *)
(*  salloc  t res f cas   AllocFrame by thread t; cas: the harness-side     *)
(*                        ownership table accepted  nobody -> t  for f      *)
(*  sfree   t f res own cas   FreeFrame(f); own: f was owned by t in the    *)
(*                        ownership table (cas: t -> nobody succeeded)      *)
(*  sheld   t fs          frames thread t still owns at the end             *)
(*  squiesce total reserved lock nheld                                      *)
(*  reset                                                                   *)
(* Windows are searched (TLC places the linearization points; acceptance =  *)
(* high-water mark of consumed lines, one worker); all other events are     *)
(* deterministic checks that report <<line, "C09", why>>.                   *)
(***************************************************************************)
EXTENDS Integers, Sequences, FiniteSets, TLC, Json, IOUtils, TraceLib
CONSTANTS Tasks, Props
P == INSTANCE PmmProps WITH LimbBits <- 16, NLimbs <- 4, PB <- 12
\* the lock discipline the specification demands (shared with the model that TLC checks in leg M)
C == INSTANCE PmmConc WITH MaxOps <- 1, PoolSizes <- <<1>>, WordBits <- 1, Skel <- <<>>, Bug <- "none",
       lock <- 0, word <- 0, fcount <- 0, reserved <- 0, pc <- 0, sub <- 0, path <- 0, arg <- 0, choice <- 0,
       tmpv <- 0, tmpw <- 0, owned <- 0, nops <- 0, flag <- 0, dead <- 0
Trace == ndJsonDeserialize(IOEnv.TRACE)

VARIABLES l,          \* next trace line
          s,          \* state of the sequential specification (PmmProps)
          pend,       \* task -> <<>> | [op, f, res, lin]  pending call of a window
          acc,        \* stress: frames reported as still owned so far in this case (set), count
          mismatch
vars == <<l, s, pend, acc, mismatch>>

NoPend == [t \in Tasks |-> <<>>]
Init == /\ TLCSet(1, 1) /\ l = 1 /\ s = P!S0 /\ pend = NoPend /\ acc = [fs |-> {}, n |-> 0, dup |-> FALSE] /\ mismatch = <<>>

NHeld(st) == Cardinality(st.held)
\* The allocator counters cannot be sampled atomically with a call that runs concurrently with others.  The
\* linearization step therefore completes the recorded call with the counter values of the specification
\* state itself (the totals conjunct of PmmProps is neutral there); the real counters are compared at quiescence.
SeqEvent(p) ==
  LET n == IF p.op = "alloc" THEN (IF p.res = "ok" THEN Cardinality(s.held \cup {p.f}) ELSE NHeld(s))
           ELSE (IF p.f \in s.held THEN NHeld(s) - 1 ELSE NHeld(s))
  IN [k |-> p.op, res |-> p.res, f |-> p.f, total |-> s.n, reserved |-> n, lock |-> 0]

Call(e) == /\ pend[e.t] = <<>>
           /\ pend' = [pend EXCEPT ![e.t] = [op |-> e.op, f |-> e.f, res |-> e.res, lin |-> FALSE]]
           /\ UNCHANGED <<s, acc, mismatch>>
Ret(e) == /\ pend[e.t] # <<>> /\ pend[e.t].lin
          /\ pend' = [pend EXCEPT ![e.t] = <<>>]
          /\ UNCHANGED <<s, acc, mismatch>>
\* silent: the pending call of task t takes effect now, with exactly the result it reported
Lin(t) == /\ pend[t] # <<>> /\ ~pend[t].lin
          /\ LET m == P!Mon(s, SeqEvent(pend[t])) IN
               /\ P!FirstFail(l, m.cs) = <<>>
               /\ s' = m.s
          /\ pend' = [pend EXCEPT ![t].lin = TRUE]
          /\ UNCHANGED <<l, acc, mismatch>>

Quiet == \A t \in Tasks : pend[t] = <<>>
Check(cs) == mismatch' = FirstFailIn({"C09"}, l, cs)

Quiesce(e) == /\ Quiet /\ UNCHANGED <<s, pend, acc>>
              /\ Check(<< <<"C09", e.lock # 0, "allocator lock still taken after all callers stopped">>,
                          <<"C09", ~P!Totals(s, e, NHeld(s)),
                                   <<"totals at quiescence: free reported", e.total - e.reserved, "expected", s.n - NHeld(s)>> >> >>)

RefPaths(op) == {k \in 1..Len(C!RefSkel) : C!RefSkel[k].m = op}
Gate(e) ==
  LET m == P!Mon(s, [k |-> e.op, res |-> e.res, f |-> e.f, total |-> e.total, reserved |-> e.reserved, lock |-> e.lock])
      seqfail == P!FirstFail(l, m.cs)
  IN /\ Quiet /\ s' = m.s /\ UNCHANGED <<pend, acc>>
     /\ mismatch' = LET g == FirstFailIn({"C09"}, l, <<
                        \* a call that changes nothing may come back without the lock (an unlocked early-out whose answer
                        \* is right is not a violation; its answer is judged by PmmProps below) - a successful one may not
                        <<"C09", e.retheld /\ e.res = "ok" /\ ~\E k \in RefPaths(e.op) : C!MayReturnWhileLockHeld(C!RefSkel[k].ev),
                                 <<e.op, "succeeded while the harness held the allocator lock (a path without acquire)">> >>,
                        <<"C09", e.chgheld /\ ~\E k \in RefPaths(e.op) : C!MayWriteWhileLockHeld(C!RefSkel[k].ev),
                                 <<e.op, "changed the bitmap or the counters while the harness held the allocator lock">> >>,
                        <<"C09", ~e.lockfree /\ \A k \in RefPaths(e.op) : C!LeavesLockFree(C!RefSkel[k].ev),
                                 <<e.op, e.res, "returned with the allocator lock still taken (a return path without release)">> >> >>)
                    IN IF g # <<>> THEN g ELSE IF seqfail # <<>> THEN <<l, "C09", seqfail>> ELSE <<>>

SAlloc(e) == /\ UNCHANGED <<s, pend, acc>>
             /\ Check(<< <<"C09", e.res = "panic", "AllocFrame panicked under concurrency">>,
                         <<"C09", e.res = "ok" /\ ~P!Usable(s.rb, e.f), <<"frame outside available RAM handed out", e.f>> >>,
                         <<"C09", e.res = "ok" /\ (P!InKernel(s, e.f) \/ e.f \in s.early), <<"reserved frame handed out", e.f>> >>,
                         <<"C09", e.res = "ok" /\ ~e.cas, <<"frame handed out while another caller owns it", e.f, "thread", e.t>> >> >>)
SFree(e) == /\ UNCHANGED <<s, pend, acc>>
            /\ Check(<< <<"C09", e.res = "panic", <<"FreeFrame panicked under concurrency", e.f>> >>,
                        <<"C09", e.own /\ ~e.cas, <<"ownership table lost a frame its owner was about to free", e.f>> >>,
                        <<"C09", e.own /\ e.res # "ok", <<"free of a frame the caller owns was rejected", e.f, e.res>> >>,
                        <<"C09", ~e.own /\ ~P!Usable(s.rb, e.f) /\ e.res = "ok", <<"free of an unmanaged frame accepted", e.f>> >> >>)
Range(q) == {q[i] : i \in 1..Len(q)}
SHeld(e) == /\ UNCHANGED <<s, pend>>
            /\ acc' = [fs |-> acc.fs \cup Range(e.fs), n |-> acc.n + Len(e.fs),
                       dup |-> acc.dup \/ Range(e.fs) \cap acc.fs # {} \/ Cardinality(Range(e.fs)) # Len(e.fs)]
            /\ Check(<< <<"C09", Range(e.fs) \cap acc.fs # {} \/ Cardinality(Range(e.fs)) # Len(e.fs),
                                 <<"a frame is owned by two callers at the end", e.t>> >>,
                        <<"C09", \E f \in Range(e.fs) : ~P!Usable(s.rb, f) \/ P!InKernel(s, f) \/ f \in s.early,
                                 <<"a caller owns a frame that is not allocatable", e.t>> >> >>)
SQuiesce(e) == /\ UNCHANGED <<s, pend, acc>>
               /\ Check(<< <<"C09", e.lock # 0, "allocator lock still taken after all callers stopped">>,
                           <<"C09", e.total - e.reserved # s.n - acc.n,
                                    <<"totals at quiescence: free reported", e.total - e.reserved, "expected", s.n - acc.n,
                                      "frames still held", acc.n>> >> >>)

MonInit(e) == LET m == P!Mon(P!S0, e) IN
              /\ s' = m.s /\ pend' = NoPend /\ acc' = [fs |-> {}, n |-> 0, dup |-> FALSE]
              /\ mismatch' = LET f == P!FirstFail(l, m.cs) IN IF f = <<>> THEN <<>> ELSE <<l, "C09", f>>

Event(e) ==
  CASE e.k = "call"     -> Call(e)
    [] e.k = "ret"      -> Ret(e)
    [] e.k = "quiesce"  -> Quiesce(e)
    [] e.k = "gate"     -> Gate(e)
    [] e.k = "salloc"   -> SAlloc(e)
    [] e.k = "sfree"    -> SFree(e)
    [] e.k = "sheld"    -> SHeld(e)
    [] e.k = "squiesce" -> SQuiesce(e)
    [] e.k = "init"     -> MonInit(e)
    [] e.k = "reset"    -> Quiet /\ s' = P!S0 /\ pend' = NoPend /\ acc' = [fs |-> {}, n |-> 0, dup |-> FALSE] /\ mismatch' = <<>>

Next == /\ mismatch = <<>>
        /\ \/ l <= Len(Trace) /\ Event(Trace[l]) /\ l' = l + 1 /\ Report(mismatch')
           \/ \E t \in Tasks : Lin(t)

HWM == TLCSet(1, IF TLCGet(1) < l THEN l ELSE TLCGet(1))
\* a window that no placement of the linearization points explains stops the search at its first
\* unexplainable line; deterministic checks have already reported their own mismatch
Accepted == IF TLCGet(1) = Len(Trace) + 1 THEN TRUE
            ELSE PrintT(<<"VERIF-MISMATCH", ToJson(<<TLCGet(1), "C09",
                   "no placement of linearization points explains the recorded calls up to this line (sequential specification: PmmProps)">>)>>)
====
