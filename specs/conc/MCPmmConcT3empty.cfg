CONSTANTS Tasks = {t1, t2, t3}  MaxOps = 2  WordBits = 3  Bug = "none"
CONSTANT PoolSizes <- MCPoolsEmpty  Skel <- ExtractedSkel
INIT Init
NEXT Next
CONSTRAINT Alive
INVARIANT AtMostOneOwner
INVARIANT Conservation
SYMMETRY Symm
