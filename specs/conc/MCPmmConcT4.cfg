CONSTANTS Tasks = {t1, t2, t3, t4}  MaxOps = 1  WordBits = 3  Bug = "none"
CONSTANT PoolSizes <- MCPoolsOne  Skel <- ExtractedSkel
INIT Init
NEXT Next
CONSTRAINT Alive
INVARIANT AtMostOneOwner
INVARIANT Conservation
SYMMETRY Symm
