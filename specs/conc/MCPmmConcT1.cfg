CONSTANTS Tasks = {t1}  MaxOps = 4  WordBits = 3  Bug = "none"
CONSTANT PoolSizes <- MCPools  Skel <- ExtractedSkel
INIT Init
NEXT Next
CONSTRAINT Alive
INVARIANT AtMostOneOwner
INVARIANT Conservation
SYMMETRY Symm
