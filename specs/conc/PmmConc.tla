---- MODULE PmmConc ----
(***************************************************************************)
(* C09 - concurrent AllocFrame / FreeFrame of the bitmap allocator.         *)
(*                                                                          *)
(* The frame pool of PmmProps lifted to tasks.  Every call follows one      *)
(* *path* of its method: a sequence of lock-skeleton events                 *)
(*      "A"  acquire the allocator lock (blocks while it is taken)          *)
(*      "L"  release it (a plain store of "free", whoever holds it)         *)
(*      "R"  read the shared bitmap state (free counts, bitmap words)       *)
(*      "Wc" "Wb" "Wr"  read-modify-write of the pool's free count, of the  *)
(*           pool's bitmap word, of the global reserved counter - each a    *)
(*           NON-atomic read followed by a write (two steps)                *)
(* ending in a return that is "ok" or "fail".  The specification demands    *)
(* RefSkel: Call -> A -> body -> L -> Return on every return path.  Leg M   *)
(* checks the skeleton that tools/lockskel extracts from the CURRENT        *)
(* bitmap_allocator.go (constant Skel) over all interleavings of the tasks: *)
(* with the demanded skeleton the body is atomic and the invariants below   *)
(* hold; a path that skips A, forgets L, or touches the state outside the   *)
(* lock produces a counterexample.                                          *)
(*                                                                          *)
(* Scope: one bitmap word of WordBits bits per pool, pool p manages the     *)
(* first PoolSizes[p] bits (the rest is padding, as in the real bitmap);    *)
(* frame number of bit i of pool p = (p-1)*WordBits + i.                    *)
(***************************************************************************)
EXTENDS Integers, Sequences, FiniteSets, TLC
CONSTANTS Tasks, MaxOps, PoolSizes, WordBits,
          Skel,       \* sequence of [m |-> "alloc"|"free", kind |-> "ok"|"fail", ev |-> <<...>>]
          Bug         \* design mutants of the skeleton (leg M): "none" | ...

NPools == Len(PoolSizes)
Pools == 1..NPools
Bits == 0..(WordBits - 1)
FrameNo(p, i) == (p - 1) * WordBits + i
PoolOf(f) == (f \div WordBits) + 1
BitOf(f) == f % WordBits
Managed(f) == f >= 0 /\ PoolOf(f) \in Pools /\ BitOf(f) < PoolSizes[PoolOf(f)]
AllFrames == {FrameNo(p, i) : p \in Pools, i \in Bits}
GoodFrames == {f \in AllFrames : Managed(f)}
Unmanaged == NPools * WordBits + 1            \* a frame number outside every pool

\* what the specification demands of every return path
RefSkel == << [m |-> "alloc", kind |-> "ok",   ev |-> <<"A", "R", "Wc", "Wb", "Wr", "L">>],
              [m |-> "alloc", kind |-> "fail", ev |-> <<"A", "R", "L">>],
              [m |-> "free",  kind |-> "ok",   ev |-> <<"A", "R", "Wb", "Wc", "Wr", "L">>],
              [m |-> "free",  kind |-> "fail", ev |-> <<"A", "R", "L">>],
              [m |-> "free",  kind |-> "fail", ev |-> <<"A", "L">>] >>
\* a path is well locked when everything it does lies between its one A and its one L
Count(ev, x) == Cardinality({i \in 1..Len(ev) : ev[i] = x})
WellLocked(ev) == Len(ev) >= 2 /\ ev[1] = "A" /\ ev[Len(ev)] = "L" /\ Count(ev, "A") = 1 /\ Count(ev, "L") = 1
\* consequences the gate probes of the harness observe on the real code (ConcTrace uses them):
\* while somebody else holds the lock a well-locked call can neither return nor change anything
MayReturnWhileLockHeld(ev) == "A" \notin {ev[i] : i \in 1..Len(ev)}
MayWriteWhileLockHeld(ev) == \E i \in 1..Len(ev) : ev[i] \in {"Wc", "Wb", "Wr"} /\ \A j \in 1..(i - 1) : ev[j] # "A"
LeavesLockFree(ev) == Count(ev, "A") = Count(ev, "L")

Without(ev, x) == SelectSeq(ev, LAMBDA e : e # x)
\* design mutants: realistic wrong skeletons that TLC must reject
Mutate(s) ==
  CASE Bug = "NoReleaseOnDoubleFree" /\ s.m = "free" /\ s.kind = "fail" /\ "R" \in {s.ev[i] : i \in 1..Len(s.ev)}
         -> [s EXCEPT !.ev = Without(s.ev, "L")]
    [] Bug = "BodyOutsideLock" /\ s.m = "alloc" /\ s.kind = "ok"
         -> [s EXCEPT !.ev = Without(Without(s.ev, "A"), "L") \o <<"A", "L">>]
    [] Bug = "ReleaseBeforeCounter" /\ s.kind = "ok"
         -> [s EXCEPT !.ev = Without(Without(s.ev, "L"), "Wr") \o <<"L", "Wr">>]
    [] Bug = "NoAcquireInFree" /\ s.m = "free"
         -> [s EXCEPT !.ev = Without(s.ev, "A")]
    [] OTHER -> s
TheSkel == [k \in 1..Len(Skel) |-> Mutate(Skel[k])]
PathsOf(m) == {k \in 1..Len(Skel) : TheSkel[k].m = m}
HasR(k) == "R" \in {TheSkel[k].ev[i] : i \in 1..Len(TheSkel[k].ev)}

VARIABLES lock,       \* 0 free / 1 taken
          word,       \* pool -> set of bits that are set (frame reserved)
          fcount,     \* pool -> free count
          reserved,   \* global reserved counter
          pc,         \* task -> 0 idle | index of the next event of its path | Len+1: about to return
          sub,        \* task -> 0 | 1: between the read and the write of a W event
          path,       \* task -> index into Skel of the path it follows
          arg,        \* task -> frame passed to FreeFrame (or -1)
          choice,     \* task -> frame the call is about (chosen at R for alloc) or -1
          tmpv,       \* task -> value read by the first half of a W event (a number, or a set coded as such)
          tmpw,       \* task -> bitmap word read by the first half of "Wb"
          owned,      \* task -> frames the task owns according to the results it got
          nops,       \* task -> calls made
          flag,       \* <<>> or the first definite wrong observation (frame outside its pool handed out ...)
          dead        \* the path guessed at the call does not fit what the call then saw: behaviour discarded
vars == <<lock, word, fcount, reserved, pc, sub, path, arg, choice, tmpv, tmpw, owned, nops, flag, dead>>

Init == /\ lock = 0 /\ word = [p \in Pools |-> {}] /\ fcount = [p \in Pools |-> PoolSizes[p]] /\ reserved = 0
        /\ pc = [t \in Tasks |-> 0] /\ sub = [t \in Tasks |-> 0] /\ path = [t \in Tasks |-> 1]
        /\ arg = [t \in Tasks |-> 0 - 1] /\ choice = [t \in Tasks |-> 0 - 1]
        /\ tmpv = [t \in Tasks |-> 0] /\ tmpw = [t \in Tasks |-> {}]
        /\ owned = [t \in Tasks |-> {}] /\ nops = [t \in Tasks |-> 0] /\ flag = <<>> /\ dead = FALSE

OwnedByAnyone == UNION {owned[t] : t \in Tasks}
InFlight(m) == {t \in Tasks : pc[t] # 0 /\ TheSkel[path[t]].m = m}
\* a free of a frame nobody owns (double free): only while no allocation can hand that frame out
BadFreeInFlight == \E t \in Tasks : pc[t] # 0 /\ TheSkel[path[t]].m = "free" /\ Managed(arg[t]) /\ TheSkel[path[t]].kind = "fail"

\* lowest clear bit of a word, or -1
LowestClear(w) == IF \A i \in Bits : i \in w THEN 0 - 1 ELSE CHOOSE i \in Bits : i \notin w /\ \A j \in Bits : j < i => j \in w

\* does the state seen at the first R (or at the call, for a path without R) send the call down path k ?
Feasible(k, f, w, fc) ==
  LET s == TheSkel[k] IN
  CASE s.m = "alloc" /\ s.kind = "ok"   -> \E p \in Pools : fc[p] > 0 /\ LowestClear(w[p]) >= 0
    [] s.m = "alloc" /\ s.kind = "fail" -> \A p \in Pools : fc[p] = 0 \/ LowestClear(w[p]) < 0
    [] s.m = "free"  /\ s.kind = "ok"   -> Managed(f) /\ BitOf(f) \in w[PoolOf(f)]
    [] s.m = "free"  /\ s.kind = "fail" -> Managed(f) /\ BitOf(f) \notin w[PoolOf(f)]

Call(t) ==
  /\ pc[t] = 0 /\ nops[t] < MaxOps
  /\ \E k \in 1..Len(Skel) :
       /\ path' = [path EXCEPT ![t] = k]
       /\ \/ /\ TheSkel[k].m = "alloc" /\ HasR(k) /\ ~BadFreeInFlight
             /\ arg' = [arg EXCEPT ![t] = 0 - 1] /\ UNCHANGED owned
          \/ /\ TheSkel[k].m = "free" /\ HasR(k) /\ TheSkel[k].kind = "ok"          \* free a frame the task owns
             /\ \E f \in owned[t] : arg' = [arg EXCEPT ![t] = f] /\ owned' = [owned EXCEPT ![t] = @ \ {f}]
          \/ /\ TheSkel[k].m = "free" /\ HasR(k) /\ TheSkel[k].kind = "fail"        \* double free of a free frame
             /\ InFlight("alloc") = {}
             /\ \E f \in GoodFrames \ OwnedByAnyone : arg' = [arg EXCEPT ![t] = f]
             /\ UNCHANGED owned
          \/ /\ TheSkel[k].m = "free" /\ ~HasR(k) /\ TheSkel[k].kind = "fail"       \* a frame outside every pool
             /\ arg' = [arg EXCEPT ![t] = Unmanaged] /\ UNCHANGED owned
  /\ pc' = [pc EXCEPT ![t] = 1] /\ nops' = [nops EXCEPT ![t] = @ + 1]
  /\ choice' = [choice EXCEPT ![t] = 0 - 1] /\ sub' = [sub EXCEPT ![t] = 0]
  /\ UNCHANGED <<lock, word, fcount, reserved, tmpv, tmpw, flag, dead>>

Ev(t) == TheSkel[path[t]].ev
Advance(t) == pc' = [pc EXCEPT ![t] = @ + 1]
IsAlloc(t) == TheSkel[path[t]].m = "alloc"
Delta(t) == IF IsAlloc(t) THEN 1 ELSE 0 - 1          \* change of the reserved count by a successful call

Step(t) ==
  /\ pc[t] \in 1..Len(Ev(t))
  /\ LET e == Ev(t)[pc[t]]  s == TheSkel[path[t]] IN
     CASE e = "A" -> /\ lock = 0 /\ lock' = 1 /\ Advance(t)
                     /\ UNCHANGED <<word, fcount, reserved, sub, choice, tmpv, tmpw, flag, dead>>
       [] e = "L" -> /\ lock' = 0 /\ Advance(t)
                     /\ UNCHANGED <<word, fcount, reserved, sub, choice, tmpv, tmpw, flag, dead>>
       [] e = "R" -> /\ Advance(t) /\ UNCHANGED <<lock, word, fcount, reserved, sub, tmpv, tmpw, flag>>
                     \* every look at the shared state re-decides (a path may look again after taking the lock)
                     /\ IF ~Feasible(path[t], arg[t], word, fcount) THEN dead' = TRUE /\ UNCHANGED choice
                        ELSE /\ UNCHANGED dead
                             /\ IF s.m = "free" THEN choice' = [choice EXCEPT ![t] = arg[t]]
                                ELSE IF s.kind = "fail" THEN choice' = [choice EXCEPT ![t] = 0 - 2]
                                ELSE \E p \in Pools : /\ fcount[p] > 0 /\ LowestClear(word[p]) >= 0
                                                      /\ choice' = [choice EXCEPT ![t] = FrameNo(p, LowestClear(word[p]))]
       [] e \in {"Wc", "Wb", "Wr"} ->
            IF s.kind = "fail" \/ choice[t] < 0
            THEN Advance(t) /\ UNCHANGED <<lock, word, fcount, reserved, sub, choice, tmpv, tmpw, flag, dead>>   \* nothing to update
            ELSE LET p == PoolOf(choice[t])  i == BitOf(choice[t]) IN
                 IF sub[t] = 0
                 THEN /\ sub' = [sub EXCEPT ![t] = 1] /\ UNCHANGED <<pc, lock, word, fcount, reserved, choice, flag, dead>>
                      /\ tmpv' = [tmpv EXCEPT ![t] = IF e = "Wc" THEN fcount[p] ELSE reserved]
                      /\ tmpw' = [tmpw EXCEPT ![t] = word[p]]
                 ELSE /\ sub' = [sub EXCEPT ![t] = 0] /\ Advance(t) /\ UNCHANGED <<lock, choice, tmpv, tmpw, flag, dead>>
                      /\ (CASE e = "Wc" -> fcount' = [fcount EXCEPT ![p] = tmpv[t] - Delta(t)] /\ UNCHANGED <<word, reserved>>
                            [] e = "Wb" -> /\ word' = [word EXCEPT ![p] = IF IsAlloc(t) THEN tmpw[t] \cup {i} ELSE tmpw[t] \ {i}]
                                           /\ UNCHANGED <<fcount, reserved>>
                            [] e = "Wr" -> reserved' = tmpv[t] + Delta(t) /\ UNCHANGED <<word, fcount>>)
       [] OTHER -> Advance(t) /\ UNCHANGED <<lock, word, fcount, reserved, sub, choice, tmpv, tmpw, flag, dead>>       \* "Wx": a field the model does not know
  /\ UNCHANGED <<path, arg, owned, nops>>

Return(t) ==
  /\ pc[t] = Len(Ev(t)) + 1
  /\ pc' = [pc EXCEPT ![t] = 0]
  /\ LET s == TheSkel[path[t]] IN
     IF s.m = "alloc" /\ s.kind = "ok"
     THEN /\ owned' = [owned EXCEPT ![t] = @ \cup {choice[t]}]
          /\ flag' = IF flag # <<>> THEN flag
                     ELSE IF ~Managed(choice[t]) THEN <<"a frame outside its pool (a padding bit) was handed out", choice[t]>>
                     ELSE IF choice[t] \in OwnedByAnyone THEN <<"a frame was handed out while another task owns it", choice[t]>>
                     ELSE <<>>
     ELSE UNCHANGED <<owned, flag>>
  /\ UNCHANGED <<lock, word, fcount, reserved, sub, path, arg, choice, tmpv, tmpw, nops, dead>>

AllDone == \A t \in Tasks : pc[t] = 0 /\ nops[t] = MaxOps
Next == (\E t \in Tasks : Call(t) \/ Step(t) \/ Return(t)) \/ (AllDone /\ UNCHANGED vars)
Spec == Init /\ [][Next]_vars /\ \A t \in Tasks : WF_vars(Step(t) \/ Return(t))

---------------------------------------------------------------------------
(* The property C09 *)
\* no frame is ever held by two callers at once (and only managed frames are handed out)
AtMostOneOwner == /\ flag = <<>>
                  /\ \A t, u \in Tasks : t # u => owned[t] \cap owned[u] = {}
Quiescent == \A t \in Tasks : pc[t] = 0
\* once all callers have stopped: the lock is free, the bitmap says "reserved" exactly for the frames still
\* held, and the totals equal the initial totals adjusted by the frames still held
Conservation == Quiescent =>
  /\ lock = 0
  /\ \A p \in Pools : /\ word[p] = {BitOf(f) : f \in {g \in OwnedByAnyone : PoolOf(g) = p}}
                      /\ fcount[p] = PoolSizes[p] - Cardinality({g \in OwnedByAnyone : PoolOf(g) = p})
  /\ reserved = Cardinality(OwnedByAnyone)
\* no call blocks forever: TLC's deadlock check (AllDone stutters), plus under fairness
EveryCallReturns == \A t \in Tasks : (pc[t] # 0) ~> (pc[t] = 0)
Alive == ~dead                    \* CONSTRAINT: discarded behaviours are not extended
Symm == Permutations(Tasks)
====
