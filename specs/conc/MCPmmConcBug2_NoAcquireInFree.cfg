CONSTANTS Tasks = {t1, t2}  MaxOps = 2  WordBits = 3  Bug = "NoAcquireInFree"
CONSTANT PoolSizes <- MCPools  Skel <- ExtractedSkel
INIT Init
NEXT Next
CONSTRAINT Alive
INVARIANT AtMostOneOwner
INVARIANT Conservation
SYMMETRY Symm
