CONSTANTS Tasks = {t1, t2, t3, t4}  MaxOps = 2  Bug = "none"
SPECIFICATION Spec
INVARIANT TypeOK
INVARIANT MutualExclusion
INVARIANT HeldIffLocked
INVARIANT Visibility
PROPERTY TryHonest
CHECK_DEADLOCK FALSE
