---- MODULE Spinlock ----
(***************************************************************************)
(* C08 - the spinlock of kernel/sync, at the level of the property text.    *)
(*                                                                          *)
(* One lock word `state` (0 = free), any number of tasks.  A task calls     *)
(* Acquire ("acq", blocking) or TryToAcquire ("try"); the call takes effect *)
(* at one atomic exchange on the lock word (XchgOk: it found 0 and took the *)
(* lock; XchgBusy: a try found the lock taken and gives up; a blocked       *)
(* Acquire that finds it taken simply stutters = keeps spinning).  Inside   *)
(* the lock the holder reads a shared counter when it enters (RetOk) and    *)
(* writes counter+1 when it is about to leave (RelCall): a plain, non-      *)
(* atomic read-modify-write whose correctness is exactly "mutual exclusion  *)
(* + the previous holder's work is visible".  Release is one atomic store   *)
(* of 0 (Store0) followed by the return of the call (RelRet).               *)
(*                                                                          *)
(* The call / return steps are the *observable* events; the exchange and    *)
(* the store are silent.  The same actions are used                         *)
(*   - by MCSpinlock (leg M: exhaustive, design mutants via Bug),           *)
(*   - by SpinSched  (leg G: emits controlled schedules),                   *)
(*   - by SpinTrace  (leg V: monitor for events recorded from the real      *)
(*     kernel/sync package; it places the silent steps itself).             *)
(***************************************************************************)
EXTENDS Integers, Sequences, FiniteSets
CONSTANTS Tasks,      \* set of task ids
          Bug         \* "none" or the name of a design mutant (leg M only)
VARIABLES state,      \* the lock word
          pc,         \* task -> "idle" | "acq" | "try" | "wonA" | "wonT" | "lost" | "cs" | "rel" | "released"
                      \*         | "srel" | "sreleased" (a stray Release, see below)
          counter,    \* the datum protected by the lock
          tmp,        \* task -> value of counter read on entry
          done        \* number of completed critical sections (history)
lockvars == <<state, pc, counter, tmp, done>>

Holding == {t \in Tasks : pc[t] \in {"wonA", "wonT", "cs", "rel"}}
InCS    == {t \in Tasks : pc[t] \in {"cs", "rel"}}

LockInit == /\ state = 0 /\ pc = [t \in Tasks |-> "idle"] /\ counter = 0
            /\ tmp = [t \in Tasks |-> 0] /\ done = 0

Call(t, op) == /\ pc[t] = "idle" /\ op \in {"acq", "try"}
               /\ pc' = [pc EXCEPT ![t] = op]
               /\ UNCHANGED <<state, counter, tmp, done>>

\* the atomic exchange found the lock free and took it
XchgOk(t) == /\ pc[t] \in {"acq", "try"} /\ state = 0
             /\ state' = 1
             /\ pc' = [pc EXCEPT ![t] = IF pc[t] = "acq" THEN "wonA" ELSE "wonT"]
             /\ UNCHANGED <<counter, tmp, done>>

\* a try-acquire found the lock taken: it reports FALSE and changes nothing
XchgBusy(t) == /\ pc[t] = "try" /\ state # 0
               /\ pc' = [pc EXCEPT ![t] = IF Bug = "TryLies" THEN "wonT" ELSE "lost"]
               /\ state' = IF Bug = "TryFailClobbers" THEN 0 ELSE state
               /\ UNCHANGED <<counter, tmp, done>>

\* design mutant: the exchange of a blocking acquire is a read followed by a write
NonAtomicRead(t)  == /\ Bug = "NonAtomicXchg" /\ pc[t] = "acq" /\ state = 0
                     /\ pc' = [pc EXCEPT ![t] = "sawfree"] /\ UNCHANGED <<state, counter, tmp, done>>
NonAtomicWrite(t) == /\ Bug = "NonAtomicXchg" /\ pc[t] = "sawfree"
                     /\ state' = 1 /\ pc' = [pc EXCEPT ![t] = "wonA"] /\ UNCHANGED <<counter, tmp, done>>

\* Acquire / TryToAcquire(TRUE) returns; the new holder looks at the protected datum
RetOk(t) == /\ pc[t] \in {"wonA", "wonT"}
            /\ pc' = [pc EXCEPT ![t] = "cs"]
            /\ tmp' = [tmp EXCEPT ![t] = counter]
            /\ UNCHANGED <<state, counter, done>>

\* TryToAcquire returns FALSE
RetFail(t) == /\ pc[t] = "lost"
              /\ pc' = [pc EXCEPT ![t] = "idle"]
              /\ UNCHANGED <<state, counter, tmp, done>>

\* the holder finishes its work (writes the datum) and calls Release
RelCall(t) == /\ pc[t] = "cs"
              /\ counter' = tmp[t] + 1
              /\ pc' = [pc EXCEPT ![t] = "rel"]
              /\ UNCHANGED <<state, tmp, done>>

Store0(t) == /\ pc[t] = "rel"
             /\ state' = IF Bug = "ReleaseStoresOne" THEN 1 ELSE IF Bug = "ReleaseDecrements" THEN state - 1 ELSE 0
             /\ pc' = [pc EXCEPT ![t] = "released"]
             /\ UNCHANGED <<counter, tmp, done>>

RelRet(t) == /\ pc[t] = "released"
             /\ pc' = [pc EXCEPT ![t] = "idle"]
             /\ done' = done + 1
             /\ UNCHANGED <<state, counter, tmp>>

\* "Calling Release while the lock is free has no effect" (doc comment of Spinlock.Release): a task that does not
\* hold the lock - it may never have acquired it - calls Release while the lock is free and nobody else is inside
\* any call; the lock stays free and can be taken afterwards.  (A stray Release while somebody holds the lock, or
\* races for it, breaks every spinlock and is outside the property.)
AllIdle == \A u \in Tasks : pc[u] = "idle"
NoStray == \A u \in Tasks : pc[u] \notin {"srel", "sreleased"}
StrayCall(t) == /\ AllIdle /\ state = 0
                /\ pc' = [pc EXCEPT ![t] = "srel"]
                /\ UNCHANGED <<state, counter, tmp, done>>
StrayStore(t) == /\ pc[t] = "srel"
                 /\ state' = IF Bug = "ReleaseStoresOne" THEN 1 ELSE IF Bug = "ReleaseDecrements" THEN state - 1 ELSE 0
                 /\ pc' = [pc EXCEPT ![t] = "sreleased"]
                 /\ UNCHANGED <<counter, tmp, done>>
StrayRet(t) == /\ pc[t] = "sreleased"
               /\ pc' = [pc EXCEPT ![t] = "idle"]
               /\ UNCHANGED <<state, counter, tmp, done>>

Silent(t)  == XchgOk(t) \/ XchgBusy(t) \/ Store0(t) \/ StrayStore(t) \/ NonAtomicRead(t) \/ NonAtomicWrite(t)
Visible(t) == \/ NoStray /\ (Call(t, "acq") \/ Call(t, "try"))
              \/ RetOk(t) \/ RetFail(t) \/ RelCall(t) \/ RelRet(t) \/ StrayCall(t) \/ StrayRet(t)
LockNext == \E t \in Tasks : Silent(t) \/ Visible(t)

---------------------------------------------------------------------------
(* The property C08 *)
\* at most one task holds the lock at any time
MutualExclusion == Cardinality(Holding) <= 1
\* the lock word says "taken" exactly while somebody holds it: a try-acquire that reports FALSE had no
\* side effect, a release really frees the lock (so it can be taken again), a successful acquire marks it
HeldIffLocked == (state # 0) <=> (Holding # {})
\* work done inside the lock by one holder is visible to the next: no update of the datum is ever lost
Visibility == counter = done + Cardinality({t \in Tasks : pc[t] \in {"rel", "released"}})
\* a try-acquire gives up only while someone else holds the lock (the "never lies" half that is an
\* action property): checked as  [][TryHonestStep]_lockvars
TryHonestStep == \A t \in Tasks : (pc[t] = "try" /\ pc'[t] = "lost") => (Holding \ {t} # {} /\ state' = state)
TypeOK == /\ state \in {0, 1}
          /\ pc \in [Tasks -> {"idle", "acq", "try", "wonA", "wonT", "lost", "cs", "rel", "released", "sawfree", "srel", "sreleased"}]
====
