CONSTANTS Tasks = {0,1,2,3,4,5,6,7,8,9,10,11,12,13,14,15,16,17,18,19,20,21,22,23,24,25,26,27,28,29,30,31,32,33,34,35,36,37,38,39,40,41,42,43,44,45,46,47,48}  Bug = "none"
INIT Init
NEXT Next
CONSTRAINT HWM
POSTCONDITION Accepted
CHECK_DEADLOCK FALSE
