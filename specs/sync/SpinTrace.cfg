CONSTANTS Tasks = {0,1,2,3,4,5,6,7,8,9,10,11,12,13,14,15,16}  Bug = "none"
INIT Init
NEXT Next
CONSTRAINT HWM
POSTCONDITION Accepted
CHECK_DEADLOCK FALSE
