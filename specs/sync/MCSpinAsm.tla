---- MODULE MCSpinAsm ----
(* Leg M at instruction granularity: SpinAsm over the table in SpinProg.tla.  The copy of SpinProg.tla *)
(* kept in specs/sync is the extraction from the pinned tree; every run of the check regenerates it    *)
(* from the current sources before TLC is started.                                                     *)
EXTENDS SpinAsm, SpinProg
====
