CONSTANTS Tasks = {t1, t2}  MaxOps = 2  YieldSet = FALSE  TSO = FALSE  Bug = "none"
CONSTANT Prog <- ExtractedProg  Attempts <- ExtractedAttempts  Try <- ExtractedTry  Rel <- ExtractedRel
SPECIFICATION Spec
INVARIANT MutualExclusion
INVARIANT HeldMeansLocked
INVARIANT FreeWhenIdle
INVARIANT Visibility
INVARIANT EntrySeesAll
INVARIANT NoWildAccess
CHECK_DEADLOCK FALSE
PROPERTY EventuallyAcquired
