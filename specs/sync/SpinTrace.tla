---- MODULE SpinTrace ----
(***************************************************************************)
(* Leg V for C08: events recorded from the REAL kernel/sync.Spinlock are    *)
(* explained - or not - by the actions of Spinlock.tla.                     *)
(*                                                                          *)
(* One trace line per observable event, in the order of a global atomic     *)
(* sequence counter (16-thread stress) or of the single controlling         *)
(* goroutine (controlled schedules):                                        *)
(*   call   t op res   task t is about to call Acquire ("acq") or           *)
(*                     TryToAcquire ("try"); res is the result the call     *)
(*                     later returned ("ok" | "fail" | "none" = not seen)   *)
(*   ok     t c        Acquire / TryToAcquire(TRUE) has returned; inside    *)
(*                     the lock t read the value c of the protected counter *)
(*   fail   t eq       TryToAcquire returned FALSE; eq: the raw lock word   *)
(*                     was identical before and after it (1), differed (0), *)
(*                     or was not measured (-1: other calls were in flight) *)
(*   rel    t          t wrote counter+1 and is about to call Release       *)
(*   relret t          Release has returned                                 *)
(*   srel t / srelret t   call / return of a Release by a task that holds   *)
(*                     nothing, issued while the lock is free and no other  *)
(*                     call is in progress (must have no effect)            *)
(* The lock word is never interpreted: whether the lock is free is seen     *)
(* through the lock's own API (an observer task's TryToAcquire/Release).     *)
(*   nb     n0 n1      the 4 bytes behind the lock word (the lock is the    *)
(*                     first field of a cell: zero / a datum / another held *)
(*                     lock) before and after the case                      *)
(*   fault  t          a lock operation of task t caused a memory fault     *)
(*                     (the lock sat in front of an inaccessible page)      *)
(*   reset             end of one case                                      *)
(* Between two events the monitor may take the *silent* steps of the lock   *)
(* specification (the atomic exchange, the atomic store), so TLC searches    *)
(* for the positions of those steps.  A trace is accepted iff some          *)
(* placement consumes every line: acceptance is a high-water mark of the    *)
(* consumed line number kept in TLC register 1 (one worker).                *)
(* Only definite facts can fail: an `ok` while another task holds the lock, *)
(* a `fail` although the lock was free during the whole call, a counter     *)
(* value that misses an update, a failed try that changed the lock word.    *)
(***************************************************************************)
EXTENDS Spinlock, TLC, Json, IOUtils
Trace == ndJsonDeserialize(IOEnv.TRACE)
VARIABLES l, res
tvars == <<state, pc, counter, tmp, done, l, res>>

Init == /\ TLCSet(1, 1) /\ LockInit /\ l = 1 /\ res = [t \in Tasks |-> "none"]

Event(e) ==
  CASE e.k = "call"   -> Call(e.t, e.op) /\ res' = [res EXCEPT ![e.t] = e.res]
    [] e.k = "ok"     -> RetOk(e.t) /\ counter = e.c /\ UNCHANGED res
    [] e.k = "fail"   -> RetFail(e.t) /\ e.eq # 0 /\ UNCHANGED res      \* "false without side effects": the raw word is as it was
    [] e.k = "rel"    -> RelCall(e.t) /\ UNCHANGED res
    [] e.k = "relret" -> RelRet(e.t) /\ UNCHANGED res
    [] e.k = "srel"   -> StrayCall(e.t) /\ UNCHANGED res
    [] e.k = "srelret" -> StrayRet(e.t) /\ UNCHANGED res
    [] e.k = "nb"     -> e.n0 = e.n1 /\ UNCHANGED <<state, pc, counter, tmp, done, res>>      \* lock operations never touch the neighbour
    [] e.k = "fault"  -> FALSE /\ UNCHANGED <<state, pc, counter, tmp, done, res>>      \* a lock operation touched memory behind the lock word
    [] e.k = "reset"  -> /\ state' = 0 /\ pc' = [t \in Tasks |-> "idle"] /\ counter' = 0
                         /\ tmp' = [t \in Tasks |-> 0] /\ done' = 0 /\ res' = [t \in Tasks |-> "none"]

\* A try-acquire that is known to have reported FALSE can only give up, and giving up has no effect:
\* taking that silent step as soon as it is possible loses no explanation (and keeps the search linear).
Urgent == {t \in Tasks : pc[t] = "try" /\ res[t] = "fail" /\ state # 0}
CanWin(t) == pc[t] = "acq" \/ (pc[t] = "try" /\ res[t] = "ok")

Next == IF Urgent # {}
        THEN XchgBusy(CHOOSE t \in Urgent : \A u \in Urgent : t <= u) /\ UNCHANGED <<l, res>>
        ELSE \/ l <= Len(Trace) /\ Event(Trace[l]) /\ l' = l + 1
             \/ \E t \in Tasks : ((CanWin(t) /\ XchgOk(t)) \/ Store0(t) \/ StrayStore(t)) /\ UNCHANGED <<l, res>>

HWM == TLCSet(1, IF TLCGet(1) < l THEN l ELSE TLCGet(1))
Accepted == IF TLCGet(1) = Len(Trace) + 1 THEN TRUE
            ELSE PrintT(<<"VERIF-MISMATCH", ToJson(<<TLCGet(1), "C08",
                   "no placement of the silent exchange/store steps of the lock specification explains this event">>)>>)
====
