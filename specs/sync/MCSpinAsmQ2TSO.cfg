CONSTANTS Tasks = {t1, t2}  MaxOps = 2  YieldSet = TRUE  TSO = TRUE  Bug = "none"  RelPlain = FALSE  Nb0 = 7  EnvNb = FALSE  AttOverride = 9  TrackYield = TRUE  Stray = TRUE  WordMod = 0
CONSTANT Prog <- ExtractedProg  EntryAcq <- ExtractedEntryAcq  EntryTry <- ExtractedEntryTry  EntryRel <- ExtractedEntryRel
SPECIFICATION Spec
INVARIANT MutualExclusion
INVARIANT TryHonestWhenAlone
INVARIANT Visibility
INVARIANT EntrySeesAll
INVARIANT NoWildAccess
INVARIANT NeighbourIntact
INVARIANT TryFailsClean
INVARIANT YieldBound
CHECK_DEADLOCK FALSE
SYMMETRY Symm
