---- MODULE SpinlockProofs ----
(* TLAPS proof (thorough tier, optional): mutual exclusion of the lock specification Spinlock.tla for  *)
(* ANY set of tasks - the bounded TLC runs check 3 and 4 tasks.  Checked with `tlapm --threads 16`.     *)
EXTENDS Spinlock, TLAPS

ASSUME NoBug == Bug = "none"

PCs == {"idle", "acq", "try", "wonA", "wonT", "lost", "cs", "rel", "released", "sawfree", "srel", "sreleased"}
\* mutual exclusion without cardinalities
AtMostOne == \A t, u \in Tasks : (t \in Holding /\ u \in Holding) => t = u
Inv == /\ state \in {0, 1}
       /\ pc \in [Tasks -> PCs]
       /\ \A t \in Tasks : pc[t] # "sawfree"
       /\ state = 0 => Holding = {}
       /\ AtMostOne
       /\ \A t, u \in Tasks : (pc[t] \in {"srel", "sreleased"} /\ u # t) => pc[u] = "idle"

LSpec == LockInit /\ [][LockNext]_lockvars

LEMMA InitInv == LockInit => Inv
  BY DEF LockInit, Inv, Holding, AtMostOne, PCs

LEMMA StepInv == Inv /\ [LockNext]_lockvars => Inv'
<1> SUFFICES ASSUME Inv, [LockNext]_lockvars PROVE Inv'
  OBVIOUS
<1>1. CASE UNCHANGED lockvars
  BY <1>1 DEF Inv, lockvars, Holding, AtMostOne
<1>2. ASSUME NEW t \in Tasks, NoStray /\ (Call(t, "acq") \/ Call(t, "try")) PROVE Inv'
  BY <1>2 DEF Inv, Call, NoStray, Holding, AtMostOne, PCs
<1>3. ASSUME NEW t \in Tasks, XchgOk(t) PROVE Inv'
  BY <1>3 DEF Inv, XchgOk, Holding, AtMostOne, PCs
<1>4. ASSUME NEW t \in Tasks, XchgBusy(t) PROVE Inv'
  BY <1>4, NoBug DEF Inv, XchgBusy, Holding, AtMostOne, PCs
<1>5. ASSUME NEW t \in Tasks, Store0(t) PROVE Inv'
  BY <1>5, NoBug DEF Inv, Store0, Holding, AtMostOne, PCs
<1>11. ASSUME NEW t \in Tasks, StrayCall(t) PROVE Inv'
  BY <1>11 DEF Inv, StrayCall, AllIdle, Holding, AtMostOne, PCs
<1>12. ASSUME NEW t \in Tasks, StrayStore(t) PROVE Inv'
  BY <1>12, NoBug DEF Inv, StrayStore, Holding, AtMostOne, PCs
<1>13. ASSUME NEW t \in Tasks, StrayRet(t) PROVE Inv'
  BY <1>13 DEF Inv, StrayRet, Holding, AtMostOne, PCs
<1>6. ASSUME NEW t \in Tasks, NonAtomicRead(t) \/ NonAtomicWrite(t) PROVE Inv'
  BY <1>6, NoBug DEF Inv, NonAtomicRead, NonAtomicWrite
<1>7. ASSUME NEW t \in Tasks, RetOk(t) PROVE Inv'
  BY <1>7 DEF Inv, RetOk, Holding, AtMostOne, PCs
<1>8. ASSUME NEW t \in Tasks, RetFail(t) PROVE Inv'
  BY <1>8 DEF Inv, RetFail, Holding, AtMostOne, PCs
<1>9. ASSUME NEW t \in Tasks, RelCall(t) PROVE Inv'
  BY <1>9 DEF Inv, RelCall, Holding, AtMostOne, PCs
<1>10. ASSUME NEW t \in Tasks, RelRet(t) PROVE Inv'
  BY <1>10 DEF Inv, RelRet, Holding, AtMostOne, PCs
<1> QED
  BY <1>1, <1>2, <1>3, <1>4, <1>5, <1>6, <1>7, <1>8, <1>9, <1>10, <1>11, <1>12, <1>13 DEF LockNext, Silent, Visible

THEOREM MutualExclusionForAnyTasks == LSpec => []AtMostOne
<1>1. Inv => AtMostOne
  BY DEF Inv
<1> QED
  BY InitInv, StepInv, <1>1, PTL DEF LSpec
====
