CONSTANTS Tasks = {t1, t2}  MaxOps = 2  YieldSet = TRUE  TSO = TRUE  Bug = "BufferNotFifo"  RelPlain = TRUE  Nb0 = 7  EnvNb = FALSE
CONSTANT Prog <- ExtractedProg  EntryAcq <- ExtractedEntryAcq  EntryTry <- ExtractedEntryTry  EntryRel <- ExtractedEntryRel
SPECIFICATION Spec
INVARIANT MutualExclusion
INVARIANT HeldMeansLocked
INVARIANT FreeWhenIdle
INVARIANT Visibility
INVARIANT EntrySeesAll
INVARIANT NoWildAccess
INVARIANT NeighbourIntact
CHECK_DEADLOCK FALSE
SYMMETRY Symm
