CONSTANTS Tasks = {t1, t2}  MaxOps = 3  YieldSet = TRUE  TSO = FALSE  Bug = "none"  RelPlain = FALSE  Nb0 = 7  EnvNb = FALSE  AttOverride = 9  TrackYield = FALSE  Stray = TRUE  WordMod = 3
CONSTANT Prog <- ExtractedProg  EntryAcq <- ExtractedEntryAcq  EntryTry <- ExtractedEntryTry  EntryRel <- ExtractedEntryRel
SPECIFICATION Spec
INVARIANT MutualExclusion
INVARIANT TryHonestWhenAlone
INVARIANT Visibility
INVARIANT EntrySeesAll
INVARIANT NoWildAccess
INVARIANT NeighbourIntact
INVARIANT YieldBound
CHECK_DEADLOCK FALSE
SYMMETRY Symm
