CONSTANTS Tasks = {t1, t2, t3}  MaxOps = 1  YieldSet = TRUE  TSO = FALSE  Bug = "none"  RelPlain = FALSE  Nb0 = 7  EnvNb = FALSE  AttOverride = 9  TrackYield = TRUE  Stray = TRUE  WordMod = 0
CONSTANT Prog <- ExtractedProg  EntryAcq <- ExtractedEntryAcq  EntryTry <- ExtractedEntryTry  EntryRel <- ExtractedEntryRel
SPECIFICATION Spec
INVARIANT MutualExclusion
INVARIANT TryHonestWhenAlone
INVARIANT Visibility
INVARIANT EntrySeesAll
INVARIANT NoWildAccess
INVARIANT NeighbourIntact
INVARIANT TryFailsClean
INVARIANT YieldBound
CHECK_DEADLOCK FALSE
PROPERTY EventuallyAcquired
