CONSTANTS Tasks = {t1, t2, t3}  MaxOps = 2  Bug = "none"
SPECIFICATION Spec
INVARIANT TypeOK
INVARIANT MutualExclusion
INVARIANT HeldIffLocked
INVARIANT Visibility
PROPERTY TryHonest
PROPERTY EventuallyAcquired
PROPERTY Quiesces
CHECK_DEADLOCK FALSE
