---- MODULE SpinAsm ----
(***************************************************************************)
(* C08 at instruction granularity.                                          *)
(*                                                                          *)
(* `Prog` is one instruction table that tools/asm2tla.py extracts from the  *)
(* CURRENT sources on every run: the assembly routine archAcquireSpinlock   *)
(* of kernel/sync/spinlock_amd64.s (labels resolved to indices) followed by *)
(* the bodies of Spinlock.Acquire, TryToAcquire and Release of spinlock.go, *)
(* compiled statement by statement (a small dictionary of statements over   *)
(* sync/atomic operations on l.state).  EntryAcq / EntryTry / EntryRel are  *)
(* the indices at which the three methods start (0 = not understood by the  *)
(* extractor, that method is left out of the model).  This module is the    *)
(* interpreter: per task registers AX BX CX and the zero flag, one          *)
(* instruction per step, any interleaving of the tasks.                     *)
(*                                                                          *)
(* Hardware assumptions (DESIGN section 7): XCHG with a memory operand and  *)
(* the sync/atomic read-modify-write operations are atomic and drain the    *)
(* store buffer; loads and plain stores are single accesses; with TSO =     *)
(* TRUE every task has a FIFO store buffer for plain stores (x86-TSO) that  *)
(* its own loads snoop.  A Go function call (CALL) clobbers every register. *)
(*                                                                          *)
(* Memory = the 4-byte lock word `state` followed by 4 neighbour bytes `nb`  *)
(* (whatever the enclosing struct keeps behind the lock: a non-zero datum    *)
(* Nb0, or - EnvNb - another lock that the environment takes and releases).  *)
(* Every instruction carries its operand width w in bytes: an L instruction  *)
(* touches the lock word, a Q instruction the lock word AND the neighbour,   *)
(* B/W the low bytes of the lock word.  An 8-byte value is lo + 1000 * hi.   *)
(*                                                                          *)
(* Instruction = [op, d, s, v, to, w] :                                      *)
(*   ldstate d      d := address of the lock word (argument state+0(FP))     *)
(*   ldatt d        d := attemptsBeforeYielding (argument +8(FP))            *)
(*   ldyield d      d := value of the package variable yieldFn               *)
(*   movi d v       d := v            movr d s   d := s                      *)
(*   load d s       d := mem[s]       (plain read,  s must hold the address) *)
(*   store d s      mem[d] := s       (plain write, d must hold the address) *)
(*   storei d v     mem[d] := v                                              *)
(*   xchg d s       atomically swap register d and mem[s]                    *)
(*   test d         Z := (d = 0)      cmpi d v   Z := (d = v)    setz v      *)
(*   cmpm s v       Z := (mem[s] = v) (w bytes compared)                     *)
(*   gadd d v       d := atomic.AddUint32(&l.state, v)                       *)
(*   bts s / lbts s C := bit 0 of mem[s]; mem[s] := mem[s] | 1.  BTS with a  *)
(*                  memory operand is a read followed by a write (two steps) *)
(*                  unless it carries a LOCK prefix (lbts)                   *)
(*   lea d s v      d := s + v        testi d v / andi d s v: Z := ((d & 1) = 0) *)
(*                  / d := s & 1 (mask 1 only)                               *)
(*   gcasr d s      Z := atomic.CompareAndSwapUint32(&l.state, d, s)         *)
(*   gastorer s / gstorer s   atomic / plain store of register s             *)
(*   jc to / jnc to jump on the carry flag;  jls / jhi: on (C or Z) / not      *)
(*   havoc d        d := the result of a local computation (shift, add, ...   *)
(*                  on registers / stack slots): an unknown non-zero count   *)
(*                  (1 or 2: enough for a DEC/JNZ loop to go both ways)      *)
(*   flags / cmpc d v   comparison whose flags are not (fully) modelled: any  *)
(*                  outcome (cmpc: Z as cmpi, carry arbitrary)                *)
(*   jnd to         jump on a flag that is not modelled: either way           *)
(* Values: 0 = free is the only lock-word value with a fixed meaning; 1..3   *)
(* stand for themselves, every other constant of the sources (a "held"       *)
(* marker like 0x4c4f434b) is a class id 10, 11, ...; S1, S2 are local stack *)
(* slots of the routine (they survive a CALL).                               *)
(*   dec d / inc d  d := d -/+ 1 (mod CMod), Z := (d = 0)                    *)
(*   jz to / jnz to / jmp to          nop                                    *)
(*   call s         call the function s points to (s must be yieldFn # nil)  *)
(*   gload d        d := l.state      (atomic.LoadUint32 / plain read)       *)
(*   gstore v       l.state = v       (plain store)                          *)
(*   gastore v      atomic.StoreUint32(&l.state, v)                          *)
(*   gswap d v      d := atomic.SwapUint32(&l.state, v)                      *)
(*   gcas v to      Z := atomic.CompareAndSwapUint32(&l.state, v, to)        *)
(*   tail v         archAcquireSpinlock(&l.state, v): call of instruction 1  *)
(*   ret / rett / retf   return / return true / return false                 *)
(***************************************************************************)
EXTENDS Integers, Sequences, FiniteSets, TLC
CONSTANTS Tasks, MaxOps,
          Prog, EntryAcq, EntryTry, EntryRel,
          YieldSet,        \* is yieldFn non-nil (TRUE in hosted tests, FALSE in the kernel today)
          TSO,             \* model per-task store buffers
          Nb0,             \* initial value of the 4 bytes that follow the lock word
          EnvNb,           \* the neighbour is another lock, taken and released by the environment at any time
          AttOverride,     \* 9: Acquire passes the spin budget found in the source; 0..3: that budget instead (0 wraps to the
                           \* largest count on the first DEC, as 0 does in 32 bits)
          TrackYield,      \* keep the history needed for YieldBound (costs states)
          Stray,           \* include Release calls by tasks that hold nothing (on a free lock)
          WordMod,         \* 0, or a small modulus for arithmetic on the lock word (atomic add): a count kept in the
                           \* lock word wraps after WordMod steps instead of 2^32
          RelPlain,        \* leg M variant: Release is the plain store  l.state = 0  instead of the extracted body
          Bug              \* design mutants of the interpreter (leg M): "none" | "XchgNotAtomic" | "BufferNotFifo"

PTR == 100   YIELD == 101   YCODE == 102   UNDEF == 0 - 1   CMod == 4
BIG == 50      \* a count that does not run out: what a 32-bit register holds after 0 has been decremented
YieldK == 8    \* a waiter reaches its yield point after at most this many looks at a lock it finds taken
NoRegs == [AX |-> UNDEF, BX |-> UNDEF, CX |-> UNDEF, DX |-> UNDEF, SI |-> UNDEF, DI |-> UNDEF, S1 |-> UNDEF, S2 |-> UNDEF, ATT |-> 0, RET |-> 0, Z |-> FALSE, C |-> FALSE]

VARIABLES state,     \* the lock word in memory
          nb,        \* the 4 bytes behind it
          nbenv,     \* what the environment last wrote there (history)
          counter,   \* the protected datum in memory
          buf,       \* task -> store buffer: sequence of <<location, value>>, oldest first
          pc,        \* task -> 0 idle | 1..Len(Prog) next instruction | -1 in the critical section
          cur,       \* task -> "acq" | "try" | "rel" | "srel" (Release by a task that holds nothing, on a free lock)
          hold,      \* task -> TRUE from the call of Release until its first store to the lock word
          reg,       \* task -> [AX, BX, CX, ATT, Z]
          tmp,       \* task -> value of the datum read on entry (also scratch of design mutant XchgNotAtomic)
          done,      \* completed critical sections
          fx,        \* task -> its current TryToAcquire has changed the VALUE of the lock word (history)
          alone,     \* task -> during its current TryToAcquire every other task has been outside any call and
                     \*         outside the lock all the time (history)
          polls,     \* task -> looks at the lock word by its blocking Acquire since it last reached its yield point
          nops,      \* task -> calls made
          wild       \* an instruction used a register / a return in a way the interpreter cannot justify
vars == <<state, nb, nbenv, counter, buf, pc, cur, hold, reg, tmp, done, fx, alone, polls, nops, wild>>

Init == /\ state = 0 /\ nb = Nb0 /\ nbenv = Nb0 /\ counter = 0 /\ buf = [t \in Tasks |-> <<>>]
        /\ pc = [t \in Tasks |-> 0] /\ cur = [t \in Tasks |-> "acq"] /\ hold = [t \in Tasks |-> FALSE]
        /\ reg = [t \in Tasks |-> NoRegs]
        /\ tmp = [t \in Tasks |-> 0] /\ done = 0 /\ fx = [t \in Tasks |-> FALSE] /\ alone = [t \in Tasks |-> FALSE] /\ polls = [t \in Tasks |-> 0] /\ nops = [t \in Tasks |-> 0] /\ wild = <<>>

---------------------------------------------------------------------------
(* memory *)
Mem(loc) == IF loc = "state" THEN state ELSE IF loc = "nb" THEN nb ELSE counter
Wide(lo, hi) == lo + 1000 * hi                    \* an 8-byte value
Lo(v) == IF v >= 500 THEN v % 1000 ELSE v         \* its low 4 bytes (lock words stay far below 500)
Cut(v, w) == IF w = 1 THEN v % 256 ELSE IF w = 2 THEN v % 65536 ELSE v
RECURSIVE Newest(_, _, _)
Newest(b, loc, i) == IF i = 0 THEN <<>> ELSE IF b[i][1] = loc THEN <<b[i][2]>> ELSE Newest(b, loc, i - 1)
\* newest value of loc in t's own buffer, else memory
Read(t, loc) == LET n == Newest(buf[t], loc, Len(buf[t])) IN IF n = <<>> THEN Mem(loc) ELSE n[1]
\* a w-byte read at the address of the lock word
ReadW(t, w) == IF w = 8 THEN Wide(Read(t, "state"), Read(t, "nb")) ELSE Cut(Read(t, "state"), w)
\* the lock word after a w-byte write of v at its address (B/W keep the upper bytes)
Merge(old, v, w) == IF w = 1 THEN old - (old % 256) + v ELSE IF w = 2 THEN old - (old % 65536) + v ELSE v
PlainStore(t, loc, v) ==
  IF TSO THEN /\ buf' = [buf EXCEPT ![t] = Append(@, <<loc, v>>)] /\ UNCHANGED <<state, nb, counter>>
  ELSE /\ UNCHANGED <<buf, nb>>
       /\ IF loc = "state" THEN state' = v /\ UNCHANGED counter ELSE counter' = v /\ UNCHANGED state
\* a plain w-byte store of v at the address of the lock word (8 bytes: the neighbour gets the high half, 0)
StoreW(t, v, w) ==
  IF w # 8 THEN PlainStore(t, "state", Merge(Read(t, "state"), v, w))
  ELSE IF TSO THEN /\ buf' = [buf EXCEPT ![t] = Append(Append(@, <<"state", v>>), <<"nb", 0>>)] /\ UNCHANGED <<state, nb, counter>>
  ELSE state' = v /\ nb' = 0 /\ UNCHANGED <<buf, counter>>
\* a TryToAcquire that changes the value of the lock word is remembered (it may only do so when it succeeds)
\* (the value as the task itself sees it, i.e. including its own buffered plain stores; draining an older store of
\* its own does not change that view)
ViewAfter(t) == LET n == Newest(buf'[t], "state", Len(buf'[t])) IN IF n = <<>> THEN state' ELSE n[1]
Touched(t) == fx' = [fx EXCEPT ![t] = @ \/ (cur[t] = "try" /\ pc[t] # 0 /\ ViewAfter(t) # Read(t, "state"))]
Drained(t) == buf[t] = <<>>
Drain(t) == /\ TSO /\ buf[t] # <<>>
            /\ \E i \in (IF Bug = "BufferNotFifo" THEN 1..Len(buf[t]) ELSE {1}) :
                 /\ buf' = [buf EXCEPT ![t] = SubSeq(@, 1, i - 1) \o SubSeq(@, i + 1, Len(@))]
                 /\ IF buf[t][i][1] = "state" THEN state' = buf[t][i][2] /\ UNCHANGED <<counter, nb>>
                    ELSE IF buf[t][i][1] = "nb" THEN nb' = buf[t][i][2] /\ UNCHANGED <<counter, state>>
                    ELSE counter' = buf[t][i][2] /\ UNCHANGED <<state, nb>>
            /\ Touched(t)
            /\ UNCHANGED <<nbenv, pc, cur, hold, reg, tmp, done, nops, wild>>
\* the environment takes / releases the lock that lives in the neighbour bytes
Env == /\ EnvNb /\ nb \in {0, 1} /\ nb' = 1 - nb /\ nbenv' = 1 - nb
       /\ UNCHANGED <<state, counter, buf, pc, cur, hold, reg, tmp, done, fx, nops, wild>>

---------------------------------------------------------------------------
(* calls *)
Enter(t, entry, what) == /\ pc' = [pc EXCEPT ![t] = entry] /\ cur' = [cur EXCEPT ![t] = what]
                         /\ reg' = [reg EXCEPT ![t] = NoRegs]
NoStray == \A u \in Tasks : ~(cur[u] = "srel" /\ pc[u] # 0)
CallAcquire(t) == /\ EntryAcq > 0 /\ pc[t] = 0 /\ nops[t] < MaxOps /\ NoStray
                  /\ Enter(t, EntryAcq, "acq") /\ nops' = [nops EXCEPT ![t] = @ + 1]
                  /\ UNCHANGED <<state, nb, nbenv, counter, buf, hold, tmp, done, fx, wild>>
CallTry(t) == /\ EntryTry > 0 /\ pc[t] = 0 /\ nops[t] < MaxOps /\ NoStray
              /\ Enter(t, EntryTry, "try") /\ nops' = [nops EXCEPT ![t] = @ + 1]
              /\ fx' = [fx EXCEPT ![t] = FALSE]
              /\ UNCHANGED <<state, nb, nbenv, counter, buf, hold, tmp, done, wild>>
\* the holder writes the datum (a plain store) and calls Release
RelEntry == IF RelPlain THEN Len(Prog) + 1 ELSE EntryRel
CallRelease(t) == /\ pc[t] = 0 - 1 /\ RelEntry > 0
                  /\ PlainStore(t, "counter", tmp[t] + 1)
                  /\ Enter(t, RelEntry, "rel") /\ hold' = [hold EXCEPT ![t] = TRUE]
                  /\ tmp' = [tmp EXCEPT ![t] = 0] /\ fx' = [fx EXCEPT ![t] = FALSE]
                  /\ UNCHANGED <<nbenv, done, nops, wild>>
\* "Calling Release while the lock is free has no effect": any task, also one that never acquired, runs the Release
\* body while the lock is free and every task is outside any call; the lock must stay free and acquirable.
CallStray(t) == /\ Stray /\ RelEntry > 0 /\ nops[t] < MaxOps
                /\ \A u \in Tasks : pc[u] = 0 /\ buf[u] = <<>>       \* nobody holds the lock or is inside a call: it is free
                /\ Enter(t, RelEntry, "srel") /\ nops' = [nops EXCEPT ![t] = @ + 1]
                /\ UNCHANGED <<state, nb, nbenv, counter, buf, hold, tmp, done, fx, wild>>
\* leg M variant RelPlain: Release == l.state = 0 ; return
PlainRel(t) == /\ RelPlain /\ cur[t] \in {"rel", "srel"} /\ pc[t] \in {Len(Prog) + 1, Len(Prog) + 2}
               /\ IF pc[t] = Len(Prog) + 1
                  THEN /\ PlainStore(t, "state", 0) /\ pc' = [pc EXCEPT ![t] = @ + 1]
                       /\ hold' = [hold EXCEPT ![t] = FALSE] /\ UNCHANGED done
                  ELSE /\ cur[t] = "srel" => Drained(t)
                       /\ pc' = [pc EXCEPT ![t] = 0] /\ done' = (IF cur[t] = "rel" THEN done + 1 ELSE done)
                       /\ UNCHANGED <<state, nb, counter, buf, hold>>
               /\ UNCHANGED <<nbenv, cur, reg, tmp, fx, nops, wild>>

Goto(t, n) == pc' = [pc EXCEPT ![t] = n]
SetReg(t, r, v) == reg' = [reg EXCEPT ![t][r] = v]
Bad(t, why) == wild' = IF wild = <<>> THEN <<t, pc[t], why>> ELSE wild
Good == UNCHANGED wild
Same == UNCHANGED <<state, nb, counter, buf>>
\* a store to the lock word inside Release gives the lock up
Gives(t) == hold' = [hold EXCEPT ![t] = IF cur[t] = "rel" THEN FALSE ELSE @]
Keeps == UNCHANGED hold
AddW(a, b) == IF WordMod = 0 THEN a + b ELSE (a + b) % WordMod      \* atomic add on the lock word
Small(v) == v \in 0..60          \* a value a lock word may hold: 0..3 or the class id of a constant
\* register contents as an instruction of width w sees them
RegW(v, w) == IF w = 8 THEN v ELSE Lo(v)

Step(t) ==
  /\ pc[t] \in 1..Len(Prog)
  /\ LET i == Prog[pc[t]]  n == pc[t] + 1  r == reg[t] IN
     CASE i.op = "nop"     -> Goto(t, n) /\ Good /\ Same /\ Keeps /\ UNCHANGED reg
       [] i.op = "ldstate" -> Goto(t, n) /\ SetReg(t, i.d, PTR) /\ Good /\ Same /\ Keeps
       [] i.op = "ldatt"   -> Goto(t, n) /\ SetReg(t, i.d, r.ATT % CMod) /\ Good /\ Same /\ Keeps
       [] i.op = "ldyield" -> Goto(t, n) /\ SetReg(t, i.d, IF YieldSet THEN YIELD ELSE 0) /\ Good /\ Same /\ Keeps
       [] i.op = "movi"    -> Goto(t, n) /\ SetReg(t, i.d, i.v) /\ Good /\ Same /\ Keeps
       [] i.op = "movr"    -> Goto(t, n) /\ SetReg(t, i.d, RegW(r[i.s], i.w)) /\ Good /\ Same /\ Keeps
       [] i.op = "setz"    -> Goto(t, n) /\ reg' = [reg EXCEPT ![t].Z = (i.v = 1)] /\ Good /\ Same /\ Keeps
       [] i.op = "load"    -> /\ Goto(t, n) /\ Same /\ Keeps
                              /\ IF r[i.s] = PTR THEN SetReg(t, i.d, ReadW(t, i.w)) /\ Good
                                 ELSE IF r[i.s] = YIELD /\ i.w = 8 THEN SetReg(t, i.d, YCODE) /\ Good      \* code pointer of the func value
                                 ELSE SetReg(t, i.d, UNDEF) /\ Bad(t, "load through a register that does not hold the lock address")
       [] i.op = "gload"   -> Goto(t, n) /\ SetReg(t, i.d, Read(t, "state")) /\ Good /\ Same /\ Keeps
       [] i.op \in {"store", "storei"} ->
                              /\ Goto(t, n) /\ UNCHANGED reg
                              /\ IF r[i.d] = PTR /\ (i.op = "storei" \/ Small(RegW(r[i.s], i.w)))
                                 THEN StoreW(t, IF i.op = "storei" THEN i.v ELSE RegW(r[i.s], i.w), i.w) /\ Good /\ Gives(t)
                                 ELSE Same /\ Keeps /\ Bad(t, "store through a register that does not hold the lock address")
       [] i.op = "gstore"  -> Goto(t, n) /\ UNCHANGED reg /\ PlainStore(t, "state", i.v) /\ Good /\ Gives(t)
       [] i.op = "gastore" -> /\ Drained(t) /\ Goto(t, n) /\ UNCHANGED <<reg, nb, counter, buf>> /\ state' = i.v /\ Good /\ Gives(t)
       [] i.op = "gswap"   -> /\ Drained(t) /\ Goto(t, n) /\ SetReg(t, i.d, state) /\ state' = i.v
                              /\ UNCHANGED <<nb, counter, buf>> /\ Good /\ Gives(t)
       [] i.op = "gadd"    -> /\ Drained(t) /\ Goto(t, n) /\ SetReg(t, i.d, AddW(state, i.v)) /\ state' = AddW(state, i.v)
                              /\ UNCHANGED <<nb, counter, buf>> /\ Good /\ Gives(t)
       [] i.op = "gcas"    -> /\ Drained(t) /\ Goto(t, n) /\ reg' = [reg EXCEPT ![t].Z = (state = i.v)]
                              /\ state' = IF state = i.v THEN i.to ELSE state
                              /\ UNCHANGED <<nb, counter, buf>> /\ Good /\ (IF state = i.v THEN Gives(t) ELSE Keeps)
       [] i.op = "xchg"    -> IF r[i.s] = PTR /\ Small(RegW(r[i.d], i.w))
                              THEN IF Bug = "XchgNotAtomic"            \* design mutant: read now, write at the next step
                                   THEN /\ pc' = [pc EXCEPT ![t] = 0 - (1000 + pc[t])] /\ SetReg(t, i.d, Read(t, "state"))
                                        /\ Good /\ Same /\ Keeps
                                   ELSE /\ Drained(t) /\ Goto(t, n) /\ state' = RegW(r[i.d], i.w)
                                        /\ IF i.w = 8 THEN SetReg(t, i.d, Wide(state, nb)) /\ nb' = 0     \* the neighbour is swapped too
                                           ELSE SetReg(t, i.d, state) /\ UNCHANGED nb
                                        /\ Good /\ UNCHANGED <<counter, buf>> /\ Gives(t)
                              ELSE Goto(t, n) /\ SetReg(t, i.d, UNDEF) /\ Same /\ Keeps
                                   /\ Bad(t, "xchg operands are not (value register, lock address)")
       [] i.op = "bts"     -> /\ pc' = [pc EXCEPT ![t] = 0 - (1000 + pc[t])] /\ Same /\ Keeps       \* read half; the write half is XchgWrite
                              /\ reg' = [reg EXCEPT ![t].C = (Read(t, "state") % 2 = 1)]
                              /\ IF r[i.s] = PTR THEN Good ELSE Bad(t, "bts through a register that does not hold the lock address")
       [] i.op = "lbts"    -> /\ Drained(t) /\ Goto(t, n) /\ UNCHANGED <<nb, counter, buf>>
                              /\ reg' = [reg EXCEPT ![t].C = (state % 2 = 1)]
                              /\ state' = IF state % 2 = 1 THEN state ELSE state + 1
                              /\ Gives(t)
                              /\ IF r[i.s] = PTR THEN Good ELSE Bad(t, "bts through a register that does not hold the lock address")
       [] i.op = "lea"     -> /\ Goto(t, n) /\ Same /\ Keeps
                              /\ IF Small(Lo(r[i.s])) THEN SetReg(t, i.d, Lo(r[i.s]) + i.v) /\ Good
                                 ELSE SetReg(t, i.d, UNDEF) /\ Bad(t, "address arithmetic on a register that holds no lock-word value")
       [] i.op = "testi"   -> /\ Goto(t, n) /\ Same /\ Keeps
                              /\ reg' = [reg EXCEPT ![t].Z = (Lo(r[i.d]) % 2 = 0)]
                              /\ IF r[i.d] = UNDEF THEN Bad(t, "test of an undefined register") ELSE Good
       [] i.op = "andi"    -> /\ Goto(t, n) /\ Same /\ Keeps /\ SetReg(t, i.d, Lo(r[i.s]) % 2)
                              /\ IF r[i.s] = UNDEF THEN Bad(t, "use of an undefined register") ELSE Good
       [] i.op = "gcasr"   -> /\ Drained(t) /\ Goto(t, n) /\ reg' = [reg EXCEPT ![t].Z = (state = r[i.d])]
                              /\ state' = IF state = r[i.d] THEN r[i.s] ELSE state
                              /\ UNCHANGED <<nb, counter, buf>> /\ (IF state = r[i.d] THEN Gives(t) ELSE Keeps)
                              /\ IF Small(r[i.d]) /\ Small(r[i.s]) THEN Good ELSE Bad(t, "compare-and-swap of values that are no lock-word values")
       [] i.op = "gastorer" -> /\ Drained(t) /\ Goto(t, n) /\ UNCHANGED <<reg, nb, counter, buf>> /\ state' = r[i.s] /\ Gives(t)
                               /\ IF Small(r[i.s]) THEN Good ELSE Bad(t, "store of a value that is no lock-word value")
       [] i.op = "gstorer" -> /\ Goto(t, n) /\ UNCHANGED reg /\ PlainStore(t, "state", r[i.s]) /\ Gives(t)
                              /\ IF Small(r[i.s]) THEN Good ELSE Bad(t, "store of a value that is no lock-word value")
       [] i.op = "havoc"   -> /\ Goto(t, n) /\ Good /\ Same /\ Keeps
                              /\ \E v \in {1, 2}, c \in BOOLEAN : reg' = [reg EXCEPT ![t][i.d] = v, ![t].Z = FALSE, ![t].C = c]
       [] i.op = "flags"   -> /\ Goto(t, n) /\ Good /\ Same /\ Keeps
                              /\ \E z, c \in BOOLEAN : reg' = [reg EXCEPT ![t].Z = z, ![t].C = c]
       [] i.op = "cmpc"    -> /\ Goto(t, n) /\ Good /\ Same /\ Keeps
                              /\ \E c \in BOOLEAN : reg' = [reg EXCEPT ![t].Z = (RegW(r[i.d], i.w) = i.v), ![t].C = c]
       [] i.op = "jls"     -> Goto(t, IF r.C \/ r.Z THEN i.to ELSE n) /\ Good /\ Same /\ Keeps /\ UNCHANGED reg
       [] i.op = "jhi"     -> Goto(t, IF ~(r.C \/ r.Z) THEN i.to ELSE n) /\ Good /\ Same /\ Keeps /\ UNCHANGED reg
       [] i.op = "jnd"     -> (\E x \in {i.to, n} : Goto(t, x)) /\ Good /\ Same /\ Keeps /\ UNCHANGED reg
       [] i.op = "jc"      -> Goto(t, IF r.C THEN i.to ELSE n) /\ Good /\ Same /\ Keeps /\ UNCHANGED reg
       [] i.op = "jnc"     -> Goto(t, IF ~r.C THEN i.to ELSE n) /\ Good /\ Same /\ Keeps /\ UNCHANGED reg
       [] i.op = "test"    -> /\ Goto(t, n) /\ Same /\ Keeps
                              /\ reg' = [reg EXCEPT ![t].Z = (RegW(r[i.d], i.w) = 0)]
                              /\ IF r[i.d] = UNDEF THEN Bad(t, "test of an undefined register") ELSE Good
       [] i.op = "cmpi"    -> /\ Goto(t, n) /\ Same /\ Keeps
                              /\ reg' = [reg EXCEPT ![t].Z = (RegW(r[i.d], i.w) = i.v)]
                              /\ IF r[i.d] = UNDEF THEN Bad(t, "compare of an undefined register") ELSE Good
       [] i.op = "cmpm"    -> /\ Goto(t, n) /\ Same /\ Keeps
                              /\ reg' = [reg EXCEPT ![t].Z = (ReadW(t, i.w) = i.v)]
                              /\ IF r[i.s] = PTR THEN Good ELSE Bad(t, "compare through a register that does not hold the lock address")
       [] i.op \in {"dec", "inc"} ->     \* a register clobbered by CALL holds an arbitrary count
                              \* (an unknown count: one that runs out at this step, one that does not; decrementing 0 wraps to
                              \* the largest count, which for all practical purposes never runs out)
                              \E v0 \in (IF r[i.d] \in 0..(CMod - 1) \/ r[i.d] \in {BIG, PTR, YIELD} THEN {r[i.d]} ELSE {1, 2}) :
                              LET v == IF v0 = BIG \/ (i.op = "dec" /\ v0 = 0) THEN BIG
                                       ELSE (v0 + (IF i.op = "dec" THEN CMod - 1 ELSE 1)) % CMod IN
                              /\ Goto(t, n) /\ Same /\ Keeps
                              /\ reg' = [reg EXCEPT ![t][i.d] = v, ![t].Z = (v = 0)]
                              /\ IF v0 \in 0..(CMod - 1) \/ v0 = BIG THEN Good ELSE Bad(t, "arithmetic on a register that holds an address")
       [] i.op = "jnz"     -> Goto(t, IF ~r.Z THEN i.to ELSE n) /\ Good /\ Same /\ Keeps /\ UNCHANGED reg
       [] i.op = "jz"      -> Goto(t, IF r.Z THEN i.to ELSE n) /\ Good /\ Same /\ Keeps /\ UNCHANGED reg
       [] i.op = "jmp"     -> Goto(t, i.to) /\ Good /\ Same /\ Keeps /\ UNCHANGED reg
       [] i.op = "call"    -> /\ Goto(t, n) /\ Same /\ Keeps
                              /\ reg' = [reg EXCEPT ![t] = [NoRegs EXCEPT !.ATT = r.ATT, !.RET = r.RET, !.S1 = r.S1, !.S2 = r.S2]]
                              /\ IF r[i.s] = YIELD THEN Good ELSE Bad(t, "call through a register that does not hold a non-nil yieldFn")
       [] i.op = "callr"   -> /\ Goto(t, n) /\ Same /\ Keeps
                              /\ reg' = [reg EXCEPT ![t] = [NoRegs EXCEPT !.ATT = r.ATT, !.RET = r.RET, !.S1 = r.S1, !.S2 = r.S2]]
                              /\ IF r[i.s] = YCODE THEN Good ELSE Bad(t, "call of a register that does not hold the code of yieldFn")
       [] i.op = "cmpxchg" -> \* LOCK CMPXCHGL d, mem[s]: if mem = AX then mem := d, Z := 1 else AX := mem, Z := 0
                              IF r[i.s] = PTR /\ Small(Lo(r[i.d])) /\ r.AX # UNDEF
                              THEN /\ Drained(t) /\ Goto(t, n) /\ Good /\ UNCHANGED <<nb, counter, buf>>
                                   /\ IF state = Lo(r.AX)
                                      THEN state' = Lo(r[i.d]) /\ reg' = [reg EXCEPT ![t].Z = TRUE] /\ Gives(t)
                                      ELSE UNCHANGED state /\ reg' = [reg EXCEPT ![t].AX = state, ![t].Z = FALSE] /\ Keeps
                              ELSE Goto(t, n) /\ UNCHANGED reg /\ Same /\ Keeps
                                   /\ Bad(t, "cmpxchg operands are not (value register, lock address) with a defined AX")
       [] i.op = "tail"    -> /\ Goto(t, 1) /\ reg' = [reg EXCEPT ![t] = [NoRegs EXCEPT !.ATT = (IF AttOverride = 9 THEN i.v ELSE AttOverride), !.RET = n]] /\ Same /\ Keeps
                              /\ IF cur[t] = "acq" /\ r.RET = 0 THEN Good ELSE Bad(t, "archAcquireSpinlock called outside Acquire")
       [] i.op = "ret" /\ r.RET # 0 ->      \* the assembly routine returns into Acquire
                              Goto(t, r.RET) /\ reg' = [reg EXCEPT ![t].RET = 0] /\ Good /\ Same /\ Keeps
       [] i.op \in {"ret", "rett", "retf"} ->
                              \* a stray release only counts as over once its store is visible (otherwise it would
                              \* overlap a later acquisition, which is outside the property)
                              /\ cur[t] = "srel" => Drained(t)
                              /\ Same /\ reg' = [reg EXCEPT ![t] = NoRegs]        \* nothing of the call survives its return
                              /\ hold' = [hold EXCEPT ![t] = FALSE]
                              /\ IF (cur[t] = "try") = (i.op # "ret") THEN Good ELSE Bad(t, "return kind does not fit the method")
                              /\ pc' = [pc EXCEPT ![t] = IF cur[t] \in {"rel", "srel"} \/ i.op = "retf" THEN 0 ELSE 0 - 1]
  /\ LET i == Prog[pc[t]] IN
       /\ IF i.op \in {"ret", "rett"} /\ cur[t] \notin {"rel", "srel"} /\ reg[t].RET = 0 THEN tmp' = [tmp EXCEPT ![t] = Read(t, "counter")]
          ELSE IF i.op = "xchg" /\ Bug = "XchgNotAtomic" THEN tmp' = [tmp EXCEPT ![t] = reg[t][i.d]]
          ELSE IF i.op = "bts" THEN tmp' = [tmp EXCEPT ![t] = LET v == Read(t, "state") IN IF v % 2 = 1 THEN v ELSE v + 1]
          ELSE UNCHANGED tmp
       /\ done' = IF i.op = "ret" /\ cur[t] = "rel" /\ reg[t].RET = 0 THEN done + 1 ELSE done
  /\ Touched(t)
  /\ UNCHANGED <<nbenv, cur, nops>>

\* second half of a read-modify-write that is not atomic (design mutant XchgNotAtomic; BTS without LOCK)
XchgWrite(t) == /\ pc[t] < 0 - 1000
                /\ state' = tmp[t] /\ pc' = [pc EXCEPT ![t] = (0 - pc[t]) - 1000 + 1]
                /\ Touched(t)
                /\ UNCHANGED <<nb, nbenv, counter, buf, cur, hold, reg, tmp, done, nops, wild>>

Proceed(t) == Step(t) \/ XchgWrite(t) \/ CallRelease(t) \/ PlainRel(t) \/ Drain(t)
\* history: has the TryToAcquire of t run all alone so far ?
OthersOut(t) == \A u \in Tasks \ {t} : pc'[u] = 0 /\ buf'[u] = <<>>
AloneUpdate == alone' = [t \in Tasks |->
                  IF pc[t] = 0 /\ pc'[t] # 0 /\ cur'[t] = "try" THEN OthersOut(t) /\ \A u \in Tasks \ {t} : pc[u] = 0 /\ buf[u] = <<>>
                  ELSE IF cur[t] = "try" /\ pc[t] # 0 THEN alone[t] /\ OthersOut(t)
                  ELSE FALSE]          \* (read by TryHonestWhenAlone in the state the try returns into, then forgotten)
\* history: how often has the blocking Acquire of t looked at the lock word since it last reached its yield point ?
Looks == {"load", "cmpm", "xchg", "cmpxchg", "bts", "lbts", "gload", "gswap", "gcas", "gcasr", "gadd"}
PollsUpdate == polls' = [t \in Tasks |->
                  IF ~TrackYield \/ pc'[t] \in {0, 0 - 1} THEN 0
                  ELSE IF pc[t] \in 1..Len(Prog) /\ pc'[t] # pc[t] /\ cur[t] = "acq"
                       THEN IF Prog[pc[t]].op = "ldyield" THEN 0
                            ELSE IF Prog[pc[t]].op \in Looks /\ polls[t] <= YieldK THEN polls[t] + 1
                            ELSE polls[t]
                  ELSE polls[t]]
Next == ((\E t \in Tasks : CallAcquire(t) \/ CallTry(t) \/ CallStray(t) \/ Proceed(t)) \/ Env) /\ AloneUpdate /\ PollsUpdate
Spec == Init /\ [][Next]_vars /\ \A t \in Tasks : WF_vars(Proceed(t) /\ AloneUpdate /\ PollsUpdate)

---------------------------------------------------------------------------
(* The property C08, on the extracted code *)
InRelease(t) == cur[t] = "rel" /\ pc[t] # 0 /\ pc[t] # 0 - 1
Holding == {t \in Tasks : pc[t] = 0 - 1 \/ (InRelease(t) /\ hold[t])}
MutualExclusion == Cardinality(Holding) <= 1
\* Whether the lock word means "held" or "free" is the implementation's business (0/1 today, but e.g. a
\* generation count with a held bit is just as good), so it is observed only through the lock's own operations:
\* a TryToAcquire that ran while every other task was outside any call and outside the lock must succeed
\* (Release really frees the lock, a try that reported FALSE has not taken it, a stray Release on a free lock has
\* no effect), and a lock word that wrongly reads "free" shows as a second holder (MutualExclusion).
TryHonestWhenAlone == \A t \in Tasks : (pc[t] = 0 /\ cur[t] = "try") => ~alone[t]
\* no update of the protected datum is lost: the work of one holder is visible to the next
Visibility == (\A t \in Tasks : buf[t] = <<>>) => counter = done + Cardinality({t \in Tasks : InRelease(t)})
EntrySeesAll == \A t \in Tasks : pc[t] = 0 - 1 => tmp[t] = done + Cardinality({u \in Tasks : InRelease(u)})
\* "returns false without side effects": a TryToAcquire that reports FALSE has never changed the VALUE of the lock
\* word (a failed exchange of the held value over the same value, a failed compare-and-swap, a test-and-test-and-set
\* all leave it as it was; a counter bumped by every failed try does not)
TryFailsClean == \A t \in Tasks : (pc[t] = 0 /\ cur[t] = "try") => ~fx[t]
\* "no call blocks forever" where the holder only runs when a waiter yields: a blocked Acquire reaches its yield
\* point after a bounded number of looks at the lock (a spin budget of 0 that wraps to 2^32 does not)
YieldBound == \A t \in Tasks : polls[t] <= YieldK
\* lock operations never modify the bytes that follow the lock word
NeighbourIntact == (\A t \in Tasks : buf[t] = <<>>) => nb = nbenv
\* every register use and every return of the extracted code is justified
NoWildAccess == wild = <<>>
\* after a release the lock can be taken again: a blocking acquire returns once the competitors stop
EventuallyAcquired == \A t \in Tasks : (pc[t] > 0 /\ cur[t] = "acq") ~> (pc[t] = 0 - 1)
Symm == Permutations(Tasks)
====
