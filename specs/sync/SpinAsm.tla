---- MODULE SpinAsm ----
(***************************************************************************)
(* C08 at instruction granularity.                                          *)
(*                                                                          *)
(* The blocking acquire path is an instruction table `Prog` that            *)
(* tools/asm2tla.py extracts from the CURRENT kernel/sync/spinlock_amd64.s  *)
(* on every run (labels resolved to indices); TryToAcquire and Release are  *)
(* the atomic operations pattern-matched from spinlock.go.  This module is  *)
(* the interpreter: per task registers AX BX CX and the zero flag, one       *)
(* instruction per step, any interleaving of the tasks.                     *)
(*                                                                          *)
(* Hardware assumptions (DESIGN section 7): XCHG with a memory operand is    *)
(* atomic and - like every locked instruction - drains the store buffer;    *)
(* plain loads/stores are single accesses; with TSO = TRUE every task has a *)
(* FIFO store buffer for plain stores (x86-TSO), loads snoop the own buffer. *)
(* A Go function call (CALL) clobbers every register.                       *)
(*                                                                          *)
(* Instruction = [op, d, s, v, to] :                                         *)
(*   ldstate d      d := address of the lock word (argument state+0(FP))     *)
(*   ldatt d        d := attemptsBeforeYielding                              *)
(*   ldyield d      d := value of the package variable yieldFn               *)
(*   movi d v       d := v            movr d s   d := s                      *)
(*   load d s       d := mem[s]       (plain read,  s must hold the address) *)
(*   store d s      mem[d] := s       (plain write, d must hold the address) *)
(*   storei d v     mem[d] := v                                              *)
(*   xchg d s       atomically swap register d and mem[s]                    *)
(*   test d         Z := (d = 0)      cmpi d v   Z := (d = v)                *)
(*   dec d / inc d  d := d -/+ 1 (mod CMod), Z := (d = 0)                    *)
(*   jz to / jnz to / jmp to          ret        nop                         *)
(*   call s         call the function s points to (s must be yieldFn # nil)  *)
(***************************************************************************)
EXTENDS Integers, Sequences, FiniteSets, TLC
CONSTANTS Tasks, MaxOps,
          Prog,            \* the instruction table; <<>> = acquire path not modelled (extraction inconclusive)
          Attempts,        \* second argument Acquire passes to archAcquireSpinlock
          Try,             \* [kind |-> "swap", v, cmp |-> "eq"|"ne", c] | [kind |-> "cas", old, new] | [kind |-> "none"]
          Rel,             \* [kind |-> "atomic"|"plain", v]
          YieldSet,        \* is yieldFn non-nil (TRUE in hosted tests, FALSE in the kernel today)
          TSO,             \* model per-task store buffers
          Bug              \* design mutants of the interpreter (leg M): "none" | ...

PTR == 100   YIELD == 101   UNDEF == 0 - 1   CMod == 4
Regs == {"AX", "BX", "CX"}

VARIABLES state,     \* the lock word in memory
          counter,   \* the protected datum in memory
          buf,       \* task -> store buffer: sequence of <<location, value>>, oldest first
          pc,        \* task -> 0 idle | 1..Len(Prog) next instruction | -1 in the critical section
                     \*         | -2 datum written, Release called | -3 lock word stored, Release returning
                     \*         | -4 TryToAcquire called | -5 swap done, result pending
          reg,       \* task -> [AX, BX, CX, Z]
          tmp,       \* task -> value of the datum read on entry
          done,      \* completed critical sections
          nops,      \* task -> calls made
          wild       \* an instruction used a register in a way the interpreter cannot justify
vars == <<state, counter, buf, pc, reg, tmp, done, nops, wild>>

Init == /\ state = 0 /\ counter = 0 /\ buf = [t \in Tasks |-> <<>>]
        /\ pc = [t \in Tasks |-> 0]
        /\ reg = [t \in Tasks |-> [AX |-> UNDEF, BX |-> UNDEF, CX |-> UNDEF, Z |-> FALSE]]
        /\ tmp = [t \in Tasks |-> 0] /\ done = 0 /\ nops = [t \in Tasks |-> 0] /\ wild = <<>>

---------------------------------------------------------------------------
(* memory *)
Mem(loc) == IF loc = "state" THEN state ELSE counter
\* newest buffered value of loc in t's own buffer, else memory
RECURSIVE Newest(_, _, _)
Newest(b, loc, i) == IF i = 0 THEN <<>> ELSE IF b[i][1] = loc THEN <<b[i][2]>> ELSE Newest(b, loc, i - 1)
Read(t, loc) == LET n == Newest(buf[t], loc, Len(buf[t])) IN IF n = <<>> THEN Mem(loc) ELSE n[1]
\* plain store
PlainStore(t, loc, v) ==
  IF TSO THEN /\ buf' = [buf EXCEPT ![t] = Append(@, <<loc, v>>)] /\ UNCHANGED <<state, counter>>
  ELSE /\ UNCHANGED buf
       /\ IF loc = "state" THEN state' = v /\ UNCHANGED counter ELSE counter' = v /\ UNCHANGED state
Drained(t) == buf[t] = <<>>
Drain(t) == /\ TSO /\ buf[t] # <<>>
            /\ \E i \in (IF Bug = "BufferNotFifo" THEN 1..Len(buf[t]) ELSE {1}) :
                 /\ buf' = [buf EXCEPT ![t] = SubSeq(@, 1, i - 1) \o SubSeq(@, i + 1, Len(@))]
                 /\ IF buf[t][i][1] = "state" THEN state' = buf[t][i][2] /\ UNCHANGED counter
                    ELSE counter' = buf[t][i][2] /\ UNCHANGED state
            /\ UNCHANGED <<pc, reg, tmp, done, nops, wild>>

---------------------------------------------------------------------------
(* calls *)
CallAcquire(t) == /\ Prog # <<>> /\ pc[t] = 0 /\ nops[t] < MaxOps
                  /\ pc' = [pc EXCEPT ![t] = 1] /\ nops' = [nops EXCEPT ![t] = @ + 1]
                  /\ reg' = [reg EXCEPT ![t] = [AX |-> UNDEF, BX |-> UNDEF, CX |-> UNDEF, Z |-> FALSE]]
                  /\ UNCHANGED <<state, counter, buf, tmp, done, wild>>

Goto(t, n) == pc' = [pc EXCEPT ![t] = n]
SetReg(t, r, v) == reg' = [reg EXCEPT ![t][r] = v]
Bad(t, why) == wild' = IF wild = <<>> THEN <<t, pc[t], why>> ELSE wild
Good == UNCHANGED wild

Step(t) ==
  /\ pc[t] \in 1..Len(Prog)
  /\ LET i == Prog[pc[t]]  n == pc[t] + 1  r == reg[t] IN
     CASE i.op = "nop"     -> Goto(t, n) /\ Good /\ UNCHANGED <<state, counter, buf, reg>>
       [] i.op = "ldstate" -> Goto(t, n) /\ SetReg(t, i.d, PTR) /\ Good /\ UNCHANGED <<state, counter, buf>>
       [] i.op = "ldatt"   -> Goto(t, n) /\ SetReg(t, i.d, Attempts % CMod) /\ Good /\ UNCHANGED <<state, counter, buf>>
       [] i.op = "ldyield" -> Goto(t, n) /\ SetReg(t, i.d, IF YieldSet THEN YIELD ELSE 0) /\ Good /\ UNCHANGED <<state, counter, buf>>
       [] i.op = "movi"    -> Goto(t, n) /\ SetReg(t, i.d, i.v) /\ Good /\ UNCHANGED <<state, counter, buf>>
       [] i.op = "movr"    -> Goto(t, n) /\ SetReg(t, i.d, r[i.s]) /\ Good /\ UNCHANGED <<state, counter, buf>>
       [] i.op = "load"    -> /\ Goto(t, n) /\ UNCHANGED <<state, counter, buf>>
                              /\ IF r[i.s] = PTR THEN SetReg(t, i.d, Read(t, "state")) /\ Good
                                 ELSE SetReg(t, i.d, UNDEF) /\ Bad(t, "load through a register that does not hold the lock address")
       [] i.op \in {"store", "storei"} ->
                              /\ Goto(t, n) /\ UNCHANGED reg
                              /\ IF r[i.d] = PTR /\ (i.op = "storei" \/ r[i.s] \in 0..CMod)
                                 THEN PlainStore(t, "state", IF i.op = "storei" THEN i.v ELSE r[i.s]) /\ Good
                                 ELSE UNCHANGED <<state, counter, buf>> /\ Bad(t, "store through a register that does not hold the lock address")
       [] i.op = "xchg"    -> IF r[i.s] = PTR /\ r[i.d] \in 0..CMod
                              THEN IF Bug = "XchgNotAtomic"            \* design mutant: read now, write at the next step
                                   THEN /\ pc' = [pc EXCEPT ![t] = 0 - (1000 + pc[t])] /\ SetReg(t, i.d, Read(t, "state"))
                                        /\ Good /\ UNCHANGED <<state, counter, buf>>
                                   ELSE /\ Drained(t) /\ Goto(t, n) /\ SetReg(t, i.d, state) /\ state' = r[i.d]
                                        /\ Good /\ UNCHANGED <<counter, buf>>
                              ELSE Goto(t, n) /\ SetReg(t, i.d, UNDEF) /\ UNCHANGED <<state, counter, buf>>
                                   /\ Bad(t, "xchg operands are not (value register, lock address)")
       [] i.op = "test"    -> /\ Goto(t, n) /\ UNCHANGED <<state, counter, buf>>
                              /\ reg' = [reg EXCEPT ![t].Z = (r[i.d] = 0)]
                              /\ IF r[i.d] = UNDEF THEN Bad(t, "test of an undefined register") ELSE Good
       [] i.op = "cmpi"    -> /\ Goto(t, n) /\ UNCHANGED <<state, counter, buf>>
                              /\ reg' = [reg EXCEPT ![t].Z = (r[i.d] = i.v)]
                              /\ IF r[i.d] = UNDEF THEN Bad(t, "compare of an undefined register") ELSE Good
       [] i.op \in {"dec", "inc"} ->     \* a register clobbered by CALL holds an arbitrary count
                              \E v0 \in (IF r[i.d] = UNDEF THEN 0..(CMod - 1) ELSE {r[i.d]}) :
                              LET v == (v0 + (IF i.op = "dec" THEN CMod - 1 ELSE 1)) % CMod IN
                              /\ Goto(t, n) /\ UNCHANGED <<state, counter, buf>>
                              /\ reg' = [reg EXCEPT ![t][i.d] = v, ![t].Z = (v = 0)]
                              /\ IF v0 \in 0..(CMod - 1) THEN Good ELSE Bad(t, "arithmetic on a register that holds an address")
       [] i.op = "jnz"     -> Goto(t, IF ~r.Z THEN i.to ELSE n) /\ Good /\ UNCHANGED <<state, counter, buf, reg>>
       [] i.op = "jz"      -> Goto(t, IF r.Z THEN i.to ELSE n) /\ Good /\ UNCHANGED <<state, counter, buf, reg>>
       [] i.op = "jmp"     -> Goto(t, i.to) /\ Good /\ UNCHANGED <<state, counter, buf, reg>>
       [] i.op = "call"    -> /\ Goto(t, n) /\ UNCHANGED <<state, counter, buf>>
                              /\ reg' = [reg EXCEPT ![t] = [AX |-> UNDEF, BX |-> UNDEF, CX |-> UNDEF, Z |-> FALSE]]
                              /\ IF r[i.s] = YIELD THEN Good ELSE Bad(t, "call through a register that does not hold a non-nil yieldFn")
       [] i.op = "ret"     -> \* Acquire returns: the caller is inside the lock and reads the datum
                              /\ pc' = [pc EXCEPT ![t] = 0 - 1] /\ Good /\ UNCHANGED <<state, counter, buf, reg>>
  /\ LET i == Prog[pc[t]] IN
       IF i.op = "ret" THEN tmp' = [tmp EXCEPT ![t] = Read(t, "counter")]
       ELSE IF i.op = "xchg" /\ Bug = "XchgNotAtomic" THEN tmp' = [tmp EXCEPT ![t] = reg[t][i.d]]
       ELSE UNCHANGED tmp
  /\ UNCHANGED <<done, nops>>

\* second half of the non-atomic exchange of design mutant XchgNotAtomic
XchgWrite(t) == /\ pc[t] < 0 - 1000
                /\ state' = tmp[t] /\ pc' = [pc EXCEPT ![t] = (0 - pc[t]) - 1000 + 1]
                /\ UNCHANGED <<counter, buf, reg, tmp, done, nops, wild>>

\* falling off the end of the table
RunOff(t) == /\ pc[t] = Len(Prog) + 1 /\ Prog # <<>>
             /\ Bad(t, "control flow runs past the last instruction")
             /\ pc' = [pc EXCEPT ![t] = 0] /\ UNCHANGED <<state, counter, buf, reg, tmp, done, nops>>

CallTry(t) == /\ Try.kind # "none" /\ pc[t] = 0 /\ nops[t] < MaxOps
              /\ pc' = [pc EXCEPT ![t] = 0 - 4] /\ nops' = [nops EXCEPT ![t] = @ + 1]
              /\ UNCHANGED <<state, counter, buf, reg, tmp, done, wild>>
\* the atomic operation of TryToAcquire; BX := 1 if the call is going to report TRUE
TrySwap(t) == /\ pc[t] = 0 - 4 /\ Drained(t)
              /\ LET ok == IF Try.kind = "swap"
                           THEN IF Try.cmp = "eq" THEN state = Try.c ELSE state # Try.c
                           ELSE state = Try.old
                     nv == IF Try.kind = "swap" THEN Try.v ELSE IF state = Try.old THEN Try.new ELSE state
                 IN /\ state' = nv /\ SetReg(t, "BX", IF ok THEN 1 ELSE 0)
              /\ pc' = [pc EXCEPT ![t] = 0 - 5]
              /\ UNCHANGED <<counter, buf, tmp, done, nops, wild>>
TryRet(t) == /\ pc[t] = 0 - 5
             /\ IF reg[t].BX = 1 THEN pc' = [pc EXCEPT ![t] = 0 - 1] /\ tmp' = [tmp EXCEPT ![t] = Read(t, "counter")]
                ELSE pc' = [pc EXCEPT ![t] = 0] /\ UNCHANGED tmp
             /\ UNCHANGED <<state, counter, buf, reg, done, nops, wild>>

\* the holder writes the datum (a plain store) and calls Release
RelCall(t) == /\ pc[t] = 0 - 1
              /\ PlainStore(t, "counter", tmp[t] + 1)
              /\ pc' = [pc EXCEPT ![t] = 0 - 2]
              /\ UNCHANGED <<reg, tmp, done, nops, wild>>
RelStore(t) == /\ pc[t] = 0 - 2
               /\ IF Rel.kind = "atomic" THEN Drained(t) /\ state' = Rel.v /\ UNCHANGED <<counter, buf>>
                  ELSE PlainStore(t, "state", Rel.v)
               /\ pc' = [pc EXCEPT ![t] = 0 - 3]
               /\ UNCHANGED <<reg, tmp, done, nops, wild>>
RelRet(t) == /\ pc[t] = 0 - 3
             /\ pc' = [pc EXCEPT ![t] = 0] /\ done' = done + 1
             /\ UNCHANGED <<state, counter, buf, reg, tmp, nops, wild>>

Proceed(t) == Step(t) \/ XchgWrite(t) \/ RunOff(t) \/ TrySwap(t) \/ TryRet(t) \/ RelCall(t) \/ RelStore(t) \/ RelRet(t) \/ Drain(t)
Next == \E t \in Tasks : CallAcquire(t) \/ CallTry(t) \/ Proceed(t)
Spec == Init /\ [][Next]_vars /\ \A t \in Tasks : WF_vars(Proceed(t))

---------------------------------------------------------------------------
(* The property C08, on the extracted code *)
Holding == {t \in Tasks : pc[t] \in {0 - 1, 0 - 2}}
MutualExclusion == Cardinality(Holding) <= 1
\* while somebody holds the lock the lock word (as every other task will see it) says so
HeldMeansLocked == Holding # {} => state # 0
\* a lock word that says "taken" while every task is outside any call can never be taken again:
\* Release really frees the lock, a try-acquire that reports FALSE has not taken it
FreeWhenIdle == (\A t \in Tasks : pc[t] = 0 /\ buf[t] = <<>>) => state = 0
\* no update of the protected datum is lost: the work of one holder is visible to the next
Visibility == (\A t \in Tasks : buf[t] = <<>>) => counter = done + Cardinality({t \in Tasks : pc[t] \in {0 - 2, 0 - 3}})
EntrySeesAll == \A t \in Tasks : pc[t] = 0 - 1 => tmp[t] = done + Cardinality({u \in Tasks : pc[u] \in {0 - 2, 0 - 3}})
\* every register use of the routine is justified (address register holds the lock address, ...)
NoWildAccess == wild = <<>>
\* after a release the lock can be taken again: a blocking acquire returns once the competitors stop
EventuallyAcquired == \A t \in Tasks : (pc[t] > 0) ~> (pc[t] = 0 - 1)
Symm == Permutations(Tasks)
====
