CONSTANTS Tasks = {t1, t2, t3}  MaxOps = 2  YieldSet = TRUE  TSO = FALSE  Bug = "none"  RelPlain = FALSE  Nb0 = 0  EnvNb = TRUE
CONSTANT Prog <- ExtractedProg  EntryAcq <- ExtractedEntryAcq  EntryTry <- ExtractedEntryTry  EntryRel <- ExtractedEntryRel
SPECIFICATION Spec
INVARIANT MutualExclusion
INVARIANT HeldMeansLocked
INVARIANT FreeWhenIdle
INVARIANT Visibility
INVARIANT EntrySeesAll
INVARIANT NoWildAccess
INVARIANT NeighbourIntact
CHECK_DEADLOCK FALSE
SYMMETRY Symm
