CONSTANTS Tasks = {t1, t2, t3}  MaxOps = 2  Bug = "ReleaseDecrements"
SPECIFICATION Spec
INVARIANT MutualExclusion
INVARIANT HeldIffLocked
INVARIANT Visibility
PROPERTY TryHonest
CHECK_DEADLOCK FALSE
