CONSTANTS Tasks = {1, 2, 3}  Bug = "none"  MaxLen = 10
INIT Init
NEXT Next
INVARIANT MutualExclusion
INVARIANT HeldIffLocked
INVARIANT Visibility
INVARIANT Emit
CHECK_DEADLOCK FALSE
