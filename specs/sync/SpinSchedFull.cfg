CONSTANTS Tasks = {1, 2, 3}  Bug = "none"  MaxLen = 9  MaxStray = 1
INIT Init
NEXT Next
INVARIANT MutualExclusion
INVARIANT HeldIffLocked
INVARIANT Visibility
INVARIANT Emit
CHECK_DEADLOCK FALSE
