CONSTANTS Tasks = {t1, t2}  MaxOps = 2  YieldSet = TRUE  TSO = TRUE  Bug = "none"
CONSTANT Prog <- ExtractedProg  Attempts <- ExtractedAttempts  Try <- ExtractedTry  Rel <- PlainRel
SPECIFICATION Spec
INVARIANT MutualExclusion
INVARIANT HeldMeansLocked
INVARIANT FreeWhenIdle
INVARIANT Visibility
INVARIANT EntrySeesAll
INVARIANT NoWildAccess
CHECK_DEADLOCK FALSE
SYMMETRY Symm
