---- MODULE SpinSched ----
(* Leg G generator: the behaviours of Spinlock in which the environment issues one command at a time   *)
(* (a non-blocking call - TryToAcquire, Release - runs to completion before the next command; blocked  *)
(* Acquires keep spinning in the background and may win the lock silently).  Every behaviour of        *)
(* MaxLen commands is written as one JSON line [[cmd, task], ...] with                                 *)
(*   "acq" t   start task t's blocking Acquire            (Call)                                       *)
(*   "await" t  the Acquire of t returns                    (RetOk of a blocked/blocking acquire)        *)
(*   "try" t   TryToAcquire by t, to completion           (Call, XchgOk|XchgBusy, RetOk|RetFail)       *)
(*   "rel" t   Release by the holder t, to completion     (RelCall, Store0, RelRet)                    *)
(*   "srel" t  Release by a task that holds nothing, while the lock is free and nobody is inside a      *)
(*             call, to completion                        (StrayCall, StrayStore, StrayRet)            *)
(* The Go harness replays the commands on the real lock with one goroutine per task; what the real     *)
(* code did is judged by SpinTrace, not by this module.                                                *)
EXTENDS Spinlock, TLC, Json, CSV, IOUtils
CONSTANTS MaxLen, MaxStray
VARIABLE hist
svars == <<state, pc, counter, tmp, done, hist>>

Transient(t) == pc[t] \in {"try", "wonT", "lost", "rel", "released", "srel", "sreleased"}
Quiet == \A t \in Tasks : ~Transient(t)
\* a blocked Acquire has taken or can take the lock: until its return has been awaited no other command
\* is issued, so that what the real lock does next does not depend on a race the harness cannot control
\* (races between spinners and other callers are the business of the 16-thread stress leg)
Racy == \E t \in Tasks : pc[t] = "wonA" \/ (pc[t] = "acq" /\ state = 0)
Used(t) == pc[t] # "idle" \/ \E i \in 1..Len(hist) : hist[i][2] = t
\* tasks are interchangeable: a task makes its first call only after all smaller ones did
MayStart(t) == \A u \in Tasks : u < t => Used(u)
Cmd(c, t) == hist' = Append(hist, <<c, t>>)
NStray == Cardinality({i \in 1..Len(hist) : hist[i][1] = "srel"})

Init == LockInit /\ hist = <<>>
Next == \E t \in Tasks :
   \/ /\ Quiet /\ ~Racy /\ Len(hist) < MaxLen /\ MayStart(t)
      /\ \/ Call(t, "acq") /\ Cmd("acq", t)
         \/ Call(t, "try") /\ Cmd("try", t)
   \/ /\ Quiet /\ Len(hist) < MaxLen /\ pc[t] = "wonA" /\ RetOk(t) /\ Cmd("await", t)
   \/ /\ Quiet /\ ~Racy /\ Len(hist) < MaxLen /\ RelCall(t) /\ Cmd("rel", t)
   \/ /\ Quiet /\ ~Racy /\ Len(hist) < MaxLen /\ MayStart(t) /\ NStray < MaxStray /\ StrayCall(t) /\ Cmd("srel", t)
   \/ /\ Quiet /\ pc[t] = "acq" /\ XchgOk(t) /\ UNCHANGED hist
   \/ /\ Transient(t) /\ UNCHANGED hist
      /\ (XchgOk(t) \/ XchgBusy(t) \/ (pc[t] = "wonT" /\ RetOk(t)) \/ RetFail(t) \/ Store0(t) \/ RelRet(t)
            \/ StrayStore(t) \/ StrayRet(t))

Emit == (Len(hist) = MaxLen /\ Quiet) => CSVWrite("%1$s", <<ToJson(hist)>>, IOEnv.CASES)
====
