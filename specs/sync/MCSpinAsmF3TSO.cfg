CONSTANTS Tasks = {t1, t2, t3}  MaxOps = 1  YieldSet = TRUE  TSO = TRUE  Bug = "none"  RelPlain = FALSE  Nb0 = 7  EnvNb = FALSE
CONSTANT Prog <- ExtractedProg  EntryAcq <- ExtractedEntryAcq  EntryTry <- ExtractedEntryTry  EntryRel <- ExtractedEntryRel
SPECIFICATION Spec
INVARIANT MutualExclusion
INVARIANT HeldMeansLocked
INVARIANT FreeWhenIdle
INVARIANT Visibility
INVARIANT EntrySeesAll
INVARIANT NoWildAccess
INVARIANT NeighbourIntact
CHECK_DEADLOCK FALSE
SYMMETRY Symm
