---- MODULE MCSpinlock ----
(* Leg M for the property-level lock: every interleaving of MaxOps calls per task. *)
EXTENDS Spinlock, TLC
CONSTANT MaxOps
VARIABLE nops                       \* task -> calls started
vars == <<state, pc, counter, tmp, done, nops>>

Proceed(t) == (Silent(t) \/ RetOk(t) \/ RetFail(t) \/ RelCall(t) \/ RelRet(t) \/ StrayRet(t)) /\ UNCHANGED nops
Init == LockInit /\ nops = [t \in Tasks |-> 0]
Next == \E t \in Tasks :
          \/ /\ nops[t] < MaxOps /\ ((NoStray /\ (Call(t, "acq") \/ Call(t, "try"))) \/ StrayCall(t))
             /\ nops' = [nops EXCEPT ![t] = @ + 1]
          \/ Proceed(t)
Fair == \A t \in Tasks : WF_vars(Proceed(t))
Spec == Init /\ [][Next]_vars /\ Fair

TryHonest == [][TryHonestStep]_lockvars
\* after a release the lock can be taken again: whoever asked for the lock gets it (the bound on the
\* number of calls makes every competitor stop eventually, so weak fairness is enough)
EventuallyAcquired == \A t \in Tasks : (pc[t] = "acq") ~> (pc[t] = "cs")
Quiesces == <>[](\A t \in Tasks : pc[t] = "idle")
Symm == Permutations(Tasks)
====
