CONSTANT TraceDevs = {"FontPriorityGate", "LogoIgnoresFit"}
CONSTANT KeepGoing = FALSE
INIT Init
NEXT Next
POSTCONDITION Accepted
CHECK_DEADLOCK FALSE
