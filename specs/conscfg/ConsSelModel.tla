---- MODULE ConsSelModel ----
(***************************************************************************)
(* Design model for statements S1 and S2 of ConsCfg: loop-level            *)
(* transcriptions of font.FindByName, font.BestFit, logo.BestFit           *)
(* (font.go, logo.go), multiboot.GetBootCmdLine's token rules and          *)
(* hal.onConsoleInit (hal.go).  Init picks one case from the MC families,  *)
(* the single step runs the transcription, builds the event the Go harness *)
(* would log and has it judged by the very monitor operators that judge    *)
(* the real packages (ConsCfg!Mon).  Bug switches in realistic wrong       *)
(* designs which TLC must reject; Emit writes every case for leg G.        *)
(* A case is one uniform record:                                           *)
(*  [t, fonts, logos, w, h, name, cmd, capfont, caplogo, first]            *)
(***************************************************************************)
EXTENDS Integers, Sequences, FiniteSets, TLC, Json, CSV, IOUtils
CONSTANTS Cases, Bug, Emit, ModelDevs

P == INSTANCE ConsCfg WITH Devs <- ModelDevs

VARIABLES case, done, mismatch
vars == <<case, done, mismatch>>

(* ---- font.FindByName ---- *)
RECURSIVE NameLoop(_, _, _, _)
NameLoop(fonts, name, i, hit) ==
  IF i > Len(fonts) THEN hit
  ELSE IF fonts[i].name = name /\ (hit = 0 \/ Bug = "NameLastWins") THEN NameLoop(fonts, name, i + 1, i)
  ELSE NameLoop(fonts, name, i + 1, hit)
FindM(fonts, name) == IF Bug = "NameUnknownFirst" /\ NameLoop(fonts, name, 1, 0) = 0 /\ fonts # <<>> THEN 1
                      ELSE NameLoop(fonts, name, 1, 0)

(* ---- font.BestFit ---- *)
RECURSIVE FontLoop(_, _, _, _, _, _)
FontLoop(fonts, w, h, i, best, bestDelta) ==
  IF i > Len(fonts) THEN best
  ELSE LET f  == fonts[i]
           dW == IF f.rw > w THEN f.rw - w ELSE w - f.rw
           dH == IF Bug = "FontIgnoresHeight" THEN 0 ELSE IF f.rh > h THEN f.rh - h ELSE h - f.rh
           d  == dW + dH
           skip == CASE Bug = "FontTieKeepsFirst" -> fonts[best].prio < f.prio \/ d >= bestDelta
                     [] Bug = "FontNoPriority"    -> d > bestDelta
                     [] Bug = "FontDocRule"       -> ~(d < bestDelta \/ (d = bestDelta /\ f.prio < fonts[best].prio))
                     [] Bug = "FontPrioStrict"    -> fonts[best].prio <= f.prio \/ d > bestDelta
                     [] OTHER                     -> fonts[best].prio < f.prio \/ d > bestDelta
       IN IF best = 0 THEN FontLoop(fonts, w, h, i + 1, i, d)
          ELSE IF skip THEN FontLoop(fonts, w, h, i + 1, best, bestDelta)
          ELSE FontLoop(fonts, w, h, i + 1, i, d)
FontM(fonts, w, h) == FontLoop(fonts, w, h, 1, 0, 0)

(* ---- logo.BestFit ---- *)
RECURSIVE LogoLoop(_, _, _, _, _, _)
LogoLoop(logos, w, h, i, best, bestDelta) ==
  IF i > Len(logos) THEN best
  ELSE LET thr == IF Bug = "LogoThresholdWidth" THEN w \div 10 ELSE IF Bug = "LogoThresholdEighth" THEN h \div 8 ELSE h \div 10
           d == IF logos[i].h > thr THEN logos[i].h - thr ELSE IF Bug = "LogoNoAbs" THEN 0 ELSE thr - logos[i].h
           take == best = 0 \/ (IF Bug = "LogoTieLastWins" THEN d <= bestDelta ELSE d < bestDelta)
       IN IF take THEN LogoLoop(logos, w, h, i + 1, i, d) ELSE LogoLoop(logos, w, h, i + 1, best, bestDelta)
LogoM(logos, w, h) == LogoLoop(logos, w, h, 1, 0, 0)

(* ---- multiboot.GetBootCmdLine: the key/value map, as a sequence of <<key, value>> with unique keys ---- *)
Put(m, k, v) == IF \E i \in 1..Len(m) : m[i][1] = k
                THEN [i \in 1..Len(m) |-> IF m[i][1] = k THEN (IF Bug = "CmdFirstWins" THEN m[i] ELSE <<k, v>>) ELSE m[i]]
                ELSE Append(m, <<k, v>>)
RECURSIVE CmdMap(_, _, _)
CmdMap(cmd, i, m) ==
  IF i > Len(cmd) THEN m
  ELSE LET t == cmd[i] IN
       CmdMap(cmd, i + 1, IF Len(t) = 2 THEN Put(m, t[1], t[2])
                          ELSE IF Len(t) = 1 THEN Put(m, t[1], IF Bug = "CmdBareIsEmpty" THEN "" ELSE t[1])
                          ELSE IF Bug = "CmdExtraPartsKept" THEN Put(m, t[1], t[2]) ELSE m)

(* ---- hal.onConsoleInit ---- *)
HalM(c) ==
  IF ~c.first /\ Bug # "HalEveryConsole" THEN <<>>
  ELSE
  LET m == CmdMap(c.cmd, 1, <<>>)
      disable == \E i \in 1..Len(m) : m[i][1] = "consoleLogo" /\ (m[i][2] = "off" \/ (Bug = "HalLogoKeyDisables"))
      logoCall == IF c.caplogo /\ ~(disable /\ Bug # "HalLogoOffIgnored") THEN << <<"logo", LogoM(c.logos, c.w, c.h)>> >> ELSE <<>>
      req == {i \in 1..Len(m) : m[i][1] = "consoleFont"}
      named == IF req = {} THEN 0 ELSE FindM(c.fonts, m[CHOOSE i \in req : TRUE][2])
      sel == IF named # 0 THEN named
             ELSE IF Bug = "HalUnknownNameNil" /\ req # {} THEN 0
             ELSE FontM(c.fonts, IF Bug = "HalFontFromGrid" THEN 3 ELSE c.w, IF Bug = "HalFontFromGrid" THEN 2 ELSE c.h)
      fontCall == IF c.capfont THEN << <<"font", sel>> >> ELSE <<>>
  IN IF Bug = "HalFontBeforeLogo" THEN fontCall \o logoCall ELSE logoCall \o fontCall

(* ---- the event of a case ---- *)
EventOf(c) ==
  CASE c.t = "fbest" -> [k |-> "fbest", fonts |-> c.fonts, q |-> << <<c.w, c.h, FontM(c.fonts, c.w, c.h)>> >>]
    [] c.t = "fname" -> [k |-> "fname", fonts |-> c.fonts, q |-> << <<c.name, FindM(c.fonts, c.name)>> >>]
    [] c.t = "lbest" -> [k |-> "lbest", logos |-> c.logos, q |-> << <<c.w, c.h, LogoM(c.logos, c.w, c.h)>> >>]
    [] c.t = "hal"   -> [k |-> "hal", fonts |-> c.fonts, logos |-> c.logos, cmd |-> c.cmd, capfont |-> c.capfont, caplogo |-> c.caplogo,
                         first |-> c.first, w |-> c.w, h |-> c.h, calls |-> HalM(c), res |-> "ok",
                         active |-> c.first \/ Bug = "HalEveryConsole"]

Init == case \in Cases /\ done = FALSE /\ mismatch = <<>>
Next == /\ ~done
        /\ done' = TRUE
        /\ mismatch' = P!FirstFail(1, P!Mon(P!S0, EventOf(case), <<>>).cs)
        /\ UNCHANGED case

NoMismatch == mismatch = <<>>
EmitCase == (Emit /\ ~done) => CSVWrite("%1$s", <<ToJson(case)>>, IOEnv.CASES)
====
