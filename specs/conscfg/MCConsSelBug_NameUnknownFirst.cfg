CONSTANTS Bug = "NameUnknownFirst"  Emit = FALSE
CONSTANT Cases <- MCMutant
CONSTANT ModelDevs <- AllDevs
INIT Init
NEXT Next
INVARIANT NoMismatch
INVARIANT EmitCase
CHECK_DEADLOCK FALSE
