---- MODULE ConsCfg ----
(***************************************************************************)
(* extra-conscfg: console configuration and decoration (DESIGN 5 item 3).  *)
(*                                                                         *)
(* PROPERTY STATEMENTS                                                     *)
(*  S1 (selection) font.FindByName returns the first listed font whose     *)
(*     name equals the argument exactly and nil otherwise.  font.BestFit   *)
(*     returns nil for an empty list and otherwise the result of the       *)
(*     documented scan over the list in order (score = |recW - consW| +    *)
(*     |recH - consH|; a candidate with a lower score, or with the same    *)
(*     score and a priority that is not worse, replaces the best so far).  *)
(*     logo.BestFit returns nil for an empty list and otherwise the first  *)
(*     listed logo whose height is closest to consH / 10.                  *)
(*  S2 (boot-time configuration) hal.onConsoleInit configures only the     *)
(*     first console: if it can show logos and the boot command line does  *)
(*     not say consoleLogo=off it receives SetLogo(logo.BestFit(pixel      *)
(*     size)); then, if it can load fonts, SetFont with the font named by  *)
(*     consoleFont=<name> when that name is known and font.BestFit(pixel   *)
(*     size) otherwise; the logo is applied before the font.               *)
(*  S3 (decoration) VesaFbConsole.SetLogo maps the logo palette to the     *)
(*     last entries of the console palette (transparent index -> current   *)
(*     default background colour), draws the logo byte-exactly at the top  *)
(*     of the framebuffer at its aligned position and reserves its height: *)
(*     a following SetFont yields width / glyphW columns and               *)
(*     (height - logoH) / glyphH rows and text starts below the logo.      *)
(*     SetPaletteColor stores the entry (Palette() shows it), programs the *)
(*     DAC (index, R/4, G/4, B/4 on ports 3c8/3c9) on 8-bpp and text       *)
(*     consoles and, on direct-colour framebuffers, turns exactly the      *)
(*     visible pixels below the logo that held the packed old colour into  *)
(*     the packed new colour; nothing else in or around the buffer changes.*)
(*                                                                         *)
(* The statements are written as monitor operators over one observed event *)
(* (Judge* / Mon) shared by the design models (ConsSelModel, ConsDecModel) *)
(* and by the trace monitor ConsCfgTrace that judges the real Go packages. *)
(* Pixel packing, buffer diffs and the Write rule come from ConsoleBase,   *)
(* this family's own snapshot of the C19 module Console.tla.  Painted      *)
(* pixels are judged byte-exactly, except for the low bits of a colour     *)
(* field wider than 8 bits (component left-justified, low bits free).      *)
(*                                                                         *)
(* NAMED DEVIATIONS (constant Devs; the strict rule reports a diagnosis    *)
(* whose first element is "Dev_<name>"; with the name in Devs the          *)
(* behaviour of the pinned tree is what the rule demands):                 *)
(*  Dev_FontPriorityGate  font.BestFit's doc comment says a lower score    *)
(*     always wins and priority only breaks ties.  The code refuses every  *)
(*     candidate whose priority number is larger than the current best's   *)
(*     before it looks at the score, so the result depends on list order   *)
(*     and a worse-fitting font can win (S1 describes the code).           *)
(*  Dev_LogoIgnoresFit  logo.BestFit looks at the console height only and  *)
(*     never answers "no fit": it can return a logo that is wider or       *)
(*     higher than the console, and SetLogo does not clip (the generators  *)
(*     only use logos that fit).                                           *)
(*  Dev_ReplaceLinearScan  replace16/replace24 (reached through            *)
(*     SetPaletteColor) walk the buffer from the first text row to its end *)
(*     in steps of one pixel, ignoring the pitch.  When the pitch is not a *)
(*     multiple of the pixel size the walk is misaligned from the second   *)
(*     row on (pixels that hold the old colour are missed, byte groups     *)
(*     that straddle two pixels are rewritten) and, when the walked region *)
(*     is not a whole number of pixels, the last partial group is compared *)
(*     byte by byte and indexes past the slice (run-time panic) as soon as *)
(*     its bytes match.  Generators keep pitch % bytesPerPixel = 0; the    *)
(*     probe leg documents the class.                                      *)
(* Modelling decisions that are part of S3 (not deviations): the reserved  *)
(* logo rows are not recoloured by SetPaletteColor; a pixel-aligned slot   *)
(* of row padding that happens to hold the old colour may or may not be    *)
(* recoloured; pixels are compared by their stored bytes (two palette      *)
(* entries with the same packed colour are indistinguishable).             *)
(***************************************************************************)
EXTENDS Integers, Sequences, FiniteSets, Bitwise, TLC
CONSTANTS Devs

C == INSTANCE ConsoleBase       \* the family's own snapshot of the C19 pixel / diff / Write operators
W32 == INSTANCE Word WITH LimbBits <- 16, NLimbs <- 2

Abs(a) == IF a < 0 THEN -a ELSE a
MinOf(S) == CHOOSE i \in S : \A j \in S : i <= j
MaxOf(S) == CHOOSE i \in S : \A j \in S : i >= j

(* ======================================================================= *)
(* S1  selection.  A font is [name, rw, rh, prio, gw, gh]; a logo [w, h].  *)
(* Results are list positions (1-based), 0 = nil.                          *)
(* ======================================================================= *)
FindByName(fonts, name) ==
  LET S == {i \in 1..Len(fonts) : fonts[i].name = name} IN IF S = {} THEN 0 ELSE MinOf(S)

Score(f, w, h) == Abs(f.rw - w) + Abs(f.rh - h)

\* the doc comment: minimal score, then minimal priority number (ties beyond that are not decided by the comment)
DocBest(fonts, w, h) ==
  {i \in 1..Len(fonts) : \A j \in 1..Len(fonts) :
      \/ Score(fonts[i], w, h) < Score(fonts[j], w, h)
      \/ (Score(fonts[i], w, h) = Score(fonts[j], w, h) /\ fonts[i].prio <= fonts[j].prio)}

\* the scan of the pinned tree: candidate i replaces best b iff its priority is not worse and its score is not worse
RECURSIVE GateScan(_, _, _, _, _)
GateScan(fonts, w, h, i, b) ==
  IF i > Len(fonts) THEN b
  ELSE IF b = 0 THEN GateScan(fonts, w, h, i + 1, i)
  ELSE IF fonts[i].prio <= fonts[b].prio /\ Score(fonts[i], w, h) <= Score(fonts[b], w, h)
       THEN GateScan(fonts, w, h, i + 1, i)
       ELSE GateScan(fonts, w, h, i + 1, b)
FontBest(fonts, w, h) == GateScan(fonts, w, h, 1, 0)

\* <<>> or a diagnosis
FontBestCheck(fonts, w, h, got) ==
  LET code == FontBest(fonts, w, h)  doc == DocBest(fonts, w, h) IN
  IF "FontPriorityGate" \in Devs
  THEN (IF got = code THEN <<>> ELSE <<"font.BestFit chose the wrong font", "console", w, h, "got", got, "want", code>>)
  ELSE IF (fonts = <<>> /\ got = 0) \/ got \in doc THEN <<>>
  ELSE IF got = code THEN <<"Dev_FontPriorityGate", "font.BestFit kept a font with a better priority although another one has a lower score",
                            "console", w, h, "got", got, "documented choice", doc>>
  ELSE <<"font.BestFit chose the wrong font", "console", w, h, "got", got, "documented choice", doc>>

LogoDelta(l, h) == Abs(l.h - (h \div 10))
LogoBest(logos, h) ==
  IF logos = <<>> THEN 0
  ELSE MinOf({i \in 1..Len(logos) : \A j \in 1..Len(logos) : LogoDelta(logos[i], h) <= LogoDelta(logos[j], h)})
LogoFits(l, w, h) == l.w <= w /\ l.h <= h
LogoBestCheck(logos, w, h, got) ==
  LET code == LogoBest(logos, h) IN
  IF got # code THEN <<"logo.BestFit chose the wrong logo", "console", w, h, "got", got, "want", code>>
  ELSE IF got # 0 /\ ~LogoFits(logos[got], w, h) /\ "LogoIgnoresFit" \notin Devs
       THEN <<"Dev_LogoIgnoresFit", "logo.BestFit returned a logo that is larger than the console", "console", w, h, "logo", logos[got]>>
  ELSE <<>>

\* first failing element of a sequence of diagnoses
FirstOf(cs) == LET S == {i \in 1..Len(cs) : cs[i] # <<>>} IN IF S = {} THEN <<>> ELSE cs[MinOf(S)]

\* events of the selection functions; q = sequence of queries <<w, h, got>> resp. <<name, got>>
JudgeSel(e) ==
  CASE e.k = "fbest" -> FirstOf([i \in 1..Len(e.q) |-> FontBestCheck(e.fonts, e.q[i][1], e.q[i][2], e.q[i][3])])
    [] e.k = "fname" -> FirstOf([i \in 1..Len(e.q) |->
                           LET want == FindByName(e.fonts, e.q[i][1]) IN
                           IF e.q[i][2] = want THEN <<>>
                           ELSE <<"font.FindByName returned the wrong font", "name", e.q[i][1], "got", e.q[i][2], "want", want>>])
    [] e.k = "lbest" -> FirstOf([i \in 1..Len(e.q) |-> LogoBestCheck(e.logos, e.q[i][1], e.q[i][2], e.q[i][3])])

(* ======================================================================= *)
(* S2  hal.onConsoleInit.  cmd = sequence of tokens, a token = sequence of *)
(* its "="-separated parts (the harness joins parts with "=" and tokens    *)
(* with blanks).  multiboot.GetBootCmdLine: k=v sets k to v, a bare k sets *)
(* k to k, tokens with more than one "=" are ignored, later tokens win.    *)
(* ======================================================================= *)
CmdHas(cmd, key) == \E i \in 1..Len(cmd) : Len(cmd[i]) \in {1, 2} /\ cmd[i][1] = key
CmdVal(cmd, key) ==
  LET i == MaxOf({j \in 1..Len(cmd) : Len(cmd[j]) \in {1, 2} /\ cmd[j][1] = key}) IN
  IF Len(cmd[i]) = 2 THEN cmd[i][2] ELSE key

\* the configuration calls the console must receive, in order: <<"logo", position>>, <<"font", position>>
HalCalls(e) ==
  IF ~e.first THEN <<>>
  ELSE LET logoOff == CmdHas(e.cmd, "consoleLogo") /\ CmdVal(e.cmd, "consoleLogo") = "off"
           named == IF CmdHas(e.cmd, "consoleFont") THEN FindByName(e.fonts, CmdVal(e.cmd, "consoleFont")) ELSE 0
           fnt == IF named # 0 THEN named ELSE FontBest(e.fonts, e.w, e.h)
       IN (IF e.caplogo /\ ~logoOff THEN << <<"logo", LogoBest(e.logos, e.h)>> >> ELSE <<>>)
          \o (IF e.capfont THEN << <<"font", fnt>> >> ELSE <<>>)

JudgeHal(e) ==
  LET want == HalCalls(e) IN
  IF e.res # "ok" THEN <<"hal.onConsoleInit did not return normally", e.res>>
  ELSE IF e.calls # want THEN <<"hal.onConsoleInit configured the console differently", "cmdline", e.cmd, "got", e.calls, "want", want>>
  ELSE IF e.active # e.first THEN <<"active console", "first", e.first, "became active", e.active>>
  ELSE <<>>

(* ======================================================================= *)
(* S3  decoration.  Monitor state:                                         *)
(*   g    geometry [cons, w, h, pitch, bpp, ci]                            *)
(*   offY reserved rows, fnt = <<>> or [gw, gh, bpr], cols, nrows          *)
(*   pal  palette: sequence of <<r, g, b, a>> (256 for fb, 16 for vga)     *)
(*   rows buffer content, one sequence of `pitch` elements per row         *)
(* Events: init, setlogo, setfont, setpal, write, chk, reset.  Every call  *)
(* event carries res, d (diff spans as in Console.tla), guard, ports       *)
(* (sequence of <<port, value>>), pd (palette entries that changed:        *)
(* <<index, r, g, b, a>>) and cols, nrows (Dimensions(Characters) after).  *)
(* ======================================================================= *)
EgaPal == << <<0, 0, 0>>, <<0, 0, 128>>, <<0, 128, 0>>, <<0, 128, 128>>, <<128, 0, 0>>, <<128, 0, 128>>, <<64, 64, 0>>,
             <<128, 128, 128>>, <<64, 64, 64>>, <<0, 0, 255>>, <<0, 255, 0>>, <<0, 255, 255>>, <<255, 0, 0>>, <<255, 0, 255>>,
             <<255, 255, 0>>, <<255, 255, 255>> >>
\* EGA colour index -> DAC register of VGA mode 3 (default attribute controller palette)
EgaDac == <<0, 1, 2, 3, 4, 5, 20, 7, 56, 57, 58, 59, 60, 61, 62, 63>>
Dac6(c) == <<c[1] \div 4, c[2] \div 4, c[3] \div 4>>
DacSeq(reg, c) == << <<968, reg>>, <<969, c[1] \div 4>>, <<969, c[2] \div 4>>, <<969, c[3] \div 4>> >>
RECURSIVE Cat(_, _)
Cat(f, n) == IF n = 0 THEN <<>> ELSE Cat(f, n - 1) \o f[n]          \* f[1] \o ... \o f[n]

IsFb(g) == g.cons = "fb"
BppOf(g) == IF IsFb(g) THEN (g.bpp + 1) \div 8 ELSE 1
\* all stored bytes of a pixel painted with colour c = <<r, g, b, ..>> (packColor16 / packColor32)
PackPx(g, c) == [k \in 1..BppOf(g) |-> C!PackByte(g.ci, c, k - 1)]
PixelOf(g, pal, ci) == IF g.bpp = 8 THEN <<ci>> ELSE PackPx(g, pal[ci + 1])
\* the stored bytes `have` are a painting of the packed colour `want`: byte-exact, except for the low bits of colour
\* fields wider than 8 bits (the driver left-justifies the 8-bit component there; those bits are not constrained)
PxEq(g, have, want) == have = want \/ (g.wide /\ \A k \in 1..Len(want) : (have[k] & g.care[k]) = (want[k] & g.care[k]))

S0 == [on |-> FALSE, g |-> <<>>, offY |-> 0, fnt |-> <<>>, cols |-> 0, nrows |-> 0, pal |-> <<>>, rows |-> <<>>]

ApplyPd(pal, pd) == [i \in 1..Len(pal) |->
                       LET S == {j \in 1..Len(pd) : pd[j][1] = i - 1} IN
                       IF S = {} THEN pal[i] ELSE LET j == MaxOf(S) IN <<pd[j][2], pd[j][3], pd[j][4], pd[j][5]>>]

\* a changed span (d[i] = <<row, first element, new values>>) that is not inside rows r0..r1, elements c0..c1 (0-based,
\* inclusive): <<>> if none.  (Own definition: Console!Outside is about the text grid and its free area.)
OutsideRect(d, r0, r1, c0, c1, what) ==
  LET S == {i \in 1..Len(d) : ~(d[i][1] >= r0 /\ d[i][1] <= r1 /\ d[i][2] >= c0 /\ d[i][2] + Len(d[i][3]) - 1 <= c1)}
  IN IF S = {} THEN <<>>
     ELSE LET i == CHOOSE j \in S : \A k \in S : j <= k
          IN <<what, "row", d[i][1], "elements", d[i][2], d[i][2] + Len(d[i][3]) - 1, "allowed rows", r0, r1, "allowed elements", c0, c1>>

Unchanged(d, what) == IF d = <<>> THEN <<>> ELSE <<what, "row", d[1][1], "elements", d[1][2], d[1][2] + Len(d[1][3]) - 1>>

MonInit(e) ==
  LET g0 == [cons |-> e.cons, w |-> e.w, h |-> e.h, pitch |-> e.pitch, bpp |-> e.bpp, ci |-> e.ci]
      \* wide: some colour field has more than 8 bits; care[k]: the bits of byte k that are not low bits of such a field
      wd == IsFb(g0) /\ g0.bpp > 8 /\ C!HasWideField(e.ci)
      g == g0 @@ [wide |-> wd, care |-> IF wd THEN [k \in 1..BppOf(g0) |-> 255 - C!SlackByte(e.ci, k - 1)] ELSE <<>>]
      n == IF IsFb(g) THEN 256 ELSE 16
      def(i) == IF i <= 16 THEN EgaPal[i] ELSE <<0, 0, 0>>
      badPal == IF Len(e.pal) # n THEN {0} ELSE {i \in 1..n : Dac6(e.pal[i]) # Dac6(def(i))}
      wantPorts == IF IsFb(g) /\ g.bpp = 8 THEN Cat([i \in 1..256 |-> DacSeq(i - 1, e.pal[i])], 256) ELSE <<>>
  IN [s |-> [on |-> TRUE, g |-> g, offY |-> 0, fnt |-> <<>>, cols |-> e.cols, nrows |-> e.nrows, pal |-> e.pal, rows |-> e.rows],
      cs |-> <<
        IF Len(e.rows) = e.h /\ \A r \in 1..e.h : Len(e.rows[r]) = e.pitch THEN <<>> ELSE <<"harness: malformed init event">>,
        IF badPal = {} THEN <<>> ELSE <<"default palette is not the EGA palette followed by black", "first differing index", MinOf(badPal) - 1>>,
        IF e.ports = wantPorts THEN <<>> ELSE <<"DAC programming during DriverInit", "port writes", Len(e.ports), "expected", Len(wantPorts)>>,
        IF IsFb(g) THEN (IF e.cols = 0 /\ e.nrows = 0 THEN <<>> ELSE <<"text grid before a font is set", e.cols, e.nrows>>)
        ELSE (IF e.cols = e.w /\ e.nrows = e.h THEN <<>> ELSE <<"text console grid", e.cols, e.nrows>>),
        IF e.px = (IF IsFb(g) THEN <<e.w, e.h>> ELSE <<e.w * 8, e.h * 16>>) THEN <<>> ELSE <<"Dimensions(Pixels)", e.px>>,
        IF e.capfont = IsFb(g) /\ e.caplogo = IsFb(g) THEN <<>> ELSE <<"FontSetter / LogoSetter capabilities", e.capfont, e.caplogo>> >>]

(* ---- SetFont ---- *)
SetFontCheck(s, got, e) ==
  IF e.nil THEN [s |-> s, c |-> <<>>]
  ELSE [s |-> [s EXCEPT !.fnt = [gw |-> e.gw, gh |-> e.gh, bpr |-> e.bpr],
                        !.cols = s.g.w \div e.gw, !.nrows = (s.g.h - s.offY) \div e.gh], c |-> <<>>]

(* ---- SetLogo ----  logo l = [w, h, align, ti, pal (sequence of <<r,g,b,a>>), data] *)
LogoX0(g, l) == CASE l.align = 0 -> 0 [] l.align = 1 -> (g.w - l.w) \div 2 [] l.align = 2 -> g.w - l.w
LogoOff(l) == 256 - Len(l.pal)
LogoPal(pal, l) == [i \in 1..256 |->
                      LET j == i - 1 - LogoOff(l) IN
                      IF j < 0 THEN pal[i] ELSE IF j = l.ti THEN <<pal[1][1], pal[1][2], pal[1][3], pal[1][4]>> ELSE l.pal[j + 1]]
LogoUsable(s, l) == l.w <= s.g.w /\ s.offY + l.h <= s.g.h /\ Len(l.pal) < 256 /\ l.align \in 0..2 /\ Len(l.data) = l.w * l.h

SetLogoCheck(s, got, e) ==
  IF e.nil THEN [s |-> s, c |-> Unchanged(e.d, "SetLogo(nil) changed the buffer")]
  ELSE
  LET l == e.l  g == s.g  B == BppOf(g)
      pal2 == LogoPal(s.pal, l)
      off == LogoOff(l)
      r0 == s.offY  x0 == LogoX0(g, l)
      c0 == x0 * B  c1 == c0 + l.w * B - 1
      used == {l.data[i] : i \in 1..Len(l.data)}
      lut == [c \in used |-> PixelOf(g, pal2, (c + off) % 256)]
      Seg(y) == [j \in 1..(l.w * B) |-> lut[l.data[y * l.w + ((j - 1) \div B) + 1]][((j - 1) % B) + 1]]
      out == OutsideRect(e.d, r0, r0 + l.h - 1, c0, c1, "SetLogo changed elements outside the logo rectangle")
      ElOK(y, j) == got[r0 + y + 1][c0 + j] = Seg(y)[j]
                    \/ (g.wide /\ (got[r0 + y + 1][c0 + j] & g.care[((j - 1) % B) + 1]) = (Seg(y)[j] & g.care[((j - 1) % B) + 1]))
      bad == {y \in 0..(l.h - 1) : SubSeq(got[r0 + y + 1], c0 + 1, c1 + 1) # Seg(y) /\ ~(g.wide /\ \A j \in 1..(l.w * B) : ElOK(y, j))}
      wantPorts == IF g.bpp = 8 THEN Cat([i \in 1..Len(l.pal) |-> DacSeq(off + i - 1, pal2[off + i])], Len(l.pal)) ELSE <<>>
  IN [s |-> [s EXCEPT !.pal = pal2, !.offY = l.h],
      c |-> IF l.w = 0 \/ l.h = 0 THEN Unchanged(e.d, "SetLogo with an empty logo changed the buffer")
            ELSE IF out # <<>> THEN out
            ELSE IF bad # {}
            THEN LET y == MinOf(bad)
                     X == {j \in 1..(l.w * B) : ~ElOK(y, j)}
                     j == MinOf(X)
                 IN <<"SetLogo drew a wrong pixel", "logo row", y, "logo column", (j - 1) \div B, "buffer row", r0 + y, "element", c0 + j - 1,
                      "got", got[r0 + y + 1][c0 + j], "want", Seg(y)[j], "logo colour", l.data[y * l.w + ((j - 1) \div B) + 1]>>
            ELSE IF e.ports # wantPorts THEN <<"SetLogo DAC programming", "got", e.ports, "want", wantPorts>>
            ELSE <<>>]

(* ---- SetPaletteColor ---- *)
\* the walk of replace16/24 over the flattened buffer (0-based byte offsets; slot j covers start + j*B ..)
Flat(rows, pitch) == [o \in 1..(Len(rows) * pitch) |-> rows[((o - 1) \div pitch) + 1][((o - 1) % pitch) + 1]]
LinearReplace(flat, start, B, src, dst) ==
  LET N == Len(flat)
      nfull == (N - start) \div B
      t == (N - start) % B
      Match(j) == \A k \in 1..B : flat[start + j * B + k] = src[k]
  IN [fb |-> [o \in 1..N |-> IF o > start /\ (o - start - 1) \div B < nfull /\ Match((o - start - 1) \div B)
                                THEN dst[((o - start - 1) % B) + 1] ELSE flat[o]],
      panic |-> t > 0 /\ \A k \in 1..t : flat[start + nfull * B + k] = src[k]]

ReplaceCheck(s, got, e, oldc) ==
  LET g == s.g  B == BppOf(g)
      src == PackPx(g, oldc)  dst == PackPx(g, e.c)
      aligned == g.pitch % B = 0
      nslots == g.pitch \div B
      Slot(row, p) == SubSeq(row, p * B + 1, p * B + B)
      \* a visible pixel o -> n: one that holds the old colour byte for byte becomes the new colour; one that differs from
      \* the old colour in constrained bits stays; one that differs only in the low bits of a wide field may do either
      Holds(o) == o = src \/ (g.wide /\ PxEq(g, o, src))
      VisOK(o, n) == IF o = src THEN PxEq(g, n, dst) ELSE IF Holds(o) THEN n = o \/ PxEq(g, n, dst) ELSE n = o
      PadOK(o, n) == n = o \/ (Holds(o) /\ PxEq(g, n, dst))
      \* strict, row-wise rule: visible pixels of the text rows; padding slots are lenient when they are pixel-aligned
      RowOK(r) ==
        IF r < s.offY THEN got[r + 1] = s.rows[r + 1]
        ELSE IF src = dst THEN got[r + 1] = s.rows[r + 1]
        ELSE /\ \A p \in 0..(g.w - 1) : VisOK(Slot(s.rows[r + 1], p), Slot(got[r + 1], p))
             /\ IF aligned
                THEN \A p \in g.w..(nslots - 1) : PadOK(Slot(s.rows[r + 1], p), Slot(got[r + 1], p))
                ELSE SubSeq(got[r + 1], g.w * B + 1, g.pitch) = SubSeq(s.rows[r + 1], g.w * B + 1, g.pitch)
      badRows == {r \in 0..(g.h - 1) : ~RowOK(r)}
      strictOK == e.res = "ok" /\ badRows = {}
      lin == LinearReplace(Flat(s.rows, g.pitch), s.offY * g.pitch, B, src, dst)
      linOK == (e.res = "panic") = lin.panic /\ Flat(got, g.pitch) = lin.fb
      diag == IF e.res # "ok" THEN <<"SetPaletteColor did not return normally", e.res>>
              ELSE LET r == MinOf(badRows)
                       P == {p \in 0..(nslots - 1) : IF r >= s.offY /\ p < g.w THEN ~VisOK(Slot(s.rows[r + 1], p), Slot(got[r + 1], p))
                                                     ELSE Slot(got[r + 1], p) # Slot(s.rows[r + 1], p)}
                   IN <<"SetPaletteColor recoloured the wrong pixels", "row", r,
                        IF r < s.offY THEN "logo row changed" ELSE "text row", "first wrong pixel slot", IF P = {} THEN -1 ELSE MinOf(P),
                        "old colour bytes", src, "new colour bytes", dst>>
  IN IF strictOK THEN <<>>
     ELSE IF aligned THEN diag
     ELSE IF "ReplaceLinearScan" \in Devs THEN (IF linOK THEN <<>> ELSE <<"SetPaletteColor: neither the row-wise rule nor the linear walk of the pinned tree", e.res>>)
     ELSE IF linOK THEN <<"Dev_ReplaceLinearScan", "replace16/24 walked the buffer ignoring the pitch",
                          IF e.res = "panic" THEN "and indexed past the slice (panic)" ELSE "and recoloured misaligned byte groups",
                          "width", g.w, "height", g.h, "pitch", g.pitch, "bpp", g.bpp, "offsetY", s.offY>>
     ELSE diag

SetPalCheck(s, got, e) ==
  LET g == s.g IN
  IF ~IsFb(g)
  THEN IF e.idx >= 16 THEN [s |-> s, c |-> IF e.ports = <<>> THEN Unchanged(e.d, "text console SetPaletteColor changed the buffer")
                                           ELSE <<"text console SetPaletteColor with an index above 15 programmed the DAC", e.ports>>]
       ELSE [s |-> [s EXCEPT !.pal[e.idx + 1] = e.c],
             c |-> IF e.ports # DacSeq(EgaDac[e.idx + 1], e.c) THEN <<"text console DAC programming", "got", e.ports, "want", DacSeq(EgaDac[e.idx + 1], e.c)>>
                   ELSE Unchanged(e.d, "text console SetPaletteColor changed the buffer")]
  ELSE
  LET oldc == s.pal[e.idx + 1] IN
  IF oldc = e.c THEN [s |-> s, c |-> IF e.ports # <<>> THEN <<"SetPaletteColor with the colour already stored programmed the DAC", e.ports>>
                                     ELSE Unchanged(e.d, "SetPaletteColor with the colour already stored changed the buffer")]
  ELSE [s |-> [s EXCEPT !.pal[e.idx + 1] = e.c],
        c |-> IF g.bpp = 8
              THEN (IF e.ports # DacSeq(e.idx, e.c) THEN <<"SetPaletteColor DAC programming", "got", e.ports, "want", DacSeq(e.idx, e.c)>>
                    ELSE Unchanged(e.d, "SetPaletteColor on an indexed framebuffer changed the buffer"))
              ELSE IF e.ports # <<>> THEN <<"SetPaletteColor on a direct-colour framebuffer programmed the DAC", e.ports>>
              ELSE ReplaceCheck(s, got, e, oldc)]

(* ---- Write: text starts below the logo (judged by the C19 operator) ---- *)
WriteCheck(s, got, e, fd) ==
  LET ge == [w |-> s.g.w, h |-> s.g.h, pitch |-> s.g.pitch, bpp |-> s.g.bpp, ci |-> s.g.ci,
             gw |-> s.fnt.gw, gh |-> s.fnt.gh, bpr |-> s.fnt.bpr, offY |-> s.offY]
      g == C!Geo(ge) @@ [fd |-> fd, pal |-> s.pal]
  IN C!WriteCheck(g, s.rows, got, e)

(* ---- the monitor ---- *)
\* fd: font data of the font in effect (only looked at by write events)
MonCall(s, e, fd) ==
  LET got == C!ApplyDiff(s.rows, e.d, 1)
      r == CASE e.k = "setfont" -> SetFontCheck(s, got, e)
             [] e.k = "setlogo" -> SetLogoCheck(s, got, e)
             [] e.k = "setpal"  -> SetPalCheck(s, got, e)
             [] e.k = "write"   -> [s |-> s, c |-> WriteCheck(s, got, e, fd)]
      s2 == [r.s EXCEPT !.rows = got]
      usable == e.k # "setlogo" \/ e.nil \/ LogoUsable(s, e.l)
      panicOK == e.k = "setpal" /\ IsFb(s.g) /\ s.g.bpp > 8 /\ s.g.pitch % BppOf(s.g) # 0      \* judged by ReplaceCheck
  IN IF ~usable
     THEN [s |-> [s EXCEPT !.rows = got], cs |-> << IF "LogoIgnoresFit" \in Devs THEN <<>>
                               ELSE <<"Dev_LogoIgnoresFit", "SetLogo was given a logo that does not fit the framebuffer", "result", e.res,
                                      "logo", e.l.w, e.l.h, "console", s.g.w, s.g.h>> >>]
     ELSE
     [s |-> s2,
      cs |-> <<
        IF e.res = "ok" \/ panicOK THEN <<>> ELSE <<"call did not return normally", e.k, e.res>>,
        IF e.guard = 0 THEN <<>> ELSE <<"memory outside the framebuffer changed", e.k, e.guard>>,
        IF e.res = "ok" \/ panicOK THEN r.c ELSE <<>>,
        IF e.res # "ok" \/ e.k # "setfont" THEN <<>> ELSE Unchanged(e.d, "SetFont changed the buffer"),
        IF e.res # "ok" \/ ApplyPd(s.pal, e.pd) = s2.pal THEN <<>>
        ELSE <<"Palette() after the call", e.k, "changed entries", e.pd>>,
        IF e.res # "ok" \/ e.k \in {"setlogo", "setpal"} \/ e.ports = <<>> THEN <<>> ELSE <<"unexpected port writes", e.k, e.ports>>,
        IF e.res # "ok" \/ (e.cols = s2.cols /\ e.nrows = s2.nrows) THEN <<>>
        ELSE <<"Dimensions(Characters) after the call", e.k, "got", e.cols, e.nrows, "want", s2.cols, s2.nrows>> >>]

MonChk(s, e) ==
  [s |-> s, cs |-> << IF e.rows = s.rows THEN <<>> ELSE <<"harness: checkpoint differs from the content tracked through the diffs">> >>]

Mon(s, e, fd) == CASE e.k = "init"  -> MonInit(e)
                   [] e.k = "reset" -> [s |-> S0, cs |-> <<>>]
                   [] e.k = "chk"   -> MonChk(s, e)
                   [] e.k \in {"fbest", "fname", "lbest"} -> [s |-> s, cs |-> <<JudgeSel(e)>>]
                   [] e.k = "hal"   -> [s |-> s, cs |-> <<JudgeHal(e)>>]
                   [] OTHER         -> MonCall(s, e, fd)

FirstFail(line, cs) ==
  LET S == {i \in 1..Len(cs) : cs[i] # <<>>} IN
  IF S = {} THEN <<>> ELSE <<line, "extra-conscfg", cs[MinOf(S)]>>
====
