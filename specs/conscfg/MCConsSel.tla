---- MODULE MCConsSel ----
(* Small-scope case families for ConsSelModel.                                                          *)
(*  fonts  : every list of up to 3 fonts over a universe of 5 (recommended sizes 4x4, 8x8, 8x4, 12x8;   *)
(*           priorities 0, 1, 2) x consoles {0,4,6,8,12} x {0,4,6,8,12}                                 *)
(*  names  : every list of up to 3 fonts named "a", "ab", "A", "" x queries "a","ab","A","","b","abc"   *)
(*  logos  : every list of up to 3 logos of heights 1,2,3,5 x console heights around the thresholds     *)
(*  hal    : capabilities x first/second console x command lines of up to 2 tokens over 8 tokens x      *)
(*           3 font lists x 2 logo lists x 2 resolutions                                                *)
EXTENDS ConsSelModel

SeqsUpTo(S, n) == UNION {[1..k -> S] : k \in 0..n}
F(name, rw, rh, prio) == [name |-> name, rw |-> rw, rh |-> rh, prio |-> prio, gw |-> 8, gh |-> 16]
L(w, h) == [w |-> w, h |-> h]
Case(t, fonts, logos, w, h, name, cmd, cf, cl, first) ==
  [t |-> t, fonts |-> fonts, logos |-> logos, w |-> w, h |-> h, name |-> name, cmd |-> cmd, capfont |-> cf, caplogo |-> cl, first |-> first]

FontU  == {F("a", 4, 4, 0), F("b", 8, 8, 0), F("c", 8, 4, 1), F("d", 4, 4, 1), F("e", 12, 8, 2)}
Dims   == {0, 4, 6, 8, 12}
FontCases(n) == {Case("fbest", fl, <<>>, w, h, "", <<>>, FALSE, FALSE, TRUE) : fl \in SeqsUpTo(FontU, n), w \in Dims, h \in Dims}

NameU  == {F("a", 4, 4, 0), F("ab", 8, 8, 0), F("A", 8, 4, 0), F("", 4, 8, 0)}
NameCases(n) == {Case("fname", fl, <<>>, 0, 0, nm, <<>>, FALSE, FALSE, TRUE) : fl \in SeqsUpTo(NameU, n), nm \in {"a", "ab", "A", "", "b", "abc"}}

LogoU  == {L(2, 1), L(2, 2), L(3, 3), L(2, 5)}
LogoH  == {0, 9, 10, 15, 19, 20, 25, 29, 30, 39, 40, 45, 50, 60, 100}
LogoCases(n) == {Case("lbest", <<>>, ll, w, h, "", <<>>, FALSE, FALSE, TRUE) : ll \in SeqsUpTo(LogoU, n), w \in {1, 40}, h \in LogoH}

Tokens == {<<"consoleLogo", "off">>, <<"consoleLogo", "on">>, <<"consoleLogo">>, <<"consolelogo", "off">>,
           <<"consoleFont", "b">>, <<"consoleFont", "zz">>, <<"consoleFont", "a", "b">>, <<"consoleFont">>}
HalFonts == {<<>>, <<F("a", 4, 4, 0), F("b", 12, 12, 0)>>, <<F("b", 4, 4, 0), F("c", 12, 12, 1), F("b", 12, 12, 0), F("consoleFont", 4, 4, 3)>>}
HalLogos == {<<>>, <<L(2, 1), L(2, 4)>>}
HalCases(n) == {Case("hal", fl, ll, d[1], d[2], "", cmd, cf, cl, first) :
                  fl \in HalFonts, ll \in HalLogos, d \in {<<4, 4>>, <<12, 40>>}, cmd \in SeqsUpTo(Tokens, n),
                  cf \in BOOLEAN, cl \in BOOLEAN, first \in BOOLEAN}

\* design mutants: a family that is quick to enumerate (the hal cases keep the richest font and logo list)
HalCasesM == {c \in HalCases(2) : Len(c.fonts) = 4 /\ Len(c.logos) = 2}
MCMutant == FontCases(2) \cup NameCases(2) \cup LogoCases(2) \cup HalCasesM
MCFull  == FontCases(3) \cup NameCases(3) \cup LogoCases(3) \cup HalCases(2)
MCQuick == FontCases(2) \cup NameCases(2) \cup LogoCases(2) \cup HalCases(2)
AllDevs == {"FontPriorityGate", "LogoIgnoresFit"}
NoDevs == {}
OnlyLogoDev == {"LogoIgnoresFit"}
OnlyFontDev == {"FontPriorityGate"}
====
