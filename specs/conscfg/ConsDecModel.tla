---- MODULE ConsDecModel ----
(***************************************************************************)
(* Design model for statement S3 of ConsCfg: a byte-level transcription of *)
(*   VesaFbConsole.SetLogo / SetFont / SetPaletteColor / setPaletteColor / *)
(*   replace16 / replace24 / fbOffset                     (vesa_fb.go)     *)
(*   VgaTextConsole.SetPaletteColor                       (vga_text.go)    *)
(* over a flat buffer (offset o of the Go slice is fb[o + 1]) with Go's    *)
(* bounds checks, plus Write / write8,16,24 (all bytes of a pixel stored).  *)
(* A geometry is chosen in Init; every action produces the event the Go    *)
(* harness would log (outcome, buffer diff, palette diff, port writes,     *)
(* text grid) and the event is judged by ConsCfg!Mon, the same operators   *)
(* that judge traces of the real package.  Bug re-creates wrong designs    *)
(* that TLC must reject.  With Emit the run writes the tables, every       *)
(* geometry (with its initial content) and every explored script for leg G.*)
(***************************************************************************)
EXTENDS Integers, Sequences, FiniteSets, TLC, Json, CSV, IOUtils, Bitwise
CONSTANTS Geoms,      \* set of [id, cons, w, h, pitch, bpp, ci]
          Logos,      \* sequence of logos [w, h, align, ti, pal, data]
          Fonts,      \* sequence of fonts [gw, gh, bpr, fd]
          PalOps,     \* set of <<index, <<r, g, b, a>> >>
          Writes,     \* set of <<ch, fg, bg, x, y>> (small naturals)
          DefPal, VgaPal,   \* palettes after DriverInit / NewVgaTextConsole
          MaxOps, Bug, Emit, ModelDevs

P == INSTANCE ConsCfg WITH Devs <- ModelDevs
C == INSTANCE ConsoleBase
W32 == INSTANCE Word WITH LimbBits <- 16, NLimbs <- 2

VARIABLES g, fb, pal, offY, fnt, cols, nrows, logo, nops, script, s, mismatch
vars == <<g, fb, pal, offY, fnt, cols, nrows, logo, nops, script, s, mismatch>>

IsFb == g.cons = "fb"
B == IF IsFb THEN (g.bpp + 1) \div 8 ELSE 1
N == Len(fb)

--------------------------------------------------------------------------
(* machine state of one call: st = [fb, pal, ports, panic] *)
Set(st, o, v) == IF st.panic \/ o < 0 \/ o >= Len(st.fb) THEN [st EXCEPT !.panic = TRUE] ELSE [st EXCEPT !.fb[o + 1] = v]
Port(st, p, v) == IF st.panic THEN st ELSE [st EXCEPT !.ports = Append(@, <<p, v>>)]
FbOffset(x, y) == (y + offY) * g.pitch + x * B

\* packColor16 / packColor32 of an RGBA value: all B bytes
PackC(c) == [k \in 1..B |-> C!PackByte(g.ci, c, k - 1)]
\* the stored bytes of palette colour index ci under palette p
PixelM(p, ci) == IF g.bpp = 8 THEN <<ci>> ELSE PackC(p[ci + 1])
RECURSIVE PutBytes(_, _, _, _)
PutBytes(st, o, bytes, k) == IF k > Len(bytes) THEN st ELSE PutBytes(Set(st, o + k - 1, bytes[k]), o, bytes, k + 1)

(* ---- replace16 / replace24: the linear walk ---- *)
\* "yes" | "no" | "panic": the && chain of byte comparisons at offset o
RECURSIVE MatchAt(_, _, _, _)
MatchAt(st, o, src, k) ==
  IF k > (IF Bug = "ReplaceComparesFirstByte" THEN 1 ELSE B) THEN "yes"
  ELSE IF o + k - 1 >= Len(st.fb) THEN "panic"
  ELSE IF st.fb[o + k] # src[k] THEN "no"
  ELSE MatchAt(st, o, src, k + 1)
RECURSIVE Walk(_, _, _, _)
Walk(st, o, src, dst) ==
  IF st.panic \/ o >= Len(st.fb) THEN st
  ELSE LET m == MatchAt(st, o, src, 1) IN
       IF m = "panic" THEN [st EXCEPT !.panic = TRUE]
       ELSE IF m = "yes" THEN Walk(PutBytes(st, o, dst, 1), o + B, src, dst)
       ELSE Walk(st, o + B, src, dst)
\* the row-wise walk a repaired driver would use (only the visible pixels of the text rows)
RECURSIVE WalkRows(_, _, _, _, _)
WalkRows(st, r, x, src, dst) ==
  IF r >= g.h THEN st
  ELSE IF x >= g.w THEN WalkRows(st, r + 1, 0, src, dst)
  ELSE LET o == r * g.pitch + x * B IN
       IF MatchAt(st, o, src, 1) = "yes" THEN WalkRows(PutBytes(st, o, dst, 1), r, x + 1, src, dst)
       ELSE WalkRows(st, r, x + 1, src, dst)
ReplaceM(st, old, new) ==
  IF Bug = "ReplaceRowWise" THEN WalkRows(st, offY, 0, PackC(old), PackC(new))
  ELSE Walk(st, IF Bug = "ReplaceFromTop" THEN 0 ELSE FbOffset(0, 0), PackC(old), PackC(IF Bug = "ReplaceSwapsRB" THEN <<new[3], new[2], new[1], new[4]>> ELSE new))

(* ---- setPaletteColor ---- *)
Dac(v) == IF Bug = "DacNotScaled" THEN v ELSE v \div 4
SetPalEntry(st, index, rgba, replace) ==
  LET old == st.pal[index + 1]
      st1 == [st EXCEPT !.pal[index + 1] = rgba]
  IN IF g.bpp = 8 THEN Port(Port(Port(Port(st1, 968, index), 969, Dac(rgba[1])), 969, Dac(rgba[2])), 969, Dac(rgba[3]))
     ELSE IF ~replace THEN st1
     ELSE ReplaceM(st1, old, rgba)

(* ---- SetPaletteColor ---- *)
SetPalM(st, index, rgba) ==
  IF IsFb
  THEN IF st.pal[index + 1] = rgba /\ Bug # "SetPalNoShortcut" THEN st ELSE SetPalEntry(st, index, rgba, Bug # "SetPalNeverReplaces")
  ELSE IF index >= 16 THEN (IF Bug = "VgaNoIndexCheck" THEN [st EXCEPT !.panic = TRUE] ELSE st)
  ELSE LET st1 == [st EXCEPT !.pal[index + 1] = rgba]
           reg == IF Bug = "VgaDacIdentity" THEN index ELSE P!EgaDac[index + 1]
       IN Port(Port(Port(Port(st1, 968, reg), 969, Dac(rgba[1])), 969, Dac(rgba[2])), 969, Dac(rgba[3]))

(* ---- SetLogo ---- *)
RECURSIVE LogoPalLoop(_, _, _, _)
LogoPalLoop(st, l, off, i) ==
  IF i = Len(l.pal) THEN st
  ELSE LET rgba == IF i = l.ti /\ Bug # "LogoKeepsTransparent" THEN st.pal[1] ELSE l.pal[i + 1] IN
       LogoPalLoop(SetPalEntry(st, (i + off) % 256, rgba, Bug = "LogoPaletteReplaces"), l, off, i + 1)
RECURSIVE DrawPx(_, _, _, _, _, _)
DrawPx(st, l, off, x, fbo, lo) ==
  IF x = l.w THEN st
  ELSE DrawPx(PutBytes(st, fbo, PixelM(st.pal, (l.data[lo + 1] + off) % 256), 1), l, off, x + 1, fbo + B, lo + 1)
RECURSIVE DrawRows(_, _, _, _, _)
DrawRows(st, l, off, y, rowo) ==
  IF y = l.h \/ st.panic THEN st
  ELSE DrawRows(DrawPx(st, l, off, 0, rowo, y * l.w), l, off, y + 1, rowo + g.pitch)
SetLogoM(st, l) ==
  LET off == IF Bug = "LogoPaletteAtStart" THEN 16 ELSE (256 - Len(l.pal)) % 256
      st1 == LogoPalLoop(st, l, off, 0)
      x0 == CASE l.align = 0 -> 0
              [] l.align = 1 -> IF Bug = "LogoCenterNotHalved" THEN g.w - l.w ELSE (g.w - l.w) \div 2
              [] l.align = 2 -> IF Bug = "LogoRightIsLeft" THEN 0 ELSE g.w - l.w
  IN DrawRows(st1, l, off, 0, FbOffset(x0, 0))

(* ---- Write / write8 / write16 / write24 (x, y small naturals) ---- *)
FdAt(fo) == IF fo + 1 <= Len(Fonts[fnt].fd) THEN Fonts[fnt].fd[fo + 1] ELSE 0
\* inner loop: one glyph row; the bit mask runs from 128 down and is reloaded with the next font byte when it reaches 0
RECURSIVE WrPx(_, _, _, _, _, _, _)
WrPx(st, x, fbo, mask, fo, FG, BG) ==
  IF x = Fonts[fnt].gw THEN [st |-> st, fo |-> fo]
  ELSE LET rst == mask = 0
           fo2 == IF rst THEN fo + 1 ELSE fo
           m2  == IF rst THEN 128 ELSE mask
           bit == (FdAt(fo2) \div m2) % 2 = 1
       IN WrPx(PutBytes(st, fbo, IF bit THEN FG ELSE BG, 1), x + 1, fbo + B, m2 \div 2, fo2, FG, BG)
RECURSIVE WrRows(_, _, _, _, _, _)
WrRows(st, y, fbRow, fo, FG, BG) ==
  IF y = Fonts[fnt].gh THEN st
  ELSE LET r == WrPx(st, 0, fbRow, 128, fo, FG, BG) IN WrRows(r.st, y + 1, fbRow + g.pitch, r.fo + 1, FG, BG)
WriteM(st, ch, fg, bg, x, y) ==
  IF x < 1 \/ x > cols \/ y < 1 \/ y > nrows \/ fnt = 0 THEN st
  ELSE WrRows(st, 0, FbOffset((x - 1) * Fonts[fnt].gw, (y - 1) * Fonts[fnt].gh), ch * Fonts[fnt].bpr * Fonts[fnt].gh,
              PixelM(st.pal, fg), PixelM(st.pal, bg))

--------------------------------------------------------------------------
(* events *)
RowsOf(f) == [r \in 1..g.h |-> SubSeq(f, (r - 1) * g.pitch + 1, r * g.pitch)]
DiffSpans(old, new) ==
  LET Span(r) == LET S == IF SubSeq(old, r * g.pitch + 1, (r + 1) * g.pitch) = SubSeq(new, r * g.pitch + 1, (r + 1) * g.pitch) THEN {}
                                 ELSE {c \in 0..(g.pitch - 1) : old[r * g.pitch + c + 1] # new[r * g.pitch + c + 1]} IN
                 IF S = {} THEN <<>>
                 ELSE LET lo == CHOOSE c \in S : \A d \in S : c <= d
                          hi == CHOOSE c \in S : \A d \in S : c >= d
                      IN << <<r, lo, [i \in 1..(hi - lo + 1) |-> new[r * g.pitch + lo + i]]>> >>
      RECURSIVE CatR(_)
      CatR(r) == IF r = g.h THEN <<>> ELSE Span(r) \o CatR(r + 1)
  IN CatR(0)
PalDiff(old, new) ==
  LET RECURSIVE PD(_)
      PD(i) == IF i > Len(old) THEN <<>> ELSE (IF old[i] = new[i] THEN <<>> ELSE << <<i - 1, new[i][1], new[i][2], new[i][3], new[i][4]>> >>) \o PD(i + 1)
  IN PD(1)

St0 == [fb |-> fb, pal |-> pal, ports |-> <<>>, panic |-> FALSE]
FdNow == IF fnt = 0 THEN <<>> ELSE Fonts[fnt].fd

\* common part of every action: st = machine state after the call, ev = kind + arguments, o2/f2/c2/r2/l2 = new registers
Step(st, ev, call, o2, f2, c2, r2, l2) ==
  LET e == ev @@ [res |-> IF st.panic THEN "panic" ELSE "ok", d |-> DiffSpans(fb, st.fb), guard |-> 0, ports |-> st.ports,
                  pd |-> PalDiff(pal, st.pal), cols |-> c2, nrows |-> r2]
      m == P!Mon(s, e, FdNow)
  IN /\ fb' = st.fb /\ pal' = st.pal
     /\ offY' = o2 /\ fnt' = f2 /\ cols' = c2 /\ nrows' = r2 /\ logo' = l2
     /\ s' = m.s
     /\ mismatch' = P!FirstFail(nops + 1, m.cs)
     /\ nops' = IF st.panic THEN MaxOps ELSE nops + 1
     /\ script' = Append(script, call)
     /\ UNCHANGED g

DoSetFont(i) ==
  IF i = 0 THEN Step(St0, [k |-> "setfont", nil |-> TRUE], [op |-> "font", i |-> 0], offY, fnt, cols, nrows, logo)
  ELSE LET f == Fonts[i] IN
       Step(St0, [k |-> "setfont", nil |-> FALSE, gw |-> f.gw, gh |-> f.gh, bpr |-> f.bpr], [op |-> "font", i |-> i],
            offY, i, g.w \div f.gw, (IF Bug = "GridIgnoresLogo" THEN g.h ELSE g.h - offY) \div f.gh, logo)
DoSetLogo(i) ==
  IF i = 0 THEN Step(St0, [k |-> "setlogo", nil |-> TRUE], [op |-> "logo", i |-> 0], offY, fnt, cols, nrows, logo)
  ELSE LET l == Logos[i] IN
       Step(SetLogoM(St0, l), [k |-> "setlogo", nil |-> FALSE, l |-> l], [op |-> "logo", i |-> i],
            IF Bug = "LogoNotReserved" THEN offY ELSE l.h, fnt, cols, nrows, i)
DoSetPal(op) ==
  Step(SetPalM(St0, op[1], op[2]), [k |-> "setpal", idx |-> op[1], c |-> op[2]], [op |-> "pal", idx |-> op[1], c |-> op[2]],
       offY, fnt, cols, nrows, logo)
WN(n) == W32!FromNat(n)
DoWrite(wr) ==
  Step(WriteM(St0, wr[1], wr[2], wr[3], wr[4], wr[5]),
       [k |-> "write", ch |-> wr[1], fg |-> wr[2], bg |-> wr[3], x |-> WN(wr[4]), y |-> WN(wr[5])],
       [op |-> "write", a |-> wr], offY, fnt, cols, nrows, logo)

\* initial content: every pixel-sized slot (padding included) holds the packed colour of one of four palette entries,
\* trailing bytes of an unaligned row repeat the first bytes of the next colour
Idx4 == <<0, 1, 7, 2>>
Fb0(ge) ==
  IF ge.cons # "fb" THEN [o \in 1..(ge.h * ge.pitch) |-> (o * 2741 + 977) % 65536]
  ELSE LET Bp == (ge.bpp + 1) \div 8 IN
       [o \in 1..(ge.h * ge.pitch) |->
          LET r == (o - 1) \div ge.pitch  c == (o - 1) % ge.pitch  p == c \div Bp  k == c % Bp
              ci == Idx4[((r * 3 + p * 5 + (p \div 3)) % 4) + 1]
          IN IF ge.bpp = 8 THEN ci
             \* (every third slot of an XRGB buffer carries a foreign top byte below the same colour bytes)
             ELSE IF k = 3 /\ C!MaskByte(ge.ci, 3) = 0 /\ (r + p) % 3 = 0 THEN 170
             \* (with colour fields wider than 8 bits every third slot has the free low bits of the fields set)
             ELSE IF C!HasWideField(ge.ci) /\ (r + p) % 3 = 1 THEN C!PackByte(ge.ci, DefPal[ci + 1], k) | C!SlackByte(ge.ci, k)
             ELSE C!PackByte(ge.ci, DefPal[ci + 1], k)]

Init ==
  /\ g \in Geoms
  /\ fb = Fb0(g)
  /\ pal = IF g.cons = "fb" THEN DefPal ELSE VgaPal
  /\ offY = 0 /\ fnt = 0 /\ logo = 0
  /\ cols = (IF g.cons = "fb" THEN 0 ELSE g.w) /\ nrows = (IF g.cons = "fb" THEN 0 ELSE g.h)
  /\ nops = 0 /\ script = <<>>
  /\ LET e == [k |-> "init", cons |-> g.cons, w |-> g.w, h |-> g.h, pitch |-> g.pitch, bpp |-> g.bpp, ci |-> g.ci, pal |-> pal,
               ports |-> IF g.cons = "fb" /\ g.bpp = 8 THEN P!Cat([i \in 1..256 |-> P!DacSeq(i - 1, pal[i])], 256) ELSE <<>>,
               rows |-> RowsOf(fb), cols |-> cols, nrows |-> nrows,
               px |-> IF g.cons = "fb" THEN <<g.w, g.h>> ELSE <<g.w * 8, g.h * 16>>, capfont |-> g.cons = "fb", caplogo |-> g.cons = "fb"]
         m == P!Mon(P!S0, e, <<>>)
     IN s = m.s /\ mismatch = P!FirstFail(0, m.cs)

\* a logo is applied at most once and only if it fits; Write needs a grid that was computed after the logo
Next == /\ mismatch = <<>> /\ nops < MaxOps
        /\ \/ IsFb /\ \E i \in 0..Len(Fonts) : DoSetFont(i)
           \/ IsFb /\ \E i \in 0..Len(Logos) : (IF i = 0 THEN TRUE ELSE logo = 0 /\ Logos[i].w <= g.w /\ Logos[i].h <= g.h) /\ DoSetLogo(i)
           \/ \E op \in PalOps : DoSetPal(op)
           \/ IsFb /\ fnt # 0 /\ nrows = (g.h - offY) \div Fonts[fnt].gh /\ \E wr \in Writes : DoWrite(wr)

NoMismatch == mismatch = <<>>
Tracked == /\ s.rows = RowsOf(fb) /\ s.pal = pal /\ s.offY = offY /\ s.cols = cols /\ s.nrows = nrows

EmitTables == (Emit /\ nops = 0) =>
   CSVWrite("%1$s", <<ToJson([t |-> "tables", id |-> g.id, logos |-> Logos,
                              fonts |-> [i \in 1..Len(Fonts) |-> [gw |-> Fonts[i].gw, gh |-> Fonts[i].gh, bpr |-> Fonts[i].bpr, fd |-> Fonts[i].fd]]])>>, IOEnv.CASES)
EmitGeom == (Emit /\ nops = 0) =>
   CSVWrite("%1$s", <<ToJson([t |-> "geom", id |-> g.id, cons |-> g.cons, w |-> g.w, h |-> g.h, pitch |-> g.pitch, bpp |-> g.bpp,
                              ci |-> g.ci, rows |-> RowsOf(fb)])>>, IOEnv.CASES)
EmitCalls == (Emit /\ nops > 0 /\ (nops = MaxOps \/ mismatch # <<>>)) =>
   CSVWrite("%1$s", <<ToJson([t |-> "calls", id |-> g.id, script |-> script])>>, IOEnv.CASES)
====
