CONSTANTS MaxOps = 2  Bug = "ReplaceSwapsRB"  Emit = FALSE
CONSTANT Geoms <- MCFewG
CONSTANT Logos <- MCLogos
CONSTANT Fonts <- MCFonts
CONSTANT PalOps <- MCPalOpsFew
CONSTANT Writes <- MCWrites
CONSTANT DefPal <- MCDefPal
CONSTANT VgaPal <- MCVgaPal
CONSTANT ModelDevs <- AllDevs
INIT Init
NEXT Next
INVARIANT NoMismatch
INVARIANT Tracked
INVARIANT EmitTables
INVARIANT EmitGeom
INVARIANT EmitCalls
CHECK_DEADLOCK FALSE
