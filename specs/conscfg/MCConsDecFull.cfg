CONSTANTS MaxOps = 3  Bug = ""  Emit = TRUE
CONSTANT Geoms <- MCFullG
CONSTANT Logos <- MCLogos
CONSTANT Fonts <- MCFonts
CONSTANT PalOps <- MCPalOps
CONSTANT Writes <- MCWrites
CONSTANT DefPal <- MCDefPal
CONSTANT VgaPal <- MCVgaPal
CONSTANT ModelDevs <- AllDevs
INIT Init
NEXT Next
INVARIANT NoMismatch
INVARIANT Tracked
INVARIANT EmitTables
INVARIANT EmitGeom
INVARIANT EmitCalls
CHECK_DEADLOCK FALSE
