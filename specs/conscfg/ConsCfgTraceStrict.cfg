CONSTANT TraceDevs = {}
CONSTANT KeepGoing = TRUE
INIT Init
NEXT Next
POSTCONDITION Accepted
CHECK_DEADLOCK FALSE
