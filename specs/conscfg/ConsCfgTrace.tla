---- MODULE ConsCfgTrace ----
(* Trace monitor for extra-conscfg: events recorded from the real font, logo, hal and console packages   *)
(* are judged by the operators of ConsCfg, one event per step.  TraceDevs names the deviations that are  *)
(* accepted (ConsCfgTrace.cfg: the two selection deviations; ConsCfgTraceStrict.cfg: none, used for the  *)
(* probe leg that documents the deviations on the real code).                                            *)
EXTENDS Integers, Sequences, FiniteSets, TLC, Json, IOUtils, TraceLib
CONSTANTS TraceDevs,     \* accepted deviations
          KeepGoing      \* FALSE: stop at the first mismatch (legs G/T); TRUE: report every mismatch (probe leg)
P == INSTANCE ConsCfg WITH Devs <- TraceDevs
Trace == ndJsonDeserialize(IOEnv.TRACE)

VARIABLES l, fi, s, mismatch          \* fi: line of the setfont event whose font data is in effect (0 = none)
vars == <<l, fi, s, mismatch>>

Init == l = 1 /\ fi = 0 /\ s = P!S0 /\ mismatch = <<>>
Next == /\ l <= Len(Trace) /\ (KeepGoing \/ mismatch = <<>>)
        /\ l' = l + 1
        /\ LET e == Trace[l]
               m == P!Mon(s, e, IF fi = 0 THEN <<>> ELSE Trace[fi].fd)
           IN /\ s' = m.s
              /\ mismatch' = P!FirstFail(l, m.cs)
              /\ fi' = IF e.k \in {"reset", "init"} THEN 0
                       ELSE IF e.k = "setfont" /\ "fd" \in DOMAIN e THEN l ELSE fi
        /\ Report(mismatch')
NoMismatch == mismatch = <<>>
Accepted == TLCGet("stats").diameter - 1 = Len(Trace)
====
