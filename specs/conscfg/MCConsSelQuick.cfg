CONSTANTS Bug = ""  Emit = TRUE
CONSTANT Cases <- MCQuick
CONSTANT ModelDevs <- AllDevs
INIT Init
NEXT Next
INVARIANT NoMismatch
INVARIANT EmitCase
CHECK_DEADLOCK FALSE
