---- MODULE ConsoleBase ----
(***************************************************************************)
(* Snapshot, owned by the extra-conscfg family, of the operators of the    *)
(* C19 module specs/console/Console.tla (as of /verif 0f838ae) that the     *)
(* family needs: pixel packing with colour masks, the buffer diff, and the *)
(* framebuffer part of the Write check.  It is a copy on purpose: the C19  *)
(* module keeps evolving with its property, and this family must not break *)
(* when it does.  Differences to the original: framebuffer console only    *)
(* (no text-console branch), no named deviations, no Fill / Scroll rules.  *)
(*                                                                         *)
(* Pixel values: a colour index is packed with the colour masks ci =       *)
(* <<rpos, rsize, gpos, gsize, bpos, bsize>>.  A field narrower than 8     *)
(* bits holds the top bits of the 8-bit component; in a field wider than 8 *)
(* bits the component is left-justified (scaleColor in vesa_fb.go) and the *)
(* low size-8 bits are don't-care bits of a painted pixel.                 *)
(* Buffer diffs: d = sequence of spans <<row, first element, new values>>  *)
(* (0-based), one per changed row.                                         *)
(***************************************************************************)
EXTENDS Integers, Sequences, FiniteSets, Bitwise, TLC

W32 == INSTANCE Word WITH LimbBits <- 16, NLimbs <- 2
P2 == <<1, 2, 4, 8, 16, 32, 64, 128, 256, 512, 1024, 2048, 4096, 8192, 16384, 32768, 65536>>
Pow2(n) == P2[n + 1]                                                          \* n <= 16 is all that is needed
WNat(n) == W32!FromNat(n)
InGrid(a, max) == ~W32!IsZero(a) /\ W32!Le(a, WNat(max))                       \* 1 <= a <= max for a 32-bit word a

\* bits of (val << pos) that land in byte k (k = 0 is the least significant byte of the pixel); val < 2^16
CompByte(val, pos, k) ==
  LET lo == 8 * k IN
  IF pos >= lo + 8 THEN 0
  ELSE IF pos >= lo THEN (val * Pow2(pos - lo)) % 256
  ELSE IF lo - pos >= 16 THEN 0
  ELSE (val \div Pow2(lo - pos)) % 256
\* an 8-bit colour component in a field of `size` bits (size <= 16)
Scale(v, size) == IF size > 8 THEN v * Pow2(size - 8) ELSE v \div Pow2(8 - size)
Field(size)    == IF size > 8 THEN 255 * Pow2(size - 8) ELSE Pow2(size) - 1      \* the constrained bits of a field
Slack(size)    == IF size > 8 THEN Pow2(size - 8) - 1 ELSE 0                     \* the don't-care low bits of a wide field
PackByte(ci, rgb, k) == (CompByte(Scale(rgb[1], ci[2]), ci[1], k) | CompByte(Scale(rgb[2], ci[4]), ci[3], k))
                        | CompByte(Scale(rgb[3], ci[6]), ci[5], k)
\* bits of byte k that a mask constrains
MaskByte(ci, k) == (CompByte(Field(ci[2]), ci[1], k) | CompByte(Field(ci[4]), ci[3], k))
                   | CompByte(Field(ci[6]), ci[5], k)
\* bits of byte k that are the low bits of a field wider than 8 bits
SlackByte(ci, k) == (CompByte(Slack(ci[2]), ci[1], k) | CompByte(Slack(ci[4]), ci[3], k))
                    | CompByte(Slack(ci[6]), ci[5], k)
HasWideField(ci) == ci[2] > 8 \/ ci[4] > 8 \/ ci[6] > 8

\* geometry record of a framebuffer console with a font: e = [w, h, pitch, bpp, ci, gw, gh, bpr, offY]
Geo(e) ==
  LET Bpp == (e.bpp + 1) \div 8
      msk == IF e.bpp = 8 THEN <<255>> ELSE [k \in 1..Bpp |-> MaskByte(e.ci, k - 1)]
      cols == e.w \div e.gw
      rows == (e.h - e.offY) \div e.gh
  IN [cons |-> "fb", w |-> e.w, h |-> e.h, pitch |-> e.pitch, bpp |-> e.bpp, ci |-> e.ci,
      gw |-> e.gw, gh |-> e.gh, bpr |-> e.bpr, offY |-> e.offY,
      Bpp |-> Bpp, rowB |-> e.w * Bpp, gridB |-> cols * e.gw * Bpp, cols |-> cols, rows |-> rows,
      mask |-> msk, full |-> \A k \in 1..Bpp : msk[k] = 255]

\* the elements of one painted pixel (g carries the palette pal)
Pack(g, ci) == IF g.bpp = 8 THEN <<ci>> ELSE [k \in 1..g.Bpp |-> PackByte(g.ci, g.pal[ci + 1], k - 1)]
ElemOK(v, want, m, full) == IF full THEN v = want ELSE (v & m) = (want & m)

\* glyph bit of character ch at glyph row rr, pixel px (most significant bit first, bpr bytes per row; g carries fd)
GlyphBit(g, ch, rr, px) == ((g.fd[(ch * g.gh + rr) * g.bpr + (px \div 8) + 1] \div Pow2(7 - (px % 8))) % 2) = 1

RECURSIVE ApplyDiff(_, _, _)
ApplyDiff(rows, d, i) ==
  IF i > Len(d) THEN rows
  ELSE LET r == d[i][1] + 1  c == d[i][2]  b == d[i][3]  old == rows[r]
       IN ApplyDiff([rows EXCEPT ![r] = SubSeq(old, 1, c) \o b \o SubSeq(old, c + Len(b) + 1, Len(old))], d, i + 1)

\* visible elements below the logo that belong to no cell (margin right of the last whole cell column, pixel rows
\* below the last whole text line): unconstrained by a statement about cells
Free(g, r, c) == r >= g.offY /\ c < g.rowB /\ (c >= g.gridB \/ r >= g.offY + g.rows * g.gh)

\* an element that changed although it lies neither in rows r0..r1, elements c0..c1 (0-based, inclusive) nor in the
\* free area: <<>> if none
Outside(g, old, got, d, r0, r1, c0, c1, what) ==
  LET In(r, c) == (r >= r0 /\ r <= r1 /\ c >= c0 /\ c <= c1) \/ Free(g, r, c)
      Bad(i) == LET r == d[i][1]  a == d[i][2]  z == d[i][2] + Len(d[i][3]) - 1 IN
                IF r >= r0 /\ r <= r1 /\ a >= c0 /\ z <= c1 THEN {}
                ELSE {c \in a..z : ~In(r, c) /\ got[r + 1][c + 1] # old[r + 1][c + 1]}
      S == {i \in 1..Len(d) : Bad(i) # {}}
  IN IF S = {} THEN <<>>
     ELSE LET i == CHOOSE j \in S : \A k \in S : j <= k
              c == CHOOSE x \in Bad(i) : \A y \in Bad(i) : x <= y
              where == IF d[i][1] < g.offY THEN "in the logo rows"
                       ELSE IF c >= g.rowB THEN "in the row padding"
                       ELSE "in another cell"
          IN <<what, where, "row", d[i][1], "element", c, "allowed rows", r0, r1, "allowed elements", c0, c1>>

NoChange(d, what) ==
  IF d = <<>> THEN <<>>
  ELSE <<what, "row", d[1][1], "elements", d[1][2], d[1][2] + Len(d[1][3]) - 1>>

\* Write of character e.ch in colours e.fg / e.bg at cell (e.x, e.y) (32-bit words): only the addressed cell changes
\* and every pixel of it holds the packed foreground or background colour according to the glyph (constrained bits)
WriteCheck(g, old, got, e) ==
  IF ~(InGrid(e.x, g.cols) /\ InGrid(e.y, g.rows))
  THEN NoChange(e.d, "Write outside the grid changed the buffer")
  ELSE
  LET X == W32!ToNat(e.x)  Y == W32!ToNat(e.y)
      r0 == g.offY + (Y - 1) * g.gh
      c0 == (X - 1) * g.gw * g.Bpp
      out == Outside(g, old, got, e.d, r0, r0 + g.gh - 1, c0, c0 + g.gw * g.Bpp - 1, "Write changed elements outside the addressed cell")
      FG == Pack(g, e.fg)  BG == Pack(g, e.bg)
      PxOK(rr, px) == LET col == IF GlyphBit(g, e.ch, rr, px) THEN FG ELSE BG
                          a == c0 + px * g.Bpp
                      IN \/ SubSeq(got[r0 + rr + 1], a + 1, a + g.Bpp) = col          \* exact equality first (native)
                         \/ (~g.full /\ \A k \in 1..g.Bpp : ElemOK(got[r0 + rr + 1][a + k], col[k], g.mask[k], FALSE))
  IN IF out # <<>> THEN out
     ELSE IF \A rr \in 0..(g.gh - 1) : \A px \in 0..(g.gw - 1) : PxOK(rr, px) THEN <<>>
     ELSE LET Bd == {p \in (0..(g.gh - 1)) \X (0..(g.gw - 1)) : ~PxOK(p[1], p[2])}
              p == CHOOSE q \in Bd : \A o \in Bd : q[1] < o[1] \/ (q[1] = o[1] /\ q[2] <= o[2])
              col == IF GlyphBit(g, e.ch, p[1], p[2]) THEN FG ELSE BG
              have == [k \in 1..g.Bpp |-> got[r0 + p[1] + 1][c0 + p[2] * g.Bpp + k]]
          IN <<"Write painted a wrong pixel", "glyph row", p[1], "pixel", p[2], "glyph bit", GlyphBit(g, e.ch, p[1], p[2]),
               "got", have, "want", col, "mask", g.mask>>
====
