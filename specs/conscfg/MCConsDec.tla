---- MODULE MCConsDec ----
(* Small-scope instances of ConsDecModel: framebuffers of 3..5 x 2..5 pixels at 8, 15, 16, 24 and 32 bpp   *)
(* (one layout with 10-bit colour fields; one or two pixel-aligned padding slots per row), a 4x3 text console, three logos (left / centre /      *)
(* right, with and without a transparent colour, one with an out-of-range colour index), two fonts, eight  *)
(* palette updates (same colour, alpha-only change, colour collision, logo-mapped entry, index 16).        *)
(* MCUnaligned holds geometries whose pitch is not a multiple of the pixel size (Dev_ReplaceLinearScan).   *)
EXTENDS ConsDecModel

L8   == <<0, 0, 0, 0, 0, 0>>
L555 == <<10, 5, 5, 5, 0, 5>>
L565 == <<11, 5, 5, 6, 0, 5>>
L888 == <<16, 8, 8, 8, 0, 8>>
LHi  == <<24, 8, 16, 8, 8, 8>>
L10  == <<20, 10, 10, 10, 0, 10>>      \* 10 bits per channel: components left-justified, low 2 bits free

\* the palettes as the pinned tree builds them
MCDefPal == [i \in 1..256 |->
   IF i > 16 THEN <<0, 0, 0, 0>>
   ELSE << <<0, 0, 0, 0>>, <<0, 0, 128, 0>>, <<0, 128, 1, 0>>, <<0, 128, 128, 0>>, <<128, 0, 1, 0>>, <<128, 0, 128, 0>>, <<64, 64, 1, 0>>,
           <<128, 128, 128, 0>>, <<64, 64, 64, 0>>, <<0, 0, 255, 0>>, <<0, 255, 1, 0>>, <<0, 255, 255, 0>>, <<255, 0, 1, 0>>,
           <<255, 0, 255, 0>>, <<255, 255, 1, 0>>, <<255, 255, 255, 0>> >>[i]]
MCVgaPal == [i \in 1..16 |-> IF i = 1 THEN <<0, 0, 1, 0>> ELSE MCDefPal[i]]

Fb(id, w, h, bpp, ci, pad) == [id |-> id, cons |-> "fb", w |-> w, h |-> h, pitch |-> w * ((bpp + 1) \div 8) + pad, bpp |-> bpp, ci |-> ci]
Vga(id, w, h) == [id |-> id, cons |-> "vga", w |-> w, h |-> h, pitch |-> w, bpp |-> 0, ci |-> L8]

MCFullG  == {Fb(1, 5, 5, 16, L565, 2), Fb(2, 4, 4, 24, L888, 3), Fb(3, 4, 4, 32, L888, 4), Fb(4, 5, 4, 8, L8, 2), Fb(5, 4, 5, 15, L555, 2),
             Fb(6, 3, 3, 32, LHi, 8), Fb(7, 4, 3, 16, L565, 0), Fb(8, 3, 4, 24, L888, 6), Fb(9, 3, 3, 32, L10, 4), Vga(20, 4, 3)}
MCQuickG == {Fb(1, 5, 5, 16, L565, 2), Fb(2, 4, 4, 24, L888, 3), Fb(4, 5, 4, 8, L8, 2), Fb(6, 3, 3, 32, LHi, 8), Fb(9, 3, 3, 32, L10, 4), Vga(20, 4, 3)}
MCFewG   == {Fb(1, 5, 5, 16, L565, 2), Fb(4, 5, 4, 8, L8, 2), Fb(6, 3, 3, 32, LHi, 8), Vga(20, 4, 3)}
MCUnaligned == {Fb(31, 4, 3, 16, L565, 1), Fb(32, 3, 2, 24, L888, 1), Fb(33, 3, 3, 32, L888, 2)}

MCLogos == << [w |-> 2, h |-> 2, align |-> 0, ti |-> 0, pal |-> << <<255, 0, 255, 0>>, <<10, 200, 30, 0>> >>, data |-> <<0, 1, 1, 0>>],
              [w |-> 3, h |-> 1, align |-> 1, ti |-> 1, pal |-> << <<99, 98, 97, 0>>, <<1, 1, 1, 0>>, <<0, 0, 128, 0>> >>, data |-> <<2, 1, 0>>],
              [w |-> 2, h |-> 1, align |-> 2, ti |-> 5, pal |-> << <<250, 240, 8, 0>>, <<128, 128, 128, 0>> >>, data |-> <<1, 3>>] >>

Fd(gw, gh) == LET bpr == (gw + 7) \div 8 IN [i \in 1..(256 * gh * bpr) |-> (i * 73 + (i \div 7) * 19 + 41) % 256]
MCFonts == << [gw |-> 2, gh |-> 2, bpr |-> 1, fd |-> Fd(2, 2)], [gw |-> 3, gh |-> 1, bpr |-> 1, fd |-> Fd(3, 1)] >>

MCPalOps == {<<0, <<200, 0, 0, 0>> >>, <<1, <<0, 0, 128, 0>> >>, <<1, <<0, 255, 0, 0>> >>, <<7, <<0, 0, 128, 0>> >>,
             <<255, <<10, 200, 30, 0>> >>, <<1, <<0, 0, 128, 255>> >>, <<16, <<9, 9, 9, 0>> >>, <<15, <<255, 255, 251, 0>> >>, <<6, <<170, 85, 0, 0>> >>}
MCPalOpsFew == {<<0, <<200, 0, 0, 0>> >>, <<1, <<0, 0, 128, 0>> >>, <<1, <<0, 255, 0, 0>> >>, <<7, <<0, 0, 128, 0>> >>, <<16, <<9, 9, 9, 0>> >>, <<15, <<255, 255, 251, 0>> >>}
MCWrites == {<<1, 7, 0, 1, 1>>, <<255, 1, 2, 2, 1>>}
AllDevs == {"FontPriorityGate", "LogoIgnoresFit"}
MCRepairG == MCFewG \cup MCUnaligned
====
