CONSTANTS Bug = ""  Emit = FALSE
CONSTANT Cases <- MCMutant
CONSTANT ModelDevs <- OnlyFontDev
INIT Init
NEXT Next
INVARIANT NoMismatch
INVARIANT EmitCase
CHECK_DEADLOCK FALSE
