CONSTANTS
  Fresh <- Fresh3
  PreScopes = {"_PR_", "_TZ_"}
  MaxProd = 0  MaxTables = 1  MaxDepth = 6
  OpenKinds = {}  DeclKindsOn = {}
  Forms = {}
  FieldKinds = {}
  ScopeOn = FALSE  FieldOn = FALSE  MethodFlags = {}  StmtKinds = {}  MaxStmts = 0
  Widths = {}
  ChainItems = 3
  Excluded = {"D1", "D1b", "D2", "D2c", "D3", "D5", "D6", "D7", "D8", "D9", "D10", "D11", "D12", "D13", "D14", "D15", "D16"}
  Emit = FALSE  Bug = "CountersResetPerPass"
INIT Init
NEXT Next
INVARIANT Refines
CHECK_DEADLOCK FALSE
