CONSTANTS MaxLen = 7  MaxByte = 3  MaxPasses = 2  MaxDepth = 1  Bug = "AppendBeforeDetach"
INIT Init
NEXT Next
INVARIANT Robust
CONSTRAINT Bounded
CHECK_DEADLOCK FALSE
