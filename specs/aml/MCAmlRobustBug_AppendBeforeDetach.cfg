CONSTANTS MaxLen = 7  MaxByte = 3  MaxPasses = 2  Bug = "AppendBeforeDetach"
INIT Init
NEXT Next
INVARIANT Robust
CONSTRAINT Bounded
CHECK_DEADLOCK FALSE
