CONSTANTS MaxPool = 4  MaxOps = 8  MaxNodes = 4  NameIds = {0, 1, 2}  Bug = ""  AllowDetached = TRUE  Emit = TRUE
INIT InitFind
NEXT NoNext
INVARIANT NoMismatch
INVARIANT EmitTree
CHECK_DEADLOCK FALSE
