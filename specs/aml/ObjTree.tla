---- MODULE ObjTree ----
(***************************************************************************)
(* Implementation-shaped design model of aml.ObjectTree (C13):             *)
(*  - an object pool with intrusive doubly linked child lists and a free   *)
(*    list threaded through `next` (actions New, Append, AppendAfter,      *)
(*    Detach, Free, enabled exactly when the API's preconditions hold);    *)
(*  - the byte-level lookup algorithm FindImpl over the link arrays.       *)
(* Every step produces the event the Go harness would record for it and    *)
(* the monitor of ObjTreeProps judges it: NoMismatch says the design meets *)
(* C13.  `Bug` re-creates realistic wrong designs (design mutants) which   *)
(* TLC must reject.  The same runs emit the transition graph (edit part)   *)
(* and the enumerated trees + expressions (lookup part) for leg G.         *)
(* Indices are 1-based (implementation index + 1); 0 = InvalidIndex.       *)
(***************************************************************************)
EXTENDS ObjTreeProps, TLC, Json, CSV, IOUtils
CONSTANTS MaxPool,    \* edit model: pool slots
          MaxOps,     \* edit model: operations per behaviour
          MaxNodes,   \* lookup model: nodes per tree (root included)
          NameIds,    \* lookup model: names of non-root nodes, 0 = unnamed object, k = <<64+k, '_', '_', '_'>>
          Bug,        \* "" or the name of a design mutant
          AllowDetached, \* lookup model: non-root nodes may also be tops of detached subtrees
          Emit        \* write the graph / the cases for leg G

VARIABLES pool, freeHead, nops, ev, s, mismatch
vars == <<pool, freeHead, nops, ev, s, mismatch>>

Zero4 == <<0, 0, 0, 0>>
Blank(nm) == [fr |-> 0, nm |-> nm, par |-> 0, prev |-> 0, next |-> 0, first |-> 0, last |-> 0]
LiveP == {i \in 1..Len(pool) : pool[i].fr = 0}
RECURSIVE AncP(_, _)
AncP(pl, i) == IF pl[i].par = 0 THEN {} ELSE {pl[i].par} \cup AncP(pl, pl[i].par)

\* the projection the harness records (freed slots: only `next` is meaningful)
Proj(pl, fh) ==
  LET n == Len(pl)
      nx == [i \in 1..n |-> pl[i].next]
      F(i, v) == IF pl[i].fr = 1 THEN 0 ELSE v IN
  [n |-> n, fh |-> fh,
   fr    |-> [i \in 1..n |-> pl[i].fr],
   par   |-> [i \in 1..n |-> F(i, pl[i].par)],
   prev  |-> [i \in 1..n |-> F(i, pl[i].prev)],
   next  |-> nx,
   first |-> [i \in 1..n |-> F(i, pl[i].first)],
   last  |-> [i \in 1..n |-> F(i, pl[i].last)],
   nm    |-> [i \in 1..n |-> IF pl[i].fr = 1 THEN Zero4 ELSE pl[i].nm],
   kids  |-> [i \in 1..n |-> IF pl[i].fr = 1 THEN <<>> ELSE Chain(nx, pl[i].first, n + 1)],
   na    |-> [i \in 1..n |-> IF pl[i].fr = 1 THEN 0 ELSE Len(Chain(nx, pl[i].first, n + 1))]]

Ev(k, p, c, a, o, r, named) ==
  [k |-> k, p |-> p, c |-> c, a |-> a, o |-> o, r |-> r, n |-> Len(pool'), named |-> 0, nm |-> <<>>,
   s |-> 0, x |-> <<>>, res |-> "ok", st |-> Proj(pool', freeHead'), hn |-> named, pa |-> 0]
Judge == LET m == Mon(s, ev') IN s' = m.s /\ mismatch' = FirstFail(nops', m.cs)

--------------------------------------------------------------------------
(* edit part: a transcription of newObject / append / appendAfter / detach / free *)

New(named) ==
  /\ IF freeHead # 0 /\ Bug # "GrowWithFreeList"
     THEN /\ pool' = [pool EXCEPT ![freeHead] = Blank(pool[freeHead].nm)]      \* newObject keeps the stale name
          /\ freeHead' = pool[freeHead].next
          /\ ev' = Ev("new", 0, 0, 0, 0, freeHead, named)
     ELSE /\ Len(pool) < MaxPool
          /\ pool' = Append(pool, Blank(Zero4))
          /\ freeHead' = freeHead
          /\ ev' = Ev("new", 0, 0, 0, 0, Len(pool) + 1, named)

Detached(i) == pool[i].par = 0 /\ pool[i].prev = 0 /\ pool[i].next = 0
CanAttach(p, c) == p \in LiveP /\ c \in LiveP /\ p # c /\ Detached(c) /\ c \notin AncP(pool, p)

DoAppend(pl, p, c) ==
  IF pl[p].last = 0
  THEN [pl EXCEPT ![c].par = p, ![p].first = c, ![p].last = c]
  ELSE LET lst == pl[p].last IN
       [pl EXCEPT ![c].par = p, ![lst].next = c, ![c].prev = IF Bug = "AppendNoPrev" THEN 0 ELSE lst, ![c].next = 0, ![p].last = c]

AppendOp(p, c) ==
  /\ CanAttach(p, c)
  /\ pool' = DoAppend(pool, p, c) /\ UNCHANGED freeHead
  /\ ev' = Ev("app", p, c, 0, 0, 0, 0)

AppendAfterOp(p, c, a) ==
  /\ CanAttach(p, c) /\ a \in LiveP /\ a # c /\ pool[a].par = p
  /\ pool' = IF pool[a].next = 0 THEN DoAppend(pool, p, c)
             ELSE LET nn == pool[a].next IN
                  [pool EXCEPT ![c].par = p, ![c].prev = a, ![c].next = nn,
                               ![nn].prev = IF Bug = "AfterNoPrevFix" THEN @ ELSE c, ![a].next = c]
  /\ UNCHANGED freeHead
  /\ ev' = Ev("aft", p, c, a, 0, 0, 0)

DoDetach(pl, p, c) ==
  LET a == [pl EXCEPT ![p].first = IF pl[p].first = c THEN pl[c].next ELSE @,
                      ![p].last  = IF pl[p].last = c /\ Bug # "DetachKeepsLast" THEN pl[c].prev ELSE @]
      b == IF pl[c].next # 0 THEN [a EXCEPT ![pl[c].next].prev = pl[c].prev] ELSE a
      d == IF pl[c].prev # 0 /\ Bug # "DetachNoPrevNext" THEN [b EXCEPT ![pl[c].prev].next = pl[c].next] ELSE b
  IN [d EXCEPT ![c].prev = 0, ![c].next = 0, ![c].par = 0]

DetachOp(p, c) ==
  /\ p \in LiveP /\ c \in LiveP /\ pool[c].par = p
  /\ pool' = DoDetach(pool, p, c) /\ UNCHANGED freeHead
  /\ ev' = Ev("det", p, c, 0, 0, 0, 0)

FreeOp(o) ==
  /\ o \in LiveP /\ pool[o].first = 0 /\ pool[o].last = 0 /\ Bug # "FreeNonLeafProceeds"
  /\ LET pl == IF pool[o].par # 0 /\ Bug # "FreeNoDetach" THEN DoDetach(pool, pool[o].par, o) ELSE pool IN
     pool' = [pl EXCEPT ![o].fr = 1, ![o].next = freeHead]
  /\ freeHead' = o
  /\ ev' = Ev("free", 0, 0, 0, o, 0, 0)

\* free of an object that still has children: the real code unlinks it from its parent and then refuses (panics)
FreeNonLeafOp(o) ==
  /\ o \in LiveP /\ pool[o].first # 0
  /\ LET pl == IF pool[o].par # 0 THEN DoDetach(pool, pool[o].par, o) ELSE pool IN
     IF Bug = "FreeNonLeafProceeds"
     THEN /\ pool' = [pl EXCEPT ![o].fr = 1, ![o].next = freeHead] /\ freeHead' = o
          /\ ev' = Ev("free", 0, 0, 0, o, 0, 0)
     ELSE /\ pool' = pl /\ UNCHANGED freeHead
          /\ ev' = [Ev("free", 0, 0, 0, o, 0, 0) EXCEPT !.res = "panic"]

Init == pool = <<>> /\ freeHead = 0 /\ nops = 0 /\ ev = [k |-> "init"] /\ s = S0 /\ mismatch = <<>>

Next ==
  /\ nops < MaxOps /\ mismatch = <<>> /\ nops' = nops + 1
  /\ \/ \E named \in {0, 1} : New(named)
     \/ \E p \in LiveP, c \in LiveP : AppendOp(p, c) \/ DetachOp(p, c)
     \/ \E p \in LiveP, c \in LiveP, a \in LiveP : AppendAfterOp(p, c, a)
     \/ \E o \in LiveP : FreeOp(o) \/ FreeNonLeafOp(o)
  /\ Judge

\* ---- what TLC checks on the edit model
NoMismatch == mismatch = <<>>
WellFormedModel == LET st == Proj(pool, freeHead) IN WellFormed(st) /\ FreeListOK(st)
                   /\ \A i \in LiveP : pool[i].par = 0 => (pool[i].prev = 0 /\ pool[i].next = 0)
ReuseBeforeGrow == [][(ev'.k = "new" /\ freeHead # 0) => Len(pool') = Len(pool)]_vars
View == <<pool, freeHead, mismatch>>

\* ---- leg G: the labelled transition relation, one JSON line per generated transition
Key(pl, fh) == <<fh>> \o [i \in 1..Len(pl) |-> <<pl[i].fr, pl[i].par, pl[i].prev, pl[i].next, pl[i].first, pl[i].last>>]
Act(e) == <<e.k, e.p, e.c, e.a, e.o, e.r, e.hn>>
LogEdge == Emit => CSVWrite("%1$s", <<ToJson([f |-> Key(pool, freeHead), a |-> Act(ev'), t |-> Key(pool', freeHead')])>>, IOEnv.GRAPH)

--------------------------------------------------------------------------
(* lookup part: a transcription of Find / findRelative over the link arrays *)

RECURSIVE ImplChild(_, _, _, _), SkipNonLead(_, _), ImplRel(_, _, _, _), ImplCaret(_, _, _, _), ImplSearch(_, _, _)
ImplChild(pl, c, x, i) == IF c = 0 THEN 0 ELSE IF pl[c].nm = SubSeq(x, i, i + 3) THEN c ELSE ImplChild(pl, pl[c].next, x, i)
SkipNonLead(x, i) == IF i <= Len(x) /\ ~IsLead(x[i]) THEN SkipNonLead(x, i + 1) ELSE i
\* i0: position of the next segment (1-based)
ImplRel(pl, sc, x, i0) ==
  IF i0 > Len(x) THEN sc
  ELSE LET i == IF Bug = "SkipOnlyBeforeFirstSeg" /\ i0 > 6 THEN i0 ELSE SkipNonLead(x, i0) IN
       IF Len(x) - (i - 1) < 4 THEN 0
       ELSE LET c == ImplChild(pl, pl[sc].first, x, i) IN
            IF c # 0 THEN ImplRel(pl, c, x, i + 4)
            ELSE IF Bug = "MultiUpward" /\ i0 <= 3 /\ pl[sc].par # 0 THEN ImplRel(pl, pl[sc].par, x, i0)
            ELSE 0
\* a DualNamePrefix, or a MultiNamePrefix and its SegCount byte, precede the segments and are stepped over
\* explicitly: a SegCount in 'A'..'Z' / '_' (65+ segments) must not be taken for a name character
Hdr(x, i) == IF Bug = "SegCountAsName" THEN i
             ELSE IF Bug = "HdrNoLengthGuard" THEN (IF x[i] = 46 THEN i + 1 ELSE IF x[i] = 47 THEN i + 2 ELSE i)
             ELSE IF i + 1 <= Len(x) /\ x[i] = 46 THEN i + 1 ELSE IF i + 2 <= Len(x) /\ x[i] = 47 THEN i + 2 ELSE i
ImplRelTop(pl, sc, x, i) == IF i > Len(x) THEN sc ELSE ImplRel(pl, sc, x, Hdr(x, i))
ImplCaret(pl, sc, x, i) ==
  IF i > Len(x) THEN sc
  ELSE IF x[i] = 94
       THEN LET up == IF Bug = "CaretGrandparent" /\ pl[sc].par # 0 THEN pl[pl[sc].par].par ELSE pl[sc].par IN
            IF up = 0 THEN 0 ELSE ImplCaret(pl, up, x, i + 1)
       ELSE ImplRelTop(pl, sc, x, i)
ImplSearch(pl, sc, x) ==
  LET c == ImplChild(pl, pl[sc].first, x, 1) IN
  IF c # 0 THEN c ELSE IF pl[sc].par = 0 \/ Bug = "SingleNoUpward" THEN 0 ELSE ImplSearch(pl, pl[sc].par, x)
FindImpl(pl, sc, x) ==
  IF Len(x) = 0 \/ sc = 0 THEN 0
  ELSE IF x[1] = 92 THEN (IF Len(x) = 1 THEN 1 ELSE ImplRelTop(pl, 1, x, 2))
  ELSE IF x[1] = 94 THEN ImplCaret(pl, sc, x, 1)
  ELSE IF Len(x) > 4 THEN ImplRelTop(pl, sc, x, 1)
  ELSE IF Len(x) = 4 THEN ImplSearch(pl, sc, x)
  ELSE 0

\* ---- the small scope of lookups: every tree of up to MaxNodes nodes, every expression of Exprs from every scope
NameOf(id) == IF id = 0 THEN Zero4 ELSE <<64 + id, 95, 95, 95>>
RootName == <<92, 0, 0, 0>>
\* pv[i] = parent of node i (a lower slot); 0 = node i is the top of a detached subtree
ParVecs(N) == {f \in [2..N -> (IF AllowDetached THEN 0 ELSE 1)..(N - 1)] : \A i \in 2..N : f[i] < i}
TreePool(N, pv, ids) ==
  LET K(p) == {i \in 2..N : pv[i] = p}
      Min(S) == IF S = {} THEN 0 ELSE CHOOSE x \in S : \A y \in S : x <= y
      Max(S) == IF S = {} THEN 0 ELSE CHOOSE x \in S : \A y \in S : x >= y IN
  [i \in 1..N |->
     [fr |-> 0, nm |-> IF i = 1 THEN RootName ELSE NameOf(ids[i]),
      par |-> IF i = 1 THEN 0 ELSE pv[i],
      prev |-> IF i = 1 \/ pv[i] = 0 THEN 0 ELSE Max({j \in K(pv[i]) : j < i}),
      next |-> IF i = 1 \/ pv[i] = 0 THEN 0 ELSE Min({j \in K(pv[i]) : j > i}),
      first |-> Min(K(i)), last |-> Max(K(i))]]

A4 == NameOf(1)
B4 == NameOf(2)
Segs == {A4, B4}
Prefixes == {<<>>, <<92>>, <<94>>, <<94, 94>>, <<94, 94, 94>>}
Bodies ==
  {<<>>} \cup Segs
  \cup {a \o b : a \in Segs, b \in Segs}                                   \* two segments joined
  \cup {<<46>> \o a \o b : a \in Segs, b \in Segs}                         \* DualNamePath
  \cup {<<47, 1>> \o a : a \in Segs}                                       \* MultiNamePath, 1..3 segments
  \cup {<<47, 2>> \o a \o b : a \in Segs, b \in Segs}
  \cup {<<47, 3>> \o a \o b \o c : a \in Segs, b \in Segs, c \in Segs}
  \cup {a \o b \o c : a \in {A4}, b \in Segs, c \in Segs}
  \cup {<<65>>, <<65, 95>>, <<65, 95, 95>>, A4 \o <<66>>, A4 \o <<66, 95, 95>>, <<46>> \o A4 \o <<66, 95>>,  \* too-short names
        <<47, 2>> \o A4 \o <<66, 95, 95>>, <<47, 65, 95, 95, 95>>}
  \cup {<<46>>, <<47>>, <<47, 0>>, <<47, 1>>, <<47, 2>>, <<47, 65>>}                                         \* prefix byte(s), no name: not-found
  \cup {<<47, 2>> \o A4, <<46>> \o A4, <<46>> \o B4, <<47, 2>> \o B4, A4 \o <<46>> \o B4, <<0>>, A4 \o <<0>>,   \* malformed
        <<97, 95, 95, 95>>, <<49, 95, 95, 95>>, A4 \o <<92>>, <<47, 1>> \o A4 \o B4,
        <<94>> \o A4, <<92>> \o A4, <<92>>, <<94>>}                       \* a prefix after a prefix ('\^', '^\', '\\')
\* a prefix item (0x2E, 0x2F count) in front of each later segment of the 2- and 3-segment paths, with and
\* without a leading item; trailing items; an embedded count that is a name character (ambiguous, must return)
Items == {<<46>>, <<47, 1>>, <<47, 2>>}
Embedded ==
  {a \o h \o b : a \in Segs, b \in Segs, h \in Items}
  \cup {<<46>> \o A4 \o h \o b : b \in Segs, h \in Items} \cup {<<47, 2>> \o A4 \o <<46>> \o b : b \in Segs}
  \cup {A4 \o h \o b \o c : b \in Segs, c \in Segs, h \in {<<46>>, <<47, 2>>}}
  \cup {A4 \o b \o h \o c : b \in Segs, c \in Segs, h \in {<<46>>, <<47, 1>>}}
  \cup {A4 \o <<46>> \o b \o <<47, 1>> \o c : b \in Segs, c \in Segs}
  \cup {<<47, 3>> \o A4 \o <<46>> \o B4 \o <<46>> \o c : c \in Segs}
  \cup {A4 \o b \o h : b \in Segs, h \in Items} \cup {A4 \o <<46>> \o B4 \o <<46>>, A4 \o <<46>> \o <<66, 95>>}
  \cup {A4 \o <<47, 65>> \o B4, A4 \o <<47, 66>> \o <<95, 95, 95>>, A4 \o <<47>> \o B4, A4 \o <<46, 46>> \o B4}
Exprs == {p \o b : p \in Prefixes, b \in Bodies \cup Embedded}

InitFind ==
  /\ \E N \in 1..MaxNodes : \E pv \in ParVecs(N) : \E ids \in [2..N -> NameIds] :
        pool = TreePool(N, pv, ids)
  /\ freeHead = 0 /\ nops = 0 /\ ev = [k |-> "tree"]
  /\ LET st == Proj(pool, 0)
         s0 == [n |-> st.n, fr |-> {}, par |-> st.par, kids |-> st.kids, nm |-> st.nm, ck |-> TRUE, T |-> TreeOf(st)] IN
     s = s0 /\ mismatch = FirstFail(0, CkChecks(s0, st))

NextFind ==
  /\ nops = 0 /\ nops' = 1 /\ UNCHANGED <<pool, freeHead>>
  /\ \E sc \in 0..Len(pool), x \in Exprs :
        ev' = [k |-> "find", s |-> sc, x |-> x, r |-> FindImpl(pool, sc, x), res |-> "ok"]
  /\ Judge

ViewFind == <<pool, nops, ev, mismatch>>
NoNext == FALSE /\ UNCHANGED vars
\* leg G: every enumerated tree, and (with the one-node tree) the expression list
EmitTree == (Emit /\ nops = 0) =>
  /\ CSVWrite("%1$s", <<ToJson([par |-> [i \in 1..Len(pool) |-> pool[i].par], nm |-> [i \in 1..Len(pool) |-> pool[i].nm]])>>, IOEnv.TREES)
  /\ (Len(pool) = 1 => CSVWrite("%1$s", <<ToJson(Exprs)>>, IOEnv.EXPRS))
====
