---- MODULE AmlRobust ----
(* C12 - malformed AML is rejected with an error, never a crash, hang or stray pointer.          *)
(*                                                                                                *)
(* The specification cannot say which tree a malformed table should produce.  It says             *)
(*  (i)  which outcomes exist: ParseOK or ParseError.  A panic, a fatal error (Go stack           *)
(*       overflow), a memory fault, a CPU-time or heap overrun is an observation that no action   *)
(*       of the specification explains;                                                           *)
(*  (ii) what holds of the object tree after either outcome: WellFormed (parent / first / last /  *)
(*       prev / next agree both ways, no cycle, freed slots unreachable), InBounds (every byte    *)
(*       slice the tree refers to lies inside the table it was parsed from) and Printable         *)
(*       (PrettyPrint returned);                                                                  *)
(*  (iii) the mutation operators whose plans leg G enumerates over small well-formed programs.    *)
(* The operators are shared by the design model (AmlRobustModel), the plan enumerator             *)
(* (AmlRobustPlans) and the trace monitor that judges the real parser (AmlRobustTrace).           *)
EXTENDS Integers, Sequences, FiniteSets, TLC

(* ------------------------------------------------------------------ outcomes and time bound *)
Outcomes == {"ok", "error"}
\* parsing is bounded proportionally to the input: 5 s of CPU per started 8 KiB (normal: < 1 ms)
CpuBudgetMs(n) == 5000 * (IF n <= 8192 THEN 1 ELSE (n + 8191) \div 8192)

(* ------------------------------------------------------------------ the object tree          *)
(* L is the pool: slot i (0-based, as in the Go code) is L[i+1] = <<freed, parent, prev, next,  *)
(* first, last>>; -1 stands for InvalidIndex.                                                    *)
Slots(L)    == 0 .. (Len(L) - 1)
Freed(L, i) == L[i + 1][1] = 1
Par(L, i)   == L[i + 1][2]
Prv(L, i)  == L[i + 1][3]
Nxt(L, i)  == L[i + 1][4]
Fst(L, i) == L[i + 1][5]
Lst(L, i)  == L[i + 1][6]
Live(L)     == {i \in Slots(L) : ~Freed(L, i)}

\* a link of a live slot is absent or points at a live slot (freed slots are unreachable)
LinkOK(L, x) == x = -1 \/ (x \in Slots(L) /\ ~Freed(L, x))

\* the five links of slot i agree with the links of its neighbours
LocalOK(L, i) ==
  LET p == Par(L, i)  pv == Prv(L, i)  nx == Nxt(L, i)  f == Fst(L, i)  l == Lst(L, i) IN
  /\ LinkOK(L, p) /\ LinkOK(L, pv) /\ LinkOK(L, nx) /\ LinkOK(L, f) /\ LinkOK(L, l)
  /\ (f = -1) = (l = -1)
  /\ (f # -1) => (Par(L, f) = i /\ Prv(L, f) = -1)
  /\ (l # -1) => (Par(L, l) = i /\ Nxt(L, l) = -1)
  /\ (nx # -1) => (p # -1 /\ Prv(L, nx) = i /\ Par(L, nx) = p)
  /\ (pv # -1) => (p # -1 /\ Nxt(L, pv) = i /\ Par(L, pv) = p)
  /\ (p # -1) => (/\ p # i
                  /\ (pv = -1) => (Fst(L, p) = i)
                  /\ (nx = -1) => (Lst(L, p) = i))

(* Global shape, by pointer doubling (O(n log n) whatever the depth or width of the tree - tables of   *)
(* tens of kilobytes yield chains of tens of thousands of objects).  Given LocalOK for every live   *)
(* slot, two things can still be wrong: a ring of siblings that its parent does not list, and a     *)
(* cycle of parent links.  J is a sequence over the slots (J[i+1] for slot i); Doubled composes it  *)
(* with itself k times, so that a slot is taken 2^k steps along `step` (ends are fixed points).     *)
RECURSIVE Log2Up(_, _, _)
Log2Up(n, k, p) == IF p >= n THEN k ELSE Log2Up(n, k + 1, 2 * p)          \* least k with 2^k >= n
RECURSIVE Doubled(_, _)
Doubled(J, k) == IF k = 0 THEN J ELSE Doubled(TLCEval([i \in 1 .. Len(J) |-> J[J[i] + 1]]), k - 1)
\* where slot i ends up after following parent links / previous-sibling links to the end
Tops(L)  == Doubled(TLCEval([i \in 1 .. Len(L) |-> IF Freed(L, i - 1) \/ Par(L, i - 1) = -1 THEN i - 1 ELSE Par(L, i - 1)]),
                    Log2Up(Len(L) + 1, 0, 1))
Heads(L) == Doubled(TLCEval([i \in 1 .. Len(L) |-> IF Freed(L, i - 1) \/ Prv(L, i - 1) = -1 THEN i - 1 ELSE Prv(L, i - 1)]),
                    Log2Up(Len(L) + 1, 0, 1))
\* every object is reached from the head of its sibling list (the head of a list is its parent's first
\* child by LocalOK): no ring of siblings hangs off a parent that does not list it
RingSlots(L)  == LET H == Heads(L) IN {i \in Live(L) : Prv(L, H[i + 1]) # -1}
\* following parent links ends at an object without parent: no cycle
CycleSlots(L) == LET T == Tops(L) IN {i \in Live(L) : Par(L, T[i + 1]) # -1}
AllListed(L) == RingSlots(L) = {}
Acyclic(L)   == CycleSlots(L) = {}

WellFormed(L) == /\ \A i \in Live(L) : LocalOK(L, i)
                 /\ AllListed(L)
                 /\ Acyclic(L)

\* diagnosis for the mismatch record (<<>> when well formed)
Least(S) == CHOOSE j \in S : \A k \in S : j <= k
WFProblem(L) ==
  LET bad == {i \in Live(L) : ~LocalOK(L, i)} IN
  IF bad # {} THEN <<"links of slot disagree with its neighbours", Least(bad), L[Least(bad) + 1]>>
  ELSE IF ~AllListed(L) THEN <<"sibling ring: object not on its parent's child list, slot", Least(RingSlots(L))>>
  ELSE IF ~Acyclic(L) THEN <<"parent links form a cycle through slot", Least(CycleSlots(L))>>
  ELSE <<>>

\* the tree proper: what hangs below the root scope, slot 0 (only meaningful when WellFormed)
AttachedSlots(L) == IF Len(L) = 0 THEN {} ELSE LET T == Tops(L) IN {i \in Live(L) : T[i + 1] = 0}
Attached(L, i)   == i \in AttachedSlots(L)

(* ------------------------------------------------------------------ byte slices              *)
(* S lists every []byte stored in a live object as <<slot, table, offset, length>>: table is the *)
(* number of the table the object was parsed from, offset is relative to that table's first      *)
(* byte; TL[t+1] is the length of table t.  Offsets and lengths are naturals here; the monitor   *)
(* maps wide machine values that cannot be table offsets to Huge.                                 *)
Huge == 536870912     \* 2^29: beyond any table, and Huge + Huge still fits a TLC integer
SliceOK(s, TL) == s[4] = 0 \/ (/\ s[2] \in 0 .. (Len(TL) - 1)
                               /\ s[3] >= 0 /\ s[3] < Huge /\ s[4] < Huge
                               /\ s[3] + s[4] <= TL[s[2] + 1])
BadSlices(L, S, TL) == LET bad == {k \in 1 .. Len(S) : ~SliceOK(S[k], TL)} IN     \* (usually empty: the tree is not walked)
                       IF bad = {} THEN {} ELSE LET A == AttachedSlots(L) IN {k \in bad : S[k][1] \in A}
InBounds(L, S, TL)  == BadSlices(L, S, TL) = {}

(* ------------------------------------------------------------------ the judgement            *)
(* ev: [res, msg, cpu, n (bytes of input), pp, ppmsg, L, S, TL].  The result is the list of      *)
(* checks <<property, failed?, explanation>> that TraceLib!FirstFailIn evaluates in order.        *)
(* devs: named deviations switched on while a finding is open (see AmlRobustTrace).               *)
Checks(ev, devs) ==
  LET okres == ev.res \in Outcomes
      wf    == okres /\ WellFormed(ev.L) IN
  << <<"C12", ~okres, <<"outcome is neither ParseOK nor ParseError", ev.res, ev.msg>> >>,
     <<"C12", okres /\ ev.cpu > CpuBudgetMs(ev.n), <<"CPU time beyond the bound for this input size", ev.cpu, ev.n>> >>,
     <<"C12", okres /\ ~wf, <<"tree is not well formed", IF okres /\ ~wf THEN WFProblem(ev.L) ELSE <<>> >> >>,
     <<"C12", wf /\ ~InBounds(ev.L, ev.S, ev.TL),
              <<"byte slice outside the table", IF wf /\ ~InBounds(ev.L, ev.S, ev.TL)
                                               THEN LET B == BadSlices(ev.L, ev.S, ev.TL) IN ev.S[CHOOSE k \in B : \A j \in B : k <= j]
                                               ELSE <<>>, ev.TL>> >>,
     <<"C12", okres /\ ev.pp # 1 /\ ~("unprintable-after-error" \in devs /\ ev.res = "error"),
              <<"PrettyPrint did not return", ev.res, ev.ppmsg>> >> >>

(* ------------------------------------------------------------------ mutation operators       *)
(* b is a byte string (sequence over 0..255, 1-based positions).                                  *)
Pow2(n) == CASE n = 0 -> 1 [] n = 1 -> 2 [] n = 2 -> 4 [] n = 3 -> 8 [] n = 4 -> 16 [] n = 5 -> 32 [] n = 6 -> 64 [] n = 7 -> 128
XorBit(v, bit) == IF (v \div Pow2(bit)) % 2 = 1 THEN v - Pow2(bit) ELSE v + Pow2(bit)

\* opcodes followed by a PkgLength: Scope Buffer Package VarPackage Method If Else While, and 0x5b 0x81..0x87
PkgOps    == {16, 17, 18, 19, 20, 160, 161, 162}
ExtPkgOps == 129 .. 135
PkgWidth(b, i) == (b[i] \div 64) + 1
PkgVal(b, i)   == IF PkgWidth(b, i) = 1 THEN b[i]
                  ELSE (b[i] % 16) + 16 * b[i + 1]
                       + (IF PkgWidth(b, i) >= 3 THEN 4096 * b[i + 2] ELSE 0)
                       + (IF PkgWidth(b, i) = 4 THEN 1048576 * b[i + 3] ELSE 0)
PkgMax(w) == CASE w = 1 -> 63 [] w = 2 -> 4095 [] w = 3 -> 1048575 [] w = 4 -> 268435455
\* position i holds the lead byte of a plausible PkgLength: it follows a package opcode and the
\* package it announces ends inside the string
IsSite(b, i) == /\ i >= 2 /\ i <= Len(b)
                /\ \/ b[i - 1] \in PkgOps
                   \/ (i >= 3 /\ b[i - 2] = 91 /\ b[i - 1] \in ExtPkgOps)
                /\ i + PkgWidth(b, i) - 1 <= Len(b)
                /\ (i - 1) + PkgVal(b, i) <= Len(b)
Sites(b) == {i \in 2 .. Len(b) : IsSite(b, i)}
\* start position and length of the package whose PkgLength sits at site i
PkgStart(b, i) == IF b[i - 1] \in PkgOps THEN i - 1 ELSE i - 2
PkgSpan(b, i)  == (i - PkgStart(b, i)) + PkgVal(b, i)
\* re-encode value v at site i keeping the width of the encoding
SetPkgVal(b, i, v) ==
  LET w  == PkgWidth(b, i)
      hd == IF w = 1 THEN v ELSE (b[i] - (b[i] % 16)) + (v % 16)
      enc == CASE w = 1 -> <<hd>>
               [] w = 2 -> <<hd, (v \div 16) % 256>>
               [] w = 3 -> <<hd, (v \div 16) % 256, (v \div 4096) % 256>>
               [] w = 4 -> <<hd, (v \div 16) % 256, (v \div 4096) % 256, (v \div 1048576) % 256>>
  IN SubSeq(b, 1, i - 1) \o enc \o SubSeq(b, i + w, Len(b))
\* values a corrupted length field takes: off by a little, nothing, up to / just past / far past the
\* end of the string, the largest the encoding holds
CorruptVals(b, i) ==
  LET v == PkgVal(b, i)  rem == Len(b) - (i - 1) IN
  ({v - 2, v - 1, v + 1, v + 2, v + 8, 0, 1, rem, rem + 1, rem + 37, PkgMax(PkgWidth(b, i))}
     \cap (0 .. PkgMax(PkgWidth(b, i)))) \ {v}

\* byte values worth substituting: opcodes with structure, name prefixes, extremes
Interesting == {0, 1, 2, 3, 8, 10, 13, 16, 17, 20, 46, 47, 63, 64, 91, 92, 94, 65, 128, 129, 130, 134, 160, 162, 255}

\* a length, size or count operand that is off by a few (bit flips only give powers of two): the
\* place where "declared a little more than is there" decides between inside and behind the table
SmallDeltas == {-3, -2, -1, 1, 2, 3}

\* start positions of the packages of b (where a plausible PkgLength follows a package opcode)
PkgStarts(b) == {PkgStart(b, i) : i \in Sites(b)}

\* the mutations of one kind applicable to b, as <<kind, arguments...>>; donor is another well-formed
\* program (for the splices that combine two programs)
MutationsOf(kind, b, donor, setvals, splicelens) ==
  CASE kind = "Truncate"      -> {<<"Truncate", k>> : k \in 0 .. (Len(b) - 1)}
    [] kind = "FlipBit"       -> {<<"FlipBit", i, bit>> : i \in 1 .. Len(b), bit \in 0 .. 7}
    [] kind = "SetByte"       -> {<<"SetByte", i, v>> : i \in 1 .. Len(b), v \in setvals}
    [] kind = "AddToByte"     -> {<<"AddToByte", i, d>> : i \in 1 .. Len(b), d \in SmallDeltas}
    [] kind = "CorruptPkgLen" -> UNION {{<<"CorruptPkgLen", i, nv - PkgVal(b, i)>> : nv \in CorruptVals(b, i)} : i \in Sites(b)}
    \* a copy of a package (or of its first bytes) of b inserted in front of ANY byte of b, and behind the last
    [] kind = "Splice"        -> UNION {{<<"Splice", i, PkgStart(b, j), k>> :
                                          k \in {PkgSpan(b, j)} \cup {n \in splicelens : PkgStart(b, j) + n - 1 <= Len(b)}} :
                                        i \in 1 .. (Len(b) + 1), j \in Sites(b)}
    \* the first i bytes of b continued by the donor from its start or from one of its packages
    [] kind = "Join"          -> {<<"Join", i, j>> : i \in 0 .. Len(b), j \in {1} \cup PkgStarts(donor)}
AllKinds == {"Truncate", "FlipBit", "SetByte", "AddToByte", "CorruptPkgLen", "Splice", "Join"}
Mutations(kinds, b, donor, setvals, splicelens) == UNION {MutationsOf(k, b, donor, setvals, splicelens) : k \in kinds}

Apply(b, donor, m) ==
  CASE m[1] = "Truncate"      -> SubSeq(b, 1, m[2])
    [] m[1] = "FlipBit"       -> [b EXCEPT ![m[2]] = XorBit(b[m[2]], m[3])]
    [] m[1] = "SetByte"       -> [b EXCEPT ![m[2]] = m[3]]
    [] m[1] = "AddToByte"     -> [b EXCEPT ![m[2]] = (b[m[2]] + m[3] + 256) % 256]
    [] m[1] = "CorruptPkgLen" -> SetPkgVal(b, m[2], PkgVal(b, m[2]) + m[3])
    [] m[1] = "Splice"        -> SubSeq(b, 1, m[2] - 1) \o SubSeq(b, m[3], m[3] + m[4] - 1) \o SubSeq(b, m[2], Len(b))
    [] m[1] = "Join"          -> SubSeq(b, 1, m[2]) \o SubSeq(donor, m[3], Len(donor))
IsBytes(b) == \A i \in 1 .. Len(b) : b[i] \in 0 .. 255
====
