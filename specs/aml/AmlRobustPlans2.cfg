CONSTANTS MaxMut = 2  SetMode = "few"
  Kinds = {"Truncate", "FlipBit", "SetByte", "AddToByte", "CorruptPkgLen", "Splice", "Join"}
INIT Init
NEXT Next
INVARIANT PlanOK
INVARIANT Emit
VIEW View
CHECK_DEADLOCK FALSE
