CONSTANTS MaxMut = 2  SetAll = FALSE
INIT Init
NEXT Next
INVARIANT PlanOK
INVARIANT Emit
VIEW View
CHECK_DEADLOCK FALSE
