CONSTANTS MaxLen = 3  MaxByte = 3  MaxPasses = 2  MaxDepth = 1  Bug = "ByteListUnbounded"
INIT Init
NEXT Next
INVARIANT Robust
CONSTRAINT Bounded
CHECK_DEADLOCK FALSE
