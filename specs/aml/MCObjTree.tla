---- MODULE MCObjTree ----
(* model-checking entry point for C13: the constants are plain values, see the MCObjTree*.cfg files *)
EXTENDS ObjTree
====
