CONSTANTS
  Fresh <- Fresh3
  PreScopes = {"_SB_"}
  MaxProd = 2  MaxTables = 1  MaxDepth = 3
  OpenKinds = {"Device"}  DeclKindsOn = {"Event"}
  Forms = {"abs"}
  ScopeOn = TRUE  FieldOn = FALSE  MethodFlags = {}  StmtKinds = {}  MaxStmts = 0
  Widths = {}
  Excluded = {"D1", "D1b", "D2", "D2c", "D3", "D5", "D7", "D9"}
  Emit = FALSE  Bug = ""
INIT Init
NEXT Next
INVARIANT RefinesAll
CHECK_DEADLOCK FALSE
