CONSTANT Props = {"C12"}
INIT Init
NEXT Next
POSTCONDITION Accepted
CHECK_DEADLOCK FALSE
