---- MODULE ObjTreeProps ----
(***************************************************************************)
(* C13: what aml.ObjectTree must do, written once as a *monitor*.          *)
(*                                                                         *)
(* The operators take the monitor state `s` (the abstract namespace: which *)
(* pool slots exist, which are freed, every node's parent and ordered child *)
(* list) and one observed event `e` and return the next monitor state plus  *)
(* the checks the event has to pass.  The same operators judge (a) the      *)
(* implementation-shaped design model ObjTree.tla that TLC explores in a    *)
(* small scope and (b) the events recorded from the real Go package         *)
(* (ObjTreeTrace.tla).                                                      *)
(*                                                                         *)
(* Indices are 1-based (implementation index + 1); 0 is InvalidIndex, -1 an *)
(* index the harness found outside the pool.                                *)
(*                                                                         *)
(* Event shapes (k = kind); every event carries res = "ok" | "panic":      *)
(*  new   named nm r n   newObject / newNamedObject(nm) returned slot r,    *)
(*                       the pool now has n slots                           *)
(*  app   p c            append(p, c)                                       *)
(*  aft   p c a          appendAfter(p, c, a)                               *)
(*  det   p c            detach(p, c)                                       *)
(*  free  o pa           free(o); pa = o's parent after the call            *)
(*  bulk                 CreateDefaultScopes on an empty pool (carries st)  *)
(*  ck                   checkpoint only                                    *)
(*  find  s x r          Find(s, x) returned r (x: the expression bytes)    *)
(*  reset                end of one case                                    *)
(* Any event except find/reset may carry `st`, the projected pool:          *)
(*  st = [n, fh, fr, par, prev, next, first, last, nm, kids, na]; fr[i] = 1 *)
(*  for a freed slot (only its `next` is meaningful: the free list), nm[i]  *)
(*  the 4 name bytes and kids[i] the child list as the API enumerates it    *)
(*  (ArgAt(i, 0..)); <<-1>> if that enumeration crashed or did not end;     *)
(*  na[i] what NumArgs(i) returned (-1: not called / crashed).              *)
(***************************************************************************)
EXTENDS Integers, Sequences, FiniteSets

Range(q) == {q[i] : i \in 1..Len(q)}
RECURSIVE SetToSortedSeq(_)
SetToSortedSeq(S) == IF S = {} THEN <<>>
                     ELSE LET m == CHOOSE x \in S : \A y \in S : x <= y IN <<m>> \o SetToSortedSeq(S \ {m})

\* follow a link array from c until it leaves the array; `fuel` bounds the walk so that the operator is
\* total on corrupted (cyclic) links recorded from a broken implementation
RECURSIVE Chain(_, _, _)
Chain(nx, c, fuel) == IF fuel = 0 \/ c \notin DOMAIN nx THEN <<>> ELSE <<c>> \o Chain(nx, nx[c], fuel - 1)

InsertAfter(q, a, c) == LET i == CHOOSE j \in 1..Len(q) : q[j] = a IN SubSeq(q, 1, i) \o <<c>> \o SubSeq(q, i + 1, Len(q))
Remove(q, c) == SelectSeq(q, LAMBDA x : x # c)

--------------------------------------------------------------------------
(* Part 1: the namespace is a tree (evaluated on a recorded pool `st`)     *)

LiveOf(st)  == {i \in 1..st.n : st.fr[i] = 0}
FreedOf(st) == {i \in 1..st.n : st.fr[i] = 1}
KidsOf(st, p) == Chain(st.next, st.first[p], st.n + 1)

\* every child's parent and sibling links agree with its parent's child list in both directions,
\* the parent relation has no cycle, and no freed slot is reachable from a live one
ParentListOK(st, p) ==
  LET ks == KidsOf(st, p)
      L == LiveOf(st) IN
  /\ (st.first[p] = 0) = (st.last[p] = 0)
  /\ st.first[p] \in L \cup {0}
  /\ Len(ks) <= st.n
  /\ Cardinality(Range(ks)) = Len(ks)
  /\ \A k \in 1..Len(ks) : /\ ks[k] \in L
                           /\ st.par[ks[k]] = p
                           /\ st.prev[ks[k]] = (IF k = 1 THEN 0 ELSE ks[k - 1])
  /\ ks # <<>> => (st.last[p] = ks[Len(ks)] /\ st.next[ks[Len(ks)]] = 0)
  /\ {c \in L : st.par[c] = p} = Range(ks)

WellFormed(st) ==
  LET L == LiveOf(st) IN
  /\ \A p \in L : ParentListOK(st, p)
  /\ \A c \in L : st.par[c] \in L \cup {0}
  /\ \A c \in L : Len(Chain(st.par, c, st.n + 1)) <= st.n

\* the free list (threaded through `next`) holds exactly the freed slots, each once
FreeListOK(st) ==
  LET fl == Chain(st.next, st.fh, st.n + 1) IN
  /\ st.fh \in FreedOf(st) \cup {0}
  /\ Len(fl) <= st.n
  /\ Cardinality(Range(fl)) = Len(fl)
  /\ Range(fl) = FreedOf(st)

\* the child lists the API enumerates (NumArgs / ArgAt) are the linked lists
ApiKidsOK(st) == \A p \in LiveOf(st) : st.kids[p] = KidsOf(st, p) /\ st.na[p] = Len(KidsOf(st, p))

FirstBad(st) == LET B == {p \in LiveOf(st) : ~ParentListOK(st, p)} IN IF B = {} THEN 0 ELSE CHOOSE p \in B : \A q \in B : p <= q

--------------------------------------------------------------------------
(* Part 2: path lookup.  T = [par, kids, nm]: the tree, node 1 is the root, *)
(* each node's children are its scope.                                      *)

IsLead(b)     == b = 95 \/ (b >= 65 /\ b <= 90)                 \* '_' | 'A'..'Z'
IsNameChar(b) == IsLead(b) \/ (b >= 48 /\ b <= 57)              \* | '0'..'9'
IsSeg(q)      == Len(q) = 4 /\ IsLead(q[1]) /\ IsNameChar(q[2]) /\ IsNameChar(q[3]) /\ IsNameChar(q[4])

RECURSIVE CountCarets(_, _)
CountCarets(x, i) == IF i <= Len(x) /\ x[i] = 94 THEN CountCarets(x, i + 1) ELSE i - 1

(* The expression language of Find: the raw NameString bytes as the parser extracts them:             *)
(*   ['\' | '^'*]  [0x2E seg seg | 0x2F count seg^count | seg+ | nothing (only after a prefix)]       *)
(* and, per the quantifier ("embedded dual/multi-name prefix bytes"), a prefix item - 0x2E, or 0x2F    *)
(* and a count byte - may also sit in front of any later segment; it is stepped over: the designated  *)
(* node is that of the path without the embedded items.                                               *)
(* class "wf": the rules below designate the result.  class "short": after the well-formed start come *)
(* a prefix item followed by no name, and/or a 1..3 byte stub of a name, and then the end (also the   *)
(* empty expression): designates nothing, the result is not-found.                                    *)
(* class "garbage": anything else; Find merely has to return.  That includes an embedded 0x2F whose   *)
(* count byte is itself a name character ('A'..'Z', '_'): the bytes can be read in two ways.          *)
HdrLen(r, i) == IF i <= Len(r) /\ r[i] = 46 THEN 1
                ELSE IF i <= Len(r) /\ r[i] = 47 THEN (IF i + 1 <= Len(r) THEN 2 ELSE 1) ELSE 0
\* split r from position i into [prefix item] segment pairs; tail = what is left when no complete segment follows
RECURSIVE Tokens(_, _, _, _)
Tokens(r, i, segs, embBad) ==
  LET h == HdrLen(r, i)
      j == i + h IN
  IF j + 3 <= Len(r) /\ IsSeg(SubSeq(r, j, j + 3))
  THEN Tokens(r, j + 4, Append(segs, SubSeq(r, j, j + 3)),
              embBad \/ (segs # <<>> /\ r[i] = 47 /\ (h = 1 \/ IsLead(r[i + 1]))))
  ELSE [segs |-> segs, embBad |-> embBad \/ (segs # <<>> /\ h = 2 /\ IsLead(r[i + 1])),
        tailHdr |-> h, tail |-> SubSeq(r, j, Len(r))]
Parse(x) ==
  LET root   == Len(x) > 0 /\ x[1] = 92
      carets == IF root THEN 0 ELSE CountCarets(x, 1)
      off    == IF root THEN 1 ELSE carets
      rest   == SubSeq(x, off + 1, Len(x))
      hdr    == HdrLen(rest, 1)
      form   == IF hdr = 0 THEN "plain" ELSE IF rest[1] = 46 THEN "dual" ELSE "multi"
      tk     == Tokens(rest, 1, <<>>, FALSE)
      nseg   == Len(tk.segs)
      stubOK == Len(tk.tail) \in 1..3 /\ IsLead(tk.tail[1]) /\ \A j \in 2..Len(tk.tail) : IsNameChar(tk.tail[j])
      countOK == CASE form = "plain" -> nseg >= 1 \/ (rest = <<>> /\ (root \/ carets > 0))
                   [] form = "dual"  -> nseg = 2
                   [] form = "multi" -> nseg >= 1 /\ hdr = 2 /\ nseg = rest[2]
      class  == IF tk.tail = <<>> /\ tk.tailHdr = 0 /\ ~tk.embBad /\ countOK THEN "wf"
                ELSE IF x = <<>> \/ (~tk.embBad /\ ((tk.tail = <<>> /\ tk.tailHdr > 0) \/ stubOK)) THEN "short"
                ELSE "garbage"
  IN [class |-> class, root |-> root, carets |-> carets, form |-> form, segs |-> tk.segs]

\* the children of scope sc named seg.  ACPI forbids two objects of one name in a scope; should a tree hold such
\* duplicates the rules designate any of them (the statement does not rank them), so every operator below is set-valued
ChildSet(T, sc, seg) == {c \in Range(T.kids[sc]) : T.nm[c] = seg}

RECURSIVE Up(_, _, _), Down(_, _, _), Search(_, _, _)
Up(T, sc, k)       == IF k = 0 THEN sc ELSE IF T.par[sc] = 0 THEN 0 ELSE Up(T, T.par[sc], k - 1)       \* each '^' one level up
Down(T, sc, segs)  == IF segs = <<>> THEN {sc}                                                        \* downward only
                      ELSE LET C == ChildSet(T, sc, Head(segs)) IN
                           IF C = {} THEN {0} ELSE UNION {Down(T, c, Tail(segs)) : c \in C}
Search(T, sc, seg) == LET C == ChildSet(T, sc, seg) IN                                                \* this scope, then each enclosing scope
                      IF C # {} THEN C ELSE IF T.par[sc] = 0 THEN {0} ELSE Search(T, T.par[sc], seg)

\* the set of results ACPI's search rules allow for a well-formed expression P from scope sc (0 = not found)
FindSpec(T, sc, P) ==
  LET start == IF P.root THEN 1 ELSE Up(T, sc, P.carets) IN
  IF start = 0 THEN {0}
  ELSE IF P.segs = <<>> THEN {start}
  ELSE IF ~P.root /\ P.carets = 0 /\ Len(P.segs) = 1
       THEN IF P.form = "plain" THEN Search(T, sc, P.segs[1])
            \* a MultiNamePath with SegCount 1 is a single NameSeg and a multi-name encoding at once: either reading
            ELSE Search(T, sc, P.segs[1]) \cup Down(T, sc, P.segs)
  ELSE Down(T, start, P.segs)

\* the lookup domain: slot 1 is the live root (absolute paths start there); the scope is any live object - a node of
\* the tree or of a detached subtree, whose top has no enclosing scope
TreeOf(st) ==
  LET kids == [i \in 1..st.n |-> IF st.fr[i] = 1 THEN <<>> ELSE KidsOf(st, i)]
      rootOK == st.n >= 1 /\ st.fr[1] = 0 /\ st.par[1] = 0
  IN [par |-> st.par, kids |-> kids, nm |-> st.nm, live |-> LiveOf(st), dom |-> rootOK]
T0 == [par |-> <<>>, kids |-> <<>>, nm |-> <<>>, live |-> {}, dom |-> FALSE]

--------------------------------------------------------------------------
(* Part 3: the monitor                                                     *)

S0 == [n |-> 0, fr |-> {}, par |-> <<>>, kids |-> <<>>, nm |-> <<>>, ck |-> FALSE, T |-> T0]
Live(s) == (1..s.n) \ s.fr
RECURSIVE Anc(_, _)
Anc(par, i) == IF par[i] = 0 THEN {} ELSE {par[i]} \cup Anc(par, par[i])

Chk(ok, why) == <<"C13", ~ok, why>>
NotEnabled(op) == <<op, "is not enabled in the specification state: the real tree has diverged from the operations applied so far">>

\* cs: sequence of <<property, failed?, explanation>>; the first failing check wins
FirstFail(line, cs) ==
  LET S == {i \in 1..Len(cs) : cs[i][2]} IN
  IF S = {} THEN <<>> ELSE LET i == CHOOSE j \in S : \A k \in S : j <= k IN <<line, cs[i][1], cs[i][3]>>

\* the recorded pool is a tree and is the abstract state reached by the operations so far
AbsOK(s, st) ==
  /\ st.n = s.n
  /\ FreedOf(st) = s.fr
  /\ \A p \in LiveOf(st) : /\ KidsOf(st, p) = s.kids[p]
                           /\ st.par[p] = s.par[p]
                           /\ (s.nm[p] # <<>> => st.nm[p] = s.nm[p])
AbsDiff(s, st) ==
  IF st.n # s.n \/ FreedOf(st) # s.fr THEN <<>>
  ELSE LET B == {p \in LiveOf(st) : KidsOf(st, p) # s.kids[p] \/ st.par[p] # s.par[p] \/ (s.nm[p] # <<>> /\ st.nm[p] # s.nm[p])} IN
       IF B = {} THEN <<>>
       ELSE LET p == CHOOSE q \in B : \A r \in B : q <= r IN
            <<p, "expected children", s.kids[p], "parent", s.par[p], "recorded children", KidsOf(st, p), "parent", st.par[p]>>
CkChecks(s, st) ==
  << Chk(WellFormed(st), <<"recorded links are not a well-formed tree; first parent whose child list disagrees (0: parent cycle or dangling parent)", FirstBad(st)>>),
     Chk(FreeListOK(st), <<"the free list does not hold exactly the freed slots", "head", st.fh, "freed", SetToSortedSeq(FreedOf(st))>>),
     Chk(ApiKidsOK(st), <<"ArgAt/NumArgs do not enumerate the linked child lists">>),
     Chk(AbsOK(s, st), <<"recorded tree is not the tree the operations so far must have produced",
                         "expected slots", s.n, "freed", SetToSortedSeq(s.fr), "first differing node", AbsDiff(s, st)>>) >>
AllOK(cs) == \A i \in 1..Len(cs) : ~cs[i][2]

\* finish an edit step: s1 = abstract successor, cs1 = checks of the operation itself
Step(s1, cs1, e) ==
  IF "st" \in DOMAIN e /\ AllOK(cs1)
  THEN LET cs2 == CkChecks(s1, e.st) IN
       [s |-> IF AllOK(cs2) THEN [s1 EXCEPT !.ck = TRUE, !.T = TreeOf(e.st)] ELSE s1, cs |-> cs1 \o cs2]
  ELSE [s |-> s1, cs |-> cs1]

MonNew(s, e) ==
  LET reuse == s.fr # {}
      \* freed slots are reused before the pool grows (which freed slot is the implementation's choice)
      ok == /\ e.res = "ok"
            /\ IF reuse THEN e.r \in s.fr /\ e.n = s.n ELSE e.r = s.n + 1 /\ e.n = s.n + 1
      nm == IF e.named = 1 THEN e.nm ELSE <<>>
      s1 == IF ~ok THEN s
            ELSE IF reuse THEN [s EXCEPT !.fr = @ \ {e.r}, !.par[e.r] = 0, !.kids[e.r] = <<>>, !.nm[e.r] = nm, !.ck = FALSE]
            ELSE [s EXCEPT !.n = @ + 1, !.par = Append(@, 0), !.kids = Append(@, <<>>), !.nm = Append(@, nm), !.ck = FALSE]
  IN Step(s1, << Chk(e.res = "ok", <<"new object: the call crashed">>),
                 Chk(ok, <<IF reuse THEN "new object: a freed slot must be reused and the pool must not grow"
                                    ELSE "new object: with no freed slot the pool grows by exactly one slot",
                           "freed", SetToSortedSeq(s.fr), "slots", s.n, "returned", e.r, "slots after", e.n>>) >>, e)

AttachPre(s, p, c) == /\ p \in Live(s) /\ c \in Live(s) /\ p # c
                      /\ s.par[c] = 0 /\ c \notin Anc(s.par, p)
MonApp(s, e) ==
  LET pre == AttachPre(s, e.p, e.c)
      s1 == IF pre THEN [s EXCEPT !.kids[e.p] = Append(@, e.c), !.par[e.c] = e.p, !.ck = FALSE] ELSE s
  IN Step(s1, << Chk(pre, NotEnabled("append")), Chk(e.res = "ok", <<"append: the call crashed">>) >>, e)
MonAft(s, e) ==
  LET pre == AttachPre(s, e.p, e.c) /\ e.a \in Live(s) /\ e.a # e.c /\ s.par[e.a] = e.p
      s1 == IF pre THEN [s EXCEPT !.kids[e.p] = InsertAfter(@, e.a, e.c), !.par[e.c] = e.p, !.ck = FALSE] ELSE s
  IN Step(s1, << Chk(pre, NotEnabled("appendAfter")), Chk(e.res = "ok", <<"appendAfter: the call crashed">>) >>, e)
MonDet(s, e) ==
  LET pre == e.p \in Live(s) /\ e.c \in Live(s) /\ s.par[e.c] = e.p
      s1 == IF pre THEN [s EXCEPT !.kids[e.p] = Remove(@, e.c), !.par[e.c] = 0, !.ck = FALSE] ELSE s
  IN Step(s1, << Chk(pre, NotEnabled("detach")), Chk(e.res = "ok", <<"detach: the call crashed">>) >>, e)
\* free(o).  A childless object is unlinked from its parent and its slot becomes free.  An object that still has
\* children must be refused (the API panics): freeing it would leave a freed object reachable from its children.  The
\* refusal may or may not have unlinked o from its parent first (e.pa = o's parent after the call).
MonFree(s, e) ==
  LET live == e.o \in Live(s)
      leaf == live /\ s.kids[e.o] = <<>>
      p == IF live THEN s.par[e.o] ELSE 0
      s0 == IF p # 0 /\ (leaf \/ e.pa = 0) THEN [s EXCEPT !.kids[p] = Remove(@, e.o), !.par[e.o] = 0, !.ck = FALSE] ELSE s
      s1 == IF leaf THEN [s0 EXCEPT !.fr = @ \cup {e.o}, !.nm[e.o] = <<>>, !.ck = FALSE] ELSE IF live THEN s0 ELSE s
  IN Step(s1, << Chk(live, NotEnabled("free")),
                 Chk(~leaf \/ e.res = "ok", <<"free: the call crashed">>),
                 Chk(~live \/ leaf \/ (e.res = "panic" /\ e.pa \in {p, 0}),
                     <<"free of an object that still has children must be refused, leaving it attached or detached", "result", e.res, "parent after", e.pa>>) >>, e)

\* a bulk creation (CreateDefaultScopes on an empty pool): some sequence of creations and appends whose result
\* is recorded in e.st; it has to be a well-formed tree, which becomes the specification state
AbsOf(st) == [n |-> st.n, fr |-> FreedOf(st), par |-> st.par,
              kids |-> [i \in 1..st.n |-> IF st.fr[i] = 1 THEN <<>> ELSE KidsOf(st, i)],
              nm |-> [i \in 1..st.n |-> <<>>], ck |-> FALSE, T |-> T0]
MonBulk(s, e) ==
  LET ok == s.n = 0 /\ e.res = "ok" /\ e.st.n > 0 /\ FreedOf(e.st) = {} /\ WellFormed(e.st)
  IN Step(IF ok THEN AbsOf(e.st) ELSE s,
          << Chk(s.n = 0, NotEnabled("bulk creation")), Chk(e.res = "ok", <<"bulk creation: the call crashed">>),
             Chk(ok, <<"bulk creation on an empty pool did not produce a well-formed tree without freed slots">>) >>, e)

MonFind(s, e) ==
  LET pre == s.ck /\ s.T.dom /\ e.s \in s.T.live \cup {0}
      P == Parse(e.x)
      \* scope 0 is InvalidIndex (no scope at all): nothing is designated relative to it; Find merely has to return
      free == ~pre \/ P.class = "garbage" \/ e.s = 0
      allowed == IF free THEN {} ELSE IF P.class = "short" THEN {0} ELSE FindSpec(s.T, e.s, P)
  IN [s |-> s,
      cs |-> << Chk(pre, <<"lookup outside the checked domain (no checkpoint, no live root in slot 1, or scope not a live object)", e.s>>),
                Chk(e.res = "ok", <<"Find crashed", "scope", e.s, "expression", e.x>>),
                Chk(free \/ e.res # "ok" \/ e.r \in allowed,
                    <<"Find returned a node the search rules do not designate", "scope", e.s, "expression", e.x,
                      "class", P.class, "returned", e.r, "allowed", SetToSortedSeq(allowed)>>) >>]

Mon(s, e) ==
  CASE e.k = "new"   -> MonNew(s, e)
    [] e.k = "app"   -> MonApp(s, e)
    [] e.k = "aft"   -> MonAft(s, e)
    [] e.k = "det"   -> MonDet(s, e)
    [] e.k = "free"  -> MonFree(s, e)
    [] e.k = "bulk"  -> MonBulk(s, e)
    [] e.k = "ck"    -> Step(s, <<>>, e)
    [] e.k = "find"  -> MonFind(s, e)
    [] e.k = "reset" -> [s |-> S0, cs |-> <<>>]
    [] OTHER         -> [s |-> s, cs |-> <<Chk(FALSE, <<"unknown event kind", e.k>>)>>]
====
