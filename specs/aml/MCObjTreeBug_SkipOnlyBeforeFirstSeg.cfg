CONSTANTS MaxPool = 4  MaxOps = 10  MaxNodes = 4  NameIds = {0, 1, 2}  Bug = "SkipOnlyBeforeFirstSeg"  AllowDetached = FALSE  Emit = FALSE
INIT InitFind
NEXT NextFind
VIEW ViewFind
INVARIANT NoMismatch
CHECK_DEADLOCK FALSE
