---- MODULE AmlNsTrace ----
(* C11 trace monitor.  Every line of the trace is one program run on the real parser:            *)
(*   [id, toks (the token stream), obs (projection of the tree the parser built)].               *)
(* The monitor loads the token stream with the loader of AmlNs and judges the observation.       *)
(* Mode "strict": generated programs; they must be complete, well-formed and free of the trigger  *)
(*   constructs of the open findings (else the GENERATOR is broken: reported as "GEN", which the  *)
(*   runner turns into exit 2, never into a violation).                                           *)
(* Mode "repro": pinned reproducers of findings; judged by the same exact oracle, triggers allowed.*)
EXTENDS AmlNs, Json, IOUtils, TraceLib, CSV
I == INSTANCE AmlNsImpl
CONSTANT Mode
Trace == ndJsonDeserialize(IOEnv.TRACE)
FindingIds == {"D1", "D1b", "D2", "D2c", "D3", "D5", "D6", "D7", "D8", "D9", "D10", "D11", "D12", "D13", "D14", "D15", "D16"}
Open == {d \in FindingIds : IOEnv["OPEN_" \o d] = "1"}

VARIABLES l, mismatch
vars == <<l, mismatch>>

CoveredByD16(toks) == LET r == I!Parse(toks, "GiveUpOnRelocationsOnly") IN "res" \in DOMAIN r /\ r.res = "giveup"
Check(e) ==
  LET st == Load(e.toks) IN
  IF ~Complete(st, e.toks) THEN <<l, "GEN", <<"not a complete well-formed program", st.err>>>>
  ELSE IF Mode = "strict" /\ st.trig \cap Open # {} THEN <<l, "GEN", <<"program uses a construct excluded by an open finding", st.trig \cap Open>>>>
  ELSE LET j == Judge(st, e.obs) IN
       IF j = <<>> THEN <<>>
       \* D16 has no syntactic trigger: its predicate is "the pinned design (AmlNsImpl) gives up in a merge pass after a
       \* pass without relocations".  It is evaluated only when the real parser rejected the program; a program it covers
       \* is recorded (IOEnv.COVERED) instead of reported.
       ELSE IF Mode = "strict" /\ "D16" \in Open /\ e.obs.res = "error" /\ CoveredByD16(e.toks)
            THEN IF CSVWrite("%1$s", <<ToJson([id |-> e.id, finding |-> "D16"])>>, IOEnv.COVERED) THEN <<>> ELSE <<>>
       ELSE <<l, "C11", j>>

Init == l = 1 /\ mismatch = <<>>
\* strict: stop at the first program the specification does not allow.  repro: judge every pinned
\* reproducer and print the verdict (the runner decides between "still fails as recorded" and "passes")
Next == /\ l <= Len(Trace) /\ mismatch = <<>>
        /\ l' = l + 1
        /\ IF Mode = "strict"
           THEN mismatch' = Check(Trace[l]) /\ Report(mismatch')
           ELSE mismatch' = <<>> /\ PrintT(<<"VERIF-REPRO", ToJson(<<Trace[l].id, Check(Trace[l])>>)>>)
NoMismatch == mismatch = <<>>
Accepted == TLCGet("stats").diameter - 1 = Len(Trace)
====
