---- MODULE AmlRobustPlans ----
(* Leg G of C12: mutation plans are behaviours of this specification.  Starting from the small   *)
(* well-formed programs listed in the file IOEnv.SEEDS (one JSON object {name, b: [bytes]} per    *)
(* line: generated programs and fragments of the shipped tables) TLC enumerates every plan of at  *)
(* most MaxMut mutations - every truncation point, every single-bit flip, every byte moved by     *)
(* -3..3 (length operands that overstate by a few), every substitution of an interesting byte,   *)
(* every corruption of every plausible PkgLength, every splice of a package in front of any byte, *)
(* every join of a prefix with (the tail of) the next seed - and writes each distinct resulting   *)
(* byte string, with the plan that led to it, to IOEnv.CASES.  The Go harness feeds exactly these *)
(* strings to the real parser.  The cfgs choose plan length, substituted values and kinds.        *)
EXTENDS AmlRobust, Json, CSV, IOUtils
CONSTANTS MaxMut,        \* plan length
          SetMode,       \* byte substitution: "few" values, the "interesting" ones, or "all" 256
          Kinds          \* the kinds of mutation enumerated (a subset of AllKinds)
Seeds == ndJsonDeserialize(IOEnv.SEEDS)
SetVals    == CASE SetMode = "few" -> {0, 16, 20, 46, 91, 255}
                [] SetMode = "interesting" -> Interesting
                [] SetMode = "all" -> 0 .. 255
SpliceLens == {1, 4}
\* the other well-formed program of a Join: the next seed of the list
Donor(s) == Seeds[(s % Len(Seeds)) + 1].b

VARIABLES sd, plan, bytes
vars == <<sd, plan, bytes>>

Init == /\ sd \in 1 .. Len(Seeds)
        /\ plan = <<>>
        /\ bytes = Seeds[sd].b
Next == /\ Len(plan) < MaxMut
        /\ \E m \in Mutations(Kinds, bytes, Donor(sd), SetVals, SpliceLens) :
              /\ Apply(bytes, Donor(sd), m) # bytes
              /\ plan' = Append(plan, m)
              /\ bytes' = Apply(bytes, Donor(sd), m)
        /\ UNCHANGED sd

\* what a plan may do to a program: the result is a byte string, a truncation is a proper prefix,
\* in-place mutations keep the length, a splice grows the string by the spliced piece
PlanOK == /\ IsBytes(bytes)
          /\ Len(plan) <= MaxMut
          /\ Len(plan) = 1 =>
               LET m == plan[1]  s == Seeds[sd].b IN
               CASE m[1] = "Truncate" -> bytes = SubSeq(s, 1, Len(bytes)) /\ Len(bytes) < Len(s)
                 [] m[1] = "Splice"   -> Len(bytes) = Len(s) + m[4]
                 [] m[1] = "Join"     -> Len(bytes) = m[2] + Len(Donor(sd)) - m[3] + 1 /\ SubSeq(bytes, 1, m[2]) = SubSeq(s, 1, m[2])
                 [] OTHER             -> Len(bytes) = Len(s) /\ bytes # s
Emit == CSVWrite("%1$s", <<ToJson([seed |-> Seeds[sd].name, plan |-> plan, b |-> bytes])>>, IOEnv.CASES)
View == bytes
====
