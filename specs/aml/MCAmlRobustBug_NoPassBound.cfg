CONSTANTS MaxLen = 4  MaxByte = 3  MaxPasses = 2  MaxDepth = 1  Bug = "NoPassBound"
INIT Init
NEXT Next
INVARIANT Robust
CONSTRAINT Bounded
CHECK_DEADLOCK FALSE
