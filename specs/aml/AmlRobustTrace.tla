---- MODULE AmlRobustTrace ----
(* Trace monitor of C12.  Every line of IOEnv.TRACE is one input that the harness presented to   *)
(* the real parser: outcome, CPU time, link arrays of the object pool, location of every byte     *)
(* slice (64-bit offsets and lengths as four 16-bit limbs), whether PrettyPrint returned.  The    *)
(* judgement is AmlRobust!Checks - the same operator the design model is checked against.         *)
EXTENDS AmlRobust, Json, IOUtils, TraceLib
CONSTANT Props
Trace == ndJsonDeserialize(IOEnv.TRACE)
\* deviations that are switched on while the corresponding finding is open in known_findings.json
Devs == IF IOEnv.C12_DEVS = "" THEN {} ELSE {IOEnv.C12_DEVS}

\* a machine word (most significant limb first) as a natural when it can be a table offset at all
Nat29(w) == IF w[1] = 0 /\ w[2] = 0 /\ w[3] < 8192 THEN w[3] * 65536 + w[4] ELSE Huge
RECURSIVE SumSeq(_, _)
SumSeq(s, i) == IF i = 0 THEN 0 ELSE SumSeq(s, i - 1) + s[i]
Ev(e) == [res |-> e.res, msg |-> e.msg, cpu |-> e.cpu,
          n   |-> IF Len(e.TL) = 0 THEN e.n ELSE SumSeq(e.TL, Len(e.TL)),
          pp  |-> e.pp, ppmsg |-> e.ppmsg, L |-> e.L, TL |-> e.TL,
          S   |-> [k \in 1 .. Len(e.S) |-> <<e.S[k][1], e.S[k][2], Nat29(e.S[k][3]), Nat29(e.S[k][4])>>]]

VARIABLES l, mismatch
vars == <<l, mismatch>>
Init == l = 1 /\ mismatch = <<>>
Next == /\ l <= Len(Trace) /\ mismatch = <<>>
        /\ l' = l + 1
        /\ mismatch' = FirstFailIn(Props, l, Checks(Ev(Trace[l]), Devs))
        /\ Report(mismatch')
NoMismatch == mismatch = <<>>
Accepted == TLCGet("stats").diameter - 1 = Len(Trace)
====
