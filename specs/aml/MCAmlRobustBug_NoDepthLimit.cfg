CONSTANTS MaxLen = 6  MaxByte = 5  MaxPasses = 2  MaxDepth = 1  Bug = "NoDepthLimit"
INIT Init
NEXT Next
INVARIANT Robust
CONSTRAINT Bounded
CHECK_DEADLOCK FALSE
