CONSTANTS
  Fresh <- Fresh4
  PreScopes = {"_SB_"}
  MaxProd = 3  MaxTables = 1  MaxDepth = 2
  OpenKinds = {"Device", "Processor", "PowerRes"}  DeclKindsOn = {"Name", "OpRegion", "Mutex", "Event"}
  Forms = {"abs"}
  FieldKinds = {"Field"}
  ScopeOn = FALSE  FieldOn = TRUE  MethodFlags = {}  StmtKinds = {}  MaxStmts = 0
  Widths = {}
  ChainItems = 0
  Excluded = {"D1", "D1b", "D2", "D2c", "D3", "D5", "D6", "D7", "D8", "D9", "D10", "D11", "D12", "D13", "D14", "D15", "D16"}
  Emit = TRUE  Bug = ""
INIT Init
NEXT Next
INVARIANT LoaderSound
INVARIANT Refines
INVARIANT EmitProg
CHECK_DEADLOCK FALSE
