CONSTANTS
  Fresh <- Fresh3
  PreScopes = {"_SB_"}
  MaxProd = 4  MaxTables = 1  MaxDepth = 3
  OpenKinds = {"Device"}  DeclKindsOn = {"Event"}
  Forms = {"abs", "caret", "rel"}
  FieldKinds = {"Field", "IndexField", "BankField"}
  ScopeOn = TRUE  FieldOn = FALSE  MethodFlags = {}  StmtKinds = {}  MaxStmts = 0
  Widths = {}
  ChainItems = 0
  Excluded = {"D1", "D2", "D2c", "D3", "D5", "D6", "D7", "D8", "D9", "D10", "D11", "D12", "D13", "D14", "D15", "D16"}
  Emit = FALSE  Bug = ""
INIT Init
NEXT Next
INVARIANT RefinesAll
CHECK_DEADLOCK FALSE
