CONSTANTS MaxPool = 4  MaxOps = 8  MaxNodes = 3  NameIds = {1, 2}  Bug = ""  AllowDetached = TRUE  Emit = FALSE
INIT InitFind
NEXT NextFind
VIEW ViewFind
INVARIANT NoMismatch
CHECK_DEADLOCK FALSE
