CONSTANTS MaxPool = 4  MaxOps = 8  MaxNodes = 4  NameIds = {1, 2}  Bug = ""  Emit = FALSE
INIT InitFind
NEXT NextFind
VIEW ViewFind
INVARIANT NoMismatch
CHECK_DEADLOCK FALSE
