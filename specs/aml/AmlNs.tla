---- MODULE AmlNs ----
(* C11 - the ACPI namespace loader.                                                              *)
(*                                                                                               *)
(* A program is a TOKEN STREAM (one token per grammar production, see "tokens" below).  Load     *)
(* consumes it token by token exactly as ACPI loads a definition block: declarations enter the   *)
(* namespace `ns` at the absolute path the scoping rules give them, Scope directives re-open an   *)
(* existing scope, field units land in the ENCLOSING scope with running bit offsets, method       *)
(* invocations are recorded while the body is read and resolved at the end of the table against  *)
(* the namespace as it is then (so a forward reference gets the declared number of arguments),   *)
(* later tables extend the same namespace.                                                       *)
(*                                                                                               *)
(* The operators are shared by  MCAmlNs  (leg M/G: TLC enumerates every complete program of a     *)
(* small scope and emits the token streams)  and  AmlNsTrace  (leg V: the monitor replays the    *)
(* recorded token stream and compares `ns` / `calls` with the projection of the tree that the    *)
(* real parser built).                                                                           *)
(*                                                                                               *)
(* tokens (JSON records):                                                                        *)
(*   [k "scope",  f form, w]                         Scope(f) {                                  *)
(*   [k "open",   kind, f, w, args]                  Device|ThermalZone|Processor|PowerRes(f,..){ *)
(*   [k "method", f, w, flags]                       Method(f, flags) {      argc = flags % 8    *)
(*   [k "close"]                                     }                                           *)
(*   [k "decl",   kind, f, args]                     Name|OpRegion|Mutex|Event(f, args...)       *)
(*   [k "field",  kind, f, (g), (v), w, flags, els]  Field(f region) | IndexField(f index, g data) |  *)
(*                                                   BankField(f region, g bank, v[1] bank value)     *)
(*        els[i]: [e "unit", name, bits, wl] | [e "skip", bits, wl] | [e "access", at, aa]        *)
(*   [k "stmt",   op, x]                             Return|Store|Increment|call statement       *)
(*   [k "if", x, w] [k "else", w] [k "while", x, w]  blocks inside a method, closed by "close"   *)
(*   [k "endtable"]                                                                              *)
(*   form = [abs BOOLEAN, carets Nat, segs Seq(4-character STRING)]                              *)
(*   w    = width (1..4) of the package-length encoding (meaningless to the loader)               *)
(* terms (values and expressions): see harness/aml/c11_harness_test.go, type c11Term.            *)
EXTENDS Integers, Sequences, FiniteSets, TLC

ObjKinds   == {"Device", "ThermalZone", "Processor", "PowerRes"}      \* scoped objects
DeclKinds  == {"Name", "OpRegion", "Mutex", "Event"}
PredefSegs == {"_GPE", "_PR_", "_SB_", "_SI_", "_TZ_"}
Predef     == {[p |-> <<n>>, kind |-> "ScopeBlock", args |-> <<>>] : n \in PredefSegs}

None      == <<"!">>                         \* "no such path" (segments have four characters)
Last(s)   == s[Len(s)]
Front(s)  == SubSeq(s, 1, Len(s) - 1)
Prefix(s, k) == SubSeq(s, 1, k)
RECURSIVE SumTo(_, _)
SumTo(f, n) == IF n = 0 THEN 0 ELSE f[n] + SumTo(f, n - 1)

(* ------------------------------------------------------------------ namespace and name resolution *)
Has(ns, p)      == \E o \in ns : o.p = p
Obj(ns, p)      == CHOOSE o \in ns : o.p = p
IsScope(ns, p)  == p = <<>> \/ \E o \in ns : o.p = p /\ o.kind \in ObjKinds \cup {"ScopeBlock"}
\* a scope that is the scope of an OBJECT (every scope except the root and the predefined ones)
IsObject(ns, p) == \E o \in ns : o.p = p /\ o.kind \in ObjKinds \cup {"Method"}

\* where a name form starts: the root for absolute names, else the current scope minus one level per ^
Base(cur, f) == IF f.abs THEN <<>> ELSE IF f.carets > Len(cur) THEN None ELSE Prefix(cur, Len(cur) - f.carets)
RECURSIVE Down(_, _, _)                      \* follow segs downward; every step must be an existing scope
Down(ns, base, segs) == IF base = None THEN None ELSE IF segs = <<>> THEN base
                        ELSE LET b == Append(base, Head(segs)) IN
                             IF IsScope(ns, b) THEN Down(ns, b, Tail(segs)) ELSE None
\* absolute path a declaration with name form f made in scope cur gets
DeclPath(ns, cur, f) == IF f.segs = <<>> THEN None
                        ELSE LET par == Down(ns, Base(cur, f), Front(f.segs)) IN
                             IF par = None THEN None ELSE Append(par, Last(f.segs))
\* ACPI search rule for a single segment: the current scope, then every enclosing scope up to the root
RECURSIVE SearchUp(_, _, _)
SearchUp(ns, cur, seg) == IF Has(ns, Append(cur, seg)) THEN Append(cur, seg)
                          ELSE IF cur = <<>> THEN None ELSE SearchUp(ns, Front(cur), seg)
SingleSeg(f) == ~f.abs /\ f.carets = 0 /\ Len(f.segs) = 1
\* the existing object a name form refers to (None when there is none)
Lookup(ns, cur, f) == IF SingleSeg(f) THEN SearchUp(ns, cur, f.segs[1])
                      ELSE IF f.segs = <<>> THEN Base(cur, f)
                      ELSE LET p == DeclPath(ns, cur, f) IN IF p # None /\ Has(ns, p) THEN p ELSE None
ScopeTarget(ns, cur, f) == LET p == Lookup(ns, cur, f) IN IF p # None /\ IsScope(ns, p) THEN p ELSE None

(* ------------------------------------------------------------------ terms *)
\* terms with sub-terms: an invocation (arguments), an operator (operands), a Buffer (its size term) and a
\* Package (its elements); a field unit also has `a`, but that only holds the container's name strings
Nested == {"call", "op", "buffer", "package"}
RECURSIVE CallsOf(_), CallsOfSeq(_)          \* invocations inside a term, in source order (pre-order)
CallsOfSeq(xs) == IF xs = <<>> THEN <<>> ELSE CallsOf(Head(xs)) \o CallsOfSeq(Tail(xs))
CallsOf(x) == IF x.t = "call" THEN <<x>> \o CallsOfSeq(x.a)
              ELSE IF x.t \in Nested THEN CallsOfSeq(x.a) ELSE <<>>
RECURSIVE Resolve(_, _, _)                   \* replace every name by the object it designates
Resolve(ns, cur, x) ==
  CASE x.t = "call" /\ "f" \in DOMAIN x -> [t |-> "call", p |-> Lookup(ns, cur, x.f), a |-> [i \in 1..Len(x.a) |-> Resolve(ns, cur, x.a[i])]]
    [] x.t = "ref" /\ "f" \in DOMAIN x  -> [t |-> "ref", p |-> Lookup(ns, cur, x.f)]
    [] x.t \in {"op", "buffer", "package"} -> [x EXCEPT !.a = [i \in 1..Len(x.a) |-> Resolve(ns, cur, x.a[i])]]
    [] OTHER        -> x
RECURSIVE HasOp(_)
HasOp(x) == x.t = "op" \/ (x.t \in Nested /\ \E i \in 1..Len(x.a) : HasOp(x.a[i]))
RECURSIVE NamesIn(_)                         \* name forms used inside a term
NamesIn(x) == (IF x.t \in {"call", "ref"} THEN {x.f} ELSE {})
              \cup (IF x.t \in Nested THEN UNION {NamesIn(x.a[i]) : i \in 1..Len(x.a)} ELSE {})

(* ------------------------------------------------------------------ trigger constructs of the open findings *)
(* Each is a predicate on a token in its loader state.  The generators (TLC scope and random      *)
(* driver) draw from the language WITHOUT them; a pinned reproducer per finding is run apart.     *)
\* D1: a ^ that is evaluated inside the scope of an object
UsesCaretInObjectScope(ns, cur, f) ==
  ~f.abs /\ \E k \in 0..(f.carets - 1) : k <= Len(cur) /\ IsObject(ns, Prefix(cur, Len(cur) - k))
\* D2 (Scope directives and declarations, at load time) / D2c (names and invocations in method bodies):
\* the path that has to be looked up names an object that is followed by a further segment
PathThroughObject(ns, cur, f, segs) ==
  LET b == Base(cur, f) IN
  b # None /\ \E i \in 1..(Len(segs) - 1) : IsObject(ns, b \o Prefix(segs, i))
LookupSegs(t) == IF t.k \in {"open", "method", "decl"} THEN Front(t.f.segs) ELSE t.f.segs
\* D3: a name (last segment) that is declared more than once in the program: a load-time lookup may
\* then see a later / not yet relocated namesake (the parser resolves against the finished tree)
ReusesName(names, seg) == seg \in names \/ seg \in PredefSegs
\* D1b: a ^ inside a Scope directive that the parser cannot merge in its first pass.  The ^ is then taken
\* relative to the place where the directive is WRITTEN.  A directive is `late` when its target (or a
\* scope on the way to it) is an object that is not yet where it belongs - declared with a path from
\* another place, or written in a place that is itself not final (`displaced`) -, when it is a relative
\* name written in such a place (`off`), or when it is nested in a late directive.
TopLate(st) == st.stack # <<>> /\ Last(st.stack).late
TopOff(st)  == st.stack # <<>> /\ Last(st.stack).off
Displaces(st, p)     == Front(p) # (IF st.stack = <<>> THEN <<>> ELSE Last(st.stack).p) \/ TopOff(st)
LateScope(st, f, p)  == TopLate(st) \/ (\E i \in 1..Len(p) : Prefix(p, i) \in st.displaced) \/ (~f.abs /\ TopOff(st))
CaretUnderLateScope(st, f) == ~f.abs /\ f.carets > 0 /\ TopLate(st)
\* D8: Scope(\): the root as the target of a Scope directive
RootScopeDirective(t) == t.k = "scope" /\ t.f.segs = <<>>
\* D9: an If whose body is empty (closed without a statement)
EmptyIfBody(st) == st.stack # <<>> /\ Last(st.stack).t = "if" /\ Last(st.stack).cnt = 0
\* D12: an invocation WITH arguments as an operand of a declaration that is not its last operand
\* (OpRegion offset): the declaration collects its operands before the invocation has collected its own
CallBeforeLastOperand(args) == \E i \in 1..(Len(args) - 1) : args[i].t = "call" /\ args[i].a # <<>>
\* D13: a name or invocation in the operands of a declaration that is written with a prefix / path (the
\* object is relocated before its operands are collected; their names would be searched from the new place)
NamesInOperands(args) == UNION {NamesIn(args[i]) : i \in 1..Len(args)}
NamesUnderRelocatedDecl(t) == t.k = "decl" /\ ~SingleSeg(t.f) /\ NamesInOperands(t.args) # {}
\* D14: a Buffer nested in a deferred term with something after it: inside the size term of a Buffer, or (below)
\* inside a While as an argument that is followed by further arguments
RECURSIVE HasBuffer(_)
HasBuffer(x) == x.t = "buffer" \/ (x.t \in Nested /\ \E i \in 1..Len(x.a) : HasBuffer(x.a[i]))
RECURSIVE BufferInBufferSize(_)
BufferInBufferSize(x) == \/ x.t = "buffer" /\ \E i \in 1..Len(x.a) : HasBuffer(x.a[i])
                         \/ x.t \in Nested /\ \E i \in 1..Len(x.a) : BufferInBufferSize(x.a[i])
\* D14 (second form): inside a While, a Buffer inside the arguments of an invocation, or a Buffer anywhere in a
\* block nested in the While body (only a direct operand of a statement of the outermost While body is read back)
RECURSIVE BufferInCallArgs(_)
BufferInCallArgs(x) == \/ x.t = "call" /\ \E i \in 1..Len(x.a) : HasBuffer(x.a[i])
                       \/ x.t \in Nested /\ \E i \in 1..Len(x.a) : BufferInCallArgs(x.a[i])
\* D15: a name inside a deferred term (Buffer size, While predicate or body) that designates a unit of a BankField
\* of the same table (these terms and BankFields are all read in the deferred pass, in TREE order: the unit may not exist yet when the size
\* is read - always when the BankField is written later, and also when merges put the Buffer ahead of it)
RECURSIVE NamesInBufferSize(_)
NamesInBufferSize(x) == IF x.t = "buffer" THEN UNION {NamesIn(x.a[i]) : i \in 1..Len(x.a)}
                        ELSE IF x.t \in Nested THEN UNION {NamesInBufferSize(x.a[i]) : i \in 1..Len(x.a)} ELSE {}
\* D5: an operator expression in a statement that is read in the flat first pass (outside every While)
\* D6: a name or invocation inside an operator expression or inside the size term of a Buffer, inside a While
\*     (predicate or body): the operator / Buffer is not yet attached to the tree when its operands are read
\* D7: While loops (known sub-defect: anything that follows a nested If / Else / While block in a While body is dropped)
UsesOperator(t) == t.k \in {"stmt", "if", "while"} /\ \E i \in 1..Len(t.x) : HasOp(t.x[i])
RECURSIVE NamesInOperators(_)
NamesInOperators(x) == IF x.t \in {"op", "buffer"} THEN UNION {NamesIn(x.a[i]) : i \in 1..Len(x.a)}   \* (and inside a Buffer's size term)
                       ELSE IF x.t \in Nested THEN UNION {NamesInOperators(x.a[i]) : i \in 1..Len(x.a)} ELSE {}

(* ------------------------------------------------------------------ the loader *)
\* st: [seq (tokens read), bankunits (units of this table's BankFields with the position of the BankField, see D15),
\*      ns, names (declared last segments), displaced (see D1b), ixs (see D10), lateargs (declarations whose operands use names), stack (<<[p, t, cnt, late, off]>>), pend (invocations of this table),
\*      calls (resolved invocations of finished tables), tab, trig (finding ids met), err]
S0 == [ns |-> Predef, names |-> {}, displaced |-> {}, ixs |-> {}, lateargs |-> <<>>, seq |-> 0, bankunits |-> {}, stack |-> <<>>, pend |-> <<>>, calls |-> <<>>, tab |-> 1, trig |-> {}, err |-> <<>>]
Cur(st)      == IF st.stack = <<>> THEN <<>> ELSE Last(st.stack).p
InMethod(st) == \E i \in 1..Len(st.stack) : st.stack[i].t = "method"
Fail(st, why) == [st EXCEPT !.err = why]
\* stack entry: scope path, kind of block, statements seen, late / off (see D1b)
PushE(st, p, t, late, off) == [st EXCEPT !.stack = Append(@, [p |-> p, t |-> t, cnt |-> 0, nb |-> FALSE, late |-> late, off |-> off])]
InWhile(st) == \E i \in 1..Len(st.stack) : st.stack[i].t = "while"
\* the block being filled is nested (If / Else / While) in the body of a While
NestedInWhile(st) == \E i \in 1..Len(st.stack) : st.stack[i].t = "while" /\ i < Len(st.stack)
\* a nested block has already been closed in the block that is being filled
AfterNestedBlock(st) == st.stack # <<>> /\ Last(st.stack).nb
Push(st, p, t) == PushE(st, p, t, TopLate(st), TopOff(st) \/ (t \in {"obj", "method"} /\ Displaces(st, p)))

NameTriggers(st, t) ==
  (IF UsesCaretInObjectScope(st.ns, Cur(st), t.f) THEN {"D1"} ELSE {})
  \cup (IF PathThroughObject(st.ns, Cur(st), t.f, LookupSegs(t)) THEN {"D2"} ELSE {})
  \cup (IF t.k # "scope" /\ t.f.segs # <<>> /\ ReusesName(st.names, Last(t.f.segs)) THEN {"D3"} ELSE {})
  \cup (IF RootScopeDirective(t) THEN {"D8"} ELSE {})
  \cup (IF CaretUnderLateScope(st, t.f) THEN {"D1b"} ELSE {})
TermTriggers(st, t) ==
  (IF (UsesOperator(t) /\ ~InWhile(st) /\ t.k # "while") \/ (t.k = "decl" /\ \E i \in 1..Len(t.x) : HasOp(t.x[i])) THEN {"D5"} ELSE {})
  \cup (IF (InWhile(st) \/ t.k = "while") /\ \E i \in 1..Len(t.x) : NamesInOperators(t.x[i]) # {} THEN {"D6"} ELSE {})
  \* (the sub-shapes of While that the pinned parser reads correctly are not yet delimited: a statement after a nested
  \*  block, Buffers in arguments or nested blocks, names in operators / Buffer sizes all fail, and random bodies still
  \*  lose invocations; until they are, every While is excluded)
  \cup (IF InWhile(st) \/ t.k = "while" THEN {"D7"} ELSE {})
  \cup (IF t.k = "decl" /\ CallBeforeLastOperand(t.x) THEN {"D12"} ELSE {})
  \cup (IF \E i \in 1..Len(t.x) : BufferInBufferSize(t.x[i]) \/ ((InWhile(st) \/ t.k = "while") /\ (BufferInCallArgs(t.x[i]) \/ (NestedInWhile(st) /\ HasBuffer(t.x[i])))) THEN {"D14"} ELSE {})
  \cup (IF t.k = "decl" /\ ~SingleSeg(t.f) THEN {"D13"} ELSE {})
  \cup UNION {UNION { (IF UsesCaretInObjectScope(st.ns, Cur(st), f) THEN {"D1"} ELSE {})
                      \cup (IF PathThroughObject(st.ns, Cur(st), f, f.segs) THEN {"D2c"} ELSE {})
                      : f \in NamesIn(t.x[i])} : i \in 1..Len(t.x)}

\* operands of a statement wait for the end of the table (a name may be declared after its use)
Count(st) == IF st.stack = <<>> THEN st ELSE [st EXCEPT !.stack[Len(st.stack)].cnt = @ + 1]
Pend(st, t) == [Count(st) EXCEPT !.pend = @ \o [i \in 1..Len(t.x) |-> [cur |-> Cur(st), x |-> t.x[i], seq |-> st.seq, deferred |-> (InWhile(st) \/ t.k = "while")]],
                          !.trig = @ \cup TermTriggers(st, t)]

Declare(st, t, kind, args, scoped) ==
  LET p == DeclPath(st.ns, Cur(st), t.f) IN
  IF InMethod(st) THEN Fail(st, <<"declaration inside a method", t>>)
  ELSE IF p = None THEN Fail(st, <<"declaration path does not resolve", t>>)
  ELSE IF Has(st.ns, p) THEN Fail(st, <<"object declared twice", p>>)
  ELSE LET s1 == [st EXCEPT !.ns = @ \cup {[p |-> p, kind |-> kind, args |-> args]},
                            !.names = @ \cup {Last(p)}, !.trig = @ \cup NameTriggers(st, t),
                            !.displaced = IF Displaces(st, p) THEN @ \cup {p} ELSE @]
           \* operands that use names (Name(X, MTH0(1)), OpRegion length, Buffer size) wait for the end of the table
           s2 == IF t.k = "decl" /\ NamesInOperands(args) # {}
                 THEN [Pend(s1, [k |-> "decl", f |-> t.f, x |-> args]) EXCEPT !.lateargs = Append(@, [p |-> p, cur |-> Cur(st)])]
                 ELSE s1
       IN IF scoped = "" THEN s2 ELSE Push(s1, p, scoped)

\* field units: running bit offset, access type/attribute as last set, lock/update rule from the flags.
\* A unit records the kind of its container and the container's arguments as written (names are not
\* replaced: the tree keeps name strings there)
FieldArgs(t) == <<[t |-> "name", f |-> t.f]>>
                \o (IF t.kind = "Field" THEN <<>> ELSE <<[t |-> "name", f |-> t.g]>>)
                \o (IF t.kind = "BankField" THEN <<t.v[1]>> ELSE <<>>)
RECURSIVE Units(_, _, _, _, _, _)
Units(t, cur, i, off, at, aa) ==
  IF i > Len(t.els) THEN <<>>
  ELSE LET e == t.els[i] IN
       CASE e.e = "unit"   -> <<[p |-> Append(cur, e.name), kind |-> "NamedField",
                                 args |-> <<[t |-> "unit", s |-> t.kind, a |-> FieldArgs(t),
                                             n |-> <<off, e.bits, at, aa, (t.flags \div 16) % 2, (t.flags \div 32) % 4>>]>>]>>
                              \o Units(t, cur, i + 1, off + e.bits, at, aa)
         [] e.e = "skip"   -> Units(t, cur, i + 1, off + e.bits, at, aa)
         [] e.e = "access" -> Units(t, cur, i + 1, off, e.at, e.aa)
\* the names of a field container must designate what ACPI requires: Field / BankField an operation
\* region, IndexField its index and data registers (field units), BankField its bank register (field unit)
KindAt(ns, cur, f) == LET p == Lookup(ns, cur, f) IN IF p = None \/ p = <<>> \/ ~Has(ns, p) THEN "" ELSE Obj(ns, p).kind
FieldNamesOK(st, t) ==
  /\ KindAt(st.ns, Cur(st), t.f) = (IF t.kind = "IndexField" THEN "NamedField" ELSE "OpRegion")
  /\ t.kind # "Field" => KindAt(st.ns, Cur(st), t.g) = "NamedField"
\* D11: an IndexField whose index register is written with a prefix or path (the parser treats the
\* IndexField as an object of that name: it relocates it along the path and strips the name)
PrefixedIndexName(t) == t.k = "field" /\ t.kind = "IndexField" /\ ~SingleSeg(t.f)
DeclField(st, t) ==
  LET us == Units(t, Cur(st), 1, 0, t.flags % 16, 0)
      ps == {us[i].p : i \in 1..Len(us)} IN
  IF InMethod(st) THEN Fail(st, <<"declaration inside a method", t>>)
  ELSE IF ~FieldNamesOK(st, t) THEN Fail(st, <<"field container names do not designate a region / field units", t>>)
  ELSE IF Cardinality(ps) # Len(us) \/ \E p \in ps : Has(st.ns, p) THEN Fail(st, <<"field unit declared twice", t>>)
  ELSE [st EXCEPT !.ns = @ \cup {us[i] : i \in 1..Len(us)},
                  !.names = @ \cup {Last(p) : p \in ps},
                  !.bankunits = IF t.kind = "BankField" THEN @ \cup {[p |-> q, seq |-> st.seq] : q \in ps} ELSE @,
                  \* D10 bookkeeping: the scope an IndexField is written in and the name of its index register
                  !.ixs = IF t.kind = "IndexField" THEN @ \cup {[q |-> Cur(st), x |-> Last(t.f.segs)]} ELSE @,
                  !.trig = @ \cup (IF \E p \in ps : ReusesName(st.names, Last(p)) THEN {"D3"} ELSE {})
                             \cup (IF PrefixedIndexName(t) THEN {"D11"} ELSE {})]

\* a resolved term is well formed when every invocation designates a method and carries as many
\* arguments as that method declares, and every other name designates an object that is no method
RECURSIVE TermOK(_, _)
TermOK(ns, r) ==
  CASE r.t = "call" -> /\ r.p # None /\ Obj(ns, r.p).kind = "Method"
                       /\ Obj(ns, r.p).args[1].n[1] % 8 = Len(r.a)
                       /\ \A i \in 1..Len(r.a) : TermOK(ns, r.a[i])
    [] r.t = "ref"  -> r.p # None /\ Obj(ns, r.p).kind # "Method"
    [] r.t \in {"op", "buffer", "package"} -> \A i \in 1..Len(r.a) : TermOK(ns, r.a[i])
    [] OTHER        -> TRUE

\* end of a table: the recorded operands are resolved against the namespace as it is NOW; the
\* invocations among them (source order) are what the tree has to show
\* D10: the parser gives an IndexField the name of its index register; a single-segment name that is searched
\* from the IndexField's scope or below may then find the IndexField, not the register (always when the register
\* lives in an enclosing scope; in the same scope when merges / relocations put the register behind the IndexField)
IsPrefixOf(q, p) == Len(q) <= Len(p) /\ Prefix(p, Len(q)) = q
ShadowedByIndexField(st) ==
  \E i \in 1..Len(st.pend) : \E f \in NamesIn(st.pend[i].x) : \E e \in st.ixs :
     /\ f.segs # <<>> /\ Last(f.segs) = e.x
     /\ IF SingleSeg(f) THEN IsPrefixOf(e.q, st.pend[i].cur)                       \* found on the way up
        ELSE LET p == Lookup(st.ns, st.pend[i].cur, f) IN p # None /\ p # <<>> /\ e.q = Front(p)   \* found in the named scope
\* the operands of the declarations in `late`, with their names replaced by the objects they designate
RECURSIVE ResolveOperands(_, _)
ResolveOperands(ns, late) ==
  IF late = <<>> THEN ns
  ELSE LET o == Obj(ns, Head(late).p)
           r == [o EXCEPT !.args = [i \in 1..Len(o.args) |-> Resolve(ns, Head(late).cur, o.args[i])]]
       IN ResolveOperands((ns \ {o}) \cup {r}, Tail(late))
BufferSizeNamesBankUnit(st) ==
  \E i \in 1..Len(st.pend) :
    \E f \in (IF st.pend[i].deferred THEN NamesIn(st.pend[i].x) ELSE NamesInBufferSize(st.pend[i].x)) : \E e \in st.bankunits :
     e.p = Lookup(st.ns, st.pend[i].cur, f)
EndTable(st) ==
  LET res == [i \in 1..Len(st.pend) |-> Resolve(st.ns, st.pend[i].cur, st.pend[i].x)]
      bad == {i \in 1..Len(res) : ~TermOK(st.ns, res[i])}
      cs  == CallsOfSeq(res) IN
  IF st.stack # <<>> THEN Fail(st, <<"table ends inside a block">>)
  ELSE IF bad # {} THEN Fail(st, <<"name or invocation does not match a declaration", st.pend[CHOOSE i \in bad : TRUE].x>>)
  ELSE [st EXCEPT !.calls = @ \o [i \in 1..Len(cs) |-> [tab |-> st.tab, p |-> cs[i].p, a |-> cs[i].a]],
                  !.ns = ResolveOperands(st.ns, st.lateargs), !.lateargs = <<>>,
                  !.pend = <<>>, !.tab = @ + 1, !.displaced = {},
                  !.bankunits = {},
                  !.trig = @ \cup (IF ShadowedByIndexField(st) THEN {"D10"} ELSE {})
                             \cup (IF BufferSizeNamesBankUnit(st) THEN {"D15"} ELSE {})]

Apply0(st, t) ==
  IF st.err # <<>> THEN st
  ELSE CASE t.k = "scope"  -> LET tgt == ScopeTarget(st.ns, Cur(st), t.f) IN
                              IF InMethod(st) THEN Fail(st, <<"Scope inside a method", t>>)
                              ELSE IF tgt = None THEN Fail(st, <<"Scope target does not resolve", t>>)
                              ELSE PushE([st EXCEPT !.trig = @ \cup NameTriggers(st, t)], tgt, "scope",
                                         LateScope(st, t.f, tgt), LateScope(st, t.f, tgt))
         [] t.k = "open"   -> Declare(st, t, t.kind, t.args, "obj")
         [] t.k = "method" -> Declare(st, t, "Method", <<[t |-> "byte", n |-> <<t.flags>>]>>, "method")
         [] t.k = "decl"   -> Declare(st, t, t.kind, t.args, "")
         [] t.k = "field"  -> DeclField(st, t)
         [] t.k = "close"  -> IF st.stack = <<>> THEN Fail(st, <<"close without open">>)
                              ELSE LET closedBlock == Last(st.stack).t \in {"if", "else", "while"}
                                       rest == Front(st.stack) IN
                                   [st EXCEPT !.stack = IF closedBlock /\ rest # <<>> THEN [rest EXCEPT ![Len(rest)].nb = TRUE] ELSE rest,
                                              !.trig = @ \cup (IF EmptyIfBody(st) THEN {"D9"} ELSE {})]
         [] t.k = "stmt"   -> IF ~InMethod(st) THEN Fail(st, <<"statement outside a method", t>>) ELSE Pend(st, t)
         [] t.k \in {"if", "while"} ->
                              IF ~InMethod(st) THEN Fail(st, <<"statement outside a method", t>>)
                              ELSE Push(Pend(st, t), Cur(st), t.k)
         [] t.k = "else"   -> IF ~InMethod(st) THEN Fail(st, <<"statement outside a method", t>>)
                              ELSE Push([Count(st) EXCEPT !.trig = @ \cup (IF InWhile(st) THEN {"D7"} ELSE {})], Cur(st), "else")
         [] t.k = "endtable" -> EndTable(st)
         [] OTHER -> Fail(st, <<"unknown token", t>>)

Apply(st, t) == Apply0([st EXCEPT !.seq = @ + 1], t)
RECURSIVE LoadFrom(_, _, _)
LoadFrom(st, toks, i) == IF i > Len(toks) THEN st ELSE LoadFrom(Apply(st, toks[i]), toks, i + 1)
Load(toks) == LoadFrom(S0, toks, 1)
\* a complete program: loaded without error, ends with the end of a table
Complete(st, toks) == st.err = <<>> /\ toks # <<>> /\ Last(toks).k = "endtable"

(* ------------------------------------------------------------------ what the property demands of a parse result *)
\* obs = [res, err, ns (sequence of [p, kind, args]), calls (sequence of [tab, p, a])]: the projection of
\* the real tree.  Returns <<>> when it is exactly what the program means, else the explanation.
Judge(st, obs) ==
  LET got == {obs.ns[i] : i \in 1..Len(obs.ns)} IN
  IF obs.res # "ok" THEN <<"well-formed program not parsed", obs.res, obs.err>>
  ELSE IF Cardinality(got) # Len(obs.ns) THEN <<"an object appears twice in the tree">>
  ELSE IF got # st.ns THEN <<"namespace differs", [missing |-> st.ns \ got, unexpected |-> got \ st.ns]>>
  ELSE IF Len(obs.calls) # Len(st.calls) THEN <<"number of method invocations differs", [want |-> st.calls, got |-> obs.calls]>>
  ELSE LET D == {i \in 1..Len(st.calls) : obs.calls[i] # st.calls[i]} IN
       IF D = {} THEN <<>>
       ELSE LET i == CHOOSE j \in D : \A k \in D : j <= k IN
            <<"method invocation differs", [want |-> st.calls[i], got |-> obs.calls[i]]>>

(* ------------------------------------------------------------------ properties of the loader itself (leg M) *)
\* the namespace is a tree: every object lives in an existing scope
TreeShaped(st) == \A o \in st.ns : Len(o.p) = 1 \/ IsScope(st.ns, Front(o.p))
\* every open scope exists; a block inside a method keeps the method's scope
StackSound(st) == \A i \in 1..Len(st.stack) : IsScope(st.ns, st.stack[i].p) \/ IsObject(st.ns, st.stack[i].p)
\* every resolved invocation designates a method and carries exactly its declared number of arguments
CallsSound(st) == \A i \in 1..Len(st.calls) :
                    /\ Has(st.ns, st.calls[i].p) /\ Obj(st.ns, st.calls[i].p).kind = "Method"
                    /\ Obj(st.ns, st.calls[i].p).args[1].n[1] % 8 = Len(st.calls[i].a)
====
