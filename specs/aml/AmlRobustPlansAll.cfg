CONSTANTS MaxMut = 1  SetMode = "all"
  Kinds = {"SetByte"}
INIT Init
NEXT Next
INVARIANT PlanOK
INVARIANT Emit
VIEW View
CHECK_DEADLOCK FALSE
