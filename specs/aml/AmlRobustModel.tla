---- MODULE AmlRobustModel ----
(* Leg M of C12: a design model of the mechanisms the property rests on, small enough to be      *)
(* checked for EVERY byte string of the scope.                                                    *)
(*                                                                                                *)
(* Mini-AML over the alphabet 0..MaxByte (every byte is opcode, length, name or data, as in AML): *)
(*    0                      Noop                                                                 *)
(*    1 len name  body...    object with a package: the package ends at (offset of len) + len     *)
(*    2 len tgt name body... object whose name carries a path: after parsing it is relocated      *)
(*                           under the object called tgt (cf. relocateNamedObjects)               *)
(*    3 n d1 .. dn           byte list with a declared length (cf. Connection buffers)            *)
(*    anything else          not an opcode: ParseError                                            *)
(* Design decisions under test (each has a Bug switch that removes it):                           *)
(*    - a package end beyond the table is refused             (SetPkgEnd)      NoPkgEndCheck       *)
(*    - a byte list longer than the rest of its package is refused             ByteListUnbounded   *)
(*    - an object is never re-parented into its own sub-tree                   NoCycleGuard        *)
(*    - detach precedes append when re-parenting                               AppendBeforeDetach  *)
(*    - unresolvable paths are given up after MaxPasses passes                 NoPassBound         *)
(*    - packages nest at most MaxDepth deep (the parser and every consumer of                      *)
(*      the tree recurse once per level: the stack must not grow with the input) NoDepthLimit      *)
(* The invariant is the judgement the trace monitor applies to the real parser                    *)
(* (AmlRobust!Checks on the projected link arrays and slices) plus "no read outside the table"    *)
(* and "done within a number of steps proportional to the input".                                 *)
EXTENDS AmlRobust, TraceLib
CONSTANTS MaxLen, MaxByte, MaxPasses, MaxDepth, Bug

VARIABLES tbl,      \* the table: a byte string, offsets are 0-based (tbl[o + 1])
          off,      \* read offset
          ends,     \* stack of package ends (bottom: the table length)
          scopes,   \* stack of open scopes (pool slots; bottom: the root, slot 0)
          pool,     \* sequence of [fr, par, prv, nxt, fst, lst, nm, tg], slot i at pool[i + 1]
          slices,   \* recorded byte lists <<slot, 0, offset, length>>
          phase,    \* "parse" | "reloc" | "ok" | "error" | "fault"
          pass,     \* resolve pass counter
          steps
vars == <<tbl, off, ends, scopes, pool, slices, phase, pass, steps>>

N == Len(tbl)
Top(s) == s[Len(s)]
Pop(s) == SubSeq(s, 1, Len(s) - 1)
NewNode(nm, tg) == [fr |-> 0, par |-> -1, prv |-> -1, nxt |-> -1, fst |-> -1, lst |-> -1, nm |-> nm, tg |-> tg]
Links(P) == [i \in 1 .. Len(P) |-> <<P[i].fr, P[i].par, P[i].prv, P[i].nxt, P[i].fst, P[i].lst>>]

\* ObjectTree.append / ObjectTree.detach, field by field as in obj_tree.go (o, a are slots)
AppendTo(P, o, a) ==
  IF P[o + 1].lst = -1
  THEN [P EXCEPT ![a + 1].par = o, ![o + 1].fst = a, ![o + 1].lst = a]
  ELSE LET last == P[o + 1].lst IN
       [P EXCEPT ![a + 1].par = o, ![last + 1].nxt = a, ![a + 1].prv = last, ![a + 1].nxt = -1, ![o + 1].lst = a]
DetachFrom(P, o, a) ==
  LET an == P[a + 1].nxt  ap == P[a + 1].prv
      P1 == IF P[o + 1].fst = a THEN [P EXCEPT ![o + 1].fst = an] ELSE P
      P2 == IF P1[o + 1].lst = a THEN [P1 EXCEPT ![o + 1].lst = ap] ELSE P1
      P3 == IF an # -1 THEN [P2 EXCEPT ![an + 1].prv = ap] ELSE P2
      P4 == IF ap # -1 THEN [P3 EXCEPT ![ap + 1].nxt = an] ELSE P3
  IN [P4 EXCEPT ![a + 1].prv = -1, ![a + 1].nxt = -1, ![a + 1].par = -1]

Tables == UNION {[1 .. n -> 0 .. MaxByte] : n \in 0 .. MaxLen}

Init == /\ tbl \in Tables
        /\ off = 0 /\ ends = <<Len(tbl)>> /\ scopes = <<0>>
        /\ pool = <<NewNode(-1, -1)>> /\ slices = <<>>
        /\ phase = "parse" /\ pass = 1 /\ steps = 0

Stop(ph) == /\ phase' = ph
            /\ UNCHANGED <<tbl, off, ends, scopes, pool, slices, pass>>

\* a read at offset o inside the current package: "eof" past the package end (bounds-checked
\* ReadByte), "fault" when the package end lies beyond the table and o does too
ReadAt(o, end) == IF o >= end THEN "eof" ELSE IF o >= N THEN "fault" ELSE "ok"
\* outcome of a sequence of reads: the first one that is not "ok"
Worst(rs) == LET B == {i \in 1 .. Len(rs) : rs[i] # "ok"} IN
             IF B = {} THEN "ok" ELSE rs[CHOOSE i \in B : \A j \in B : i <= j]

\* open an object with a package: hdr = number of bytes after the opcode that form its header
OpenObj(path) ==
  LET end    == Top(ends)
      lenAt  == off + 1
      rdLen  == ReadAt(lenAt, end) IN
  IF rdLen # "ok" THEN Stop(IF rdLen = "fault" THEN "fault" ELSE "error")
  ELSE
  LET newEnd == lenAt + tbl[lenAt + 1] IN
  IF Bug # "NoPkgEndCheck" /\ newEnd > N THEN Stop("error")            \* SetPkgEnd refuses
  ELSE IF Bug # "NoDepthLimit" /\ Len(scopes) > MaxDepth THEN Stop("error")   \* nested too deep
  ELSE
  LET tgAt == off + 2
      nmAt == IF path THEN off + 3 ELSE off + 2
      rd   == Worst(IF path THEN <<ReadAt(tgAt, newEnd), ReadAt(nmAt, newEnd)>> ELSE <<ReadAt(nmAt, newEnd)>>) IN
  IF rd # "ok" THEN Stop(IF rd = "fault" THEN "fault" ELSE "error")
  ELSE
  LET slot == Len(pool)
      node == NewNode(tbl[nmAt + 1], IF path THEN tbl[tgAt + 1] ELSE -1) IN
  /\ pool' = AppendTo(Append(pool, node), Top(scopes), slot)
  /\ scopes' = Append(scopes, slot)
  /\ ends' = Append(ends, newEnd)
  /\ off' = nmAt + 1
  /\ UNCHANGED <<tbl, slices, phase, pass>>

ByteList ==
  LET end  == Top(ends)
      rdN  == ReadAt(off + 1, end) IN
  IF rdN # "ok" THEN Stop(IF rdN = "fault" THEN "fault" ELSE "error")
  ELSE
  LET n     == tbl[off + 2]
      start == off + 2 IN
  IF Bug # "ByteListUnbounded" /\ n > end - start THEN Stop("error")    \* must fit in the rest of the package
  ELSE
  LET slot == Len(pool) IN
  /\ pool' = AppendTo(Append(pool, NewNode(-1, -1)), Top(scopes), slot)
  /\ slices' = Append(slices, <<slot, 0, start, n>>)
  /\ off' = IF start + n > N THEN N ELSE start + n                       \* SetOffset clamps to the table
  /\ UNCHANGED <<tbl, ends, scopes, phase, pass>>

ParseStep ==
  /\ phase = "parse"
  /\ IF off >= Top(ends)
     THEN IF Len(ends) = 1
          THEN /\ phase' = "reloc"
               /\ UNCHANGED <<tbl, off, ends, scopes, pool, slices, pass>>
          ELSE /\ ends' = Pop(ends) /\ scopes' = Pop(scopes)
               /\ UNCHANGED <<tbl, off, pool, slices, phase, pass>>
     ELSE IF off >= N THEN Stop("fault")
     ELSE CASE tbl[off + 1] = 0 -> /\ off' = off + 1
                                   /\ UNCHANGED <<tbl, ends, scopes, pool, slices, phase, pass>>
            [] tbl[off + 1] = 1 -> OpenObj(FALSE)
            [] tbl[off + 1] = 2 -> OpenObj(TRUE)
            [] tbl[off + 1] = 3 -> ByteList
            [] OTHER            -> Stop("error")

\* is slot j inside the sub-tree of slot i (or i itself)?  Follows parent links.
RECURSIVE Below(_, _, _, _)
Below(P, j, i, k) == IF j = i THEN TRUE ELSE IF j = -1 \/ k = 0 THEN FALSE ELSE Below(P, P[j + 1].par, i, k - 1)

Pending   == {i \in 1 .. (Len(pool) - 1) : pool[i + 1].tg # -1}
TargetOf(i) == LET C == {j \in 1 .. (Len(pool) - 1) : pool[j + 1].nm = pool[i + 1].tg} IN
               IF C = {} THEN -1 ELSE CHOOSE j \in C : \A k \in C : j <= k

RelocStep ==
  /\ phase = "reloc"
  /\ IF Pending = {} THEN Stop("ok")
     ELSE LET i == CHOOSE x \in Pending : \A y \in Pending : x <= y
              j == TargetOf(i) IN
          IF j = -1
          THEN \* unresolved: another pass, given up after MaxPasses
               IF Bug # "NoPassBound" /\ pass > MaxPasses THEN Stop("error")
               ELSE /\ pass' = pass + 1
                    /\ UNCHANGED <<tbl, off, ends, scopes, pool, slices, phase>>
          ELSE IF Bug # "NoCycleGuard" /\ Below(pool, j, i, Len(pool)) THEN Stop("error")
          ELSE LET par == pool[i + 1].par
                   moved == IF Bug = "AppendBeforeDetach"
                            THEN DetachFrom(AppendTo(pool, j, i), par, i)
                            ELSE AppendTo(DetachFrom(pool, par, i), j, i) IN
               /\ pool' = [moved EXCEPT ![i + 1].tg = -1]
               /\ UNCHANGED <<tbl, off, ends, scopes, slices, phase, pass>>

Next == /\ (ParseStep \/ RelocStep)
        /\ steps' = steps + 1

(* ------------------------------------------------------------------ the property *)
\* parsing is done within a number of steps proportional to the input
StepBound == 3 * N + MaxPasses + 4
\* what the harness would record about this state, judged by the shared operator
ModelEv == [res   |-> IF phase \in {"parse", "reloc"} THEN "ok" ELSE phase, msg |-> "", cpu |-> 0, n |-> N,
            pp    |-> 1, ppmsg |-> "", L |-> Links(pool), S |-> slices, TL |-> <<N>>]
Robust == /\ phase # "fault"
          /\ steps <= StepBound
          /\ Len(scopes) - 1 <= MaxDepth                  \* recursion depth bounded whatever the input
          /\ FirstFailIn({"C12"}, 0, Checks(ModelEv, {})) = <<>>
\* keeps the graph finite when a Bug switch lets the parser run on (the first state beyond the
\* bound is still generated, so that the invariant sees it)
Bounded == steps <= StepBound + 1
====
