---- MODULE ObjTreeTrace ----
(* Trace monitor for C13: events recorded from the real aml.ObjectTree (harness/aml/c13_objtree_test.go) *)
(* are judged by the operators of ObjTreeProps, one event per step.                                      *)
EXTENDS ObjTreeProps, TLC, Json, IOUtils, TraceLib
Trace == ndJsonDeserialize(IOEnv.TRACE)

VARIABLES l, s, mismatch
vars == <<l, s, mismatch>>

Init == l = 1 /\ s = S0 /\ mismatch = <<>>
Next == /\ l <= Len(Trace) /\ mismatch = <<>>
        /\ l' = l + 1
        /\ LET m == Mon(s, Trace[l]) IN s' = m.s /\ mismatch' = FirstFail(l, m.cs)
        /\ Report(mismatch')
NoMismatch == mismatch = <<>>
Accepted == TLCGet("stats").diameter - 1 = Len(Trace)
====
