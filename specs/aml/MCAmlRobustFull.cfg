CONSTANTS MaxLen = 7  MaxByte = 4  MaxPasses = 2  MaxDepth = 1  Bug = ""
INIT Init
NEXT Next
INVARIANT Robust
CONSTRAINT Bounded
CHECK_DEADLOCK FALSE
