CONSTANTS MaxPool = 4  MaxOps = 10  MaxNodes = 4  NameIds = {0, 1, 2}  Bug = ""  AllowDetached = FALSE  Emit = TRUE
INIT Init
NEXT Next
VIEW View
INVARIANT NoMismatch
INVARIANT WellFormedModel
PROPERTY ReuseBeforeGrow
ACTION_CONSTRAINT LogEdge
CHECK_DEADLOCK FALSE
