CONSTANTS
  Fresh <- Fresh3
  PreScopes = {"_SB_"}
  MaxProd = 4  MaxTables = 1  MaxDepth = 2
  OpenKinds = {"Device"}  DeclKindsOn = {}
  Forms = {"abs"}
  FieldKinds = {"Field", "IndexField", "BankField"}
  ScopeOn = TRUE  FieldOn = FALSE  MethodFlags = {1}  StmtKinds = {"call1"}  MaxStmts = 1
  Widths = {}
  ChainItems = 0
  Excluded = {"D1", "D1b", "D2", "D2c", "D3", "D5", "D6", "D7", "D8", "D9", "D10", "D11", "D12", "D13", "D14", "D15", "D16"}
  Emit = FALSE  Bug = "CallsInFirstPass"
INIT Init
NEXT Next
INVARIANT Refines
CHECK_DEADLOCK FALSE
