---- MODULE AmlRobustShapes ----
(* Leg G of C12, second enumerator: relocation shapes.  Over the tiny name alphabet {A___, B___}   *)
(* TLC enumerates every declaration of every kind of named object whose name carries a two- or     *)
(* three-segment path (relative, absolute, caret-prefixed), with its arguments in line or left to  *)
(* be adopted from its siblings, immediately followed by scoped objects of those same names,       *)
(* optionally preceded by objects of those names and wrapped in a Scope.  The byte encoding is     *)
(* part of the specification.  The seeds themselves thereby cover "the relocation target is the    *)
(* object itself / its child / its grandchild / a sibling it adopted / an unrelated object".       *)
EXTENDS AmlRobust, Json, CSV, IOUtils
A == <<65, 95, 95, 95>>
B == <<66, 95, 95, 95>>
Segs     == {A, B}
Paths    == {<<x, y>> : x \in Segs, y \in Segs} \cup {<<x, y, z>> : x \in Segs, y \in Segs, z \in Segs}
Prefixes == {<<>>, <<92>>, <<94>>}                       \* relative, \ , ^
RECURSIVE Flat(_)
Flat(ss) == IF ss = <<>> THEN <<>> ELSE Head(ss) \o Flat(Tail(ss))
NameStr(px, segs) == px \o (IF Len(segs) = 2 THEN <<46>> ELSE <<47, Len(segs)>>) \o Flat(segs)
Pkg(op, body)     == op \o <<Len(body) + 1>> \o body      \* one-byte PkgLength (counts itself)
Str == <<13, 88, 0>>                                      \* "X"

Kinds == {"Name", "NameAdopt", "Method", "Device", "ThermalZone", "PowerRes", "Processor",
          "OpRegion", "OpRegionAdopt", "DataRegion", "DataRegionAdopt", "Mutex", "Event"}
Decl(k, ns) ==
  CASE k = "Name"            -> <<8>> \o ns \o <<1>>
    [] k = "NameAdopt"       -> <<8>> \o ns                                  \* value = the next sibling
    [] k = "Method"          -> Pkg(<<20>>, ns \o <<0>>)
    [] k = "Device"          -> Pkg(<<91, 130>>, ns)
    [] k = "ThermalZone"     -> Pkg(<<91, 133>>, ns)
    [] k = "PowerRes"        -> Pkg(<<91, 132>>, ns \o <<0, 0, 0>>)
    [] k = "Processor"       -> Pkg(<<91, 131>>, ns \o <<1, 16, 4, 0, 0, 6>>)
    [] k = "OpRegion"        -> <<91, 128>> \o ns \o <<0, 10, 0, 10, 16>>
    [] k = "OpRegionAdopt"   -> <<91, 128>> \o ns \o <<0>>                   \* offset and length = the next siblings
    [] k = "DataRegion"      -> <<91, 136>> \o ns \o Str \o Str \o Str
    [] k = "DataRegionAdopt" -> <<91, 136>> \o ns                           \* its three strings = the next siblings
    [] k = "Mutex"           -> <<91, 1>> \o ns \o <<0>>
    [] k = "Event"           -> <<91, 2>> \o ns
Followers == {"none", "DevA", "DevB", "MthA", "MthB"}
Fol(f) == CASE f = "none" -> <<>>
            [] f = "DevA" -> Pkg(<<91, 130>>, A)
            [] f = "DevB" -> Pkg(<<91, 130>>, B)
            [] f = "MthA" -> Pkg(<<20>>, A \o <<0>>)
            [] f = "MthB" -> Pkg(<<20>>, B \o <<0>>)
Pres == {"none", "DevA", "DevAB"}
Pre(p) == CASE p = "none"  -> <<>>
            [] p = "DevA"  -> Pkg(<<91, 130>>, A)
            [] p = "DevAB" -> Pkg(<<91, 130>>, A \o Pkg(<<91, 130>>, B))
Wraps == {"none", "Scope"}
Wrap(w, body) == IF w = "none" THEN body ELSE Pkg(<<16>>, <<92, 95, 83, 66, 95>> \o body)   \* Scope(\_SB_)

Shapes == [k : Kinds, px : Prefixes, path : Paths, f1 : Followers, f2 : {"none", "DevB"}, p : Pres, w : Wraps]
\* a third sibling for the kind that adopts three
Last(k) == IF k = "DataRegionAdopt" THEN <<1>> ELSE <<>>
Bytes(c) == Wrap(c.w, Pre(c.p) \o Decl(c.k, NameStr(c.px, c.path)) \o Fol(c.f1) \o Fol(c.f2) \o Last(c.k))

VARIABLE c
Init == c \in Shapes
Next == FALSE /\ UNCHANGED c
ShapeOK == IsBytes(Bytes(c)) /\ Len(Bytes(c)) <= 64
Emit == CSVWrite("%1$s", <<ToJson([seed |-> "shape", plan |-> <<c>>, b |-> Bytes(c)])>>, IOEnv.CASES)
====
