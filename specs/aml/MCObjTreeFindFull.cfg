CONSTANTS MaxPool = 4  MaxOps = 8  MaxNodes = 5  NameIds = {1, 2}  Bug = ""  AllowDetached = FALSE  Emit = FALSE
INIT InitFind
NEXT NextFind
VIEW ViewFind
INVARIANT NoMismatch
CHECK_DEADLOCK FALSE
