CONSTANTS MaxMut = 1  SetAll = TRUE
INIT Init
NEXT Next
INVARIANT PlanOK
INVARIANT Emit
VIEW View
CHECK_DEADLOCK FALSE
