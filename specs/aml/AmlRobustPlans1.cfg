CONSTANTS MaxMut = 1  SetMode = "interesting"
  Kinds = {"Truncate", "FlipBit", "SetByte", "AddToByte", "CorruptPkgLen", "Splice", "Join"}
INIT Init
NEXT Next
INVARIANT PlanOK
INVARIANT Emit
VIEW View
CHECK_DEADLOCK FALSE
