---- MODULE AmlNsImpl ----
(* C11, leg M: an abstract model of the parser DESIGN (kernel/device/acpi/aml/parser.go), namespace *)
(* half.  The tree stores a scoped object as  object -> anonymous scope block -> children;  a table  *)
(* is parsed in passes:                                                                             *)
(*   (the units of a BankField are created in the later deferred pass, next to the BankField where it  *)
(*   is THEN; that is the same place, so the model creates them in pass 1 like those of Field)         *)
(*   1. Build: one flat pass creates the objects where they are written (Scope directives and       *)
(*      prefixed / multi-segment names stay as written; field units are put next to their Field;     *)
(*      the invocations of a method body are flat children of the method's block),                   *)
(*   2. repeat { merge Scope directives into their targets ; relocate objects whose name has a      *)
(*      path } until both passes report nothing left (lookups = Find on the tree AS IT IS THEN,      *)
(*      one ^ = one TREE level),                                                                     *)
(*   3. resolve the invocations against the finished tree.                                          *)
(* Parse(toks, bug) returns the projection [ns, calls] of the final tree, computed like the Go      *)
(* harness projects the real tree.  MCAmlNs!Refines states that this equals what the sequential     *)
(* ACPI loader (AmlNs) says, for every complete program of the generator's language.  Dropping a    *)
(* finding's trigger construct from the generator's exclusion list makes TLC exhibit that finding   *)
(* at design level; `bug` switches realistic wrong designs on (design mutants).                     *)
EXTENDS AmlNs

Nil == 0
MaxResolvePasses == 5
PreSeq == <<"_GPE", "_PR_", "_SB_", "_SI_", "_TZ_">>
NoForm == [abs |-> FALSE, carets |-> 0, segs |-> <<>>]
N(op, name, f, par, tab, kind, args) ==
  [op |-> op, name |-> name, f |-> f, par |-> par, kids |-> <<>>, tab |-> tab, kind |-> kind, args |-> args]
\* node 1 = root scope block, 2..6 the predefined scope blocks
T0 == <<[N("block", "\\", NoForm, Nil, 0, "ScopeBlock", <<>>) EXCEPT !.kids = <<2, 3, 4, 5, 6>>]>>
      \o [i \in 1..5 |-> N("block", PreSeq[i], NoForm, 1, 0, "ScopeBlock", <<>>)]

(* ---- tree editing *)
Without(s, x) == SelectSeq(s, LAMBDA y : y # x)
Detach(T, x)  == IF T[x].par = Nil THEN T ELSE [T EXCEPT ![T[x].par].kids = Without(@, x), ![x].par = Nil]
Attach(T, y, x) == [T EXCEPT ![y].kids = Append(@, x), ![x].par = y]
Move(T, x, y) == Attach(Detach(T, x), y, x)
RECURSIVE MoveAll(_, _, _)
MoveAll(T, xs, y) == IF xs = <<>> THEN T ELSE MoveAll(Move(T, Head(xs), y), Tail(xs), y)
Free(T, x)    == [Detach(T, x) EXCEPT ![x].op = "free", ![x].name = "", ![x].kids = <<>>]
New(T, par, node) == Attach(Append(T, node), par, Len(T) + 1)
NextSib(T, x) == LET ks == T[T[x].par].kids
                     i == CHOOSE j \in 1..Len(ks) : ks[j] = x IN
                 IF i = Len(ks) THEN Nil ELSE ks[i + 1]
RECURSIVE IsUnder(_, _, _)                    \* a = x or a descendant of x
IsUnder(T, a, x) == IF a = Nil THEN FALSE ELSE IF a = x THEN TRUE ELSE IsUnder(T, T[a].par, x)

(* ---- ObjectTree.Find *)
KidNamed(T, n, seg) == LET S == {i \in 1..Len(T[n].kids) : T[T[n].kids[i]].name = seg} IN
                       IF S = {} THEN Nil ELSE T[n].kids[CHOOSE i \in S : \A j \in S : i <= j]
RECURSIVE FindRel(_, _, _)
FindRel(T, n, segs) == IF n = Nil THEN Nil ELSE IF segs = <<>> THEN n
                       ELSE FindRel(T, KidNamed(T, n, Head(segs)), Tail(segs))
RECURSIVE UpLevels(_, _, _)                   \* one ^ = one tree level
UpLevels(T, n, k) == IF n = Nil THEN Nil ELSE IF k = 0 THEN n ELSE UpLevels(T, T[n].par, k - 1)
RECURSIVE FindUp(_, _, _)                     \* single segment: this tree level, then every ancestor
FindUp(T, n, seg) == IF n = Nil THEN Nil
                     ELSE LET k == KidNamed(T, n, seg) IN IF k # Nil THEN k ELSE FindUp(T, T[n].par, seg)
Find(T, scope, f) ==
  IF scope = Nil THEN Nil
  ELSE IF f.abs THEN FindRel(T, 1, f.segs)
  ELSE IF f.carets > 0 THEN FindRel(T, UpLevels(T, scope, f.carets), f.segs)
  ELSE IF Len(f.segs) > 1 THEN FindRel(T, scope, f.segs)
  ELSE IF Len(f.segs) = 1 THEN FindUp(T, scope, f.segs[1])
  ELSE Nil
\* the path in front of the last segment of a declared name.  It keeps its dual / multi name prefix byte, so even a
\* single remaining segment is looked up RELATIVE to the scope (no search through the enclosing scopes)
FindPrefix(T, scope, f) ==
  IF scope = Nil THEN Nil
  ELSE IF f.abs THEN FindRel(T, 1, Front(f.segs))
  ELSE IF f.carets > 0 THEN FindRel(T, UpLevels(T, scope, f.carets), Front(f.segs))
  ELSE FindRel(T, scope, Front(f.segs))
\* a complete name string (target of a Scope directive): a prefix followed by the null name keeps the prefix
\* (repaired in /repo a260b8c; before, it was read as the empty string, which Find rejects - finding D8)
FindName(T, scope, f) == IF f.segs = <<>> /\ ~f.abs /\ f.carets = 0 THEN Nil ELSE Find(T, scope, f)
RECURSIVE CNA(_, _)                           \* ClosestNamedAncestor, starting at the parent
CNA(T, n) == IF n = Nil THEN Nil ELSE IF T[n].op = "scopedir" THEN Nil
             ELSE IF T[n].op \in {"block", "obj"} THEN n ELSE CNA(T, T[n].par)
BlockOf(T, n, bug) == IF T[n].op = "block" \/ bug = "MergeIntoObject" THEN n
                      ELSE LET S == {i \in 1..Len(T[n].kids) : T[T[n].kids[i]].op = "block"} IN
                           IF S = {} THEN Nil ELSE T[n].kids[CHOOSE i \in S : \A j \in S : i <= j]

(* ---- pass 1: build the flat tree of one table *)
RECURSIVE ImplUnits(_, _, _, _, _, _)
ImplUnits(t, i, off, at, aa, bug) ==
  IF i > Len(t.els) THEN <<>>
  ELSE LET e == t.els[i] IN
       CASE e.e = "unit"   -> <<[name |-> e.name, args |-> <<[t |-> "unit", s |-> t.kind, a |-> FieldArgs(t),
                                   n |-> <<off, e.bits, at, aa, (t.flags \div 16) % 2, (t.flags \div 32) % 4>>]>>]>>
                              \o ImplUnits(t, i + 1, IF bug = "UnitsNotAccumulated" THEN off ELSE off + e.bits, at, aa, bug)
         [] e.e = "skip"   -> ImplUnits(t, i + 1, off + e.bits, at, aa, bug)
         [] e.e = "access" -> ImplUnits(t, i + 1, off, e.at, e.aa, bug)
RECURSIVE AddUnits(_, _, _, _)
AddUnits(T, b, us, tab) == IF us = <<>> THEN T
                           ELSE AddUnits(New(T, b, N("unit", Head(us).name, NoForm, Nil, tab, "NamedField", Head(us).args)), b, Tail(us), tab)
RECURSIVE AddCalls(_, _, _, _)
AddCalls(T, b, cs, tab) == IF cs = <<>> THEN T
                           ELSE AddCalls(New(T, b, N("call", "", Head(cs).f, Nil, tab, "", <<>>)), b, Tail(cs), tab)
\* bs = [T, stack of block nodes]
BuildTok(bs, t, tab, bug) ==
  LET T == bs.T  b == Last(bs.stack) IN
  CASE t.k = "scope" ->
         LET T1 == New(T, b, N("scopedir", "", t.f, Nil, tab, "", <<>>))
             T2 == New(T1, Len(T1), N("block", "", NoForm, Nil, tab, "", <<>>)) IN
         [T |-> T2, stack |-> Append(bs.stack, Len(T2))]
    [] t.k \in {"open", "method"} ->
         LET kind == IF t.k = "method" THEN "Method" ELSE t.kind
             args == IF t.k = "method" THEN <<[t |-> "byte", n |-> <<t.flags>>]>> ELSE t.args
             T1 == New(T, b, N("obj", Last(t.f.segs), t.f, Nil, tab, kind, args))
             T2 == New(T1, Len(T1), N("block", "", NoForm, Nil, tab, "", <<>>)) IN
         [T |-> T2, stack |-> Append(bs.stack, Len(T2))]
    [] t.k = "decl"  -> \* invocations among the operands end up below the object; their names are searched from its scope
                        [bs EXCEPT !.T = AddCalls(New(T, b, N("obj", Last(t.f.segs), t.f, Nil, tab, t.kind, t.args)), b, CallsOfSeq(t.args), tab)]
    [] t.k = "field" -> LET T1 == New(T, b, N("field", "", t.f, Nil, tab, "", <<>>)) IN
                        [bs EXCEPT !.T = AddUnits(T1, b, ImplUnits(t, 1, 0, t.flags % 16, 0, bug), tab)]
    [] t.k = "stmt"  -> [bs EXCEPT !.T = AddCalls(T, b, CallsOfSeq(t.x), tab)]
    [] t.k \in {"if", "while"} -> [T |-> AddCalls(T, b, CallsOfSeq(t.x), tab), stack |-> Append(bs.stack, b)]
    [] t.k = "else"  -> [bs EXCEPT !.stack = Append(@, b)]
    [] t.k = "close" -> [bs EXCEPT !.stack = Front(@)]

(* ---- pass 2a: mergeScopeDirectives.  c = [tab, pass, progress, bug]; result [T, res, cnt] *)
Worse(a, b) == IF a = "giveup" \/ b = "giveup" THEN "giveup" ELSE IF a = "fail" \/ b = "fail" THEN "fail" ELSE IF a = "crash" \/ b = "crash" THEN "crash"
               ELSE IF a = "extra" \/ b = "extra" THEN "extra" ELSE "ok"
\* c.progress = what the previous pass achieved: objects relocated (pinned design, "GiveUpOnRelocationsOnly") or
\* scopes merged + objects relocated (repaired design).  A directive whose target is missing gives up when that is 0.
RECURSIVE MergeNode(_, _, _), MergeFrom(_, _, _)
MergeNode(T, n, c) ==
  IF T[n].op = "scopedir" /\ T[n].tab = c.tab
  THEN LET tgt == FindName(T, T[n].par, T[n].f) IN
       IF tgt = Nil THEN [T |-> T, res |-> IF c.pass > 1 /\ c.progress = 0 THEN "giveup" ELSE "extra", cnt |-> 0]
       ELSE LET tb == BlockOf(T, tgt, c.bug) IN
            IF tb = Nil THEN [T |-> T, res |-> "fail", cnt |-> 0]
            ELSE LET blk == Last(T[n].kids)
                     moved == T[blk].kids
                     T2 == Free(Free(MoveAll(T, moved, tb), blk), n) IN
                 IF moved = <<>> THEN [T |-> T2, res |-> "ok", cnt |-> 1]
                 ELSE LET r == MergeFrom(T2, Head(moved), c) IN [r EXCEPT !.cnt = @ + 1]
  ELSE IF T[n].kids = <<>> THEN [T |-> T, res |-> "ok", cnt |-> 0] ELSE MergeFrom(T, Head(T[n].kids), c)
MergeFrom(T, x, c) ==                          \* x and the siblings after it (next sibling read before descending)
  IF x = Nil THEN [T |-> T, res |-> "ok", cnt |-> 0]
  ELSE LET nx == NextSib(T, x)
           r  == MergeNode(T, x, c) IN
       IF r.res \in {"fail", "giveup"} THEN r
       ELSE LET r2 == MergeFrom(r.T, nx, c) IN [T |-> r2.T, res |-> Worse(r.res, r2.res), cnt |-> r.cnt + r2.cnt]

(* ---- pass 2b: relocateNamedObjects.  result [T, res, cnt] *)
HasPath(f) == f.abs \/ f.carets > 0 \/ Len(f.segs) > 1
RECURSIVE RelocNode(_, _, _), RelocFrom(_, _, _)
RelocKids(T, n, c) == IF T[n].kids = <<>> THEN [T |-> T, res |-> "ok", cnt |-> 0] ELSE RelocFrom(T, Head(T[n].kids), c)
RelocNode(T, n, c) ==
  IF T[n].op = "obj" /\ T[n].tab = c.tab /\ HasPath(T[n].f)
  THEN LET tgt == FindPrefix(T, CNA(T, T[n].par), T[n].f) IN
       IF tgt = Nil THEN [T |-> T, res |-> IF c.pass > MaxResolvePasses THEN "fail" ELSE "extra", cnt |-> 0]
       ELSE LET tb == BlockOf(T, tgt, c.bug) IN
            IF tb = Nil THEN [T |-> T, res |-> "fail", cnt |-> 0]
            ELSE IF IsUnder(T, tb, n) THEN [T |-> T, res |-> "crash", cnt |-> 0]   \* cycle: unbounded recursion in the code
            ELSE LET T1 == [Move(T, n, tb) EXCEPT ![n].f = [abs |-> FALSE, carets |-> 0, segs |-> <<Last(T[n].f.segs)>>]]
                     r  == RelocKids(T1, n, c) IN
                 [r EXCEPT !.cnt = @ + 1]
  ELSE RelocKids(T, n, c)
RelocFrom(T, x, c) ==
  IF x = Nil THEN [T |-> T, res |-> "ok", cnt |-> 0]
  ELSE LET nx == NextSib(T, x)
           r  == RelocNode(T, x, c) IN
       IF r.res \in {"fail", "crash"} THEN r
       ELSE LET r2 == RelocFrom(r.T, nx, c) IN [T |-> r2.T, res |-> Worse(r.res, r2.res), cnt |-> r.cnt + r2.cnt]

RECURSIVE Passes(_, _, _, _, _)                \* result [T, res, n]: n = merge/relocate passes taken (p.resolvePasses)
Passes(T, tab, pass, progress, bug) ==
  LET c == [tab |-> tab, pass |-> pass, progress |-> progress, bug |-> bug]
      m == MergeNode(T, 1, c) IN
  IF m.res \in {"fail", "giveup"} THEN [T |-> m.T, res |-> IF m.res = "giveup" THEN "giveup" ELSE "error", n |-> pass]
  ELSE LET r == RelocNode(m.T, 1, c) IN
       IF r.res = "fail" THEN [T |-> r.T, res |-> "error", n |-> pass]
       ELSE IF r.res = "crash" THEN [T |-> r.T, res |-> "crash", n |-> pass]
       ELSE IF m.res = "ok" /\ r.res = "ok" THEN [T |-> r.T, res |-> "ok", n |-> pass]
       ELSE IF pass > MaxResolvePasses + 3 THEN [T |-> r.T, res |-> "error", n |-> pass]
       ELSE Passes(r.T, tab, pass + 1,
                   CASE bug = "CountersResetPerPass" -> 0
                     [] bug = "GiveUpOnRelocationsOnly" -> r.cnt
                     [] OTHER -> m.cnt + r.cnt, bug)

(* ---- projection of the tree (as the Go harness projects the real one) *)
RECURSIVE PathOf(_, _)
PathOf(T, n) == IF n = Nil \/ n = 1 THEN <<>>
                ELSE IF T[n].name # "" THEN Append(PathOf(T, T[n].par), T[n].name) ELSE PathOf(T, T[n].par)
RECURSIVE Proj(_, _, _)
Proj(T, b, P) ==
  UNION { LET k == T[b].kids[i]  p == Append(P, T[k].name) IN
          CASE T[k].op = "block" /\ T[k].name # "" -> {[p |-> p, kind |-> "ScopeBlock", args |-> <<>>]} \cup Proj(T, k, p)
            [] T[k].op = "scopedir" -> {[p |-> p, kind |-> "Scope(unmerged)", args |-> <<>>]}
            [] T[k].op = "unit" -> {[p |-> p, kind |-> "NamedField", args |-> T[k].args]}
            [] T[k].op = "obj" -> {[p |-> p, kind |-> T[k].kind, args |-> T[k].args]}
                                  \cup (LET S == {j \in 1..Len(T[k].kids) : T[T[k].kids[j]].op = "block"} IN
                                        IF S = {} \/ T[k].kind = "Method" THEN {}
                                        ELSE Proj(T, T[k].kids[CHOOSE j \in S : TRUE], p))
            [] OTHER -> {}
        : i \in 1..Len(T[b].kids) }

\* pass 3: resolveMethodCalls - every invocation node of this table, in source order
Argc(T, m, bug) == IF bug = "ArgcFromSyncBits" THEN (T[m].args[1].n[1] \div 16) % 8 ELSE T[m].args[1].n[1] % 8
CallsOfTable(T, tab, bug) ==
  LET ids == SelectSeq([i \in 1..Len(T) |-> i], LAMBDA i : T[i].op = "call" /\ T[i].tab = tab)
      tg(i) == Find(T, T[i].par, T[i].f)
      isCall(i) == tg(i) # Nil /\ T[tg(i)].op = "obj" /\ T[tg(i)].kind = "Method"
      cs == SelectSeq(ids, isCall) IN
  IF Len(cs) # Len(ids) THEN <<[tab |-> tab, p |-> <<"<unresolved>">>, n |-> 0]>>
  ELSE [j \in 1..Len(cs) |-> [tab |-> tab, p |-> PathOf(T, tg(cs[j])), n |-> Argc(T, tg(cs[j]), bug)]]

(* ---- ParseAML over all tables of a program *)
RECURSIVE BuildFrom(_, _, _, _, _)
BuildFrom(bs, toks, i, tab, bug) == IF toks[i].k = "endtable" THEN [bs |-> bs, next |-> i + 1]
                                    ELSE BuildFrom(BuildTok(bs, toks[i], tab, bug), toks, i + 1, tab, bug)
RECURSIVE ParseFrom(_, _, _, _, _, _, _)
ParseFrom(T, toks, i, tab, calls, np, bug) ==
  IF i > Len(toks) THEN [ns |-> Proj(T, 1, <<>>), calls |-> calls, passes |-> np]
  ELSE LET b  == BuildFrom([T |-> T, stack |-> <<1>>], toks, i, tab, bug)
           early == CallsOfTable(b.bs.T, tab, bug)
           ps == Passes(b.bs.T, tab, 1, 0, bug) IN
       IF ps.res # "ok" THEN [ns |-> {}, calls |-> <<>>, passes |-> Append(np, ps.n), res |-> ps.res]
       ELSE ParseFrom(ps.T, toks, b.next, tab + 1,
                      calls \o (IF bug = "CallsInFirstPass" THEN early ELSE CallsOfTable(ps.T, tab, bug)), Append(np, ps.n), bug)
\* [ns, calls, passes (per table)] (+ res when the design rejects the program)
Parse(toks, bug) == ParseFrom(T0, toks, 1, 1, <<>>, <<>>, bug)
====
