CONSTANTS MaxPool = 4  MaxOps = 8  MaxNodes = 5  NameIds = {1, 2}  Bug = ""  AllowDetached = FALSE  Emit = TRUE
INIT InitFind
NEXT NoNext
INVARIANT NoMismatch
INVARIANT EmitTree
CHECK_DEADLOCK FALSE
