INIT Init
NEXT Next
INVARIANT ShapeOK
INVARIANT Emit
CHECK_DEADLOCK FALSE
