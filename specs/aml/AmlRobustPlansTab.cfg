CONSTANTS MaxMut = 1  SetMode = "few"
  Kinds = {"Truncate", "FlipBit"}
INIT Init
NEXT Next
INVARIANT PlanOK
INVARIANT Emit
VIEW View
CHECK_DEADLOCK FALSE
