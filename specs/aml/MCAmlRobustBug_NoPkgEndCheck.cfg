CONSTANTS MaxLen = 3  MaxByte = 3  MaxPasses = 2  MaxDepth = 1  Bug = "NoPkgEndCheck"
INIT Init
NEXT Next
INVARIANT Robust
CONSTRAINT Bounded
CHECK_DEADLOCK FALSE
