CONSTANTS MaxLen = 3  MaxByte = 3  MaxPasses = 2  Bug = "NoPkgEndCheck"
INIT Init
NEXT Next
INVARIANT Robust
CONSTRAINT Bounded
CHECK_DEADLOCK FALSE
